// tfcheck: repository-specific static analyser for Thruflux (see /verif/DESIGN.md).
package main

import (
	"encoding/json"
	"flag"
	"fmt"
	"os"
	"path/filepath"
	"sort"
	"strconv"

	"tfcheck/tf"
)

func main() {
	prop := flag.String("prop", "", "property id (C01..C19) or 'all'")
	tier := flag.String("tier", "quick", "quick | thorough")
	repo := flag.String("repo", "/repo", "repository root")
	verif := flag.String("verif", "", "verif dir (default: parent of the binary's dir)")
	explain := flag.String("explain", "", "print a stored violations file")
	list := flag.Bool("list", false, "list every obligation")
	dump := flag.String("dump", "", "debug: dump CFG of the named function")
	freeze := flag.Bool("freeze", false, "with -prop all -tier thorough: rewrite checker/tf/subrules.json from this run (then rebuild)")
	flag.Parse()

	if *explain != "" {
		b, err := os.ReadFile(*explain)
		if err != nil {
			fmt.Println(err)
			os.Exit(2)
		}
		var v any
		json.Unmarshal(b, &v)
		out, _ := json.MarshalIndent(v, "", "  ")
		fmt.Println(string(out))
		return
	}
	if *verif == "" {
		exe, _ := os.Executable()
		*verif = filepath.Dir(filepath.Dir(exe))
	}
	if t := os.Getenv("VERIF_TIER"); t != "" && !isFlagSet("tier") {
		*tier = t
	}
	seed := 0
	if s := os.Getenv("VERIF_SEED"); s != "" {
		seed, _ = strconv.Atoi(s)
	}
	abs, _ := filepath.Abs(*repo)
	p, err := tf.Load(abs)
	if err != nil {
		fmt.Printf("tfcheck: cannot analyse %s: %v\n", abs, err)
		if *prop != "" && *prop != "all" {
			fmt.Printf("VIOLATION property=%s replay=%s kind=undecided\n", *prop, filepath.Join(*verif, "evidence", *prop+".violations.json"))
		}
		os.Exit(2)
	}
	if *dump != "" {
		tf.DumpCFG(p, *dump)
		return
	}
	known, err := tf.LoadKnown(filepath.Join(*verif, "known_findings.json"))
	if err != nil {
		fmt.Println("tfcheck: known_findings.json:", err)
		os.Exit(2)
	}
	var props []string
	if *prop == "all" {
		seen := map[string]bool{}
		for _, r := range tf.AllRules {
			for _, pr := range r.Props {
				if !seen[pr] {
					seen[pr] = true
					props = append(props, pr)
				}
			}
		}
		sort.Strings(props)
	} else if *prop != "" {
		props = []string{*prop}
	} else {
		flag.Usage()
		os.Exit(2)
	}
	exit := 0
	if *freeze {
		tf.FreezeInto = map[string][]string{}
	}
	for _, pr := range props {
		if len(tf.RulesFor(pr)) == 0 {
			fmt.Printf("tfcheck: no rules registered for %s\n", pr)
			os.Exit(2)
		}
		res := tf.RunProperty(p, pr, *tier, known)
		if *list {
			for _, o := range res.Obls {
				fmt.Printf("  [%s] %s  %s  -- %s\n", o.Status, o.Key, o.Pos, o.Detail)
			}
		}
		if e := res.Emit(p, *verif, known, seed); e > exit {
			exit = e
		}
	}
	if *freeze {
		b, _ := json.MarshalIndent(tf.FreezeInto, "", " ")
		if err := os.WriteFile(filepath.Join(*verif, "checker", "tf", "subrules.json"), append(b, '\n'), 0644); err != nil {
			fmt.Println("tfcheck: freeze:", err)
			os.Exit(2)
		}
		fmt.Printf("froze sub-rule segments of %d rules\n", len(tf.FreezeInto))
	}
	os.Exit(exit)
}

func isFlagSet(name string) bool {
	set := false
	flag.Visit(func(f *flag.Flag) {
		if f.Name == name {
			set = true
		}
	})
	return set
}
