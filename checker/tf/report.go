package tf

import (
	"regexp"
	_ "embed"
	"encoding/json"
	"fmt"
	"go/token"
	"os"
	"path/filepath"
	"sort"
	"strings"
	"time"
)

type Status string

const (
	Discharged Status = "discharged"
	Violated   Status = "violated"
	Undecided  Status = "undecided"
	Info       Status = "info" // computed, decides nothing
)

// Obligation is one instance of a rule on one construct.
type Obligation struct {
	Rule   string   `json:"rule"`
	Key    string   `json:"key"` // rule/instance — a construct path, never a line
	Status Status   `json:"status"`
	Pos    string   `json:"pos"`
	Detail string   `json:"detail"`         // how it was discharged, or what breaks it
	Path   []string `json:"path,omitempty"` // offending path (CFG / call graph / slice)
	Nontrivial bool `json:"nontrivial"`     // discharge needed a non-empty path/slice/lock argument
}

// Rule is one repository-specific analysis.
type Rule struct {
	Name  string
	Doc   string   // the rule text as applied
	Props []string // properties it serves
	Min   int      // minimum number of obligations confirmed by hand on the pinned tree
	// Tier: rules with ThoroughOnly run only in the thorough tier.
	ThoroughOnly bool
	Run          func(c *Ctx)
}

// Ctx is handed to a rule.
type Ctx struct {
	P     *Program
	Rule  *Rule
	Tier  string
	Obls  []*Obligation
	Notes []string
	keys  map[string]int
	Stats map[string]int
}

func (c *Ctx) add(key string, pos token.Pos, st Status, nontrivial bool, detail string, path []string) *Obligation {
	full := c.Rule.Name + "/" + key
	if c.keys == nil {
		c.keys = map[string]int{}
	}
	c.keys[full]++
	if n := c.keys[full]; n > 1 {
		full = fmt.Sprintf("%s#%d", full, n)
	}
	o := &Obligation{Rule: c.Rule.Name, Key: full, Status: st, Pos: c.P.Pos(pos), Detail: detail, Path: path, Nontrivial: nontrivial}
	c.Obls = append(c.Obls, o)
	return o
}

func (c *Ctx) OK(key string, pos token.Pos, detail string) *Obligation {
	return c.add(key, pos, Discharged, true, detail, nil)
}
func (c *Ctx) OKTrivial(key string, pos token.Pos, detail string) *Obligation {
	return c.add(key, pos, Discharged, false, detail, nil)
}
func (c *Ctx) Bad(key string, pos token.Pos, detail string, path ...string) *Obligation {
	return c.add(key, pos, Violated, true, detail, path)
}
func (c *Ctx) Unknown(key string, pos token.Pos, detail string) *Obligation {
	return c.add(key, pos, Undecided, false, detail, nil)
}
func (c *Ctx) InfoOb(key string, pos token.Pos, detail string) *Obligation {
	return c.add(key, pos, Info, false, detail, nil)
}
func (c *Ctx) Check(ok bool, key string, pos token.Pos, okDetail, badDetail string, path ...string) *Obligation {
	if ok {
		return c.OK(key, pos, okDetail)
	}
	return c.Bad(key, pos, badDetail, path...)
}
func (c *Ctx) Note(format string, a ...any) { c.Notes = append(c.Notes, fmt.Sprintf(format, a...)) }
func (c *Ctx) Stat(k string, n int) {
	if c.Stats == nil {
		c.Stats = map[string]int{}
	}
	c.Stats[k] += n
}

// MissingAnchor records that a construct the rule depends on no longer resolves.
func (c *Ctx) MissingAnchor(what string) {
	c.add("anchor/"+what, token.NoPos, Undecided, false, "anchor does not resolve: "+what+" (the rule cannot be applied; treated as failure, never as a pass)", nil)
}

// ---------------------------------------------------------------------------

type KnownFinding struct {
	Property string `json:"property"`
	Key      string `json:"key"`    // obligation key (exact)
	What     string `json:"what"`   // what fails
	Status   string `json:"status"` // "finding" or "fixed"
	Commit   string `json:"commit,omitempty"`
	Witness  string `json:"witness,omitempty"`
}

type KnownFile struct {
	Comment  string         `json:"comment"`
	Findings []KnownFinding `json:"findings"`
}

func LoadKnown(path string) (*KnownFile, error) {
	b, err := os.ReadFile(path)
	if err != nil {
		if os.IsNotExist(err) {
			return &KnownFile{}, nil
		}
		return nil, err
	}
	var k KnownFile
	if err := json.Unmarshal(b, &k); err != nil {
		return nil, err
	}
	return &k, nil
}

// ---------------------------------------------------------------------------

type PropertyResult struct {
	Prop        string
	Tier        string
	Obls        []*Obligation
	RuleDocs    map[string]string
	RuleCounts  map[string]int
	Notes       []string
	Analysed    map[string]int
	Failures    []string // checker-level failures (min instances, anchors)
	Known       []*Obligation
	Unexpected  []*Obligation
	WallS       float64
}

var AllRules []*Rule

func Register(r *Rule) { AllRules = append(AllRules, r) }

func RulesFor(prop string) []*Rule {
	var out []*Rule
	for _, r := range AllRules {
		for _, p := range r.Props {
			if p == prop {
				out = append(out, r)
			}
		}
	}
	return out
}

// RunProperty runs every rule serving prop.
func RunProperty(p *Program, prop, tier string, known *KnownFile) *PropertyResult {
	t0 := time.Now()
	res := &PropertyResult{Prop: prop, Tier: tier, RuleDocs: map[string]string{}, RuleCounts: map[string]int{}, Analysed: map[string]int{}}
	for _, r := range RulesFor(prop) {
		if r.ThoroughOnly && tier != "thorough" {
			continue
		}
		ctx := &Ctx{P: p, Rule: r, Tier: tier}
		func() {
			defer func() {
				if e := recover(); e != nil {
					res.Failures = append(res.Failures, fmt.Sprintf("rule %s panicked: %v", r.Name, e))
					if os.Getenv("TFCHECK_DEBUG") != "" {
						panic(e)
					}
				}
			}()
			r.Run(ctx)
		}()
		n := 0
		for _, o := range ctx.Obls {
			if o.Status != Info {
				n++
			}
		}
		// sub-rules that had instances on the confirmed tree must still have at least one: a renamed anchor must not turn
		// a sub-rule into a vacuous pass
		have := SubruleSegments(ctx.Obls)
		if FreezeInto != nil {
			FreezeInto[r.Name] = mergeSegs(FreezeInto[r.Name], have)
		}
		for _, seg := range frozenSubrules[r.Name] {
			if !containsStr(have, seg) && !(r.ThoroughOnly && tier != "thorough") {
				res.Failures = append(res.Failures, fmt.Sprintf("sub-rule %s/%s matched no instance (it had instances on the confirmed tree): the sub-rule lost its anchors", r.Name, seg))
			}
		}
		res.RuleDocs[r.Name] = r.Doc
		res.RuleCounts[r.Name] = n
		if n < r.Min {
			res.Failures = append(res.Failures, fmt.Sprintf("rule %s matched %d instances, fewer than the %d confirmed by hand: the rule lost its anchors", r.Name, n, r.Min))
		}
		res.Obls = append(res.Obls, ctx.Obls...)
		for _, nt := range ctx.Notes {
			res.Notes = append(res.Notes, r.Name+": "+nt)
		}
		for k, v := range ctx.Stats {
			res.Analysed[k] += v
		}
	}
	sort.SliceStable(res.Obls, func(i, j int) bool { return res.Obls[i].Key < res.Obls[j].Key })
	knownKeys := map[string]KnownFinding{}
	for _, k := range known.Findings {
		if k.Property == prop && k.Status == "finding" {
			knownKeys[k.Key] = k
		}
	}
	for _, o := range res.Obls {
		if o.Status == Violated || o.Status == Undecided {
			if _, ok := knownKeys[o.Key]; ok && o.Status == Violated {
				res.Known = append(res.Known, o)
			} else {
				res.Unexpected = append(res.Unexpected, o)
			}
		}
	}
	res.WallS = time.Since(t0).Seconds()
	return res
}

// Emit prints the verdict lines, writes evidence, and returns the exit code.
func (r *PropertyResult) Emit(p *Program, verifDir string, known *KnownFile, seed int) int {
	evDir := filepath.Join(verifDir, "evidence")
	os.MkdirAll(evDir, 0o755)
	evPath := filepath.Join(evDir, r.Prop+".json")
	violPath := filepath.Join(evDir, r.Prop+".violations.json")

	counts := map[Status]int{}
	nontrivial := map[string]bool{}
	for _, o := range r.Obls {
		counts[o.Status]++
		if o.Nontrivial && o.Status != Info {
			nontrivial[o.Key] = true
		}
	}
	total := counts[Discharged] + counts[Violated] + counts[Undecided]

	knownWhat := map[string]string{}
	for _, k := range known.Findings {
		if k.Property == r.Prop {
			knownWhat[k.Key] = k.What
		}
	}
	for _, o := range r.Known {
		fmt.Printf("KNOWN-FINDING: property=%s %s at %s: %s\n", r.Prop, o.Key, o.Pos, oneLine(knownWhat[o.Key]))
	}
	exit := 0
	if len(r.Unexpected) > 0 || len(r.Failures) > 0 {
		exit = 1
		for _, o := range r.Unexpected {
			fmt.Printf("  %s %s at %s: %s\n", strings.ToUpper(string(o.Status)), o.Key, o.Pos, oneLine(o.Detail))
			for _, s := range o.Path {
				fmt.Printf("      %s\n", s)
			}
		}
		for _, f := range r.Failures {
			fmt.Printf("  CHECK-FAILURE %s\n", f)
		}
		type vfile struct {
			Property   string        `json:"property"`
			Violations []*Obligation `json:"violations"`
			Failures   []string      `json:"failures"`
		}
		b, _ := json.MarshalIndent(vfile{r.Prop, r.Unexpected, r.Failures}, "", " ")
		os.WriteFile(violPath, b, 0o644)
		kind := "violated"
		if len(r.Unexpected) == 0 {
			kind = "undecided"
		} else {
			allU := true
			for _, o := range r.Unexpected {
				if o.Status == Violated {
					allU = false
				}
			}
			if allU {
				kind = "undecided"
			}
		}
		fmt.Printf("VIOLATION property=%s replay=%s kind=%s\n", r.Prop, violPath, kind)
	} else {
		os.Remove(violPath)
	}

	// samples: a few obligations of each status, written out in full
	var samples []any
	perRule := map[string]int{}
	for _, o := range r.Obls {
		lim := 2
		if o.Status == Violated || o.Status == Undecided {
			lim = 50
		}
		k := o.Rule + string(o.Status)
		if perRule[k] < lim {
			perRule[k]++
			samples = append(samples, o)
		}
	}
	var ruleTexts []string
	var names []string
	for n := range r.RuleDocs {
		names = append(names, n)
	}
	sort.Strings(names)
	for _, n := range names {
		ruleTexts = append(ruleTexts, fmt.Sprintf("%s (%d obligations): %s", n, r.RuleCounts[n], r.RuleDocs[n]))
	}
	analysed := map[string]int{"packages": len(p.Pkgs), "function_bodies": len(p.Funcs())}
	for k, v := range r.Analysed {
		analysed[k] = v
	}
	ev := map[string]any{
		"property_id": r.Prop,
		"tier":        r.Tier,
		"seed":        seed,
		"level":       "other",
		"coverage": map[string]any{
			"explanation":         "Static analysis of /repo's current source (go/packages type-checked syntax, go/cfg control-flow graphs, def-use slices over the typed AST). Each rule enumerates its obligations from the code and decides each for ALL paths of the function(s) involved; the rules are structural necessary conditions of the property, not the behavioural property itself. Rules applied: " + strings.Join(ruleTexts, " || "),
			"obligations":         total,
			"discharged":          counts[Discharged],
			"violated":            counts[Violated],
			"undecided":           counts[Undecided],
			"known_findings":      len(r.Known),
			"info_only":           counts[Info],
			"evaluations":         total,
			"distinct_nontrivial": len(nontrivial),
			"rule":                "obligations are enumerated per rule from anchors resolved through go/types objects (functions, fields, mutexes, sinks); one obligation = one construct (call site, field access, return, record type); non-trivial = its verdict needed a path, dominance, lockset or slice argument rather than mere presence",
			"samples":             samples,
			"rules":               r.RuleCounts,
			"rule_docs":           r.RuleDocs,
			"analysed":            analysed,
			"notes":               r.Notes,
			"checker_failures":    r.Failures,
			"checker_cmd":         fmt.Sprintf("./bin/tfcheck -prop %s -tier %s -repo %s", r.Prop, r.Tier, p.Repo),
			"trusted_base":        []string{"go/types", "go/packages + go/cfg (x/tools v0.50.0)", "Go channel / mutex semantics", "os.Rename atomic replace", "crypto/hmac.Equal constant time"},
			"exhaustive":          true,
		},
		"assumptions": []string{
			"verdicts are about code shape on all paths; they are necessary conditions of the property (see DESIGN.md section 3 'Does not decide')",
			"the Go type checker and go/cfg are correct; callees are resolved through type information",
		},
		"wall_s":     r.WallS + p.LoadS,
		"violations": len(r.Unexpected),
	}
	b, _ := json.MarshalIndent(ev, "", " ")
	if err := os.WriteFile(evPath, b, 0o644); err != nil {
		fmt.Println("cannot write evidence:", err)
		return 2
	}
	if exit == 0 {
		fmt.Printf("OK property=%s tier=%s obligations=%d discharged=%d known=%d info=%d rules=%d wall=%.1fs\n", r.Prop, r.Tier, total, counts[Discharged], len(r.Known), counts[Info], len(r.RuleDocs), r.WallS+p.LoadS)
	}
	return exit
}

func oneLine(s string) string {
	s = strings.ReplaceAll(s, "\n", " ")
	return s
}

//go:embed subrules.json
var subrulesJSON []byte

var frozenSubrules = func() map[string][]string {
	m := map[string][]string{}
	_ = json.Unmarshal(subrulesJSON, &m)
	return m
}()

// FreezeInto, when non-nil, collects the sub-rule segments seen in this run (tfcheck -freeze).
var FreezeInto map[string][]string

var segNum = regexp.MustCompile(`#\d+$`)

// SubruleSegments returns the distinct first key components (after the rule name) of the non-info obligations.
func SubruleSegments(obls []*Obligation) []string {
	seen := map[string]bool{}
	var out []string
	for _, o := range obls {
		if o.Status == Info {
			continue
		}
		k := strings.TrimPrefix(o.Key, o.Rule+"/")
		if i := strings.Index(k, "/"); i >= 0 {
			k = k[:i]
		}
		k = segNum.ReplaceAllString(k, "")
		if k == "anchor" || seen[k] {
			continue
		}
		seen[k] = true
		out = append(out, k)
	}
	sort.Strings(out)
	return out
}

func containsStr(l []string, s string) bool {
	for _, x := range l {
		if x == s {
			return true
		}
	}
	return false
}

func mergeSegs(a, b []string) []string {
	for _, x := range b {
		if !containsStr(a, x) {
			a = append(a, x)
		}
	}
	sort.Strings(a)
	return a
}
