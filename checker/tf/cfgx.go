package tf

import (
	"go/ast"
	"go/token"
	"go/types"

	"golang.org/x/tools/go/cfg"
)

// CFG wraps go/cfg for one function body.
type CFG struct {
	F      *FuncInfo
	G      *cfg.CFG
	Blocks []*cfg.Block // live blocks only, in index order
	preds  map[*cfg.Block][]*cfg.Block
	idom   map[*cfg.Block]*cfg.Block
	defers []*ast.DeferStmt
	comms  map[ast.Node]bool
}

// NodeRef identifies one CFG node.
type NodeRef struct {
	B *cfg.Block
	I int
}

func (n NodeRef) Node() ast.Node { return n.B.Nodes[n.I] }
func (n NodeRef) Valid() bool    { return n.B != nil }

// noReturn computes the set of repository functions / closures that never return
// (every path ends in os.Exit, panic, log.Fatal, or another no-return function).
func (p *Program) noReturnSet() map[*FuncInfo]bool {
	if p.noret != nil {
		return p.noret
	}
	p.noret = map[*FuncInfo]bool{}
	for iter := 0; iter < 4; iter++ {
		changed := false
		for _, f := range p.Funcs() {
			if p.noret[f] {
				continue
			}
			g := cfg.New(f.Body, func(c *ast.CallExpr) bool { return p.mayReturn(f.Info(), c) })
			if g.NoReturn() {
				// A function whose only "exit" is an infinite loop also is NoReturn; that is fine.
				p.noret[f] = true
				changed = true
			}
		}
		if !changed {
			break
		}
	}
	return p.noret
}

func (p *Program) mayReturn(info *types.Info, call *ast.CallExpr) bool {
	if id, ok := ast.Unparen(call.Fun).(*ast.Ident); ok {
		if b, ok := info.Uses[id].(*types.Builtin); ok && b.Name() == "panic" {
			return false
		}
	}
	if f := Callee(info, call); f != nil && f.Pkg() != nil {
		switch f.Pkg().Path() + "." + f.Name() {
		case "os.Exit", "log.Fatal", "log.Fatalf", "log.Fatalln", "log.Panic", "log.Panicf", "log.Panicln", "runtime.Goexit":
			return false
		}
	}
	if p.noret != nil {
		if fi := p.CalleeInfo(info, call); fi != nil && p.noret[fi] {
			return false
		}
	}
	return true
}

// CFG returns (building on first use) the control-flow graph of f.
func (f *FuncInfo) CFG() *CFG {
	if f.cfg != nil {
		return f.cfg
	}
	p := f.Prog
	p.noReturnSet()
	g := cfg.New(f.Body, func(c *ast.CallExpr) bool { return p.mayReturn(f.Info(), c) })
	c := &CFG{F: f, G: g, preds: map[*cfg.Block][]*cfg.Block{}}
	for _, b := range g.Blocks {
		if b.Live {
			c.Blocks = append(c.Blocks, b)
		}
	}
	for _, b := range c.Blocks {
		for _, s := range b.Succs {
			c.preds[s] = append(c.preds[s], b)
		}
		for _, n := range b.Nodes {
			if d, ok := n.(*ast.DeferStmt); ok {
				c.defers = append(c.defers, d)
			}
		}
	}
	c.computeDom()
	f.cfg = c
	return c
}

func (c *CFG) Entry() *cfg.Block { return c.Blocks[0] }

func (c *CFG) Preds(b *cfg.Block) []*cfg.Block { return c.preds[b] }

func (c *CFG) computeDom() {
	// Cooper-Harvey-Kennedy on reverse postorder.
	var order []*cfg.Block
	seen := map[*cfg.Block]bool{}
	var dfs func(b *cfg.Block)
	dfs = func(b *cfg.Block) {
		seen[b] = true
		for _, s := range b.Succs {
			if !seen[s] {
				dfs(s)
			}
		}
		order = append(order, b)
	}
	dfs(c.Entry())
	rpo := make([]*cfg.Block, len(order))
	num := map[*cfg.Block]int{}
	for i := range order {
		rpo[len(order)-1-i] = order[i]
	}
	for i, b := range rpo {
		num[b] = i
	}
	idom := map[*cfg.Block]*cfg.Block{rpo[0]: rpo[0]}
	intersect := func(a, b *cfg.Block) *cfg.Block {
		for a != b {
			for num[a] > num[b] {
				a = idom[a]
			}
			for num[b] > num[a] {
				b = idom[b]
			}
		}
		return a
	}
	for changed := true; changed; {
		changed = false
		for _, b := range rpo[1:] {
			var nw *cfg.Block
			for _, p := range c.preds[b] {
				if _, ok := idom[p]; !ok {
					continue
				}
				if nw == nil {
					nw = p
				} else {
					nw = intersect(p, nw)
				}
			}
			if nw != nil && idom[b] != nw {
				idom[b] = nw
				changed = true
			}
		}
	}
	c.idom = idom
}

// BlockDominates reports whether a dominates b (reflexive).
func (c *CFG) BlockDominates(a, b *cfg.Block) bool {
	for {
		if a == b {
			return true
		}
		n := c.idom[b]
		if n == nil || n == b {
			return false
		}
		b = n
	}
}

// Dominates reports whether node a is executed before node b on every path to b.
func (c *CFG) Dominates(a, b NodeRef) bool {
	if a.B == b.B {
		return a.I <= b.I
	}
	return c.BlockDominates(a.B, b.B)
}

// Find returns the CFG node containing position pos (not inside a nested literal of that node
// unless the literal is itself the content), or an invalid ref.
func (c *CFG) Find(pos token.Pos) NodeRef {
	var best NodeRef
	var bestLen token.Pos = -1
	for _, b := range c.Blocks {
		for i, n := range b.Nodes {
			if n.Pos() <= pos && pos < n.End() {
				l := n.End() - n.Pos()
				if bestLen < 0 || l < bestLen {
					best, bestLen = NodeRef{b, i}, l
				}
			}
		}
	}
	return best
}

// EachNode calls fn for every node of every live block.
func (c *CFG) EachNode(fn func(NodeRef)) {
	for _, b := range c.Blocks {
		for i := range b.Nodes {
			fn(NodeRef{b, i})
		}
	}
}

// Calls enumerates call expressions in the function's own body (not nested literals),
// with the CFG node containing each.
func (c *CFG) Calls(fn func(ref NodeRef, call *ast.CallExpr)) {
	c.EachNode(func(r NodeRef) {
		InspectNoLits(r.Node(), func(n ast.Node) bool {
			if _, ok := n.(*ast.FuncLit); ok {
				return false
			}
			if call, ok := n.(*ast.CallExpr); ok {
				fn(r, call)
			}
			return true
		})
	})
}

// CondEdges: if block b ends in a boolean condition node, returns that expression and
// the true / false successors.
func CondEdges(b *cfg.Block) (cond ast.Expr, t, f *cfg.Block, ok bool) {
	if len(b.Succs) != 2 || len(b.Nodes) == 0 {
		return nil, nil, nil, false
	}
	e, isExpr := b.Nodes[len(b.Nodes)-1].(ast.Expr)
	if !isExpr {
		return nil, nil, nil, false
	}
	// Range loop heads and select chains have two successors but no condition node;
	// their blocks are either empty or end in a non-boolean node. We accept only when the
	// block kind allows a condition.
	switch b.Kind {
	case cfg.KindRangeLoop:
		return nil, nil, nil, false
	}
	return e, b.Succs[0], b.Succs[1], true
}

// IsReturnExit reports whether block b ends the function by returning (explicitly or by
// falling off the end), as opposed to a no-return call or a blocked select.
func IsReturnExit(b *cfg.Block) (*ast.ReturnStmt, bool) {
	if len(b.Succs) != 0 || len(b.Nodes) == 0 {
		return nil, false
	}
	r, ok := b.Nodes[len(b.Nodes)-1].(*ast.ReturnStmt)
	return r, ok
}

// ---------------------------------------------------------------------------
// Forward must-dataflow over sets of string facts.

type FactSet map[string]bool

func (s FactSet) Clone() FactSet {
	o := make(FactSet, len(s))
	for k := range s {
		o[k] = true
	}
	return o
}
func (s FactSet) Has(k string) bool { return s[k] }
func intersectFacts(a, b FactSet) FactSet {
	o := FactSet{}
	for k := range a {
		if b[k] {
			o[k] = true
		}
	}
	return o
}
func equalFacts(a, b FactSet) bool {
	if len(a) != len(b) {
		return false
	}
	for k := range a {
		if !b[k] {
			return false
		}
	}
	return true
}

// Transfer describes how facts change.
type Transfer struct {
	// BlockEntry is applied once when a block is entered (before its nodes).
	BlockEntry func(b *cfg.Block, in FactSet) FactSet
	// Node is applied to each node in order; it may mutate and must return the set.
	Node func(ref NodeRef, in FactSet) FactSet
	// Edge is applied when leaving block `from` to its k-th successor (after all nodes).
	Edge func(from *cfg.Block, k int, in FactSet) FactSet
}

// MustFlow runs a forward must-analysis (meet = intersection) and returns the facts
// holding *before* each node, and at the end of each block per successor.
type FlowResult struct {
	c      *CFG
	before map[NodeRef]FactSet
	out    map[*cfg.Block]FactSet // facts after last node, before edge transfer
}

func (r *FlowResult) Before(n NodeRef) FactSet { return r.before[n] }
func (r *FlowResult) AtEnd(b *cfg.Block) FactSet { return r.out[b] }

func (c *CFG) MustFlow(entry FactSet, tr Transfer) *FlowResult {
	in := map[*cfg.Block]FactSet{}
	has := map[*cfg.Block]bool{}
	in[c.Entry()] = entry.Clone()
	has[c.Entry()] = true
	res := &FlowResult{c: c, before: map[NodeRef]FactSet{}, out: map[*cfg.Block]FactSet{}}
	work := []*cfg.Block{c.Entry()}
	inWork := map[*cfg.Block]bool{c.Entry(): true}
	for len(work) > 0 {
		b := work[0]
		work = work[1:]
		inWork[b] = false
		cur := in[b].Clone()
		if tr.BlockEntry != nil {
			cur = tr.BlockEntry(b, cur)
		}
		for i := range b.Nodes {
			ref := NodeRef{b, i}
			res.before[ref] = cur.Clone()
			if tr.Node != nil {
				cur = tr.Node(ref, cur)
			}
		}
		res.out[b] = cur.Clone()
		for k, s := range b.Succs {
			if !s.Live {
				continue
			}
			o := cur
			if tr.Edge != nil {
				o = tr.Edge(b, k, cur.Clone())
			}
			var nw FactSet
			if !has[s] {
				nw = o.Clone()
			} else {
				nw = intersectFacts(in[s], o)
				if equalFacts(nw, in[s]) {
					continue
				}
			}
			in[s] = nw
			has[s] = true
			if !inWork[s] {
				work = append(work, s)
				inWork[s] = true
			}
		}
	}
	return res
}

// ---------------------------------------------------------------------------
// helpers for recognising conditions

// NilTest recognises `x != nil` / `x == nil` / `nil != x` where x is an identifier,
// returning the object and whether the *true* branch means x is nil.
func NilTest(info *types.Info, e ast.Expr) (obj types.Object, nilOnTrue bool, ok bool) {
	be, isB := ast.Unparen(e).(*ast.BinaryExpr)
	if !isB || (be.Op != token.NEQ && be.Op != token.EQL) {
		return nil, false, false
	}
	x, y := ast.Unparen(be.X), ast.Unparen(be.Y)
	isNil := func(e ast.Expr) bool {
		id, ok := e.(*ast.Ident)
		if !ok {
			return false
		}
		_, isNilObj := info.Uses[id].(*types.Nil)
		return isNilObj
	}
	var idExpr ast.Expr
	if isNil(y) {
		idExpr = x
	} else if isNil(x) {
		idExpr = y
	} else {
		return nil, false, false
	}
	id, isId := idExpr.(*ast.Ident)
	if !isId {
		return nil, false, false
	}
	o := info.Uses[id]
	if o == nil {
		o = info.Defs[id]
	}
	if o == nil {
		return nil, false, false
	}
	return o, be.Op == token.EQL, true
}

// ObjOf returns the object an identifier expression denotes.
func ObjOf(info *types.Info, e ast.Expr) types.Object {
	id, ok := ast.Unparen(e).(*ast.Ident)
	if !ok {
		return nil
	}
	if o := info.Uses[id]; o != nil {
		return o
	}
	return info.Defs[id]
}

// AssignedObjs returns the objects assigned/defined by statement node n (top level only).
func AssignedObjs(info *types.Info, n ast.Node) []types.Object {
	var out []types.Object
	switch s := n.(type) {
	case *ast.AssignStmt:
		for _, l := range s.Lhs {
			if o := ObjOf(info, l); o != nil {
				out = append(out, o)
			}
		}
	case *ast.ValueSpec:
		for _, nm := range s.Names {
			if o := info.Defs[nm]; o != nil {
				out = append(out, o)
			}
		}
	case *ast.DeclStmt:
		if gd, ok := s.Decl.(*ast.GenDecl); ok {
			for _, sp := range gd.Specs {
				out = append(out, AssignedObjs(info, sp)...)
			}
		}
	case *ast.IncDecStmt:
		if o := ObjOf(info, s.X); o != nil {
			out = append(out, o)
		}
	case *ast.RangeStmt:
		if s.Key != nil {
			if o := ObjOf(info, s.Key); o != nil {
				out = append(out, o)
			}
		}
		if s.Value != nil {
			if o := ObjOf(info, s.Value); o != nil {
				out = append(out, o)
			}
		}
	}
	return out
}

// Reaches reports whether node b can execute after node a on some path.
func (c *CFG) Reaches(a, b NodeRef) bool {
	if a.B == b.B && a.I < b.I {
		return true
	}
	seen := map[*cfg.Block]bool{}
	var stack []*cfg.Block
	for _, s := range a.B.Succs {
		stack = append(stack, s)
	}
	for len(stack) > 0 {
		x := stack[len(stack)-1]
		stack = stack[:len(stack)-1]
		if seen[x] || !x.Live {
			continue
		}
		seen[x] = true
		if x == b.B {
			return true
		}
		stack = append(stack, x.Succs...)
	}
	return false
}

// selectComms returns the communication statements of all select clauses of the function
// (go/cfg emits them as nodes before the branch; their effect belongs to the chosen clause only).
func (c *CFG) selectComms() map[ast.Node]bool {
	if c.comms != nil {
		return c.comms
	}
	c.comms = map[ast.Node]bool{}
	InspectNoLits(c.F.Body, func(n ast.Node) bool {
		if _, ok := n.(*ast.FuncLit); ok && n != ast.Node(c.F.Lit) {
			return false
		}
		if sl, ok := n.(*ast.SelectStmt); ok {
			for _, cl := range sl.Body.List {
				if cc := cl.(*ast.CommClause); cc.Comm != nil {
					c.comms[cc.Comm] = true
				}
			}
		}
		return true
	})
	return c.comms
}
