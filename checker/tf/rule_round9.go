package tf

import (
	"fmt"
	"go/ast"
	"go/constant"
	"go/token"
	"go/types"
	"strings"

	"golang.org/x/tools/go/cfg"
)

// Round 9 (DESIGN 8.18): rules for the changes of the ninth seeding round that the earlier rules missed.

func init() {
	Register(&Rule{
		Name:  "R-PARAMS-CLAMPED",
		Props: []string{"C03"},
		Min:   1,
		Doc: "the number of data streams a sender opens is at most what a receiver accepts, whoever chose it: every return of transfer.NormalizeParams is reached with ParallelFiles clamped - past the false edge of `ParallelFiles > MaxParallelFiles` or an assignment of a constant that is not larger, with no other assignment behind it - " +
			"a value that arrives through the run-time parameter source (the CLI's --total-streams goes that way) is clamped like the configured one; an announcement above the receiver's bound is refused and the transfer fails on both sides every time",
		Run: runParamsClamped,
	})
	Register(&Rule{
		Name:  "R-RESUME-WAIT-UNBOUNDED",
		Props: []string{"C04"},
		Min:   1,
		Doc: "a resume report is applied whenever it arrives unless the caller configured a timeout: the context the sender waits for the report on (resumeRegistry.wait) gets a deadline only under `timeout > 0`, and every value that timeout variable is given is Options.ResumeTimeout or the constant 0 - " +
			"a default put in the place of the zero value (the grace period, say) makes the wait end after it for good: a report later than that is never applied and every chunk the receiver has is sent again",
		Run: runResumeWaitUnbounded,
	})
	Register(&Rule{
		Name:  "R-DEFER-ORDER",
		Props: []string{"C09", "C03", "C12"},
		Min:   0,
		Doc: "a deferred wait does not wait for something only a later-running deferred cancel can end: where a function registers `defer cancel()` for a context and afterwards `defer wg.Wait()` for goroutines that run on that context, the wait runs first (deferred calls run last-in-first-out) and ends only when those goroutines end by themselves - " +
			"in the collector of extra connections that is when every accepted connection has spoken or the whole timeout has passed: the sender is transferring while the receiver still sits in the collection (the shape of F66's first cause)",
		Run: runDeferOrder,
	})
	Register(&Rule{
		Name:  "R-COLLECTION-COMPLETE",
		Props: []string{"C09"},
		Min:   1,
		Doc: "a complete collection of extra connections is a success: in snapshotReceiver.acceptExtraConns the return that is reached when the loop condition `len(conns) < extra` fails returns nil as its error - the failed authentication of a connection the sender abandoned (a race loser, closed properly) is not the fate of the join; " +
			"the multi-connection dumb mode treats any error of the collection as fatal",
		Run: runCollectionComplete,
	})
	Register(&Rule{
		Name:  "R-WS-WRITE-DEADLINE",
		Props: []string{"C10", "C11"},
		Min:   3,
		Doc: "no write deadline stays behind on a signaling socket: in cmd/thruserv control frames (ping, pong, close) are written with WriteControl, which takes its own deadline, and a SetWriteDeadline with a time other than the zero value is followed on every path by a reset - " +
			"gorilla's SetWriteDeadline persists for every later write and a write error is latched: the first envelope written to the peer after the deadline fails, the hub's writer for that connection ends, and later messages are accepted into the queue and never written while the peer keeps reading",
		Run: runWSWriteDeadline,
	})
	Register(&Rule{
		Name:  "R-CONTROL-ENDED-RETURNS",
		Props: []string{"C15", "C03"},
		Min:   1,
		Doc: "when the control stream has ended the receive ends: in the main loop of RecvManifestMultiStream the select clause that takes the control reader's terminal result returns on every path - the reader is gone, a data stream that ends reports nil, and the done channel fires only for the last file: a path that stays in the loop waits for ever on input that has ended",
		Run: runControlEndedReturns,
	})
	Register(&Rule{
		Name:  "R-CONN-SLOT-RELEASED",
		Props: []string{"C16", "C14"},
		Min:   1,
		Doc: "a slot of --max-ws-connections is given back on every way out: in handleWebSocket every return behind a successful wsConnLimiter.Acquire() has passed the registration of the deferred Release - a refusal or a failed upgrade between the two would keep its slot for ever, and a few of them lock everybody out",
		Run: runConnSlotReleased,
	})
	Register(&Rule{
		Name:  "R-EXPIRY-ZERO-NEVER",
		Props: []string{"C16", "C14"},
		Min:   1,
		Doc: "a session without a lifetime (--session-timeout 0, ExpiresAt the zero time) never expires: in internal/session every comparison of a session's ExpiresAt with a time (After/Before) is made only past `!ExpiresAt.IsZero()` on that session - the zero time lies before every now",
		Run: runExpiryZeroNever,
	})
	Register(&Rule{
		Name:  "R-PLAN-INSTALLED",
		Props: []string{"C17", "C04"},
		Min:   1,
		Doc: "a resume report that was parsed into a plan is in force when its handler returns: in the handler of a resume report every path from the construction of the resumePlan to a `return nil` passes an assignment of that plan to the file's state - also where no verification round is needed (verify mode none, hash none, no verified chunk): " +
			"otherwise the statistics announce skipped chunks and every chunk is handed out",
		Run: runPlanInstalled,
	})
	Register(&Rule{
		Name:  "R-NAME-VERBATIM",
		Props: []string{"C13", "C01"},
		Min:   3,
		Doc: "a listed name is the name on disk: in pkg/manifest the RelPath of every appended item derives from the walked or selected path through filepath.Rel / Join / ToSlash / Base and string concatenation only - no function that rewrites the text (strings.ToValidUTF8, Replace, Map, ToLower, Trim..., a helper that calls one) - " +
			"the resolver maps a listed name back to a path by the same rules, so a rewritten name resolves to a file that does not exist, the real one is missing from the listing, and two names can merge into one",
		Run: runNameVerbatim,
	})
}

// ---------------------------------------------------------------------------

func runParamsClamped(c *Ctx) {
	p := c.P
	f := p.Func("transfer.NormalizeParams")
	if f == nil {
		c.MissingAnchor("transfer.NormalizeParams")
		return
	}
	maxObj := p.LookupObj("internal/transfer", "MaxParallelFiles")
	maxC, _ := maxObj.(*types.Const)
	if maxC == nil {
		c.MissingAnchor("transfer.MaxParallelFiles")
		return
	}
	maxV, _ := constant.Int64Val(constant.ToInt(maxC.Val()))
	info := f.Info()
	isPF := func(e ast.Expr) bool {
		sel, ok := ast.Unparen(e).(*ast.SelectorExpr)
		return ok && sel.Sel.Name == "ParallelFiles"
	}
	spec := &PassSpec{Name: "clamped", Vias: []Via{
		{Cond: func(g *FuncInfo, e ast.Expr) (string, bool, bool) {
			be, ok := ast.Unparen(e).(*ast.BinaryExpr)
			if !ok || (be.Op != token.GTR && be.Op != token.GEQ) || !isPF(be.X) {
				return "", false, false
			}
			if v, ok := constInt(g.Info(), be.Y); ok && v <= maxV+int64(map[bool]int{true: 1, false: 0}[be.Op == token.GEQ]) {
				return "clamped:" + types.ExprString(ast.Unparen(be.X)), false, true
			}
			return "", false, false
		}},
		{Stmt: func(g *FuncInfo, nd ast.Node) (string, bool) {
			as, ok := nd.(*ast.AssignStmt)
			if !ok || len(as.Lhs) != 1 || len(as.Rhs) != 1 || !isPF(as.Lhs[0]) {
				return "", false
			}
			if v, ok := constInt(g.Info(), as.Rhs[0]); ok && v <= maxV {
				return "clamped:" + types.ExprString(ast.Unparen(as.Lhs[0])), true
			}
			return "", false
		}},
	}}
	spec.KillMatch = func(g *FuncInfo, nd ast.Node, id string) bool {
		as, ok := nd.(*ast.AssignStmt)
		if !ok || len(as.Lhs) != 1 || len(as.Rhs) != 1 || !isPF(as.Lhs[0]) {
			return false
		}
		if v, ok := constInt(g.Info(), as.Rhs[0]); ok && v <= maxV {
			return false
		}
		return id == "clamped:"+types.ExprString(ast.Unparen(as.Lhs[0]))
	}
	n := 0
	for _, b := range f.CFG().Blocks {
		ret, ok := IsReturnExit(b)
		if !ok || len(ret.Results) != 1 {
			continue
		}
		n++
		x := types.ExprString(ast.Unparen(ret.Results[0])) + ".ParallelFiles"
		c.Check(spec.Passed(f, NodeRef{b, len(b.Nodes) - 1}, "clamped:"+x), fmt.Sprintf("params-clamped/return#%d", n), ret.Pos(), "returned with the stream count clamped to MaxParallelFiles",
			"NormalizeParams can return with "+x+" above MaxParallelFiles: the clamp does not lie on every path (a value chosen at run time - the CLI's --total-streams arrives through the parameter source - goes round it), "+
				"the sender announces more data streams than a receiver accepts and every such transfer is refused on both sides")
	}
	_ = info
	if n == 0 {
		c.Bad("params-clamped/none", f.Pos(), "NormalizeParams has no return")
	}
}

// ---------------------------------------------------------------------------

func runResumeWaitUnbounded(c *Ctx) {
	p := c.P
	send := p.Func("transfer.SendManifestMultiStream")
	if send == nil {
		c.MissingAnchor("transfer.SendManifestMultiStream")
		return
	}
	n := 0
	for _, f := range allKids(send) {
		info := f.Info()
		InspectNoLits(f.Body, func(m ast.Node) bool {
			call, ok := m.(*ast.CallExpr)
			if !ok || len(call.Args) < 1 {
				return true
			}
			sel, ok := ast.Unparen(call.Fun).(*ast.SelectorExpr)
			if !ok || sel.Sel.Name != "wait" {
				return true
			}
			if t := info.TypeOf(sel.X); t == nil || !strings.Contains(t.String(), "resumeInfoRegistry") {
				return true
			}
			ctxObj := ObjOf(info, call.Args[0])
			if ctxObj == nil {
				return true
			}
			// definitions of that context by context.WithTimeout / WithDeadline
			for g := f; g != nil; g = g.Parent {
				gi := g.Info()
				InspectNoLits(g.Body, func(x ast.Node) bool {
					as, ok := x.(*ast.AssignStmt)
					if !ok || len(as.Rhs) != 1 || len(as.Lhs) < 1 || ObjOf(gi, as.Lhs[0]) != ctxObj {
						return true
					}
					wt, ok := ast.Unparen(as.Rhs[0]).(*ast.CallExpr)
					if !ok || !calleeIs(gi, wt, "context", "WithTimeout") || len(wt.Args) != 2 {
						return true
					}
					n++
					key := fmt.Sprintf("resume-wait/%s#%d", g.Name, n)
					dObj := ObjOf(gi, wt.Args[1])
					if dObj == nil {
						c.Check(false, key, wt.Pos(), "", "the wait for the resume report always runs on a deadline of "+types.ExprString(wt.Args[1])+": a report that takes longer is never applied")
						return true
					}
					// guarded by d > 0
					guarded := false
					for _, is := range enclosingIfs(g.Body, as) {
						for _, a := range Implied(is.Cond, true) {
							if be, ok := ast.Unparen(a.E).(*ast.BinaryExpr); ok && a.Val && be.Op == token.GTR && ObjOf(gi, be.X) == dObj {
								if v, ok := constInt(gi, be.Y); ok && v == 0 {
									guarded = true
								}
							}
						}
					}
					// every value the variable is given: Options.ResumeTimeout or 0
					var bad []string
					own := owningFunc(g, dObj.(*types.Var))
					if own == nil {
						own = g
					}
					for _, d := range allDefs(own, dObj) {
						d = ast.Unparen(d)
						if v, ok := constInt(own.Info(), d); ok && v == 0 {
							continue
						}
						if s2, ok := d.(*ast.SelectorExpr); ok && s2.Sel.Name == "ResumeTimeout" {
							continue
						}
						bad = append(bad, types.ExprString(d))
					}
					c.Check(guarded && len(bad) == 0, key, wt.Pos(), "the wait has a deadline only when the caller configured one",
						fmt.Sprintf("the wait for the resume report gets a deadline that the caller did not ask for (guarded by `> 0`: %v; other values given to %s: %s): after it the file goes on without a plan for good - "+
							"a report that reaches the sender later (a relayed or long path, a receiver that needs its 2 s to hash) is never applied and every chunk the receiver already has is sent again", guarded, dObj.Name(), strings.Join(bad, ", ")))
					return true
				})
			}
			return true
		})
	}
	if n == 0 {
		c.Bad("resume-wait/none", send.Pos(), "found no context.WithTimeout feeding resumeRegistry.wait in SendManifestMultiStream")
	}
}

// ---------------------------------------------------------------------------

func runDeferOrder(c *Ctx) {
	p := c.P
	n := 0
	for _, rel := range []string{"internal/app", "internal/transfer", "internal/ice", "cmd/thruserv", "internal/peers"} {
		for _, f := range p.FuncsIn(rel) {
			if f.Body == nil || strings.HasSuffix(p.Fset.Position(f.Pos()).Filename, "_test.go") {
				continue
			}
			info := f.Info()
			// deferred cancels (of contexts created in this function) and deferred WaitGroup waits, in registration order
			type dcancel struct {
				pos token.Pos
				ctx types.Object
			}
			var cancels []dcancel
			cancelOf := map[types.Object]types.Object{} // cancel func -> context
			InspectNoLits(f.Body, func(m ast.Node) bool {
				as, ok := m.(*ast.AssignStmt)
				if !ok || len(as.Lhs) != 2 || len(as.Rhs) != 1 {
					return true
				}
				call, ok := ast.Unparen(as.Rhs[0]).(*ast.CallExpr)
				if !ok {
					return true
				}
				if calleeIs(info, call, "context", "WithCancel") || calleeIs(info, call, "context", "WithTimeout") || calleeIs(info, call, "context", "WithDeadline") {
					if co, cf := ObjOf(info, as.Lhs[0]), ObjOf(info, as.Lhs[1]); co != nil && cf != nil {
						cancelOf[cf] = co
					}
				}
				return true
			})
			InspectNoLits(f.Body, func(m ast.Node) bool {
				ds, ok := m.(*ast.DeferStmt)
				if !ok {
					return true
				}
				if o := ObjOf(info, ds.Call.Fun); o != nil && cancelOf[o] != nil {
					cancels = append(cancels, dcancel{ds.Pos(), cancelOf[o]})
				}
				return true
			})
			if len(cancels) == 0 {
				continue
			}
			InspectNoLits(f.Body, func(m ast.Node) bool {
				ds, ok := m.(*ast.DeferStmt)
				if !ok || !calleeIs(info, ds.Call, "sync", "WaitGroup.Wait") {
					return true
				}
				sel, _ := ast.Unparen(ds.Call.Fun).(*ast.SelectorExpr)
				if sel == nil {
					return true
				}
				wg := ObjOf(info, sel.X)
				if wg == nil {
					return true
				}
				// goroutines counted by wg (they call wg.Done) that use a context whose cancel was deferred earlier
				for _, dc := range cancels {
					if dc.pos > ds.Pos() {
						continue // registered later: runs before the wait
					}
					uses := false
					ast.Inspect(f.Body, func(x ast.Node) bool {
						gs, ok := x.(*ast.GoStmt)
						if !ok {
							return true
						}
						lit, ok := ast.Unparen(gs.Call.Fun).(*ast.FuncLit)
						if !ok {
							return true
						}
						done, usesCtx := false, false
						ast.Inspect(lit.Body, func(y ast.Node) bool {
							if c2, ok := y.(*ast.CallExpr); ok && calleeIs(info, c2, "sync", "WaitGroup.Done") {
								if s2, ok := ast.Unparen(c2.Fun).(*ast.SelectorExpr); ok && ObjOf(info, s2.X) == wg {
									done = true
								}
							}
							if id, ok := y.(*ast.Ident); ok && info.Uses[id] == dc.ctx {
								usesCtx = true
							}
							return true
						})
						if done && usesCtx {
							uses = true
						}
						return true
					})
					if !uses {
						continue
					}
					n++
					c.Bad(fmt.Sprintf("defer-order/%s#%d", f.Name, n), ds.Pos(),
						"`defer "+types.ExprString(ds.Call.Fun)+"()` is registered behind the deferred cancel of "+dc.ctx.Name()+" and so runs in front of it: the goroutines it waits for run on that context and end early only through the cancel - "+
							"the function returns when every one of them has finished by itself or the context's own deadline has passed, not when its result is ready")
				}
				return true
			})
		}
	}
	c.Stat("defer_order_hits", n)
	if n == 0 {
		c.OKTrivial("defer-order/none", token.NoPos, "no deferred WaitGroup.Wait is registered behind the deferred cancel of the context its goroutines run on")
	}
}

// ---------------------------------------------------------------------------

func runCollectionComplete(c *Ctx) {
	p := c.P
	f := p.Func("app.(*snapshotReceiver).acceptExtraConns")
	if f == nil {
		c.MissingAnchor("app.(*snapshotReceiver).acceptExtraConns")
		return
	}
	info := f.Info()
	g := f.CFG()
	// the collecting loop: for len(X) < extra
	var loop *ast.ForStmt
	InspectNoLits(f.Body, func(m ast.Node) bool {
		fs, ok := m.(*ast.ForStmt)
		if !ok || fs.Cond == nil || loop != nil {
			return true
		}
		be, ok := ast.Unparen(fs.Cond).(*ast.BinaryExpr)
		if ok && be.Op == token.LSS && strings.HasPrefix(types.ExprString(be.X), "len(") {
			loop = fs
		}
		return true
	})
	if loop == nil {
		// a loop that counts turns instead of collected connections, around a select that appends to the collection?
		var counted *ast.ForStmt
		InspectNoLits(f.Body, func(m ast.Node) bool {
			fs, ok := m.(*ast.ForStmt)
			if !ok || fs.Cond == nil || fs.Post == nil || counted != nil {
				return true
			}
			collects := false
			ast.Inspect(fs.Body, func(k ast.Node) bool {
				if as, ok := k.(*ast.AssignStmt); ok && len(as.Rhs) == 1 {
					if call, ok := ast.Unparen(as.Rhs[0]).(*ast.CallExpr); ok {
						if id, ok := ast.Unparen(call.Fun).(*ast.Ident); ok && id.Name == "append" {
							if t := info.TypeOf(as.Rhs[0]); t != nil && strings.Contains(t.String(), "Conn") {
								collects = true
							}
						}
					}
				}
				return true
			})
			if collects {
				counted = fs
			}
			return true
		})
		if counted != nil {
			c.Bad("collection-complete/loop", counted.Pos(), "acceptExtraConns collects its connections in a loop bounded by a count of turns ("+types.ExprString(counted.Cond)+"), not by the number of connections it holds: a candidate that fails its authentication "+
				"(a connection the sender abandoned while racing its dials) uses up a turn, the receiver stops one connection short and ends the accept loop - the sender's last extra connection is established and never served, the two sides disagree on the set of connections")
			return
		}
		c.Unknown("collection-complete/loop", f.Pos(), "cannot find the collecting loop `for len(conns) < extra`")
		return
	}
	var done *cfg.Block
	for _, b := range g.Blocks {
		if b.Stmt == ast.Stmt(loop) && b.Kind == cfg.KindForDone {
			done = b
		}
	}
	if done == nil {
		c.Unknown("collection-complete/done", loop.Pos(), "cannot find the exit of the collecting loop in the control-flow graph")
		return
	}
	n := 0
	seen := map[*cfg.Block]bool{}
	var walk func(b *cfg.Block)
	walk = func(b *cfg.Block) {
		if seen[b] {
			return
		}
		seen[b] = true
		for _, nd := range b.Nodes {
			if rs, ok := nd.(*ast.ReturnStmt); ok && len(rs.Results) == 2 {
				n++
				isNil := types.ExprString(rs.Results[1]) == "nil"
				c.Check(isNil, fmt.Sprintf("collection-complete/return#%d", n), rs.Pos(), "a complete collection returns a nil error",
					"acceptExtraConns returns `"+types.ExprString(rs.Results[1])+"` although every connection it was asked for is in: the error is the failed authentication of a connection the sender abandoned after its race (closed as race_lost), which is not the fate of the join - "+
						"the multi-connection dumb mode takes any error of the collection as fatal and the receiver exits while it holds every connection the sender uses")
				return
			}
		}
		for _, s := range b.Succs {
			if s.Live {
				walk(s)
			}
		}
	}
	walk(done)
	_ = info
	if n == 0 {
		c.Bad("collection-complete/none", loop.Pos(), "no return behind the collecting loop")
	}
}

// ---------------------------------------------------------------------------

func runWSWriteDeadline(c *Ctx) {
	p := c.P
	n := 0
	for _, f := range p.FuncsIn("cmd/thruserv") {
		if f.Body == nil {
			continue
		}
		info := f.Info()
		g := f.CFG()
		k := 0
		g.Calls(func(r NodeRef, call *ast.CallExpr) {
			// (a) control frames go through WriteControl
			for _, w := range []string{"Conn.WriteMessage", "Conn.WriteControl"} {
				if !calleeIs(info, call, "github.com/gorilla/websocket", w) || len(call.Args) < 1 {
					continue
				}
				a0 := ast.Unparen(call.Args[0])
				if sel, ok := a0.(*ast.SelectorExpr); ok {
					a0 = sel.Sel
				}
				o := ObjOf(info, a0)
				if o == nil {
					continue
				}
				switch o.Name() {
				case "PingMessage", "PongMessage", "CloseMessage":
					n++
					k++
					c.Check(w == "Conn.WriteControl", fmt.Sprintf("ws-write-deadline/%s#%d/control-frame", f.Name, k), call.Pos(), "a "+o.Name()+" is written with WriteControl (its own deadline)",
						"a "+o.Name()+" is written with WriteMessage: that write has no deadline of its own, and one set with SetWriteDeadline for it stays in force for every later write on the connection")
				}
			}
			// (b) a write deadline other than the zero time is taken back on every path
			if calleeIs(info, call, "github.com/gorilla/websocket", "Conn.SetWriteDeadline") && len(call.Args) == 1 {
				if cl, ok := ast.Unparen(call.Args[0]).(*ast.CompositeLit); ok && len(cl.Elts) == 0 {
					return // time.Time{}: the reset itself
				}
				n++
				k++
				reset := func(nd ast.Node) bool {
					hit := false
					InspectNoLits(nd, func(x ast.Node) bool {
						if c2, ok := x.(*ast.CallExpr); ok && calleeIs(info, c2, "github.com/gorilla/websocket", "Conn.SetWriteDeadline") && len(c2.Args) == 1 {
							if cl, ok := ast.Unparen(c2.Args[0]).(*ast.CompositeLit); ok && len(cl.Elts) == 0 {
								hit = true
							}
						}
						return true
					})
					return hit
				}
				c.Check(allPathsHit(g, r, reset, func(ast.Node) bool { return false }), fmt.Sprintf("ws-write-deadline/%s#%d/reset", f.Name, k), call.Pos(), "the write deadline is taken back on every path",
					"SetWriteDeadline("+types.ExprString(call.Args[0])+") is not followed by SetWriteDeadline(time.Time{}) on every path: gorilla keeps the deadline for every later write, the first envelope written to this peer after it fails with i/o timeout, "+
						"the write error is latched, the hub's writer for the connection ends - and later messages are accepted into its queue (no error to their authors) and never written while the peer keeps reading")
			}
		})
	}
	if n == 0 {
		c.Bad("ws-write-deadline/none", token.NoPos, "found no control-frame write in cmd/thruserv")
	}
}

// ---------------------------------------------------------------------------

func runControlEndedReturns(c *Ctx) {
	p := c.P
	recv := p.Func("transfer.RecvManifestMultiStream")
	if recv == nil {
		c.MissingAnchor("transfer.RecvManifestMultiStream")
		return
	}
	info := recv.Info()
	g := recv.CFG()
	// channels on which a goroutine that reads control records (readControlMessage) reports its end: sent an error value, in a literal that calls readControlMessage
	ends := map[types.Object]bool{}
	for _, k := range allKids(recv) {
		if k.Lit == nil {
			continue
		}
		reads := false
		InspectNoLits(k.Body, func(m ast.Node) bool {
			if call, ok := m.(*ast.CallExpr); ok {
				if h := p.CalleeInfo(info, call); h != nil && h.Name == "transfer.readControlMessage" {
					reads = true
				}
			}
			return true
		})
		if !reads {
			continue
		}
		InspectNoLits(k.Body, func(m ast.Node) bool {
			if ss, ok := m.(*ast.SendStmt); ok {
				if t := info.TypeOf(ss.Value); t != nil && isErrorType(t) {
					if o := ObjOf(info, ss.Chan); o != nil {
						ends[o] = true
					}
				}
			}
			return true
		})
	}
	if len(ends) == 0 {
		c.Unknown("control-ended/channel", recv.Pos(), "cannot find the channel on which the control reader reports its end")
		return
	}
	n := 0
	InspectNoLits(recv.Body, func(m ast.Node) bool {
		cc, ok := m.(*ast.CommClause)
		if !ok || cc.Comm == nil {
			return true
		}
		if o := ObjOf(info, commRecvExpr(cc)); o == nil || !ends[o] {
			return true
		}
		var body *cfg.Block
		for _, b := range g.Blocks {
			if b.Stmt == ast.Stmt(cc) && b.Kind == cfg.KindSelectCaseBody {
				body = b
			}
		}
		if body == nil {
			return true
		}
		n++
		isRet := func(nd ast.Node) bool { _, ok := nd.(*ast.ReturnStmt); return ok }
		// leaving the clause without a return: reaching a block that is not dominated by the clause body
		stop := func(b *cfg.Block) bool { return b != body && !g.BlockDominates(body, b) }
		c.Check(regionAllPathsHit(g, body, isRet, stop, true), fmt.Sprintf("control-ended/clause#%d", n), cc.Pos(), "the receive returns on every path once the control reader has ended",
			"RecvManifestMultiStream can stay in its loop after the control reader has reported its end: nothing can arrive on the control stream any more, a data stream that ends reports nil, and the done channel fires only when the last file is in - "+
				"a peer that ends the control stream at a record boundary with files incomplete makes the receiver wait for ever on input that has ended")
		return true
	})
	if n == 0 {
		c.Bad("control-ended/none", recv.Pos(), "the main loop of RecvManifestMultiStream has no clause for the end of the control reader")
	}
}

// ---------------------------------------------------------------------------

func runConnSlotReleased(c *Ctx) {
	p := c.P
	hw := p.Func("cmd/thruserv.handleWebSocket")
	if hw == nil {
		c.MissingAnchor("cmd/thruserv.handleWebSocket")
		return
	}
	info := hw.Info()
	isLimiterCall := func(call *ast.CallExpr, name string) (types.Object, bool) {
		sel, ok := ast.Unparen(call.Fun).(*ast.SelectorExpr)
		if !ok || sel.Sel.Name != name {
			return nil, false
		}
		if t := info.TypeOf(sel.X); t == nil || !strings.Contains(t.String(), "Limiter") && !strings.Contains(t.String(), "limiter") {
			return nil, false
		}
		return ObjOf(info, sel.X), true
	}
	g := hw.CFG()
	n := 0
	for _, b := range g.Blocks {
		cond, t, f, ok := CondEdges(b)
		if !ok || !b.Live {
			continue
		}
		var got *cfg.Block
		var lim string
		for _, pr := range []struct {
			val  bool
			succ *cfg.Block
		}{{true, t}, {false, f}} {
			for _, a := range Implied(cond, pr.val) {
				if call, isCall := ast.Unparen(a.E).(*ast.CallExpr); isCall && a.Val {
					if o, isAcq := isLimiterCall(call, "Acquire"); isAcq && o != nil {
						got, lim = pr.succ, o.Name()
					}
				}
			}
		}
		if got == nil {
			continue
		}
		n++
		released := func(nd ast.Node) bool {
			if ds, ok := nd.(*ast.DeferStmt); ok {
				if o, ok := isLimiterCall(ds.Call, "Release"); ok && o != nil && o.Name() == lim {
					return true
				}
			}
			return false
		}
		c.Check(regionAllPathsHit(g, got, released, func(*cfg.Block) bool { return false }, false), fmt.Sprintf("conn-slot/acquire#%d", n), cond.Pos(), "every path behind the acquired slot registers the release before it can return",
			"handleWebSocket can return with a slot of --max-ws-connections acquired and no release registered: every refusal or failed upgrade on that path keeps its slot for ever, and after a few of them no host and no receiver can connect any more")
	}
	if n == 0 {
		c.Bad("conn-slot/none", hw.Pos(), "handleWebSocket acquires no connection slot")
	}
}

// ---------------------------------------------------------------------------

func runExpiryZeroNever(c *Ctx) {
	p := c.P
	n := 0
	for _, f := range p.FuncsIn("internal/session") {
		if f.Body == nil || strings.HasSuffix(p.Fset.Position(f.Pos()).Filename, "_test.go") {
			continue
		}
		info := f.Info()
		expiresSel := func(e ast.Expr) string {
			sel, ok := ast.Unparen(e).(*ast.SelectorExpr)
			if !ok || sel.Sel.Name != "ExpiresAt" {
				return ""
			}
			return types.ExprString(sel.X)
		}
		spec := &PassSpec{Name: "nonzero", Vias: []Via{{Cond: func(g *FuncInfo, e ast.Expr) (string, bool, bool) {
			call, ok := ast.Unparen(e).(*ast.CallExpr)
			if !ok || !calleeIs(g.Info(), call, "time", "Time.IsZero") {
				return "", false, false
			}
			sel, _ := ast.Unparen(call.Fun).(*ast.SelectorExpr)
			if sel == nil {
				return "", false, false
			}
			if x := expiresSel(sel.X); x != "" {
				return "has-expiry:" + x, false, true
			}
			return "", false, false
		}}}}
		k := 0
		f.CFG().Calls(func(r NodeRef, call *ast.CallExpr) {
			if !(calleeIs(info, call, "time", "Time.After") || calleeIs(info, call, "time", "Time.Before")) || len(call.Args) != 1 {
				return
			}
			sel, _ := ast.Unparen(call.Fun).(*ast.SelectorExpr)
			x := expiresSel(call.Args[0])
			if x == "" && sel != nil {
				x = expiresSel(sel.X)
			}
			if x == "" {
				return
			}
			n++
			k++
			// the comparison may sit in the same short-circuit condition as the IsZero test
			ok := spec.Passed(f, r, "has-expiry:"+x) || spec.PassedIn(f, r, call, "has-expiry:"+x)
			c.Check(ok, fmt.Sprintf("expiry-zero/%s#%d", f.Name, k), call.Pos(), "the expiry is compared only for a session that has one",
				"a session's ExpiresAt is compared with a time without `!"+x+".ExpiresAt.IsZero()` in front: with --session-timeout 0 the field is the zero time, which lies before every now - the session counts as expired at once "+
					"(a purge like this in the creation path deletes every live session whenever another host creates one)")
		})
	}
	if n == 0 {
		c.Bad("expiry-zero/none", token.NoPos, "found no comparison of a session's ExpiresAt in internal/session")
	}
}

// ---------------------------------------------------------------------------

func runPlanInstalled(c *Ctx) {
	p := c.P
	send := p.Func("transfer.SendManifestMultiStream")
	if send == nil {
		c.MissingAnchor("transfer.SendManifestMultiStream")
		return
	}
	n := 0
	for _, f := range allKids(send) {
		if f.Lit == nil || f.Type.Results == nil || len(f.Type.Results.List) != 1 {
			continue
		}
		info := f.Info()
		g := f.CFG()
		g.EachNode(func(r NodeRef) {
			// the construction: X := &resumePlan{..} / X = &resumePlan{..}
			as, ok := r.Node().(*ast.AssignStmt)
			if !ok || len(as.Lhs) != 1 || len(as.Rhs) != 1 {
				return
			}
			u, ok := ast.Unparen(as.Rhs[0]).(*ast.UnaryExpr)
			if !ok || u.Op != token.AND {
				return
			}
			cl, ok := ast.Unparen(u.X).(*ast.CompositeLit)
			if !ok {
				return
			}
			if t := info.TypeOf(cl); t == nil || !strings.HasSuffix(t.String(), "resumePlan") {
				return
			}
			planObj := ObjOf(info, as.Lhs[0])
			if planObj == nil {
				return
			}
			n++
			installs := func(nd ast.Node) bool {
				a2, ok := nd.(*ast.AssignStmt)
				if !ok || len(a2.Lhs) != 1 || len(a2.Rhs) != 1 {
					return false
				}
				sel, ok := ast.Unparen(a2.Lhs[0]).(*ast.SelectorExpr)
				return ok && sel.Sel.Name == "plan" && ObjOf(info, a2.Rhs[0]) == planObj
			}
			// every path from here to a `return nil` passes the installation
			okAll := true
			var offender token.Pos
			seen := map[NodeRef]bool{}
			var walk func(ref NodeRef)
			walk = func(ref NodeRef) {
				if !okAll || seen[ref] {
					return
				}
				seen[ref] = true
				b := ref.B
				for i := ref.I; i < len(b.Nodes); i++ {
					nd := b.Nodes[i]
					if installs(nd) {
						return
					}
					if rs, ok := nd.(*ast.ReturnStmt); ok {
						if len(rs.Results) == 1 && types.ExprString(rs.Results[0]) == "nil" {
							okAll = false
							offender = rs.Pos()
						}
						return
					}
				}
				for _, s := range b.Succs {
					if s.Live {
						walk(NodeRef{s, 0})
					}
				}
			}
			walk(NodeRef{r.B, r.I + 1})
			pos := as.Pos()
			if offender.IsValid() {
				pos = offender
			}
			c.Check(okAll, fmt.Sprintf("plan-installed/%s#%d", f.Name, n), pos, "every successful return behind the plan's construction has installed it",
				f.Name+" can return nil with the resume plan built and not assigned to the file's state (the assignment lies on the verification branch only): without a verification round - verify mode none, hash algorithm none, no verified chunk, "+
					"a hash the receiver could not compute in time - the statistics announce the skipped chunks, nextChunkToSend sees no plan and hands out every chunk")
		})
	}
	if n == 0 {
		c.Bad("plan-installed/none", send.Pos(), "found no construction of a resumePlan in SendManifestMultiStream")
	}
}

// ---------------------------------------------------------------------------

func runNameVerbatim(c *Ctx) {
	p := c.P
	n := 0
	allowed := func(fn *types.Func) bool {
		if fn == nil || fn.Pkg() == nil {
			return false
		}
		switch fn.Pkg().Path() {
		case "path/filepath":
			switch fn.Name() {
			case "Rel", "Join", "ToSlash", "Base", "Clean", "Dir", "FromSlash", "Abs", "EvalSymlinks":
				return true
			}
		case "path":
			return fn.Name() == "Join" || fn.Name() == "Base" || fn.Name() == "Clean"
		case "fmt":
			return fn.Name() == "Sprintf"
		case "strconv":
			return true
		}
		return false
	}
	rewriters := map[string]bool{"ToValidUTF8": true, "Replace": true, "ReplaceAll": true, "Map": true, "ToLower": true, "ToUpper": true, "Title": true, "ToTitle": true,
		"Trim": true, "TrimSpace": true, "TrimLeft": true, "TrimRight": true, "TrimFunc": true, "TrimPrefix": false, "TrimSuffix": false, "Fields": true, "NewReplacer": true}
	for _, f := range p.FuncsIn("pkg/manifest") {
		if f.Body == nil || strings.HasSuffix(p.Fset.Position(f.Pos()).Filename, "_test.go") {
			continue
		}
		info := f.Info()
		k := 0
		ast.Inspect(f.Body, func(m ast.Node) bool {
			if _, isLit := m.(*ast.FuncLit); isLit && m != ast.Node(f.Lit) {
				return false
			}
			cl, ok := m.(*ast.CompositeLit)
			if !ok {
				return true
			}
			if t := info.TypeOf(cl); t == nil || !strings.HasSuffix(t.String(), "manifest.FileItem") {
				return true
			}
			rp := litField(cl, "RelPath")
			if rp == nil {
				return true
			}
			n++
			k++
			// every call in the expression and in the definitions of its locals (three levels; helpers of the package one level)
			var bad string
			var scan func(g *FuncInfo, e ast.Expr, depth int)
			scan = func(g *FuncInfo, e ast.Expr, depth int) {
				for _, d := range resolveExprs(g, e, 3) {
					ast.Inspect(d, func(x ast.Node) bool {
						call, ok := x.(*ast.CallExpr)
						if !ok {
							return true
						}
						fn := Callee(g.Info(), call)
						if fn == nil {
							return true // conversion, builtin
						}
						if fn.Pkg() != nil && (fn.Pkg().Path() == "strings" || fn.Pkg().Path() == "bytes" || strings.HasPrefix(fn.Pkg().Path(), "unicode") || strings.HasPrefix(fn.Pkg().Path(), "golang.org/x/text")) {
							if rewriters[fn.Name()] || strings.HasPrefix(fn.Pkg().Path(), "golang.org/x/text") {
								bad = fn.Pkg().Name() + "." + fn.Name()
							}
							return true
						}
						if allowed(fn) {
							return true
						}
						if h := p.FuncOf(fn); h != nil && h.Body != nil && depth < 2 {
							// a helper of the repository: what it returns
							ast.Inspect(h.Body, func(y ast.Node) bool {
								if rs, ok := y.(*ast.ReturnStmt); ok {
									for _, res := range rs.Results {
										scan(h, res, depth+1)
									}
								}
								return true
							})
						}
						return true
					})
				}
			}
			scan(f, rp, 0)
			c.Check(bad == "", fmt.Sprintf("name-verbatim/%s#%d", f.Name, k), rp.Pos(), "the listed name is the path on disk, separators normalised",
				"the RelPath of a listed item passes through "+bad+": the name in the manifest is no longer the name on disk - the resolver maps it back to a path that does not exist (or to another file), the real name is missing from the listing, "+
					"and different names can become one")
			return true
		})
	}
	if n == 0 {
		c.Bad("name-verbatim/none", token.NoPos, "found no FileItem literal with a RelPath in pkg/manifest")
	}
}

// ---------------------------------------------------------------------------
// F73

func init() {
	Register(&Rule{
		Name:  "R-HEADER-READ-CANCELLABLE",
		Props: []string{"C02"},
		Min:   1,
		Doc: "a receiver that is cancelled while the manifest header is on its way returns (F73): readControlHeader - plain blocking reads - is called only from a goroutine whose result the enclosing function awaits in a select that also has a `<-ctx.Done()` clause, on a channel with room for the abandoned result; " +
			"a direct call from a function that was given a context sits in the read until the stream ends (a sender that stalled, or was lost without a close)",
		Run: runHeaderReadCancellable,
	})
}

func runHeaderReadCancellable(c *Ctx) {
	p := c.P
	target := p.Func("transfer.readControlHeader")
	if target == nil {
		c.MissingAnchor("transfer.readControlHeader")
		return
	}
	n := 0
	for _, f := range p.FuncsIn("internal/transfer") {
		if f.Body == nil || strings.HasSuffix(p.Fset.Position(f.Pos()).Filename, "_test.go") {
			continue
		}
		info := f.Info()
		InspectNoLits(f.Body, func(m ast.Node) bool {
			call, ok := m.(*ast.CallExpr)
			if !ok || p.CalleeInfo(info, call) != target {
				return true
			}
			n++
			key := fmt.Sprintf("header-read/%s#%d", f.Name, n)
			// inside a go literal of a function that selects on its context and on the result
			parent := f.Parent
			isGo := false
			if f.Lit != nil && parent != nil {
				ast.Inspect(parent.Body, func(x ast.Node) bool {
					if gs, ok := x.(*ast.GoStmt); ok && ast.Unparen(gs.Call.Fun) == ast.Expr(f.Lit) {
						isGo = true
					}
					return true
				})
			}
			if !isGo {
				// a function without a context of its own has nothing to be cancelled by
				hasCtx := false
				root := f.Root()
				if root.Type.Params != nil {
					for _, fl := range root.Type.Params.List {
						if t := root.Info().TypeOf(fl.Type); t != nil && t.String() == "context.Context" {
							hasCtx = true
						}
					}
				}
				c.Check(!hasCtx, key, call.Pos(), "called from a function that has no context to be cancelled by",
					f.Name+" reads the manifest header with a direct call of readControlHeader although it was given a context: the read is a plain blocking read, and a receiver that is cancelled while the header has not arrived completely "+
						"(a sender that stalled, or was lost without a close) returns only when the stream ends")
				return true
			}
			// the result channel of the goroutine and the select in the parent
			var resCh types.Object
			InspectNoLits(f.Body, func(x ast.Node) bool {
				if ss, ok := x.(*ast.SendStmt); ok {
					resCh = ObjOf(info, ss.Chan)
				}
				return true
			})
			waits, cancels, buffered := false, false, false
			InspectNoLits(parent.Body, func(x ast.Node) bool {
				switch s := x.(type) {
				case *ast.SelectStmt:
					var w, cdone bool
					for _, cl := range s.Body.List {
						cc, ok := cl.(*ast.CommClause)
						if !ok || cc.Comm == nil {
							continue
						}
						if resCh != nil && ObjOf(info, commRecvExpr(cc)) == resCh {
							w = true
						}
						if strings.HasSuffix(types.ExprString(commRecvExpr(cc)), ".Done()") {
							cdone = true
						}
					}
					if w && cdone {
						waits, cancels = true, true
					}
				case *ast.AssignStmt:
					if len(s.Lhs) == 1 && len(s.Rhs) == 1 && resCh != nil && ObjOf(info, s.Lhs[0]) == resCh {
						if mk, ok := ast.Unparen(s.Rhs[0]).(*ast.CallExpr); ok && len(mk.Args) >= 2 {
							if v, ok := constInt(info, mk.Args[1]); ok && v >= 1 {
								buffered = true
							}
						}
					}
				}
				return true
			})
			c.Check(waits && cancels && buffered, key, call.Pos(), "read in a goroutine; the caller selects on the result and on its context, the result channel has room",
				fmt.Sprintf("the goroutine that reads the manifest header in %s is not awaited in a select with a `<-ctx.Done()` clause on a buffered channel (select on result and Done: %v, room for the abandoned result: %v): "+
					"a cancelled receiver keeps waiting for the header, or the abandoned reader blocks for ever on its send", parent.Name, waits && cancels, buffered))
			return true
		})
	}
	if n == 0 {
		c.Bad("header-read/none", target.Pos(), "nothing calls readControlHeader")
	}
}

// ---------------------------------------------------------------------------
// F74

func init() {
	Register(&Rule{
		Name:  "R-UNCONFIRMED-NOT-CLAIMED",
		Props: []string{"C06", "C05", "C04", "C01"},
		Min:   3,
		Doc: "the chunk handed to the sender for comparison is not claimed on disk until its verdict is known (F74): (report) in the receiver's resume report every path from the assignment of LastVerifiedHash to the successful return passes Sidecar.MarkUnconfirmed on the chunk that was reported; " +
			"(flush) Sidecar.Flush clears that chunk's bit in the copy of the bitmap it writes, under the reservation flag, before the bitmap's bytes go into the file image; (release) Sidecar.Confirm is called only where the file was finalised successfully - " +
			"the repair of a damaged chunk travels on one of several data streams, the chunks behind it on the others: a receive cut off in between left the damaged chunk marked and no longer the highest, and the next resume skipped it unseen",
		Run: runUnconfirmedNotClaimed,
	})
}

func runUnconfirmedNotClaimed(c *Ctx) {
	p := c.P
	mark := p.Func("transfer.(*Sidecar).MarkUnconfirmed")
	confirm := p.Func("transfer.(*Sidecar).Confirm")
	flush := p.Func("transfer.(*Sidecar).Flush")
	recv := p.Func("transfer.RecvManifestMultiStream")
	if mark == nil || confirm == nil || flush == nil || recv == nil {
		c.MissingAnchor("transfer.(*Sidecar).MarkUnconfirmed / Confirm / Flush, transfer.RecvManifestMultiStream")
		return
	}
	// (report)
	nr := 0
	for _, f := range allKids(recv) {
		if f.Lit == nil {
			continue
		}
		info := f.Info()
		g := f.CFG()
		g.EachNode(func(r NodeRef) {
			as, ok := r.Node().(*ast.AssignStmt)
			if !ok || len(as.Lhs) != 1 {
				return
			}
			sel, ok := ast.Unparen(as.Lhs[0]).(*ast.SelectorExpr)
			if !ok || sel.Sel.Name != "LastVerifiedHash" {
				return
			}
			nr++
			// the chunk reported: the definition of LastVerifiedChunk in the same function
			var chunkObj types.Object
			InspectNoLits(f.Body, func(m ast.Node) bool {
				a2, ok := m.(*ast.AssignStmt)
				if !ok || len(a2.Lhs) != 1 || len(a2.Rhs) != 1 {
					return true
				}
				if s2, ok := ast.Unparen(a2.Lhs[0]).(*ast.SelectorExpr); ok && s2.Sel.Name == "LastVerifiedChunk" {
					if o := rootObj(info, a2.Rhs[0]); o != nil {
						if _, isVar := o.(*types.Var); isVar && !strings.HasSuffix(types.ExprString(a2.Rhs[0]), "totalChunks") {
							chunkObj = o
						}
					}
				}
				return true
			})
			marks := func(nd ast.Node) bool {
				hit := false
				InspectNoLits(nd, func(x ast.Node) bool {
					if call, ok := x.(*ast.CallExpr); ok && p.CalleeInfo(info, call) == mark && len(call.Args) == 1 {
						if chunkObj == nil || rootObj(info, call.Args[0]) == chunkObj {
							hit = true
						}
					}
					return true
				})
				return hit
			}
			// every path from here to a `return <info>, nil`
			okAll := true
			seen := map[NodeRef]bool{}
			var walk func(ref NodeRef)
			walk = func(ref NodeRef) {
				if !okAll || seen[ref] {
					return
				}
				seen[ref] = true
				b := ref.B
				for i := ref.I; i < len(b.Nodes); i++ {
					nd := b.Nodes[i]
					if marks(nd) {
						return
					}
					if rs, ok := nd.(*ast.ReturnStmt); ok {
						if n := len(rs.Results); n >= 1 && types.ExprString(rs.Results[n-1]) == "nil" {
							okAll = false
						}
						return
					}
				}
				for _, s := range b.Succs {
					if s.Live {
						walk(NodeRef{s, 0})
					}
				}
			}
			walk(NodeRef{r.B, r.I + 1})
			c.Check(okAll, fmt.Sprintf("unconfirmed/report/%s#%d", f.Name, nr), as.Pos(), "the chunk whose hash is reported is marked unconfirmed before the report is returned",
				f.Name+" reports the hash of its highest complete chunk and can return without Sidecar.MarkUnconfirmed on that chunk: the sender sends the chunk again when it is damaged, on one of several data streams - "+
					"chunks behind it arrive on the others and are recorded; a receive cut off before the repair was written leaves the damaged chunk marked and no longer the highest, and the next resume skips it unseen")
		})
	}
	if nr == 0 {
		c.Bad("unconfirmed/report/none", recv.Pos(), "found no assignment of LastVerifiedHash in the closures of RecvManifestMultiStream")
	}
	// (flush) - the clearing may sit in Flush or in a helper that Flush hands the marshalled copy to
	{
		type site struct {
			f     *FuncInfo
			obj   types.Object
			from  token.Pos // where the copy comes into being in f
			until token.Pos // in Flush: the helper call (uses behind it belong to the helper); NoPos otherwise
		}
		var sites []site
		info := flush.Info()
		var marshalled types.Object
		var marshalPos token.Pos
		isMarshal := func(e ast.Expr) bool {
			if call, ok := ast.Unparen(e).(*ast.CallExpr); ok {
				if sel, ok := ast.Unparen(call.Fun).(*ast.SelectorExpr); ok && sel.Sel.Name == "Marshal" {
					return true
				}
			}
			return false
		}
		InspectNoLits(flush.Body, func(m ast.Node) bool {
			as, ok := m.(*ast.AssignStmt)
			if !ok || len(as.Lhs) != 1 || len(as.Rhs) != 1 {
				return true
			}
			if isMarshal(as.Rhs[0]) {
				marshalled, marshalPos = ObjOf(info, as.Lhs[0]), as.Pos()
			}
			return true
		})
		if marshalled != nil {
			sites = append(sites, site{flush, marshalled, marshalPos, token.NoPos})
		}
		InspectNoLits(flush.Body, func(m ast.Node) bool {
			call, ok := m.(*ast.CallExpr)
			if !ok {
				return true
			}
			callee := p.CalleeInfo(info, call)
			if callee == nil || callee.Body == nil || callee.Decl == nil || callee.Pkg != flush.Pkg {
				return true
			}
			for k, a := range call.Args {
				if isMarshal(a) || (marshalled != nil && ObjOf(info, a) == marshalled) {
					if po := paramObj(callee, k); po != nil {
						sites = append(sites, site{callee, po, callee.Body.Pos(), token.NoPos})
						for n := range sites {
							if sites[n].f == flush {
								sites[n].until = call.Pos()
							}
						}
					}
				}
			}
			return true
		})
		cleared, before := false, true
		clearedObjs := map[types.Object]bool{}
		for _, st := range sites {
			finfo := st.f.Info()
			clearPos := token.NoPos
			InspectNoLits(st.f.Body, func(m ast.Node) bool {
				as, ok := m.(*ast.AssignStmt)
				if !ok || as.Tok != token.AND_NOT_ASSIGN || len(as.Lhs) != 1 {
					return true
				}
				ix, ok := ast.Unparen(as.Lhs[0]).(*ast.IndexExpr)
				if !ok || ObjOf(finfo, ix.X) != st.obj {
					return true
				}
				if reservationIndex(st.f, finfo, as, ix.Index) && reservationIndex(st.f, finfo, as, as.Rhs[0]) {
					cleared, clearPos = true, as.Pos()
					// (round 15) the clearing is not made to depend on anything but the bounds of the copy
					for _, anc := range pathTo(st.f.Body, as) {
						if is, ok := anc.(*ast.IfStmt); ok {
							// accepted: tests that read nothing but the copy's bounds and the reservation list itself
							// (`int(u/8) < len(copy)`, `len(s.unconfirmed) > 0`): no other field, no call besides len and conversions
							boundsOnly := true
							// inside the loop over the reservations: a conjunction of upper bounds on the reserved index itself
							// (`u < s.TotalChunks && int(u/8) < len(copy)`) filters per element and is no condition on the clearing as such
							if elem := enclosingRangeValue(st.f.Body, is, finfo); elem != nil {
								perElem := true
								var conj func(e ast.Expr)
								conj = func(e ast.Expr) {
									e = ast.Unparen(e)
									if be, ok := e.(*ast.BinaryExpr); ok && be.Op == token.LAND {
										conj(be.X)
										conj(be.Y)
										return
									}
									be, ok := e.(*ast.BinaryExpr)
									if !ok || (be.Op != token.LSS && be.Op != token.LEQ) || rootObjDeep(finfo, be.X) != elem {
										perElem = false
									}
								}
								conj(is.Cond)
								if perElem {
									continue
								}
							}
							ast.Inspect(is.Cond, func(k ast.Node) bool {
								switch v := k.(type) {
								case *ast.SelectorExpr:
									if v.Sel.Name != "unconfirmed" {
										boundsOnly = false
									}
								case *ast.CallExpr:
									if tv, ok := finfo.Types[v.Fun]; ok && tv.IsType() {
										return true
									}
									if id, ok := v.Fun.(*ast.Ident); !ok || id.Name != "len" {
										boundsOnly = false
									}
								}
								return true
							})
							if !boundsOnly {
								c.Bad("unconfirmed/flush/unconditional", is.Pos(), "Sidecar.Flush clears the reservations only under `"+types.ExprString(is.Cond)+"`: whenever that does not hold the metadata on disk claim the chunks under comparison - "+
									"all bits set in memory does not mean the file is complete: the chunk handed to the sender may be damaged while the last missing chunks arrive")
								before = false
							}
						}
					}
					if st.f == flush {
						clearedObjs[st.obj] = true
					} else if marshalled != nil {
						clearedObjs[marshalled] = true
					}
				}
				return true
			})
			// no use of the copy in front of the clearing (or, without one here, in front of the helper)
			limit := clearPos
			if limit == token.NoPos {
				limit = st.until
			}
			if limit == token.NoPos {
				continue
			}
			InspectNoLits(st.f.Body, func(m ast.Node) bool {
				if call, ok := m.(*ast.CallExpr); ok && call.Pos() > st.from && call.Pos() < limit {
					for _, a := range call.Args {
						if rootObj(finfo, a) == st.obj {
							if id, ok := ast.Unparen(call.Fun).(*ast.Ident); !(ok && id.Name == "len") {
								before = false
							}
						}
					}
				}
				return true
			})
		}
		// (round 14) what is written is the copy that was cleared: every []byte taken from the bitmap (its Marshal() or its data field)
		// that Flush hands to a Write is the object the clearing was applied to
		if cleared {
			derived := map[types.Object]token.Pos{}
			fromBitmap := func(e ast.Expr) bool {
				e = ast.Unparen(e)
				if isMarshal(e) {
					return true
				}
				if sel, ok := e.(*ast.SelectorExpr); ok && sel.Sel.Name == "data" {
					if t := info.TypeOf(sel.X); t != nil && strings.HasSuffix(strings.TrimPrefix(t.String(), "*"), "transfer.Bitmap") {
						return true
					}
				}
				return false
			}
			InspectNoLits(flush.Body, func(m ast.Node) bool {
				as, ok := m.(*ast.AssignStmt)
				if !ok || len(as.Lhs) != len(as.Rhs) {
					return true
				}
				for k, r := range as.Rhs {
					if fromBitmap(r) {
						if o := ObjOf(info, as.Lhs[k]); o != nil {
							derived[o] = as.Pos()
						}
					}
				}
				return true
			})
			InspectNoLits(flush.Body, func(m ast.Node) bool {
				call, ok := m.(*ast.CallExpr)
				if !ok {
					return true
				}
				name := ""
				switch fn := ast.Unparen(call.Fun).(type) {
				case *ast.SelectorExpr:
					name = fn.Sel.Name
				case *ast.Ident:
					name = fn.Name
				}
				if name != "Write" && name != "WriteFile" && name != "Update" && name != "Checksum" && name != "ChecksumIEEE" {
					return true
				}
				for _, a := range call.Args {
					bad := fromBitmap(a)
					if o := rootObj(info, a); o != nil {
						if _, isDerived := derived[o]; isDerived && !clearedObjs[o] {
							bad = true
						}
					}
					if bad {
						c.Bad("unconfirmed/flush/written-is-cleared", call.Pos(), "Sidecar.Flush hands "+types.ExprString(a)+" to "+name+": bytes taken from the bitmap that are not the copy the reservations were cleared in - the clearing is applied to another slice and what goes to disk still claims the chunks under comparison")
						before = false
					}
				}
				return true
			})
		}
		c.Check(cleared && before, "unconfirmed/flush", flush.Pos(), "Flush clears the bit of every chunk under comparison in the copy it writes, before the copy is used",
			"Sidecar.Flush writes the bitmap with the bit of a chunk that is under comparison still set (no `copy[i/8] &^= 1 << (i%8)` for every reserved chunk in front of the write): the metadata on disk go on claiming a chunk the sender may be about to replace")
	}
	// (monotone, F77) a later report does not end the reservation of an earlier one
	{
		nAssign := 0
		perFunc := map[string]int{}
		for _, f := range p.FuncsIn("internal/transfer") {
			if f.Body == nil || f.Decl == nil || strings.HasSuffix(p.Fset.Position(f.Pos()).Filename, "_test.go") {
				continue
			}
			finfo := f.Info()
			ast.Inspect(f.Body, func(m ast.Node) bool {
				as, ok := m.(*ast.AssignStmt)
				if !ok {
					return true
				}
				for k, l := range as.Lhs {
					if !isReservationField(finfo, l) {
						continue
					}
					nAssign++
					perFunc[f.Name]++
					var rhs ast.Expr
					if len(as.Rhs) == len(as.Lhs) {
						rhs = as.Rhs[k]
					}
					okAssign, why := false, ""
					switch {
					case f == confirm:
						okAssign = true
					case f == mark:
						// only ever added to
						if call, ok := ast.Unparen(rhs).(*ast.CallExpr); ok && len(call.Args) >= 2 {
							if id, ok := ast.Unparen(call.Fun).(*ast.Ident); ok && id.Name == "append" && isReservationField(finfo, call.Args[0]) {
								okAssign = true
							}
						}
						why = "MarkUnconfirmed assigns the reservation anew instead of adding to it: the receiver reports on a file twice (when it begins and when the sender asks), and the second report, built after chunks of the running transfer were recorded, " +
							"ends the reservation of the chunk the sender is re-sending - a receive cut off then leaves the damaged chunk claimed and no longer the highest"
					default:
						// ending one reservation: only for the chunk that is being written anew
						okAssign = dropsOnlyWrittenChunk(p, f, finfo, as)
						why = f.Name + " changes the reservations outside MarkUnconfirmed / Confirm and not as `the chunk that was just written is no longer reserved` (an element equal to the index parameter, called from MarkComplete / MarkCompleteIfUnset with their own index)"
					}
					c.Check(okAssign, fmt.Sprintf("unconfirmed/monotone/%s#%d", f.Name, perFunc[f.Name]), as.Pos(), "reservations are only added by a report, and ended only by the chunk's rewrite or the file's completion", why)
				}
				return true
			})
		}
		if nAssign == 0 {
			c.Bad("unconfirmed/monotone/none", mark.Pos(), "found no assignment of the sidecar's reservation field")
		}
	}
	// (release)
	nc := 0
	for _, f := range p.FuncsIn("internal/transfer") {
		if f.Body == nil || strings.HasSuffix(p.Fset.Position(f.Pos()).Filename, "_test.go") {
			continue
		}
		info := f.Info()
		InspectNoLits(f.Body, func(m ast.Node) bool {
			call, ok := m.(*ast.CallExpr)
			if !ok || p.CalleeInfo(info, call) != confirm {
				return true
			}
			nc++
			guarded := false
			for _, is := range enclosingIfs(f.Body, call) {
				for _, a := range Implied(is.Cond, true) {
					if id, ok := ast.Unparen(a.E).(*ast.Ident); ok && a.Val {
						if t := info.TypeOf(id); t != nil && isBool(t) && (id.Name == "ok" || strings.Contains(strings.ToLower(id.Name), "ok") || strings.Contains(strings.ToLower(id.Name), "success")) {
							guarded = true
						}
					}
				}
			}
			c.Check(guarded, fmt.Sprintf("unconfirmed/release/%s#%d", f.Name, nc), call.Pos(), "the reservation ends only when the file was finalised successfully",
				"Sidecar.Confirm is called on a path that is not the successful finalisation of the file: the chunk under comparison is claimed on disk again although neither its repair nor the end of the file has arrived")
			return true
		})
	}
	if nc == 0 {
		c.Bad("unconfirmed/release/none", confirm.Pos(), "nothing calls Sidecar.Confirm: the chunk under comparison would stay unclaimed after a completed file")
	}
}

// isReservationField: e is a selector of a Sidecar field whose name says "unconfirmed".
func isReservationField(info *types.Info, e ast.Expr) bool {
	sel, ok := ast.Unparen(e).(*ast.SelectorExpr)
	if !ok || !strings.Contains(strings.ToLower(sel.Sel.Name), "unconfirmed") {
		return false
	}
	v, ok := info.ObjectOf(sel.Sel).(*types.Var)
	if !ok || !v.IsField() {
		return false
	}
	t := info.TypeOf(sel.X)
	return t != nil && strings.HasSuffix(strings.TrimPrefix(t.String(), "*"), "transfer.Sidecar")
}

// reservationIndex: e is computed from the reservation - the scalar field under its flag, or the
// value variable of a range over the field (every reservation) with nothing but bound checks around it.
func reservationIndex(f *FuncInfo, info *types.Info, at ast.Node, e ast.Expr) bool {
	res := false
	ast.Inspect(e, func(n ast.Node) bool {
		switch x := n.(type) {
		case *ast.SelectorExpr:
			if isReservationField(info, x) {
				if b, ok := info.TypeOf(x).Underlying().(*types.Basic); ok && b.Info()&types.IsInteger != 0 {
					for _, is := range enclosingIfs(f.Body, at) {
						if strings.Contains(strings.ToLower(types.ExprString(is.Cond)), "unconfirmed") {
							res = true
						}
					}
				}
			}
		case *ast.Ident:
			o := info.ObjectOf(x)
			if o == nil {
				return true
			}
			// a range value over the field?
			ast.Inspect(f.Body, func(m ast.Node) bool {
				rs, ok := m.(*ast.RangeStmt)
				if !ok || rs.Value == nil || !isReservationField(info, rs.X) || ObjOf(info, rs.Value) != o {
					return true
				}
				if !(rs.Body.Pos() <= at.Pos() && at.End() <= rs.Body.End()) {
					return true
				}
				// nothing leaves the loop early, and the ifs around the clearing only look at bounds
				clean := true
				ast.Inspect(rs.Body, func(k ast.Node) bool {
					switch b := k.(type) {
					case *ast.BranchStmt:
						clean = false
					case *ast.ReturnStmt:
						clean = false
					case *ast.IfStmt:
						if b.Pos() <= at.Pos() && at.End() <= b.End() {
							cs := types.ExprString(b.Cond)
							if !(strings.Contains(cs, "len(") || strings.Contains(cs, "TotalChunks")) || b.Else != nil {
								clean = false
							}
						}
					}
					return true
				})
				if clean {
					res = true
				}
				return true
			})
		}
		return true
	})
	return res
}

// dropsOnlyWrittenChunk: the assignment removes one element equal to an integer parameter of f, and every
// caller of f passes its own index parameter from a Mark* method of the sidecar.
func dropsOnlyWrittenChunk(p *Program, f *FuncInfo, info *types.Info, as *ast.AssignStmt) bool {
	var param types.Object
	for _, is := range enclosingIfs(f.Body, as) {
		be, ok := ast.Unparen(is.Cond).(*ast.BinaryExpr)
		if !ok || be.Op != token.EQL {
			continue
		}
		for _, side := range []ast.Expr{be.X, be.Y} {
			if o := ObjOf(info, side); o != nil {
				for k := 0; ; k++ {
					po := paramObj(f, k)
					if po == nil {
						break
					}
					if po == o {
						param = o
					}
				}
			}
		}
	}
	if param == nil {
		return false
	}
	// the new value is the old one without one element: append(field[:k], field[k+1:]...)
	if len(as.Rhs) != 1 {
		return false
	}
	call, ok := ast.Unparen(as.Rhs[0]).(*ast.CallExpr)
	if !ok || len(call.Args) != 2 || call.Ellipsis == token.NoPos {
		return false
	}
	for _, a := range call.Args {
		sl, ok := ast.Unparen(a).(*ast.SliceExpr)
		if !ok || !isReservationField(info, sl.X) {
			return false
		}
	}
	// callers
	which := -1
	for k := 0; ; k++ {
		po := paramObj(f, k)
		if po == nil {
			break
		}
		if po == param {
			which = k
		}
	}
	n := 0
	okAll := true
	for _, g := range p.FuncsIn("internal/transfer") {
		if g.Body == nil || strings.HasSuffix(p.Fset.Position(g.Pos()).Filename, "_test.go") {
			continue
		}
		ginfo := g.Info()
		ast.Inspect(g.Body, func(m ast.Node) bool {
			c2, ok := m.(*ast.CallExpr)
			if !ok || p.CalleeInfo(ginfo, c2) != f {
				return true
			}
			n++
			if which >= len(c2.Args) || !strings.Contains(g.Name, "MarkComplete") || ObjOf(ginfo, c2.Args[which]) == nil || ObjOf(ginfo, c2.Args[which]) != paramObj(g, 0) {
				okAll = false
			}
			return true
		})
	}
	return n > 0 && okAll
}

// paramObj: the object of the k-th parameter (names counted one by one) of f, nil when there is none.
func paramObj(f *FuncInfo, k int) types.Object {
	if f == nil || f.Type == nil || f.Type.Params == nil {
		return nil
	}
	n := 0
	for _, fl := range f.Type.Params.List {
		if len(fl.Names) == 0 {
			n++
			continue
		}
		for _, nm := range fl.Names {
			if n == k {
				return f.Info().ObjectOf(nm)
			}
			n++
		}
	}
	return nil
}


// enclosingRangeValue: the value variable of the innermost range statement of root that encloses n (nil when there is none).
func enclosingRangeValue(root ast.Node, n ast.Node, info *types.Info) types.Object {
	path := pathTo(root, n)
	for i := len(path) - 2; i >= 0; i-- {
		if rs, ok := path[i].(*ast.RangeStmt); ok && rs.Value != nil {
			return ObjOf(info, rs.Value)
		}
	}
	return nil
}

// rootObjDeep: the single variable an arithmetic expression is built from (conversions, / % >> by constants), or nil.
func rootObjDeep(info *types.Info, e ast.Expr) types.Object {
	e = ast.Unparen(e)
	switch v := e.(type) {
	case *ast.Ident:
		return ObjOf(info, v)
	case *ast.CallExpr:
		if tv, ok := info.Types[v.Fun]; ok && tv.IsType() && len(v.Args) == 1 {
			return rootObjDeep(info, v.Args[0])
		}
	case *ast.BinaryExpr:
		if tv, ok := info.Types[v.Y]; ok && tv.Value != nil {
			return rootObjDeep(info, v.X)
		}
	}
	return nil
}
