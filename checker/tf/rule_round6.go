package tf

// Rules added after seeding round 6 (DESIGN 8.12) and for the repairs F57b, F61-F64.

import (
	"fmt"
	"go/ast"
	"go/constant"
	"go/token"
	"go/types"
	"strings"
)

func init() {
	Register(&Rule{
		Name:  "R-VALIDATOR-ALL-ITEMS",
		Props: []string{"C01", "C18"},
		Min:   1,
		Doc: "the writer-side validity check of the manifest texts looks at every item: in a function that validates manifest.FileItem strings with unicode/utf8.Valid* inside a loop over the items, every path through the loop body reaches each of those checks (or returns) - " +
			"an early `continue` for a class of items (directories) lets their names through, and encoding/json rewrites what is not valid UTF-8: the receiver creates an empty directory under another name and both sides report success",
		Run: runValidatorAllItems,
	})
	Register(&Rule{
		Name:  "R-FRESH-FALLBACK",
		Props: []string{"C06", "C05", "C04", "C01"},
		Min:   1,
		Doc: "every location the receiver may load resume metadata from is cleared when the data file was not intact: for LoadOrCreateSidecarWithFallback the fallback path is removed in the same branch as the primary one, under exactly the condition under which the fallback is consulted " +
			"(with the guards disagreeing, metadata of the rooted layout survives a deleted or shortened data file, the file is recreated at full size and looks intact, and the recorded chunks are skipped)",
		Run: runFreshFallback,
	})
	Register(&Rule{
		Name:  "R-JOIN-AS-CHECKED",
		Props: []string{"C07"},
		Min:   1,
		Doc: "a name is joined into a path in the form in which it was checked: SidecarPath puts its root argument into filepath.Join unchanged apart from trimming path separators - any other rewriting (TrimSpace, case folding, Replace, Clean) after the callers compared the raw name with `..` " +
			"turns a name that passed the check (` ..`) into one that would not have",
		Run: runJoinAsChecked,
	})
	Register(&Rule{
		Name:  "R-ADMIT-BEFORE-CREATE",
		Props: []string{"C11"},
		Min:   2,
		Doc: "a refused join leaves no routing state: in Hub.AddIf the per-session maps are created (an assignment to Hub.sessions[..] / Hub.byPeerID[..]) only past the admission test (admit == nil, or admit(..) returned true) - created before it, a join that is refused for a session the hub does not hold " +
			"(the late join refused since F48) leaves empty maps that nothing ever collects",
		Run: runAdmitBeforeCreate,
	})
	Register(&Rule{
		Name:  "R-DECLARED-COUNT",
		Props: []string{"C15"},
		Min:   1,
		Doc: "a number the peer merely declares sizes nothing: in the receive-side code no make(..) takes a length or capacity that derives from a numeric field of the decoded manifest (file_count, folder_count, total_bytes, an item's size) - only len() of what was decoded does; " +
			"an 84-byte header with file_count 500000 would reserve 100 MiB",
		Run: runDeclaredCount,
	})
	Register(&Rule{
		Name:  "R-ACTIVE-BOUND",
		Props: []string{"C03"},
		Min:   1,
		Doc: "the sender keeps no more files open than it announced data streams: the loop that activates files is bounded by a value that derives from the number of streams that were opened (the one written into the DataStreams record) - " +
			"the receiver refuses a FileBegin beyond one open file per announced stream (F57), so a bound taken from the configuration fails every transfer to a peer that allowed fewer streams",
		Run: runActiveBound,
	})
	Register(&Rule{
		Name:  "R-NAME-REFUSALS",
		Props: []string{"C03"},
		Min:   3,
		Doc: "validateRelPath refuses only what it must: each of its error returns is guarded by one of the enumerated tests - longer than the limit, a `..` segment, filepath.IsAbs, empty. A further test (a drive-letter pattern, a character class) refuses names that are legal on the sending system, " +
			"and since the function gates every name on both sides such a tree cannot be transferred at all",
		Run: runNameRefusals,
	})
	Register(&Rule{
		Name:  "R-END-DELIVERED",
		Props: []string{"C03"},
		Min:   1,
		Doc: "the sender does not let go before the receiver has the End record (F61): in SendManifestMultiStream every successful return behind writeControlEnd passes a wait on the channel that the acknowledgement reader closes when the receiver ended its side of the control stream " +
			"(bounded by a timer and the context) - the caller closes the connection next, and for a tree without files nothing else has made the sender wait for the receiver",
		Run: runEndDelivered,
	})
	Register(&Rule{
		Name:  "R-CLOSE-RELEASES",
		Props: []string{"C03"},
		Min:   1,
		Doc: "a closed QUIC stream gives its slot of the peer's stream limit back (F62): QUICStream.Close cancels the receiving side of the underlying stream - the wrapper refuses reads after Close, so nothing else could ever consume the peer's FIN, " +
			"and the authentication stream would hold one of the --quic-max-incoming-streams slots for the life of the connection",
		Run: runCloseReleases,
	})
}

// ---------------------------------------------------------------------------

func runValidatorAllItems(c *Ctx) {
	p := c.P
	n := 0
	for _, f := range p.FuncsIn("internal/transfer") {
		if f.Body == nil || f.Decl == nil {
			continue
		}
		info := f.Info()
		InspectNoLits(f.Body, func(m ast.Node) bool {
			rs, ok := m.(*ast.RangeStmt)
			if !ok {
				return true
			}
			// range over <manifest>.Items
			sel, ok := ast.Unparen(rs.X).(*ast.SelectorExpr)
			if !ok || sel.Sel.Name != "Items" {
				return true
			}
			if t := info.TypeOf(sel.X); t == nil || !strings.HasSuffix(types.Unalias(t).String(), "pkg/manifest.Manifest") {
				return true
			}
			// the utf8.Valid* checks in the body
			var checks []*ast.CallExpr
			InspectNoLits(rs.Body, func(x ast.Node) bool {
				if call, ok := x.(*ast.CallExpr); ok {
					if fn := Callee(info, call); fn != nil && fn.Pkg() != nil && fn.Pkg().Path() == "unicode/utf8" && strings.HasPrefix(fn.Name(), "Valid") {
						checks = append(checks, call)
					}
				}
				return true
			})
			if len(checks) == 0 {
				return true
			}
			cfg := f.CFG()
			// entry of the loop body
			if len(rs.Body.List) == 0 {
				return true
			}
			// the first node of the flow graph that lies inside the body (an if statement is represented by its condition)
			var entry NodeRef
			cfg.EachNode(func(r NodeRef) {
				nd := r.Node()
				if nd.Pos() >= rs.Body.Pos() && nd.End() <= rs.Body.End() && (!entry.Valid() || nd.Pos() < entry.Node().Pos()) {
					entry = r
				}
			})
			if !entry.Valid() {
				return true
			}
			for i, chk := range checks {
				n++
				key := fmt.Sprintf("all-items/%s#%d", f.Name, i+1)
				target := cfg.Find(chk.Pos())
				if !target.Valid() {
					c.Unknown(key, chk.Pos(), "the validity check is not a node of the flow graph")
					continue
				}
				// every path from the body's entry reaches target, a return, or (bad) leaves the body another way
				ok := true
				seen := map[NodeRef]bool{}
				var walk func(r NodeRef)
				walk = func(r NodeRef) {
					if !ok || seen[r] {
						return
					}
					seen[r] = true
					b, i := r.B, r.I
					for ; i < len(b.Nodes); i++ {
						nd := b.Nodes[i]
						if b == target.B && i == target.I {
							return
						}
						if _, isRet := nd.(*ast.ReturnStmt); isRet {
							return
						}
						if nd.Pos() < rs.Body.Pos() || nd.End() > rs.Body.End() {
							ok = false // left the loop body (next iteration or past the loop) without the check
							return
						}
					}
					if len(b.Succs) == 0 {
						return
					}
					for _, s := range b.Succs {
						if !s.Live {
							continue
						}
						if len(s.Nodes) == 0 {
							// empty block: look through it; an empty block outside the body (loop head / exit) counts as leaving
							if s.Stmt != nil && (s.Stmt.Pos() < rs.Body.Pos() || s.Stmt.End() > rs.Body.End()) {
								ok = false
								return
							}
						}
						walk(NodeRef{s, 0})
					}
				}
				walk(entry)
				c.Check(ok, key, chk.Pos(), "every item reaches this validity check",
					"the loop over the manifest's items can skip `"+types.ExprString(chk)+"` for some items (a `continue` or a condition in front of it): what is skipped travels through encoding/json unchecked, "+
						"and a name that is not valid UTF-8 arrives rewritten - for an empty directory nothing else names it, the receiver creates it under the altered name and both sides report success")
			}
			return true
		})
	}
	if n == 0 {
		c.Bad("all-items/none", token.NoPos, "found no per-item UTF-8 validity check over a manifest's items in internal/transfer")
	}
}

// ---------------------------------------------------------------------------

func enclosingIfs(root ast.Node, target ast.Node) []*ast.IfStmt {
	var out []*ast.IfStmt
	ast.Inspect(root, func(m ast.Node) bool {
		if is, ok := m.(*ast.IfStmt); ok && is.Body.Pos() <= target.Pos() && target.End() <= is.Body.End() {
			out = append(out, is)
		}
		return true
	})
	return out
}

func runFreshFallback(c *Ctx) {
	p := c.P
	live := p.LiveFuncs()
	n := 0
	for _, f := range recvDataFuncs(p) {
		if !(live[f] || live[f.Root()]) || f.Body == nil {
			continue
		}
		info := f.Info()
		InspectNoLits(f.Body, func(m ast.Node) bool {
			call, ok := m.(*ast.CallExpr)
			if !ok || len(call.Args) < 2 {
				return true
			}
			if g := p.CalleeInfo(info, call); g == nil || g.Name != "transfer.LoadOrCreateSidecarWithFallback" {
				return true
			}
			n++
			key := fmt.Sprintf("fresh-fallback/%s#%d", f.Name, n)
			// the definition of the fallback that is not the empty string, and the condition it is made under
			var def ast.Expr
			for _, d := range resolveExprsAll(f, call.Args[1]) {
				if tv := info.Types[d]; tv.Value != nil {
					continue
				}
				def = d
			}
			if def == nil {
				c.OK(key, call.Pos(), "no fallback location is consulted")
				return true
			}
			guard := ""
			if ifs := enclosingIfs(f.Body, def); len(ifs) > 0 {
				guard = types.ExprString(ifs[len(ifs)-1].Cond)
			}
			defText := types.ExprString(def)
			// removals of that very path in front of the load
			found, agree := false, false
			var where token.Pos
			InspectNoLits(f.Body, func(x ast.Node) bool {
				rc, ok := x.(*ast.CallExpr)
				if !ok || !calleeIs(info, rc, "os", "Remove") || len(rc.Args) != 1 || rc.Pos() > call.Pos() {
					return true
				}
				if types.ExprString(rc.Args[0]) != defText && !samePathExpr(f, rc.Args[0], def) {
					return true
				}
				found = true
				where = rc.Pos()
				ifs := enclosingIfs(f.Body, rc)
				inner := ""
				if len(ifs) > 0 {
					inner = types.ExprString(ifs[len(ifs)-1].Cond)
				}
				// the innermost condition around the removal is the fallback's own guard (or the removal is unconditional inside the stale branch)
				if inner == guard || guard == "" {
					agree = true
				}
				// unconditional within the branch that removes the primary as well
				primaryText := types.ExprString(call.Args[0])
				for _, d := range resolveExprsAll(f, call.Args[0]) {
					primaryText = types.ExprString(d)
				}
				InspectNoLits(f.Body, func(y ast.Node) bool {
					pc, ok := y.(*ast.CallExpr)
					if ok && calleeIs(info, pc, "os", "Remove") && len(pc.Args) == 1 && (types.ExprString(pc.Args[0]) == primaryText || samePathExpr(f, pc.Args[0], call.Args[0])) {
						pifs := enclosingIfs(f.Body, pc)
						if len(pifs) == len(ifs) && len(ifs) > 0 && pifs[len(pifs)-1] == ifs[len(ifs)-1] {
							agree = true
						}
					}
					return true
				})
				return true
			})
			switch {
			case !found:
				c.Bad(key, call.Pos(), "the fallback location `"+defText+"` is loaded from but never cleared when the data file was not intact: its metadata survives a deleted or shortened data file, the file is recreated at full size and the recorded chunks are skipped")
			case !agree:
				c.Bad(key, where, "the fallback location `"+defText+"` is consulted under `"+guard+"` but cleared under another condition: where the two disagree (the application's layout), metadata of the rooted layout survives a deleted or shortened data file - "+
					"the file is recreated at full size, looks intact, the fallback is loaded and its recorded chunks are skipped: holes of zeros, success on both sides")
			default:
				c.OK(key, call.Pos(), "the fallback location is cleared under the condition it is consulted under")
			}
			return true
		})
	}
	if n == 0 {
		c.Bad("fresh-fallback/none", token.NoPos, "no live receiver loads resume metadata through LoadOrCreateSidecarWithFallback")
	}
}

// ---------------------------------------------------------------------------

func runJoinAsChecked(c *Ctx) {
	p := c.P
	f := p.Func("transfer.SidecarPath")
	if f == nil {
		c.MissingAnchor("transfer.SidecarPath")
		return
	}
	info := f.Info()
	params := map[types.Object]string{}
	for _, fl := range f.Type.Params.List {
		for _, nm := range fl.Names {
			if o := info.Defs[nm]; o != nil {
				params[o] = nm.Name
			}
		}
	}
	n := 0
	// every call in the body that takes a string parameter (or a local made from one) and returns a string
	allowed := func(call *ast.CallExpr) bool {
		fn := Callee(info, call)
		if fn == nil || fn.Pkg() == nil {
			return true // conversions, builtins
		}
		switch fn.Pkg().Path() + "." + fn.Name() {
		case "path/filepath.Join", "path/filepath.FromSlash", "path/filepath.ToSlash":
			return true
		case "strings.Trim", "strings.TrimLeft", "strings.TrimRight", "strings.TrimPrefix", "strings.TrimSuffix":
			// only a cutset / affix of path separators
			if len(call.Args) == 2 {
				s := types.ExprString(call.Args[1])
				return strings.Contains(s, "PathSeparator") || s == `"/"` || s == `"\\"` || s == "`/`"
			}
		}
		return false
	}
	derived := map[types.Object]bool{}
	for o := range params {
		derived[o] = true
	}
	mentionsDerived := func(e ast.Expr) bool {
		hit := false
		ast.Inspect(e, func(x ast.Node) bool {
			if id, ok := x.(*ast.Ident); ok && derived[info.Uses[id]] {
				hit = true
			}
			return true
		})
		return hit
	}
	// two passes so that locals defined from locals are followed
	for pass := 0; pass < 2; pass++ {
		InspectNoLits(f.Body, func(m ast.Node) bool {
			if as, ok := m.(*ast.AssignStmt); ok && len(as.Lhs) == len(as.Rhs) {
				for i, r := range as.Rhs {
					if mentionsDerived(r) {
						if o := ObjOf(info, as.Lhs[i]); o != nil {
							derived[o] = true
						}
					}
				}
			}
			return true
		})
	}
	InspectNoLits(f.Body, func(m ast.Node) bool {
		call, ok := m.(*ast.CallExpr)
		if !ok {
			return true
		}
		takes := false
		for _, a := range call.Args {
			if t := info.TypeOf(a); t != nil && mentionsDerived(a) {
				if b, ok := t.Underlying().(*types.Basic); ok && b.Kind() == types.String {
					takes = true
				}
			}
		}
		if !takes {
			return true
		}
		if tv, ok := info.Types[call.Fun]; ok && tv.IsType() {
			return true
		}
		n++
		key := fmt.Sprintf("join-as-checked/%s#%d", f.Name, n)
		c.Check(allowed(call), key, call.Pos(), "the name reaches the join as it was checked (separators trimmed at most)",
			"SidecarPath rewrites a name with `"+types.ExprString(call.Fun)+"` before it joins it into the path: the callers compared the raw name with `..` (resumeSidecarDirs, validateFilename), so a name such as ` ..` or `..\\n` passes their check and becomes `..` here - "+
				"the resume-metadata directory of the parent is read, and removed when the user chooses to overwrite")
		return true
	})
	if n == 0 {
		c.Bad("join-as-checked/none", f.Pos(), "SidecarPath no longer builds its path from its arguments")
	}
}

// ---------------------------------------------------------------------------

func runAdmitBeforeCreate(c *Ctx) {
	p := c.P
	f := p.Func("peers.(*Hub).AddIf")
	if f == nil {
		c.MissingAnchor("peers.(*Hub).AddIf")
		return
	}
	_, sessions, byPeer, _ := hubFields(c)
	if sessions == nil || byPeer == nil {
		return
	}
	info := f.Info()
	var admit types.Object
	for _, fl := range f.Type.Params.List {
		for _, nm := range fl.Names {
			if o := info.Defs[nm]; o != nil {
				if _, isSig := o.Type().Underlying().(*types.Signature); isSig && nm.Name == "admit" {
					admit = o
				}
			}
		}
	}
	if admit == nil {
		c.MissingAnchor("peers.(*Hub).AddIf: admit parameter")
		return
	}
	spec := &PassSpec{Name: "admit-before-create", SkipDefer: true, Vias: []Via{{Cond: func(g *FuncInfo, e ast.Expr) (string, bool, bool) {
		switch x := ast.Unparen(e).(type) {
		case *ast.BinaryExpr:
			if (x.Op == token.NEQ || x.Op == token.EQL) && ObjOf(info, x.X) == admit {
				if id, ok := ast.Unparen(x.Y).(*ast.Ident); ok && id.Name == "nil" {
					return "admitted", x.Op == token.EQL, true
				}
			}
		case *ast.CallExpr:
			if ObjOf(info, x.Fun) == admit {
				return "admitted", true, true
			}
		}
		return "", false, false
	}}}}
	n := 0
	f.CFG().EachNode(func(r NodeRef) {
		as, ok := r.Node().(*ast.AssignStmt)
		if !ok {
			return
		}
		for _, l := range as.Lhs {
			ix, ok := ast.Unparen(l).(*ast.IndexExpr)
			if !ok {
				continue
			}
			sel, ok := ast.Unparen(ix.X).(*ast.SelectorExpr)
			if !ok {
				continue
			}
			fv, _ := info.Uses[sel.Sel].(*types.Var)
			if fv != sessions && fv != byPeer {
				continue
			}
			n++
			c.Check(spec.Passed(f, r, "admitted"), fmt.Sprintf("admit-before-create/%s#%d", fv.Name(), n), as.Pos(), "the per-session map is created only past the admission test",
				"Hub.AddIf creates the per-session map Hub."+fv.Name()+"[session] before the admission test has admitted the peer: a join that is refused for a session the hub does not hold (a late join after the session ended) leaves empty maps behind, "+
					"and nothing collects them - the refused join gets an empty remove function, so routing state leaks for every such join")
		}
	})
	if n < 2 {
		c.Bad("admit-before-create/none", f.Pos(), fmt.Sprintf("found %d creations of per-session maps in Hub.AddIf, expected sessions and byPeerID", n))
	}
}

// ---------------------------------------------------------------------------

func runDeclaredCount(c *Ctx) {
	p := c.P
	declared := map[*types.Var]bool{}
	for _, tn := range []string{"Manifest", "FileItem"} {
		if t, _ := p.LookupObj("pkg/manifest", tn).(*types.TypeName); t != nil {
			if st, ok := t.Type().Underlying().(*types.Struct); ok {
				for i := 0; i < st.NumFields(); i++ {
					if isIntType(st.Field(i).Type()) {
						declared[st.Field(i)] = true
					}
				}
			}
		}
	}
	if len(declared) == 0 {
		c.MissingAnchor("manifest.Manifest numeric fields")
		return
	}
	n := 0
	for _, f := range recvDataFuncs(p) {
		if f.Body == nil {
			continue
		}
		info := f.Info()
		k := 0
		InspectNoLits(f.Body, func(m ast.Node) bool {
			call, ok := m.(*ast.CallExpr)
			if !ok || len(call.Args) < 2 {
				return true
			}
			id, ok := ast.Unparen(call.Fun).(*ast.Ident)
			if !ok || id.Name != "make" {
				return true
			}
			if _, isB := info.Uses[id].(*types.Builtin); !isB {
				return true
			}
			n++
			k++
			key := fmt.Sprintf("declared-count/%s#%d", f.Name, k)
			bad := ""
			for _, a := range call.Args[1:] {
				for _, e := range append([]ast.Expr{a}, resolveExprs(f, a, 2)...) {
					ast.Inspect(e, func(x ast.Node) bool {
						// len(..) of decoded data is fine
						if c2, ok := x.(*ast.CallExpr); ok {
							if fid, ok := ast.Unparen(c2.Fun).(*ast.Ident); ok && (fid.Name == "len" || fid.Name == "cap") {
								return false
							}
						}
						if sel, ok := x.(*ast.SelectorExpr); ok {
							if fv, ok := info.Uses[sel.Sel].(*types.Var); ok && declared[fv] {
								bad = types.ExprString(sel)
							}
						}
						return true
					})
				}
			}
			if bad != "" {
				c.Bad(key, call.Pos(), "make(..) is sized by `"+bad+"`, a number the peer declares in its manifest and that nothing compares with what was actually sent: a header of under a hundred bytes with file_count 500000 makes the receiver reserve 100 MiB, a count near 2^31 ends the process")
			} else {
				c.OKTrivial(key, call.Pos(), "not sized by a declared manifest number")
			}
			return true
		})
	}
	if n == 0 {
		c.Bad("declared-count/none", token.NoPos, "found no sized make(..) in the receive-side code")
	}
}

// ---------------------------------------------------------------------------

func runActiveBound(c *Ctx) {
	p := c.P
	send := p.Func("transfer.SendManifestMultiStream")
	if send == nil {
		c.MissingAnchor("transfer.SendManifestMultiStream")
		return
	}
	sinfo := send.Info()
	// the variable announced in the DataStreams record
	var announced types.Object
	InspectNoLits(send.Body, func(m ast.Node) bool {
		if cl, ok := m.(*ast.CompositeLit); ok {
			if t := sinfo.TypeOf(cl); t != nil && strings.HasSuffix(t.String(), "transfer.DataStreams") {
				for _, el := range cl.Elts {
					if kv, ok := el.(*ast.KeyValueExpr); ok {
						if k, ok := kv.Key.(*ast.Ident); ok && k.Name == "Count" {
							announced = ObjOf(sinfo, StripConv(sinfo, kv.Value))
						}
					}
				}
			}
		}
		return true
	})
	// the record may also carry len(<slice of opened streams>) directly
	var announcedSlice types.Object
	if announced == nil {
		InspectNoLits(send.Body, func(m ast.Node) bool {
			if cl, ok := m.(*ast.CompositeLit); ok {
				if t := sinfo.TypeOf(cl); t != nil && strings.HasSuffix(t.String(), "transfer.DataStreams") {
					for _, el := range cl.Elts {
						if kv, ok := el.(*ast.KeyValueExpr); ok {
							if k, ok := kv.Key.(*ast.Ident); ok && k.Name == "Count" {
								if call, ok := ast.Unparen(StripConv(sinfo, kv.Value)).(*ast.CallExpr); ok && len(call.Args) == 1 {
									if id, ok := ast.Unparen(call.Fun).(*ast.Ident); ok && id.Name == "len" {
										announcedSlice = ObjOf(sinfo, call.Args[0])
									}
								}
							}
						}
					}
				}
			}
			return true
		})
	}
	if announced == nil && announcedSlice == nil {
		c.Unknown("active-bound/announced", send.Pos(), "cannot identify the value written into the DataStreams record")
		return
	}
	lenOfAnnounced := func(h *FuncInfo, e ast.Expr) bool {
		call, ok := ast.Unparen(StripConv(h.Info(), e)).(*ast.CallExpr)
		if !ok || len(call.Args) != 1 {
			return false
		}
		id, ok := ast.Unparen(call.Fun).(*ast.Ident)
		return ok && id.Name == "len" && announcedSlice != nil && ObjOf(h.Info(), call.Args[0]) == announcedSlice
	}
	announcedName := ""
	if announced != nil {
		announcedName = announced.Name()
	} else {
		announcedName = "len(" + announcedSlice.Name() + ")"
	}
	n := 0
	for _, f := range allKids(send) {
		info := f.Info()
		InspectNoLits(f.Body, func(m ast.Node) bool {
			fs, ok := m.(*ast.ForStmt)
			if !ok || fs.Cond == nil {
				return true
			}
			be, ok := ast.Unparen(fs.Cond).(*ast.BinaryExpr)
			if !ok || be.Op != token.LSS {
				return true
			}
			call, ok := ast.Unparen(be.X).(*ast.CallExpr)
			if !ok || len(call.Args) != 1 {
				return true
			}
			if id, ok := ast.Unparen(call.Fun).(*ast.Ident); !ok || id.Name != "len" {
				return true
			}
			// len(<slice of *sendFileState>)
			t := info.TypeOf(call.Args[0])
			if t == nil || !strings.Contains(t.String(), "sendFileState") {
				return true
			}
			// the loop activates files: its body appends to that slice
			appends := false
			InspectNoLits(fs.Body, func(x ast.Node) bool {
				if as, ok := x.(*ast.AssignStmt); ok && len(as.Lhs) == 1 && types.ExprString(as.Lhs[0]) == types.ExprString(call.Args[0]) {
					appends = true
				}
				return true
			})
			if !appends {
				return true
			}
			n++
			key := fmt.Sprintf("active-bound/%s#%d", f.Name, n)
			// the bound is the announced variable, or one of the two is a plain copy of the other
			same := announced != nil && ObjOf(info, be.Y) == announced
			if announced == nil {
				// announced as len(S): the bound is len(S) itself or a variable with a definition len(S)
				same = lenOfAnnounced(f, be.Y)
				if bv, ok := ObjOf(info, be.Y).(*types.Var); ok && !same {
					if own := owningFunc(f, bv); own != nil {
						for _, d := range allDefs(own, bv) {
							if lenOfAnnounced(own, d) {
								same = true
							}
						}
					}
				}
			}
			if bo := ObjOf(info, be.Y); bo != nil && !same && announced != nil {
				ao, _ := announced.(*types.Var)
				if ao != nil {
					if own := owningFunc(send, ao); own != nil {
						for _, d := range allDefs(own, ao) {
							if ObjOf(own.Info(), StripConv(own.Info(), d)) == bo {
								same = true
							}
						}
					}
				}
				if bv, ok := bo.(*types.Var); ok {
					if own := owningFunc(f, bv); own != nil {
						for _, d := range allDefs(own, bv) {
							if ObjOf(own.Info(), StripConv(own.Info(), d)) == announced {
								same = true
							}
						}
					}
				}
			}
			c.Check(same, key, fs.Pos(), "files are activated up to the number of streams that were announced",
				"the sender activates files while `"+types.ExprString(fs.Cond)+"`, a bound that is not the number of data streams it opened and announced (`"+announcedName+"`): against a peer that allowed fewer streams than configured it keeps more files open than it announced streams, "+
					"the receiver refuses the FileBegin beyond one open file per announced stream, and both sides fail")
			return true
		})
	}
	if n == 0 {
		c.Bad("active-bound/none", send.Pos(), "found no loop that activates files up to a bound in the sender")
	}
}

// ---------------------------------------------------------------------------

func runNameRefusals(c *Ctx) {
	p := c.P
	f := p.Func("transfer.validateRelPath")
	if f == nil {
		c.MissingAnchor("transfer.validateRelPath")
		return
	}
	info := f.Info()
	var param types.Object
	if ps := f.Type.Params.List; len(ps) > 0 && len(ps[0].Names) > 0 {
		param = info.Defs[ps[0].Names[0]]
	}
	accepted := func(cond ast.Expr) (string, bool) {
		atoms := Implied(cond, true)
		if len(atoms) == 0 {
			atoms = []Atom{{cond, true}}
		}
		what := ""
		for _, a := range atoms {
			if !a.Val {
				return types.ExprString(cond), false
			}
			switch x := ast.Unparen(a.E).(type) {
			case *ast.BinaryExpr:
				switch {
				case x.Op == token.GTR && strings.HasPrefix(types.ExprString(x.X), "len("):
					what = "longer than the limit"
				case x.Op == token.EQL:
					if tv := info.Types[x.Y]; tv.Value != nil && tv.Value.Kind() == constant.String {
						switch constant.StringVal(tv.Value) {
						case "..":
							what = "`..` segment"
						case "":
							what = "empty"
						default:
							return types.ExprString(cond), false
						}
					} else {
						return types.ExprString(cond), false
					}
				default:
					return types.ExprString(cond), false
				}
			case *ast.CallExpr:
				if calleeIs(info, x, "path/filepath", "IsAbs") && len(x.Args) == 1 && ObjOf(info, x.Args[0]) == param {
					what = "absolute"
				} else if nulOnly(info, x) {
					what = "a NUL byte" // no file system has such names: refusing them refuses nothing that exists
				} else {
					return types.ExprString(cond), false
				}
			default:
				return types.ExprString(cond), false
			}
		}
		return what, what != ""
	}
	n := 0
	InspectNoLits(f.Body, func(m ast.Node) bool {
		ret, ok := m.(*ast.ReturnStmt)
		if !ok || len(ret.Results) != 1 {
			return true
		}
		if tv := info.Types[ret.Results[0]]; tv.IsNil() {
			return true
		}
		n++
		key := fmt.Sprintf("refusal/return#%d", n)
		ifs := enclosingIfs(f.Body, ret)
		if len(ifs) == 0 {
			c.Bad(key, ret.Pos(), "validateRelPath refuses unconditionally")
			return true
		}
		what, ok := accepted(ifs[len(ifs)-1].Cond)
		c.Check(ok, key, ret.Pos(), "refusal for an enumerated reason ("+what+")",
			"validateRelPath refuses a path under `"+what+"`, which is none of the enumerated reasons (too long, a `..` segment, absolute on this system, empty): names that are legal on the sending system (`a:b.txt`, a directory `C:`) are refused, "+
				"and because this function gates every name on both sides a tree that holds one cannot be transferred")
		return true
	})
	if n < 3 {
		c.Bad("refusal/none", f.Pos(), fmt.Sprintf("validateRelPath has %d refusals, expected at least the enumerated ones", n))
	}
}

// ---------------------------------------------------------------------------

func runEndDelivered(c *Ctx) {
	p := c.P
	send := p.Func("transfer.SendManifestMultiStream")
	if send == nil {
		c.MissingAnchor("transfer.SendManifestMultiStream")
		return
	}
	info := send.Info()
	// channels closed (deferred) inside a goroutine literal that reads control messages
	doneCh := map[types.Object]bool{}
	for _, k := range send.Kids {
		reads, closes := false, types.Object(nil)
		ast.Inspect(k.Body, func(m ast.Node) bool {
			if call, ok := m.(*ast.CallExpr); ok {
				if g := p.CalleeInfo(k.Info(), call); g != nil && g.Name == "transfer.readControlMessage" {
					reads = true
				}
				if id, ok := ast.Unparen(call.Fun).(*ast.Ident); ok && id.Name == "close" && len(call.Args) == 1 {
					closes = ObjOf(k.Info(), call.Args[0])
				}
			}
			return true
		})
		if reads && closes != nil {
			doneCh[closes] = true
		}
	}
	cfg := send.CFG()
	var endRef NodeRef
	cfg.Calls(func(r NodeRef, call *ast.CallExpr) {
		if g := p.CalleeInfo(info, call); g != nil && g.Name == "transfer.writeControlEnd" {
			endRef = r
		}
	})
	if !endRef.Valid() {
		c.Bad("end-delivered/none", send.Pos(), "SendManifestMultiStream does not write the End record")
		return
	}
	isWait := func(n ast.Node) bool {
		hit := false
		ast.Inspect(n, func(x ast.Node) bool {
			if u, ok := x.(*ast.UnaryExpr); ok && u.Op == token.ARROW && doneCh[ObjOf(info, u.X)] {
				hit = true
			}
			return true
		})
		return hit
	}
	// the select that holds the wait: go/cfg evaluates every clause's communication in the head block
	n := 0
	for _, b := range cfg.Blocks {
		ret, ok := IsReturnExit(b)
		if !ok || !b.Live || len(ret.Results) != 1 {
			continue
		}
		if tv := info.Types[ret.Results[0]]; !tv.IsNil() {
			continue
		}
		ref := NodeRef{b, len(b.Nodes) - 1}
		if !cfg.Reaches(endRef, ref) {
			continue
		}
		n++
		// every path from the End write to this return passes a wait on the reader's done channel, or the test that the tree has files
		// (`<number of files> == 0` false): their acknowledgements have made the sender wait for the receiver, which takes the close of
		// the connection for the end once every file is complete
		okAll := true
		hasFiles := func(nd ast.Node) bool { return false }
		_ = hasFiles
		waited := allPathsHitUntilEdge(cfg, endRef, isWait, func(cond ast.Expr, val bool) bool {
			for _, a := range Implied(cond, val) {
				be, ok := ast.Unparen(a.E).(*ast.BinaryExpr)
				if !ok {
					continue
				}
				v, isVar := ObjOf(info, be.X).(*types.Var)
				if !isVar {
					continue
				}
				tv := info.Types[be.Y]
				if tv.Value == nil || constant.Sign(tv.Value) != 0 {
					continue
				}
				// the variable counts the files: its definition is len(..)
				counts := false
				if own := owningFunc(send, v); own != nil {
					for _, d := range allDefs(own, v) {
						if call, ok := ast.Unparen(d).(*ast.CallExpr); ok {
							if id, ok := ast.Unparen(call.Fun).(*ast.Ident); ok && id.Name == "len" {
								counts = true
							}
						}
					}
				}
				if !counts {
					continue
				}
				if (be.Op == token.EQL && !a.Val) || (be.Op == token.GTR && a.Val) || (be.Op == token.NEQ && a.Val) {
					return true
				}
			}
			return false
		}, ret)
		if !waited {
			okAll = false
		}
		c.Check(okAll && len(doneCh) > 0, fmt.Sprintf("end-delivered/return#%d", n), ret.Pos(), "success is returned only past the wait for the receiver to end its side of the control stream",
			"SendManifestMultiStream returns success right after writing the End record, without waiting for the receiver to have read it: the application closes the connection next, quic-go discards what the receiver has not read yet, "+
				"and for a tree without files (directories only, or empty) nothing else made the sender wait - the receiver fails with 'Application error 0x0' while the sender reports success")
	}
	if n == 0 {
		c.Bad("end-delivered/none", send.Pos(), "no successful return behind the End record")
	}
}

// allPathsHitUntil: every path from `from` that reaches the return statement ret passes a node satisfying good.
func allPathsHitUntil(c *CFG, from NodeRef, good func(ast.Node) bool, ret *ast.ReturnStmt) bool {
	ok := true
	seen := map[NodeRef]bool{}
	var walk func(r NodeRef)
	walk = func(r NodeRef) {
		if !ok || seen[r] {
			return
		}
		seen[r] = true
		b := r.B
		for i := r.I; i < len(b.Nodes); i++ {
			nd := b.Nodes[i]
			if good(nd) {
				return
			}
			if nd == ast.Node(ret) {
				ok = false
				return
			}
		}
		for _, s := range b.Succs {
			if s.Live {
				walk(NodeRef{s, 0})
			}
		}
	}
	walk(NodeRef{from.B, from.I + 1})
	return ok
}

// ---------------------------------------------------------------------------

func runCloseReleases(c *Ctx) {
	p := c.P
	f := p.Func("transferquic.(*QUICStream).Close")
	if f == nil {
		c.MissingAnchor("transferquic.(*QUICStream).Close")
		return
	}
	info := f.Info()
	cfg := f.CFG()
	var cancel, closeRef NodeRef
	cfg.Calls(func(r NodeRef, call *ast.CallExpr) {
		sel, ok := ast.Unparen(call.Fun).(*ast.SelectorExpr)
		if !ok {
			return
		}
		fn := Callee(info, call)
		if fn == nil || fn.Pkg() == nil || !strings.HasSuffix(fn.Pkg().Path(), "quic-go") {
			return
		}
		switch sel.Sel.Name {
		case "CancelRead":
			cancel = r
		case "Close":
			closeRef = r
		}
	})
	if !closeRef.Valid() {
		c.Bad("close-releases/close", f.Pos(), "QUICStream.Close no longer closes the underlying stream")
		return
	}
	c.Check(cancel.Valid() && (cfg.Dominates(cancel, closeRef) || allPathsHit(cfg, closeRef, func(n ast.Node) bool { return n == cancel.Node() }, func(ast.Node) bool { return false })),
		"close-releases/cancel-read", closeRef.Node().Pos(), "Close cancels the receiving side of the underlying stream",
		"QUICStream.Close closes the sending side only: the wrapper refuses reads after Close, so the peer's FIN is never consumed and the incoming stream keeps its slot of MaxIncomingStreams for the life of the connection - "+
			"the receiver's side of the authentication stream is closed that way, and with --quic-max-incoming-streams 2 authentication plus control leave no room for a data stream")
}

func init() {
	Register(&Rule{
		Name:  "R-LEGACY-READ-ERR",
		Props: []string{"C02"},
		Min:   1,
		Doc: "the single-stream chunk receiver does not report a stripe as received past a failed read (F65): the reader goroutine reports its error and closes the chunk channel in one go, so behind the label the main loop leaves through, " +
			"the error channel is looked at again before the successful return - otherwise a data stream that ended in the middle of a file is acknowledged (with resume metadata attached nothing else compares what arrived with the file size)",
		Run: runLegacyReadErr,
	})
}

func runLegacyReadErr(c *Ctx) {
	p := c.P
	f := p.Func("transfer.receiveFileChunksWindowed")
	if f == nil {
		c.MissingAnchor("transfer.receiveFileChunksWindowed")
		return
	}
	info := f.Info()
	// the channel the reader's error travels on: sent to inside a nested literal, with a value of type error
	var errCh types.Object
	for _, k := range allKids(f) {
		if k == f {
			continue
		}
		ast.Inspect(k.Body, func(m ast.Node) bool {
			if ss, ok := m.(*ast.SendStmt); ok {
				if t := k.Info().TypeOf(ss.Value); t != nil && isErrorType(t) {
					if o := ObjOf(k.Info(), ss.Chan); o != nil && strings.Contains(strings.ToLower(o.Name()), "read") {
						errCh = o
					}
				}
			}
			return true
		})
	}
	var label *ast.LabeledStmt
	InspectNoLits(f.Body, func(m ast.Node) bool {
		if ls, ok := m.(*ast.LabeledStmt); ok && label == nil {
			label = ls
		}
		return true
	})
	if errCh == nil || label == nil {
		c.Unknown("legacy-read-err/anchors", f.Pos(), "cannot find the reader's error channel / the label the chunk loop leaves through")
		return
	}
	n := 0
	InspectNoLits(f.Body, func(m ast.Node) bool {
		ret, ok := m.(*ast.ReturnStmt)
		if !ok || len(ret.Results) != 2 || ret.Pos() < label.Pos() {
			return true
		}
		if tv := info.Types[ret.Results[1]]; !tv.IsNil() {
			return true
		}
		n++
		looked := false
		InspectNoLits(f.Body, func(x ast.Node) bool {
			if u, ok := x.(*ast.UnaryExpr); ok && u.Op == token.ARROW && ObjOf(info, u.X) == errCh && u.Pos() > label.Pos() && u.Pos() < ret.Pos() {
				looked = true
			}
			return true
		})
		c.Check(looked, fmt.Sprintf("legacy-read-err/return#%d", n), ret.Pos(), "the reader's error is collected between the loop's exit and the successful return",
			"receiveFileChunksWindowed returns success behind `"+label.Label.Name+":` without looking at the reader's error channel again: the reader reports a failed read and closes the chunk channel together, the loop's select can take the closed channel first, "+
				"and a data stream that ended in the middle of a file is acknowledged as received - the legacy multi-stream receiver then returns nil with chunks missing")
		return true
	})
	if n == 0 {
		c.Bad("legacy-read-err/none", f.Pos(), "receiveFileChunksWindowed has no successful return behind its exit label")
	}
}

// nulOnly: strings.Contains / ContainsRune / IndexByte ... whose needle is the NUL byte alone.
func nulOnly(info *types.Info, call *ast.CallExpr) bool {
	fn := Callee(info, call)
	if fn == nil || fn.Pkg() == nil || fn.Pkg().Path() != "strings" || len(call.Args) != 2 {
		return false
	}
	tv := info.Types[call.Args[1]]
	if tv.Value == nil {
		return false
	}
	switch tv.Value.Kind() {
	case constant.String:
		return constant.StringVal(tv.Value) == "\x00"
	case constant.Int:
		v, ok := constant.Int64Val(tv.Value)
		return ok && v == 0
	}
	return false
}

// allPathsHitUntilEdge is allPathsHitUntil with a second way to be satisfied: taking a conditional edge on which goodEdge(cond, value) holds.
func allPathsHitUntilEdge(c *CFG, from NodeRef, good func(ast.Node) bool, goodEdge func(cond ast.Expr, val bool) bool, ret *ast.ReturnStmt) bool {
	ok := true
	seen := map[NodeRef]bool{}
	var walk func(r NodeRef)
	walk = func(r NodeRef) {
		if !ok || seen[r] {
			return
		}
		seen[r] = true
		b := r.B
		for i := r.I; i < len(b.Nodes); i++ {
			nd := b.Nodes[i]
			if good(nd) {
				return
			}
			if nd == ast.Node(ret) {
				ok = false
				return
			}
		}
		cond, t, f, isCond := CondEdges(b)
		for _, s := range b.Succs {
			if !s.Live {
				continue
			}
			if isCond && ((s == t && goodEdge(cond, true)) || (s == f && goodEdge(cond, false))) {
				continue
			}
			walk(NodeRef{s, 0})
		}
	}
	walk(NodeRef{from.B, from.I + 1})
	return ok
}
