package tf

import (
	"go/constant"
	"fmt"
	"go/ast"
	"go/token"
	"go/types"
	"strings"
)

// R-CRC, R-WTM, R-ATOMIC-REPLACE, R-LOAD-VALID: the write/mark/persist ordering of the receiver
// and the acceptance conditions of resume metadata.

func init() {
	Register(&Rule{
		Name:  "R-CRC",
		Props: []string{"C01", "C02", "C04", "C05"},
		Min:   2,
		Doc: "every positional write of received chunk data (writeAtWithTimeout / (*os.File).WriteAt in the receive functions) is reachable only through the equal branch of " +
			"crc32.Checksum(<the same buffer slice>, table) == <wire CRC>; the fact is invalidated when the buffer/chunk variable is reassigned (next frame)",
		Run: runCRC,
	})
	Register(&Rule{
		Name:  "R-WTM",
		Props: []string{"C04", "C05", "C02", "C01"},
		Min:   2,
		Doc: "every call that sets a completion bit (any function from which (*Bitmap).Set is reachable: MarkComplete, MarkCompleteIfUnset, markChunkComplete, ...) is reachable " +
			"only through the success edge (error tested nil) of a positional write of the data file, per loop iteration; the chunk index passed to the mark is the one the write offset was computed from",
		Run: runWTM,
	})
	Register(&Rule{
		Name:  "R-ATOMIC-REPLACE",
		Props: []string{"C05", "C04"},
		Min:   5,
		Doc: "every filesystem mutation in internal/transfer whose path derives from Sidecar.Path / SidecarPath(...) is one of MkdirAll(Dir(path)), WriteFile(path+suffix), " +
			"Rename(path+suffix, path), Remove(path); the rename must-pass a checked WriteFile of the same temp name; dirty=false must-pass the checked rename; nothing creates/opens/writes the sidecar path in place",
		Run: runAtomicReplace,
	})
	Register(&Rule{
		Name:  "R-LOAD-VALID",
		Props: []string{"C06", "C05", "C04", "C01", "C19"},
		Min:   7,
		Doc: "LoadSidecar's success return must-pass the magic compare, the version compare, the CRC32C compare over the body and a checked BitmapFromBytes; every error return yields a nil sidecar; " +
			"in LoadOrCreateSidecar* a loaded sidecar is returned only through equality of ChunkSize, FileSize and FileID with the caller's arguments (or after being discarded)",
		Run: runLoadValid,
	})
}

// rootObj returns the variable at the root of a selector/index/slice chain.
func rootObj(info *types.Info, e ast.Expr) types.Object {
	for {
		switch v := ast.Unparen(e).(type) {
		case *ast.SelectorExpr:
			e = v.X
		case *ast.IndexExpr:
			e = v.X
		case *ast.SliceExpr:
			e = v.X
		case *ast.StarExpr:
			e = v.X
		case *ast.UnaryExpr:
			e = v.X
		case *ast.CallExpr:
			if tv, ok := info.Types[v.Fun]; ok && tv.IsType() && len(v.Args) == 1 {
				e = v.Args[0]
				continue
			}
			return nil
		case *ast.Ident:
			return ObjOf(info, v)
		default:
			return nil
		}
	}
}

// goLitBindings maps parameters of a literal invoked as `go func(p...){...}(args...)` (or called directly) to argument expressions.
func goLitBindings(f *FuncInfo) map[types.Object]ast.Expr {
	out := map[types.Object]ast.Expr{}
	if f.Lit == nil || f.Parent == nil {
		return out
	}
	var call *ast.CallExpr
	ast.Inspect(f.Parent.Body, func(n ast.Node) bool {
		if c, ok := n.(*ast.CallExpr); ok && ast.Unparen(c.Fun) == ast.Expr(f.Lit) {
			call = c
		}
		return call == nil
	})
	if call == nil {
		return out
	}
	i := 0
	for _, fld := range f.Type.Params.List {
		for _, nm := range fld.Names {
			if i < len(call.Args) {
				out[f.Info().Defs[nm]] = call.Args[i]
			}
			i++
		}
	}
	return out
}

// recvFuncs: receive-side functions of internal/transfer that handle chunk data (declared + closures).
func recvDataFuncs(p *Program) []*FuncInfo {
	var out []*FuncInfo
	for _, f := range p.FuncsIn("internal/transfer") {
		root := f.Root().Name
		if strings.HasPrefix(root, "transfer.Recv") || strings.HasPrefix(root, "transfer.receive") || strings.HasPrefix(root, "transfer.recv") {
			out = append(out, f)
		}
	}
	return out
}

func isDataWrite(p *Program, info *types.Info, call *ast.CallExpr) (data, off ast.Expr, ok bool) {
	if fi := p.CalleeInfo(info, call); fi != nil && fi.Name == "transfer.writeAtWithTimeout" && len(call.Args) >= 4 {
		return call.Args[2], call.Args[3], true
	}
	if calleeIs(info, call, "os", "File.WriteAt") && len(call.Args) == 2 {
		return call.Args[0], call.Args[1], true
	}
	return nil, nil, false
}

func runCRC(c *Ctx) {
	p := c.P
	spec := &PassSpec{Name: "crc"}
	crcCmp := func(f *FuncInfo, e ast.Expr) (data ast.Expr, passVal bool, ok bool) {
		be, isB := ast.Unparen(e).(*ast.BinaryExpr)
		if !isB || (be.Op != token.EQL && be.Op != token.NEQ) {
			return nil, false, false
		}
		for _, side := range []ast.Expr{be.X, be.Y} {
			call, isC := ast.Unparen(side).(*ast.CallExpr)
			if isC && calleeIs(f.Info(), call, "hash/crc32", "Checksum") && len(call.Args) == 2 {
				return call.Args[0], be.Op == token.EQL, true
			}
		}
		return nil, false, false
	}
	spec.Vias = []Via{
		{Cond: func(f *FuncInfo, e ast.Expr) (string, bool, bool) {
			d, pv, ok := crcCmp(f, e)
			if !ok {
				return "", false, false
			}
			root := rootObj(f.Info(), d)
			if root == nil {
				return "", false, false
			}
			return fmt.Sprintf("crc:%d:%s", spec.objID(root), types.ExprString(d)), pv, true
		}},
		{Cond: func(f *FuncInfo, e ast.Expr) (string, bool, bool) {
			d, pv, ok := crcCmp(f, e)
			if !ok {
				return "", false, false
			}
			root := rootObj(f.Info(), d)
			if root == nil {
				return "", false, false
			}
			return fmt.Sprintf("crc*:%d:", spec.objID(root)), pv, true
		}},
	}
	spec.KillMatch = func(f *FuncInfo, n ast.Node, id string) bool {
		for _, o := range AssignedObjs(f.Info(), n) {
			if strings.HasPrefix(id, fmt.Sprintf("crc:%d:", spec.objID(o))) || strings.HasPrefix(id, fmt.Sprintf("crc*:%d:", spec.objID(o))) {
				return true
			}
		}
		// select comm `x, ok := <-ch` appears as Lhs ident nodes in go/cfg
		if id2, ok := n.(*ast.Ident); ok {
			if o := ObjOf(f.Info(), id2); o != nil {
				if strings.HasPrefix(id, fmt.Sprintf("crc:%d:", spec.objID(o))) || strings.HasPrefix(id, fmt.Sprintf("crc*:%d:", spec.objID(o))) {
					return true
				}
			}
		}
		return false
	}
	for _, f := range recvDataFuncs(p) {
		info := f.Info()
		n := 0
		f.CFG().Calls(func(r NodeRef, call *ast.CallExpr) {
			data, _, ok := isDataWrite(p, info, call)
			if !ok {
				return
			}
			n++
			key := fmt.Sprintf("write/%s#%d", f.Name, n)
			c.Stat("data_writes", 1)
			root := rootObj(info, data)
			if root == nil {
				c.Unknown(key, call.Pos(), "cannot identify the buffer variable of the written slice "+types.ExprString(data))
				return
			}
			bound := fmt.Sprintf("crc:%d:%s", spec.objID(root), types.ExprString(data))
			if spec.Passed(f, r, bound) {
				c.OK(key, call.Pos(), "write of "+types.ExprString(data)+" dominated by the equal branch of its CRC32C comparison")
				return
			}
			// closure parameter bound to an outer value whose CRC was compared before the closure was started
			if arg, ok := goLitBindings(f)[root]; ok {
				if oroot := rootObj(f.Parent.Info(), arg); oroot != nil {
					star := fmt.Sprintf("crc*:%d:", spec.objID(oroot))
					if spec.Passed(f, r, star) {
						c.OK(key, call.Pos(), fmt.Sprintf("write in a goroutine started (with %s = %s) after the equal branch of the CRC32C comparison on %s", root.Name(), types.ExprString(arg), oroot.Name()))
						return
					}
				}
			}
			c.Bad(key, call.Pos(), "received bytes "+types.ExprString(data)+" are written to the output file on a path that does not pass a successful CRC32C comparison of that buffer",
				"facts here: "+strings.Join(spec.PassedList(f, r), ", "))
		})
	}
}

// markerFuncs: functions of internal/transfer from which (*Bitmap).Set is reachable by static calls.
func markerFuncs(p *Program) map[*FuncInfo]bool {
	set := p.Func("transfer.(*Bitmap).Set")
	out := map[*FuncInfo]bool{}
	if set == nil {
		return out
	}
	out[set] = true
	for changed := true; changed; {
		changed = false
		for _, f := range p.FuncsIn("internal/transfer") {
			if out[f] || f.Lit != nil {
				continue
			}
			hit := false
			InspectNoLits(f.Body, func(n ast.Node) bool {
				if call, ok := n.(*ast.CallExpr); ok {
					if fi := p.CalleeInfo(f.Info(), call); fi != nil && out[fi] {
						hit = true
					}
				}
				return !hit
			})
			if hit {
				out[f] = true
				changed = true
			}
		}
	}
	return out
}

func runWTM(c *Ctx) {
	p := c.P
	markers := markerFuncs(p)
	if len(markers) < 3 {
		c.MissingAnchor("transfer.(*Bitmap).Set and its callers")
		return
	}
	spec := &PassSpec{Name: "wtm"}
	spec.Vias = []Via{{Call: func(f *FuncInfo, call *ast.CallExpr) (string, bool) {
		if _, _, ok := isDataWrite(p, f.Info(), call); ok {
			return "written", true
		}
		return "", false
	}}}
	// a new frame header invalidates "written": any reassignment of the variables the write offset was computed from
	offsetRoots := map[*FuncInfo]map[types.Object]bool{}
	collectRoots := func(f *FuncInfo) map[types.Object]bool {
		if m, ok := offsetRoots[f]; ok {
			return m
		}
		m := map[types.Object]bool{}
		info := f.Info()
		f.CFG().Calls(func(r NodeRef, call *ast.CallExpr) {
			if _, off, ok := isDataWrite(p, info, call); ok {
				for o := range exprRoots(f, off, 1) {
					m[o] = true
				}
			}
		})
		offsetRoots[f] = m
		return m
	}
	spec.KillMatch = func(f *FuncInfo, n ast.Node, id string) bool {
		if id != "written" {
			return false
		}
		roots := collectRoots(f)
		for _, o := range AssignedObjs(f.Info(), n) {
			if roots[o] {
				return true
			}
		}
		return false
	}
	for _, f := range p.FuncsIn("internal/transfer") {
		if markers[f] {
			continue
		}
		info := f.Info()
		n := 0
		f.CFG().Calls(func(r NodeRef, call *ast.CallExpr) {
			fi := p.CalleeInfo(info, call)
			if fi == nil || !markers[fi] || strings.HasPrefix(fi.Name, "transfer.(*Bitmap)") {
				return
			}
			n++
			key := fmt.Sprintf("mark/%s#%d->%s", f.Name, n, strings.TrimPrefix(fi.Name, "transfer."))
			c.Stat("mark_sites", 1)
			if !spec.Passed(f, r, "written") {
				c.Bad(key, call.Pos(), "completion bit is set on a path that does not pass the success edge of a positional write of the data file (write moved after the mark, write error ignored, or mark unconditional)",
					"facts here: "+strings.Join(spec.PassedList(f, r), ", "))
				return
			}
			// binding: the index passed to the mark is one the write offset was computed from
			if len(call.Args) == 0 {
				c.Unknown(key, call.Pos(), "mark call without an index argument")
				return
			}
			idxRoots := exprRoots(f, call.Args[0], 0)
			offRoots := collectRoots(f)
			idxField := fieldTail(call.Args[0])
			shared := false
			for o := range idxRoots {
				if offRoots[o] {
					shared = true
				}
			}
			// same field of the same record (c.index vs chunk.index through the goroutine parameter)
			offField := ""
			f.CFG().Calls(func(_ NodeRef, wc *ast.CallExpr) {
				if _, off, ok := isDataWrite(p, info, wc); ok {
					for _, e := range resolveExprs(f, off, 2) {
						ast.Inspect(e, func(nd ast.Node) bool {
							if sel, ok := nd.(*ast.SelectorExpr); ok && sel.Sel.Name == idxField {
								offField = idxField
							}
							return true
						})
					}
				}
			})
			if shared && (idxField == "" || offField == idxField) {
				c.OK(key, call.Pos(), "mark dominated by a checked positional write; index "+types.ExprString(call.Args[0])+" is the one the write offset derives from")
			} else {
				c.Bad(key, call.Pos(), fmt.Sprintf("the chunk index passed to the mark (%s) is not the value the write offset was computed from", types.ExprString(call.Args[0])))
			}
		})
	}
}

func fieldTail(e ast.Expr) string {
	if sel, ok := ast.Unparen(e).(*ast.SelectorExpr); ok {
		return sel.Sel.Name
	}
	return ""
}

// resolveExprs expands identifiers that are locals defined once, or go-literal parameters, into their defining expressions.
func resolveExprs(f *FuncInfo, e ast.Expr, depth int) []ast.Expr {
	out := []ast.Expr{e}
	if depth == 0 {
		return out
	}
	info := f.Info()
	binds := goLitBindings(f)
	ast.Inspect(e, func(n ast.Node) bool {
		id, ok := n.(*ast.Ident)
		if !ok {
			return true
		}
		o := ObjOf(info, id)
		if o == nil {
			return true
		}
		if arg, ok := binds[o]; ok && f.Parent != nil {
			out = append(out, resolveExprs(f.Parent, arg, depth-1)...)
			return true
		}
		var defs []ast.Expr
		InspectNoLits(f.Body, func(nd ast.Node) bool {
			if as, ok := nd.(*ast.AssignStmt); ok && len(as.Lhs) == len(as.Rhs) {
				for i, l := range as.Lhs {
					if ObjOf(info, l) == o {
						defs = append(defs, as.Rhs[i])
					}
				}
			} else if ok && len(as.Rhs) == 1 && len(as.Lhs) > 1 && ObjOf(info, as.Lhs[0]) == o {
				defs = append(defs, as.Rhs[0]) // v, err := f(...)
			}
			return true
		})
		if len(defs) == 1 {
			out = append(out, resolveExprs(f, defs[0], depth-1)...)
		}
		return true
	})
	return out
}

// exprRoots: the set of variables an expression is computed from (through single-definition locals and goroutine parameter bindings).
func exprRoots(f *FuncInfo, e ast.Expr, depth int) map[types.Object]bool {
	out := map[types.Object]bool{}
	var walk func(g *FuncInfo, e ast.Expr, d int)
	walk = func(g *FuncInfo, e ast.Expr, d int) {
		info := g.Info()
		binds := goLitBindings(g)
		ast.Inspect(e, func(n ast.Node) bool {
			id, ok := n.(*ast.Ident)
			if !ok {
				return true
			}
			o, _ := ObjOf(info, id).(*types.Var)
			if o == nil || o.IsField() {
				return true
			}
			out[o] = true
			if arg, ok := binds[o]; ok && g.Parent != nil {
				walk(g.Parent, arg, d) // parameter binding of a started literal: free
				return true
			}
			if d == 0 {
				return true
			}
			var defs []ast.Expr
			InspectNoLits(g.Body, func(nd ast.Node) bool {
				if as, ok := nd.(*ast.AssignStmt); ok && len(as.Lhs) == len(as.Rhs) {
					for i, l := range as.Lhs {
						if ObjOf(info, l) == o {
							defs = append(defs, as.Rhs[i])
						}
					}
				}
				return true
			})
			if len(defs) == 1 {
				walk(g, defs[0], d-1)
			}
			return true
		})
	}
	walk(f, e, depth)
	return out
}

// ---------------------------------------------------------------------------

func sidecarPathKinds(c *Ctx) *KindEnv {
	p := c.P
	seeds := map[types.Object]string{}
	if o := p.LookupObj("internal/transfer", "Sidecar.Path"); o != nil {
		seeds[o] = "scpath"
	} else {
		c.MissingAnchor("transfer.Sidecar.Path")
	}
	fseeds := map[*types.Func]string{}
	if f := p.transferFunc("SidecarPath"); f != nil {
		fseeds[f] = "scpath"
	} else {
		c.MissingAnchor("transfer.SidecarPath")
	}
	// parameters named in the sidecar API that receive a sidecar path
	for _, fn := range []string{"transfer.LoadSidecar", "transfer.CreateSidecar", "transfer.LoadOrCreateSidecar"} {
		if f := p.Func(fn); f != nil && f.Type.Params.NumFields() > 0 {
			seeds[f.Info().Defs[f.Type.Params.List[0].Names[0]]] = "scpath"
		} else {
			c.MissingAnchor(fn)
		}
	}
	if f := p.Func("transfer.LoadOrCreateSidecarWithFallback"); f != nil && len(f.Type.Params.List) > 0 {
		for _, nm := range f.Type.Params.List[0].Names { // primaryPath, fallbackPath
			seeds[f.Info().Defs[nm]] = "scpath"
		}
	} else {
		c.MissingAnchor("transfer.LoadOrCreateSidecarWithFallback")
	}
	return p.InferKinds([]string{"internal/transfer"}, seeds, fseeds)
}

var fsMutators = map[string]int{ // os function -> index of path arg (Rename: both)
	"MkdirAll": 0, "Mkdir": 0, "OpenFile": 0, "Create": 0, "Remove": 0, "RemoveAll": 0, "Rename": 0, "WriteFile": 0, "Truncate": 0, "Chmod": 0, "Symlink": 1, "Link": 1,
}

func osMutator(info *types.Info, call *ast.CallExpr) (string, bool) {
	fn := Callee(info, call)
	if fn == nil || fn.Pkg() == nil || fn.Pkg().Path() != "os" {
		return "", false
	}
	if sig := fn.Type().(*types.Signature); sig.Recv() != nil {
		return "", false
	}
	_, ok := fsMutators[fn.Name()]
	return fn.Name(), ok
}

// pathShape classifies a sidecar-path-derived expression: "P" (the path), "P+suffix", "Dir(P)", or "?".
func pathShape(f *FuncInfo, k *KindEnv, e ast.Expr, depth int) string {
	info := f.Info()
	e = ast.Unparen(e)
	if k.Of(info, e) == "scpath" {
		if _, isBin := e.(*ast.BinaryExpr); !isBin {
			if call, isCall := e.(*ast.CallExpr); !isCall || Callee(info, call) == nil || Callee(info, call).Name() == "SidecarPath" {
				// identifier/field carrying the path itself — but a local defined as P+".tmp" is also labelled scpath by flow; resolve locals first
				if id, ok := e.(*ast.Ident); ok && depth > 0 {
					if o := ObjOf(info, id); o != nil {
						var defs []ast.Expr
						InspectNoLits(f.Body, func(nd ast.Node) bool {
							if as, ok := nd.(*ast.AssignStmt); ok && len(as.Lhs) == len(as.Rhs) {
								for i, l := range as.Lhs {
									if ObjOf(info, l) == o {
										defs = append(defs, as.Rhs[i])
									}
								}
							}
							return true
						})
						if len(defs) == 1 {
							return pathShape(f, k, defs[0], depth-1)
						}
					}
				}
				return "P"
			}
		}
	}
	switch v := e.(type) {
	case *ast.BinaryExpr:
		if v.Op == token.ADD && pathShape(f, k, v.X, depth) == "P" {
			if s, ok := constString(info, v.Y); ok && s != "" {
				return "P+" + s
			}
		}
	case *ast.CallExpr:
		if calleeIs(info, v, "path/filepath", "Dir") && len(v.Args) == 1 && pathShape(f, k, v.Args[0], depth) == "P" {
			return "Dir(P)"
		}
	case *ast.Ident:
		if o := ObjOf(info, v); o != nil && depth > 0 {
			var defs []ast.Expr
			InspectNoLits(f.Body, func(nd ast.Node) bool {
				if as, ok := nd.(*ast.AssignStmt); ok && len(as.Lhs) == len(as.Rhs) {
					for i, l := range as.Lhs {
						if ObjOf(info, l) == o {
							defs = append(defs, as.Rhs[i])
						}
					}
				}
				return true
			})
			if len(defs) == 1 {
				return pathShape(f, k, defs[0], depth-1)
			}
		}
	}
	return "?"
}

func mentionsScPath(f *FuncInfo, k *KindEnv, e ast.Expr) bool {
	hit := false
	info := f.Info()
	ast.Inspect(e, func(n ast.Node) bool {
		if x, ok := n.(ast.Expr); ok && k.Of(info, x) == "scpath" {
			hit = true
		}
		return !hit
	})
	if hit {
		return true
	}
	// local defined from a sidecar path
	if id, ok := ast.Unparen(e).(*ast.Ident); ok {
		if o := ObjOf(info, id); o != nil {
			InspectNoLits(f.Body, func(nd ast.Node) bool {
				if as, ok := nd.(*ast.AssignStmt); ok && len(as.Lhs) == len(as.Rhs) {
					for i, l := range as.Lhs {
						if ObjOf(info, l) == o {
							ast.Inspect(as.Rhs[i], func(m ast.Node) bool {
								if x, ok := m.(ast.Expr); ok && k.Of(info, x) == "scpath" {
									hit = true
								}
								return !hit
							})
						}
					}
				}
				return !hit
			})
		}
	}
	return hit
}

// atomicReplaceSpec: "wrote:<temp>" behind a successful os.WriteFile(temp, ..), "renamed:<path>" behind a successful
// os.Rename(temp, path) - or behind a successful call of a method X.h(..) that returns nil only past its own successful
// rename onto <receiver>.Path (a helper that does the writing; the fact is then "renamed:X.Path").
func atomicReplaceSpec(p *Program, depth int) *PassSpec {
	return &PassSpec{Vias: []Via{{Call: func(g *FuncInfo, call *ast.CallExpr) (string, bool) {
		if name, ok := osMutator(g.Info(), call); ok {
			switch name {
			case "WriteFile":
				return "wrote:" + types.ExprString(call.Args[0]), true
			case "Rename":
				return "renamed:" + types.ExprString(call.Args[1]), true
			}
			return "", false
		}
		if depth >= 1 {
			return "", false
		}
		sel, ok := ast.Unparen(call.Fun).(*ast.SelectorExpr)
		if !ok {
			return "", false
		}
		h := p.CalleeInfo(g.Info(), call)
		if h == nil || h.Decl == nil || h.Decl.Recv == nil || len(h.Decl.Recv.List) != 1 || len(h.Decl.Recv.List[0].Names) != 1 || h.Body == nil {
			return "", false
		}
		if h.Type.Results == nil || len(h.Type.Results.List) != 1 || !isErrorType(h.Info().TypeOf(h.Type.Results.List[0].Type)) {
			return "", false
		}
		recv := h.Decl.Recv.List[0].Names[0].Name
		hs := atomicReplaceSpec(p, depth+1)
		hinfo := h.Info()
		renames, good := 0, true
		h.CFG().EachNode(func(r NodeRef) {
			rs, ok := r.Node().(*ast.ReturnStmt)
			if !ok || len(rs.Results) != 1 {
				return
			}
			res := ast.Unparen(rs.Results[0])
			switch x := res.(type) {
			case *ast.Ident:
				if x.Name == "nil" {
					if hs.Passed(h, r, "renamed:"+recv+".Path") {
						renames++
					} else {
						good = false
					}
					return
				}
				// return err below `err != nil`
				guarded := false
				for _, is := range enclosingIfs(h.Body, rs) {
					for _, a := range Implied(is.Cond, true) {
						if o, nilOnTrue, ok := NilTest(hinfo, a.E); ok && o == ObjOf(hinfo, x) && nilOnTrue != a.Val {
							guarded = true
						}
					}
				}
				if !guarded {
					good = false
				}
			case *ast.CallExpr:
				if name, ok := osMutator(hinfo, x); ok && name == "Rename" && types.ExprString(x.Args[1]) == recv+".Path" {
					renames++
					return
				}
				if fn := Callee(hinfo, x); fn != nil && fn.Pkg() != nil && (fn.Pkg().Path() == "fmt" && fn.Name() == "Errorf" || fn.Pkg().Path() == "errors" && fn.Name() == "New") {
					return
				}
				good = false
			default:
				good = false
			}
		})
		if good && renames > 0 {
			return "renamed:" + types.ExprString(sel.X) + ".Path", true
		}
		return "", false
	}}}}
}

func runAtomicReplace(c *Ctx) {
	p := c.P
	k := sidecarPathKinds(c)
	for _, f := range p.FuncsIn("internal/transfer") {
		info := f.Info()
		cfg := f.CFG()
		n := 0
		// facts: "wrote:<tempExpr>" on success of os.WriteFile(temp,..); "renamed" on success of os.Rename(temp, P)
		spec := atomicReplaceSpec(p, 0)
		cfg.Calls(func(r NodeRef, call *ast.CallExpr) {
			name, ok := osMutator(info, call)
			if !ok {
				return
			}
			args := []ast.Expr{call.Args[fsMutators[name]]}
			if name == "Rename" {
				args = []ast.Expr{call.Args[0], call.Args[1]}
			}
			any := false
			for _, a := range args {
				if mentionsScPath(f, k, a) {
					any = true
				}
			}
			if !any {
				return
			}
			n++
			key := fmt.Sprintf("sidecar-fs/%s#%d/%s", f.Name, n, name)
			c.Stat("sidecar_fs_calls", 1)
			sh := pathShape(f, k, args[0], 2)
			switch name {
			case "MkdirAll":
				c.Check(sh == "Dir(P)", key, call.Pos(), "creates the sidecar's parent directory", "MkdirAll on a sidecar-derived path of shape "+sh)
			case "Remove":
				// not in the function that replaces the file: unlink + rename is two steps, a kill in between leaves no version at all
				replaces := false
				ast.Inspect(f.Body, func(m ast.Node) bool {
					if c2, ok := m.(*ast.CallExpr); ok && calleeIs(info, c2, "os", "Rename") && len(c2.Args) == 2 && mentionsScPath(f, k, c2.Args[1]) {
						replaces = true
					}
					return true
				})
				if sh == "P" && replaces {
					c.Bad(key, call.Pos(), f.Name+" removes the sidecar and also renames a temp file onto it: the replacement is no longer one atomic step - a receiver killed between the unlink and the rename is left without any metadata, the previous valid version included")
				} else {
					c.Check(sh == "P", key, call.Pos(), "removes a rejected sidecar", "Remove on a sidecar-derived path of shape "+sh)
				}
			case "WriteFile":
				c.Check(strings.HasPrefix(sh, "P+"), key, call.Pos(), "writes the temp file "+sh, "the sidecar is written in place ("+types.ExprString(args[0])+" has shape "+sh+"): a kill during the write leaves a torn current version")
			case "Rename":
				sh2 := pathShape(f, k, args[1], 2)
				okShape := strings.HasPrefix(sh, "P+") && sh2 == "P"
				okWrote := spec.Passed(f, r, "wrote:"+types.ExprString(args[0]))
				switch {
				case !okShape:
					c.Bad(key, call.Pos(), fmt.Sprintf("rename %s -> %s is not temp -> sidecar path", sh, sh2))
				case !okWrote:
					c.Bad(key, call.Pos(), "rename over the sidecar is reachable without a successful (error-checked) WriteFile of "+types.ExprString(args[0]), "facts here: "+strings.Join(spec.PassedList(f, r), ", "))
				default:
					c.OK(key, call.Pos(), "rename temp -> path dominated by the checked WriteFile of the temp file")
				}
			default:
				c.Bad(key, call.Pos(), "os."+name+" on a sidecar path: the metadata file may only be replaced by WriteFile(temp)+Rename")
			}
		})
		// reads: only the sidecar path itself is ever loaded - the temp name exists only between WriteFile and Rename, and a
		// leftover is stale by construction (nothing removes it when the data file is found missing)
		nr := 0
		cfg.Calls(func(r NodeRef, call *ast.CallExpr) {
			var pathArg ast.Expr
			what := ""
			if g := p.CalleeInfo(info, call); g != nil && g.Name == "transfer.LoadSidecar" && len(call.Args) == 1 {
				pathArg, what = call.Args[0], "LoadSidecar"
			} else if (calleeIs(info, call, "os", "ReadFile") || calleeIs(info, call, "os", "Open")) && len(call.Args) == 1 && mentionsScPath(f, k, call.Args[0]) {
				pathArg, what = call.Args[0], "os read"
			}
			if pathArg == nil {
				return
			}
			nr++
			sh := pathShape(f, k, pathArg, 2)
			suffixed := strings.HasPrefix(sh, "P+")
			if !suffixed {
				// a concatenation on something that is itself a path parameter (closure called with the sidecar paths)
				if be, ok := ast.Unparen(pathArg).(*ast.BinaryExpr); ok && be.Op == token.ADD {
					suffixed = true
				}
			}
			c.Check(!suffixed, fmt.Sprintf("sidecar-read/%s#%d/%s", f.Name, nr, what), call.Pos(), "loads the sidecar path itself",
				"resume metadata is loaded from a derived name ("+types.ExprString(pathArg)+"): the temp file of an interrupted flush is not covered by the stale-metadata removal, so a leftover is adopted for a recreated, zero-filled data file and marks chunks that are not there")
		})
		// dirty = false must-pass the checked rename
		cfg.EachNode(func(r NodeRef) {
			as, ok := r.Node().(*ast.AssignStmt)
			if !ok || len(as.Lhs) != 1 || len(as.Rhs) != 1 {
				return
			}
			sel, ok := ast.Unparen(as.Lhs[0]).(*ast.SelectorExpr)
			if !ok || sel.Sel.Name != "dirty" {
				return
			}
			fv, _ := info.Uses[sel.Sel].(*types.Var)
			if fv == nil || !fv.IsField() || types.ExprString(as.Rhs[0]) != "false" {
				return
			}
			base := types.ExprString(sel.X)
			c.Check(spec.Passed(f, r, "renamed:"+base+".Path"), fmt.Sprintf("sidecar-fs/%s/dirty=false", f.Name), as.Pos(), "dirty cleared only after the checked rename",
				"dirty is cleared on a path that does not pass a successful rename onto "+base+".Path: a failed flush would never be retried")
		})
	}
	// File-handle based writes: nothing opens a sidecar path
	// (os.OpenFile/Create on scpath are already reported above as violations.)
}

// ---------------------------------------------------------------------------

func runLoadValid(c *Ctx) {
	p := c.P
	ls := p.Func("transfer.LoadSidecar")
	if ls == nil {
		c.MissingAnchor("transfer.LoadSidecar")
		return
	}
	info := ls.Info()
	spec := &PassSpec{Vias: []Via{
		{Cond: func(f *FuncInfo, e ast.Expr) (string, bool, bool) {
			be, ok := ast.Unparen(e).(*ast.BinaryExpr)
			if !ok || (be.Op != token.NEQ && be.Op != token.EQL) {
				return "", false, false
			}
			fi := f.Info()
			pv := be.Op == token.EQL
			for _, pair := range [][2]ast.Expr{{be.X, be.Y}, {be.Y, be.X}} {
				if cn, ok := ObjOf(fi, pair[1]).(*types.Const); ok {
					switch cn.Name() {
					case "sidecarMagic":
						return "magic", pv, true
					case "sidecarVersion":
						return "version", pv, true
					}
				}
			}
			// checksum compare: one side derives from crc32.Checksum(data[:len(data)-4], ...)
			isSum := func(x ast.Expr) bool {
				for _, d := range resolveExprs(f, x, 1) {
					if call, ok := ast.Unparen(d).(*ast.CallExpr); ok && calleeIs(fi, call, "hash/crc32", "Checksum") && len(call.Args) == 2 {
						if sl, ok := ast.Unparen(call.Args[0]).(*ast.SliceExpr); ok && sl.Low == nil && sl.High != nil && strings.Contains(types.ExprString(sl.High), "len(") && strings.HasSuffix(types.ExprString(sl.High), "4") {
							return true
						}
					}
				}
				return false
			}
			if isSum(be.X) || isSum(be.Y) {
				return "crc", pv, true
			}
			return "", false, false
		}},
		{Call: func(f *FuncInfo, call *ast.CallExpr) (string, bool) {
			if fi := p.CalleeInfo(f.Info(), call); fi != nil && fi.Name == "transfer.BitmapFromBytes" {
				return "bitmap", true
			}
			return "", false
		}},
	}}
	nret := 0
	for _, b := range ls.CFG().Blocks {
		ret, ok := IsReturnExit(b)
		if !ok || len(ret.Results) != 2 {
			continue
		}
		ref := NodeRef{b, len(b.Nodes) - 1}
		if types.ExprString(ret.Results[1]) == "nil" {
			nret++
			for _, via := range []string{"magic", "version", "crc", "bitmap"} {
				c.Check(spec.Passed(ls, ref, via), fmt.Sprintf("load/success#%d/%s", nret, via), ret.Pos(), "success return dominated by the "+via+" check",
					"LoadSidecar can return a sidecar without passing the "+via+" check: damaged or foreign metadata would be trusted", "facts here: "+strings.Join(spec.PassedList(ls, ref), ", "))
			}
		} else {
			if types.ExprString(ret.Results[0]) != "nil" {
				c.Bad("load/error-return", ret.Pos(), "LoadSidecar returns a non-nil sidecar together with an error")
			}
		}
	}
	if nret == 0 {
		c.Unknown("load/success", ls.Pos(), "no success return found in LoadSidecar")
	}
	_ = info
	// the CRC covers everything before the trailer and the trailer is the last 4 bytes: crc read after bitmap (codec order is checked by sidecar codec symmetry below)
	// identity check in the loaders. A loaded sidecar is followed from LoadSidecar (or from a closure of the loader that returns
	// one: its returns are summarised by the comparisons they all passed) to the returns of the exported loaders.
	fields := []string{"ChunkSize", "FileSize", "FileID"}
	summaries := map[*FuncInfo]map[string]bool{}
	var identityFacts func(f *FuncInfo, exported bool) map[string]bool
	identityFacts = func(f *FuncInfo, exported bool) map[string]bool {
		if s, done := summaries[f]; done && !exported {
			return s
		}
		fi := f.Info()
		name := f.Name
		// parameters in scope (of f and its enclosing functions): the caller's values
		paramNames := map[string]bool{}
		for g := f; g != nil; g = g.Parent {
			if g.Type.Params == nil {
				continue
			}
			for _, fld := range g.Type.Params.List {
				for _, nm := range fld.Names {
					paramNames[nm.Name] = true
				}
			}
		}
		// loaded objects: defined by LoadSidecar(...) or by a closure of this loader that has a summary
		type origin struct {
			node ast.Node
			init map[string]bool
		}
		loaded := map[types.Object]origin{}
		f.CFG().EachNode(func(r NodeRef) {
			var as *ast.AssignStmt
			switch v := r.Node().(type) {
			case *ast.AssignStmt:
				as = v
			}
			if as == nil || len(as.Rhs) != 1 || len(as.Lhs) < 1 {
				return
			}
			call, ok := ast.Unparen(as.Rhs[0]).(*ast.CallExpr)
			if !ok {
				return
			}
			o := ObjOf(fi, as.Lhs[0])
			if o == nil {
				return
			}
			if g := p.CalleeInfo(fi, call); g == ls {
				loaded[o] = origin{as, map[string]bool{}}
				return
			}
			if id, ok := ast.Unparen(call.Fun).(*ast.Ident); ok {
				if v, ok := ObjOf(fi, id).(*types.Var); ok {
					if g := p.ClosureOfVar(v); g != nil && g != f {
						if sum := identityFacts(g, false); sum != nil {
							loaded[o] = origin{as, sum}
						}
					}
				}
			}
		})
		if len(loaded) == 0 {
			summaries[f] = nil
			return nil
		}
		var result map[string]bool
		nr := 0
		for scObj, org := range loaded {
			scObj, org := scObj, org
			ids := &PassSpec{}
			ids.Vias = []Via{
				{Cond: func(g *FuncInfo, e ast.Expr) (string, bool, bool) {
					be, ok := ast.Unparen(e).(*ast.BinaryExpr)
					if !ok || (be.Op != token.NEQ && be.Op != token.EQL) {
						return "", false, false
					}
					for _, pair := range [][2]ast.Expr{{be.X, be.Y}, {be.Y, be.X}} {
						sel, ok := ast.Unparen(pair[0]).(*ast.SelectorExpr)
						if !ok || ObjOf(g.Info(), sel.X) != scObj {
							continue
						}
						if id, ok := ast.Unparen(pair[1]).(*ast.Ident); ok && paramNames[id.Name] {
							if _, isVar := ObjOf(g.Info(), id).(*types.Var); isVar {
								return "safe:" + sel.Sel.Name, be.Op == token.EQL, true
							}
						}
					}
					return "", false, false
				}},
			}
			for _, fld := range fields {
				fld := fld
				// what the provider closure already established
				if org.init[fld] {
					ids.Vias = append(ids.Vias, Via{Stmt: func(g *FuncInfo, n ast.Node) (string, bool) {
						if n == org.node {
							return "safe:" + fld, true
						}
						return "", false
					}})
				}
				// a predicate method on the loaded sidecar
				ids.Vias = append(ids.Vias, Via{Cond: func(g *FuncInfo, e ast.Expr) (string, bool, bool) {
					call, ok := ast.Unparen(e).(*ast.CallExpr)
					if !ok {
						return "", false, false
					}
					sel, ok := ast.Unparen(call.Fun).(*ast.SelectorExpr)
					if !ok || ObjOf(g.Info(), sel.X) != scObj {
						return "", false, false
					}
					callee := p.CalleeInfo(g.Info(), call)
					if callee == nil {
						return "", false, false
					}
					idx, ok := eqSummary(callee)[fld]
					if !ok || idx >= len(call.Args) {
						return "", false, false
					}
					if id, ok := ast.Unparen(call.Args[idx]).(*ast.Ident); ok && paramNames[id.Name] {
						return "safe:" + fld, true, true
					}
					return "", false, false
				}})
				// "no loaded sidecar survives": sc = nil, or the load failed / the provider said no
				ids.Vias = append(ids.Vias,
					Via{Stmt: func(g *FuncInfo, n ast.Node) (string, bool) {
						if as, ok := n.(*ast.AssignStmt); ok && len(as.Lhs) == 1 && len(as.Rhs) == 1 && ObjOf(g.Info(), as.Lhs[0]) == scObj && types.ExprString(as.Rhs[0]) == "nil" {
							return "safe:" + fld, true
						}
						return "", false
					}},
					Via{Cond: func(g *FuncInfo, e ast.Expr) (string, bool, bool) {
						if o, nilOnTrue, ok := NilTest(g.Info(), e); ok && isErrorType(o.Type()) {
							return "safe:" + fld, !nilOnTrue, true
						}
						if o, nilOnTrue, ok := NilTest(g.Info(), e); ok && o == scObj {
							return "safe:" + fld, nilOnTrue, true
						}
						return "", false, false
					}})
			}
			for _, b := range f.CFG().Blocks {
				ret, ok := IsReturnExit(b)
				if !ok || len(ret.Results) == 0 || ObjOf(fi, ret.Results[0]) != scObj {
					continue
				}
				nr++
				ref := NodeRef{b, len(b.Nodes) - 1}
				here := map[string]bool{}
				for _, fld := range fields {
					if ids.Passed(f, ref, "safe:"+fld) {
						here[fld] = true
					}
				}
				if exported {
					for _, fld := range fields {
						c.Check(here[fld], fmt.Sprintf("identity/%s#%d/%s", name, nr, fld), ret.Pos(), "loaded sidecar returned only when "+fld+" equals the caller's value (or after being discarded)",
							"a sidecar loaded from disk is returned without comparing its "+fld+" with the file being received: metadata of another file/size/chunking would be trusted",
							"facts here: "+strings.Join(ids.PassedList(f, ref), ", "))
					}
				}
				if result == nil {
					result = here
				} else {
					for k := range result {
						if !here[k] {
							delete(result, k)
						}
					}
				}
			}
		}
		if exported && nr == 0 {
			c.Unknown("identity/"+name, f.Pos(), "no return of a loaded sidecar found")
		}
		if result == nil {
			result = map[string]bool{}
		}
		summaries[f] = result
		return result
	}
	for _, name := range []string{"transfer.LoadOrCreateSidecar", "transfer.LoadOrCreateSidecarWithFallback"} {
		f := p.Func(name)
		if f == nil {
			c.MissingAnchor(name)
			continue
		}
		identityFacts(f, true)
	}
	// sidecar on-disk layout: Flush writer vs LoadSidecar reader (field order and widths)
	if fl := p.Func("transfer.(*Sidecar).Flush"); fl != nil {
		w := binarySeq(fl, "Write")
		r := binarySeq(ls, "Read")
		ws, rs := strings.Join(w, ","), strings.Join(r, ",")
		c.Check(ws == rs && len(w) >= 6, "layout/flush-vs-load", fl.Pos(), "Flush and LoadSidecar agree on the fixed-width field sequence: "+ws,
			"Flush and LoadSidecar disagree on the on-disk field sequence: every sidecar would be unreadable or misread", "Flush: "+ws, "LoadSidecar: "+rs)
	} else {
		c.MissingAnchor("transfer.(*Sidecar).Flush")
	}
}

// binarySeq lists the widths of binary.Write/Read calls in the order of the source; a call of another function of the
// package (a helper that writes a part of the layout) is followed, two levels deep.
func binarySeq(f *FuncInfo, dir string) []string {
	var walk func(f *FuncInfo, depth int) []string
	walk = func(f *FuncInfo, depth int) []string {
		var out []string
		info := f.Info()
		ast.Inspect(f.Body, func(n ast.Node) bool {
			call, ok := n.(*ast.CallExpr)
			if !ok {
				return true
			}
			if calleeIs(info, call, "encoding/binary", dir) && len(call.Args) == 3 {
				end := "BE"
				if !isBigEndian(info, call.Args[1]) {
					end = "LE"
				}
				out = append(out, fmt.Sprintf("u%d%s", typeBits(info.TypeOf(call.Args[2])), end))
				return true
			}
			if depth < 2 && f.Prog != nil {
				if g := f.Prog.CalleeInfo(info, call); g != nil && g.Body != nil && g.Pkg == f.Pkg && g != f {
					// arguments are evaluated before the callee runs
					for _, a := range call.Args {
						ast.Inspect(a, func(m ast.Node) bool {
							if c2, ok := m.(*ast.CallExpr); ok && calleeIs(info, c2, "encoding/binary", dir) && len(c2.Args) == 3 {
								out = append(out, "arg")
							}
							return true
						})
					}
					out = append(out, walk(g, depth+1)...)
					return false
				}
			}
			return true
		})
		return out
	}
	return walk(f, 0)
}

// eqSummary summarises a bool-returning method: field name -> index of the parameter that the receiver's field is
// compared equal with on every path that returns true.
func eqSummary(g *FuncInfo) map[string]int {
	out := map[string]int{}
	if g.Decl == nil || g.Decl.Recv == nil || len(g.Decl.Recv.List) != 1 || len(g.Decl.Recv.List[0].Names) != 1 || g.Type.Results == nil || len(g.Type.Results.List) != 1 {
		return out
	}
	info := g.Info()
	recv := info.Defs[g.Decl.Recv.List[0].Names[0]]
	params := map[types.Object]int{}
	i := 0
	for _, fl := range g.Type.Params.List {
		for _, nm := range fl.Names {
			params[info.Defs[nm]] = i
			i++
		}
	}
	atomFact := func(e ast.Expr) (string, bool, bool) {
		be, ok := ast.Unparen(e).(*ast.BinaryExpr)
		if !ok || (be.Op != token.NEQ && be.Op != token.EQL) {
			return "", false, false
		}
		for _, pair := range [][2]ast.Expr{{be.X, be.Y}, {be.Y, be.X}} {
			sel, ok := ast.Unparen(pair[0]).(*ast.SelectorExpr)
			if !ok || ObjOf(info, sel.X) != recv {
				continue
			}
			if pi, ok := params[ObjOf(info, pair[1])]; ok {
				return fmt.Sprintf("eq:%s:%d", sel.Sel.Name, pi), be.Op == token.EQL, true
			}
		}
		return "", false, false
	}
	spec := &PassSpec{Vias: []Via{{Cond: func(_ *FuncInfo, e ast.Expr) (string, bool, bool) { return atomFact(e) }}}}
	// a parameter that is reassigned no longer stands for the caller's value
	spec.KillMatch = func(_ *FuncInfo, n ast.Node, id string) bool {
		for _, o := range AssignedObjs(info, n) {
			if pi, ok := params[o]; ok && strings.HasSuffix(id, fmt.Sprintf(":%d", pi)) {
				return true
			}
		}
		return false
	}
	first := true
	for _, b := range g.CFG().Blocks {
		ret, ok := IsReturnExit(b)
		if !ok || len(ret.Results) != 1 {
			continue
		}
		facts := map[string]bool{}
		if tv := info.Types[ret.Results[0]]; tv.Value != nil {
			if !constant.BoolVal(tv.Value) {
				continue // return false
			}
		} else {
			// `return a == x && b == y`: true implies its conjuncts
			for _, a := range Implied(ret.Results[0], true) {
				if id, val, ok := atomFact(a.E); ok && val == a.Val {
					facts[id] = true
				}
			}
		}
		for _, id := range spec.PassedList(g, NodeRef{b, len(b.Nodes) - 1}) {
			facts[id] = true
		}
		if first {
			for id := range facts {
				parts := strings.Split(id, ":")
				if len(parts) == 3 && parts[0] == "eq" {
					var pi int
					fmt.Sscanf(parts[2], "%d", &pi)
					out[parts[1]] = pi
				}
			}
			first = false
			continue
		}
		for fld, pi := range out {
			if !facts[fmt.Sprintf("eq:%s:%d", fld, pi)] {
				delete(out, fld)
			}
		}
	}
	if first {
		return map[string]int{}
	}
	return out
}
