package tf

import (
	"fmt"
	"go/ast"
	"go/constant"
	"go/token"
	"go/types"
	"regexp"
	"sort"
	"strings"
)

// Rules for C16 (clients vs documented server configuration) and the "0 disables" part of C14.

func init() {
	Register(&Rule{
		Name:  "R-JSON-KEYS",
		Props: []string{"C16"},
		Min:   8,
		Doc: "server POST /session: the JSON keys stored in the response map on all paths to Encode must include every key the client's decoder requires " +
			"(a decoded field is required when it flows, unguarded by a non-empty test, into a parse call whose error makes CreateSession fail), with the same time layout; " +
			"the server's success status lies in the client's accepted range; method and path constants agree; every query key a client writes into a /ws URL is one the " +
			"server reads, every key the server rejects when empty is always written, and every %s argument is a url.QueryEscape result",
		Run: runJSONKeys,
	})
	Register(&Rule{
		Name:  "R-TURN-SIBLING",
		Props: []string{"C16"},
		Min:   4,
		Doc: "the scheme-normalisation tables (prefix -> rewrite, default rewrite), accepted schemes and host-from-path fallback of the server's injectTurnCredentials " +
			"and the client's parseTurnServer are equal; credentials are injected with url.UserPassword and extracted with User.Username()/Password()",
		Run: runTurnSibling,
	})
	Register(&Rule{
		Name:  "R-ZERO-OFF",
		Props: []string{"C16", "C14"},
		Min:   9,
		Doc: "every rejection (sendError, connection close, read deadline / read limit, limiter acquire) that is control-dependent on a condition over a server limit " +
			"field is dominated by the test limit > 0, so that 0 means 'no limit'; the session TTL only produces an expiry under ttl > 0 and expiry is only enforced for a non-zero ExpiresAt",
		Run: runZeroOff,
	})
	Register(&Rule{
		Name:  "R-FLAGS-DOC",
		Props: []string{"C16"},
		Min:   2,
		Doc:   "the set of --flags printed by the server's usage text equals the set of flags registered on the server flag set",
		Run:   runFlagsDoc,
	})
}

func constString(info *types.Info, e ast.Expr) (string, bool) {
	if tv, ok := info.Types[e]; ok && tv.Value != nil && tv.Value.Kind() == constant.String {
		return constant.StringVal(tv.Value), true
	}
	return "", false
}

func constInt(info *types.Info, e ast.Expr) (int64, bool) {
	if tv, ok := info.Types[e]; ok && tv.Value != nil && tv.Value.Kind() == constant.Int {
		v, ok := constant.Int64Val(tv.Value)
		return v, ok
	}
	return 0, false
}

// httpHandler finds the function literal registered with http.HandleFunc(path, lit) in cmd/thruserv.
func (p *Program) httpHandler(path string) *FuncInfo {
	for _, f := range p.FuncsIn("cmd/thruserv") {
		var found *FuncInfo
		InspectNoLits(f.Body, func(n ast.Node) bool {
			call, ok := n.(*ast.CallExpr)
			if !ok || len(call.Args) != 2 {
				return true
			}
			fn := Callee(f.Info(), call)
			if fn == nil || fn.Pkg() == nil || fn.Pkg().Path() != "net/http" || fn.Name() != "HandleFunc" {
				return true
			}
			if s, ok := constString(f.Info(), call.Args[0]); ok && s == path {
				if lit, ok := ast.Unparen(call.Args[1]).(*ast.FuncLit); ok {
					found = p.LitInfo(lit)
				}
			}
			return true
		})
		if found != nil {
			return found
		}
	}
	return nil
}

func calleeIs(info *types.Info, call *ast.CallExpr, pkg, name string) bool {
	fn := Callee(info, call)
	if fn == nil || fn.Pkg() == nil || fn.Pkg().Path() != pkg {
		return false
	}
	if i := strings.Index(name, "."); i >= 0 {
		sig := fn.Type().(*types.Signature)
		return sig.Recv() != nil && recvTypeName(sig.Recv().Type()) == name[:i] && fn.Name() == name[i+1:]
	}
	return fn.Name() == name
}

func runJSONKeys(c *Ctx) {
	p := c.P
	srv := p.httpHandler("/session")
	cli := p.Func("clienthttp.CreateSession")
	if srv == nil {
		c.MissingAnchor("http.HandleFunc(\"/session\", func)")
	}
	if cli == nil {
		c.MissingAnchor("clienthttp.CreateSession")
	}
	if srv == nil || cli == nil {
		return
	}
	sinfo, cinfo := srv.Info(), cli.Info()

	// ---- server: response map keys
	// find json Encode(response) where response is a local map var
	var encRef NodeRef
	var respObj types.Object
	var respStruct *types.Struct // the response is a struct value (keys from its json tags) instead of a map
	scfg := srv.CFG()
	scfg.Calls(func(r NodeRef, call *ast.CallExpr) {
		if calleeIs(sinfo, call, "encoding/json", "Encoder.Encode") && len(call.Args) == 1 {
			if o := ObjOf(sinfo, call.Args[0]); o != nil {
				if _, isMap := o.Type().Underlying().(*types.Map); isMap {
					encRef, respObj = r, o
				}
				if st, isStruct := o.Type().Underlying().(*types.Struct); isStruct {
					encRef, respObj, respStruct = r, o, st
				}
			}
		}
	})
	if respObj == nil {
		c.Unknown("session-response/keys", srv.Pos(), "cannot find json Encode of a response map or struct in the /session handler")
		return
	}
	type keyInfo struct {
		val ast.Expr
		ref NodeRef
	}
	keys := map[string]keyInfo{}
	keySpec := &PassSpec{Name: "keys", Vias: []Via{{Stmt: func(f *FuncInfo, n ast.Node) (string, bool) {
		as, ok := n.(*ast.AssignStmt)
		if !ok {
			return "", false
		}
		for _, l := range as.Lhs {
			if ix, ok := ast.Unparen(l).(*ast.IndexExpr); ok && ObjOf(f.Info(), ix.X) == respObj {
				if s, ok := constString(f.Info(), ix.Index); ok {
					return "key:" + s, true
				}
			}
			if sel, ok := ast.Unparen(l).(*ast.SelectorExpr); ok && respStruct != nil && ObjOf(f.Info(), sel.X) == respObj {
				if t := structTagOf(respStruct, sel.Sel.Name); t != "" {
					return "key:" + t, true
				}
			}
		}
		return "", false
	}}}}
	always := map[string]bool{}
	omitEmpty := map[string]bool{}
	if respStruct != nil {
		for i := 0; i < respStruct.NumFields(); i++ {
			tag := reflectTag(respStruct.Tag(i), "json")
			parts := strings.Split(tag, ",")
			name := parts[0]
			if name == "" {
				name = respStruct.Field(i).Name()
			}
			if name == "-" {
				continue
			}
			for _, o := range parts[1:] {
				if o == "omitempty" || o == "omitzero" {
					omitEmpty[name] = true
				}
			}
		}
	}
	scfg.EachNode(func(r NodeRef) {
		switch s := r.Node().(type) {
		case *ast.AssignStmt:
			for i, l := range s.Lhs {
				if ObjOf(sinfo, l) == respObj && i < len(s.Rhs) {
					if cl, ok := ast.Unparen(s.Rhs[i]).(*ast.CompositeLit); ok {
						for _, el := range cl.Elts {
							if kv, ok := el.(*ast.KeyValueExpr); ok {
								ks, ok := constString(sinfo, kv.Key)
								if !ok && respStruct != nil {
									if id, isID := kv.Key.(*ast.Ident); isID {
										ks = structTagOf(respStruct, id.Name)
										ok = ks != ""
									}
								}
								if ok {
									keys[ks] = keyInfo{kv.Value, r}
									if scfg.Dominates(r, encRef) {
										always[ks] = true
									}
								}
							}
						}
					}
				}
				if ix, ok := ast.Unparen(l).(*ast.IndexExpr); ok && ObjOf(sinfo, ix.X) == respObj && i < len(s.Rhs) {
					if ks, ok := constString(sinfo, ix.Index); ok {
						keys[ks] = keyInfo{s.Rhs[i], r}
					}
				}
				if sel, ok := ast.Unparen(l).(*ast.SelectorExpr); ok && respStruct != nil && ObjOf(sinfo, sel.X) == respObj && i < len(s.Rhs) {
					if ks := structTagOf(respStruct, sel.Sel.Name); ks != "" {
						keys[ks] = keyInfo{s.Rhs[i], r}
					}
				}
			}
		}
	})
	for ks := range keys {
		if keySpec.Passed(srv, encRef, "key:"+ks) {
			always[ks] = true
		}
	}

	// ---- client: decoded struct and required fields
	var target types.Object
	ccfg := cli.CFG()
	ccfg.Calls(func(r NodeRef, call *ast.CallExpr) {
		if calleeIs(cinfo, call, "encoding/json", "Unmarshal") && len(call.Args) == 2 {
			if u, ok := ast.Unparen(call.Args[1]).(*ast.UnaryExpr); ok && u.Op == token.AND {
				target = ObjOf(cinfo, u.X)
			}
		}
	})
	st, _ := func() (*types.Struct, bool) {
		if target == nil {
			return nil, false
		}
		s, ok := target.Type().Underlying().(*types.Struct)
		return s, ok
	}()
	if st == nil {
		c.Unknown("session-response/client-decoder", cli.Pos(), "cannot find json.Unmarshal(body, &struct) in CreateSession")
		return
	}
	tagOf := map[*types.Var]string{}
	for i := 0; i < st.NumFields(); i++ {
		tag := reflectTag(st.Tag(i), "json")
		name := strings.Split(tag, ",")[0]
		if name == "" {
			name = st.Field(i).Name()
		}
		if name != "-" {
			tagOf[st.Field(i)] = name
		}
	}
	// fields the decoder itself parses: a text that is not valid for the type fails the whole Unmarshal (time.Time and "")
	typed := map[string]string{}
	for fv, name := range tagOf {
		if b, isBasic := types.Unalias(fv.Type()).Underlying().(*types.Basic); isBasic && b.Info()&(types.IsString|types.IsNumeric|types.IsBoolean) != 0 {
			continue
		}
		if _, isPtr := types.Unalias(fv.Type()).Underlying().(*types.Pointer); isPtr {
			continue
		}
		typed[name] = fv.Type().String()
	}
	// non-empty guards: cond `X.F != ""` (true) or `X.F == ""` (false)
	guard := &PassSpec{Name: "nonempty", Vias: []Via{{Cond: func(f *FuncInfo, e ast.Expr) (string, bool, bool) {
		be, ok := ast.Unparen(e).(*ast.BinaryExpr)
		if !ok || (be.Op != token.NEQ && be.Op != token.EQL) {
			return "", false, false
		}
		for _, pair := range [][2]ast.Expr{{be.X, be.Y}, {be.Y, be.X}} {
			if s, ok := constString(f.Info(), pair[1]); ok && s == "" {
				if sel, ok := ast.Unparen(pair[0]).(*ast.SelectorExpr); ok && ObjOf(f.Info(), sel.X) == target {
					if fv, ok := f.Info().Uses[sel.Sel].(*types.Var); ok {
						return "nonempty:" + fv.Name(), be.Op == token.NEQ, true
					}
				}
			}
		}
		return "", false, false
	}}}}
	type req struct {
		layout string
		pos    token.Pos
	}
	required := map[string]req{}
	ccfg.Calls(func(r NodeRef, call *ast.CallExpr) {
		// a call with an error result taking X.F as an argument
		tv, ok := cinfo.Types[call]
		if !ok {
			return
		}
		hasErr := false
		if tup, ok := tv.Type.(*types.Tuple); ok {
			for i := 0; i < tup.Len(); i++ {
				if isErrorType(tup.At(i).Type()) {
					hasErr = true
				}
			}
		} else if isErrorType(tv.Type) {
			hasErr = true
		}
		if !hasErr || calleeIs(cinfo, call, "encoding/json", "Unmarshal") {
			return
		}
		for _, a := range call.Args {
			sel, ok := ast.Unparen(a).(*ast.SelectorExpr)
			if !ok || ObjOf(cinfo, sel.X) != target {
				continue
			}
			fv, _ := cinfo.Uses[sel.Sel].(*types.Var)
			if fv == nil || tagOf[fv] == "" {
				continue
			}
			if guard.Passed(cli, r, "nonempty:"+fv.Name()) {
				continue // only parsed when present: optional
			}
			// does the error lead to a failing return? (conservatively: yes if the error object is tested and a return follows)
			layout := ""
			if calleeIs(cinfo, call, "time", "Parse") && len(call.Args) == 2 {
				layout = types.ExprString(call.Args[0])
				if s, ok := constString(cinfo, call.Args[0]); ok {
					layout = s
				}
			}
			required[tagOf[fv]] = req{layout, call.Pos()}
		}
	})
	var tags []string
	for _, t := range tagOf {
		tags = append(tags, t)
	}
	sort.Strings(tags)
	for _, t := range tags {
		key := "session-response/key/" + t
		ki, emitted := keys[t]
		rq, isReq := required[t]
		// a struct response emits a field without omitempty on every path: with its zero value ("") where the handler did not set it
		emptyWhenUnset := respStruct != nil && emitted && !always[t] && !omitEmpty[t]
		if respStruct != nil && !emitted {
			if _, declared := func() (string, bool) {
				for i := 0; i < respStruct.NumFields(); i++ {
					if structTagOf(respStruct, respStruct.Field(i).Name()) == t {
						return t, true
					}
				}
				return "", false
			}(); declared {
				emptyWhenUnset = !omitEmpty[t]
			}
		}
		switch {
		case emptyWhenUnset && (typed[t] != "" || isReq):
			how := "parses it without a test for the empty string"
			if typed[t] != "" {
				how = "decodes it into " + typed[t] + ", which does not accept an empty text"
			}
			c.Bad(key, cli.Pos(), fmt.Sprintf("the server's response struct emits %q on every path, with an empty value where the handler did not set it (no omitempty), and the client %s: "+
				"against a server configuration that leaves it unset (a session without a lifetime, --session-timeout 0) no host can create a session", t, how))
		case typed[t] != "" && emitted && !serverValueFits(sinfo, ki.val, typed[t]):
			c.Bad(key, ki.val.Pos(), fmt.Sprintf("client decodes key %q into %s but the server's value %s is not produced in that type's text form (time.Time: Format(time.RFC3339[Nano]) or a time.Time value)", t, typed[t], types.ExprString(ki.val)))
		case !emitted:
			c.Bad(key, cli.Pos(), fmt.Sprintf("client decodes JSON key %q which the server's /session handler never emits", t))
		case isReq && !always[t]:
			c.Bad(key, rq.pos, fmt.Sprintf("client fails when key %q is absent or unparsable, but the server emits it only on some paths (not on every path to Encode)", t),
				"server stores it at "+p.Pos(ki.val.Pos())+" under a condition; client requires it at "+p.Pos(rq.pos))
		case isReq:
			// layout agreement
			sl := ""
			if call, ok := ast.Unparen(ki.val).(*ast.CallExpr); ok && calleeIs(sinfo, call, "time", "Time.Format") && len(call.Args) == 1 {
				if s, ok := constString(sinfo, call.Args[0]); ok {
					sl = s
				}
			}
			if rq.layout != "" && sl != rq.layout {
				c.Bad(key, rq.pos, fmt.Sprintf("time layout differs: server formats with %q, client parses with %q", sl, rq.layout))
			} else {
				c.OK(key, rq.pos, "required by the client, emitted on every path, same layout")
			}
		default:
			c.OK(key, ki.val.Pos(), fmt.Sprintf("emitted by the server (always=%v); client treats it as optional or copies it", always[t]))
		}
	}

	// ---- status code
	var code int64 = -1
	scfg.Calls(func(r NodeRef, call *ast.CallExpr) {
		if sel, ok := ast.Unparen(call.Fun).(*ast.SelectorExpr); ok && sel.Sel.Name == "WriteHeader" && len(call.Args) == 1 && scfg.Dominates(r, encRef) {
			if v, ok := constInt(sinfo, call.Args[0]); ok {
				code = v
			}
		}
	})
	if code < 0 {
		code = 200
	}
	lo, hi, okRange := int64(-1), int64(-1), false
	ccfg.EachNode(func(r NodeRef) {
		e, ok := r.Node().(ast.Expr)
		if !ok {
			return
		}
		be, ok := ast.Unparen(e).(*ast.BinaryExpr)
		if !ok {
			return
		}
		isStatus := func(x ast.Expr) bool {
			sel, ok := ast.Unparen(x).(*ast.SelectorExpr)
			return ok && sel.Sel.Name == "StatusCode"
		}
		switch be.Op {
		case token.LOR:
			l, lok := ast.Unparen(be.X).(*ast.BinaryExpr)
			rr, rok := ast.Unparen(be.Y).(*ast.BinaryExpr)
			if lok && rok && isStatus(l.X) && isStatus(rr.X) && l.Op == token.LSS && rr.Op == token.GEQ {
				a, ok1 := constInt(cinfo, l.Y)
				b, ok2 := constInt(cinfo, rr.Y)
				if ok1 && ok2 {
					lo, hi, okRange = a, b, true
				}
			}
		case token.NEQ:
			if isStatus(be.X) {
				if a, ok := constInt(cinfo, be.Y); ok {
					lo, hi, okRange = a, a+1, true
				}
			}
		}
	})
	if !okRange {
		c.Unknown("session-response/status", cli.Pos(), "cannot extract the client's accepted status range")
	} else {
		c.Check(lo <= code && code < hi, "session-response/status", cli.Pos(), fmt.Sprintf("server answers %d, client accepts [%d,%d)", code, lo, hi),
			fmt.Sprintf("server answers %d on success but the client only accepts [%d,%d)", code, lo, hi))
	}

	// ---- method and path
	srvMethod, cliMethod, cliPath := "", "", ""
	scfg.EachNode(func(r NodeRef) {
		if e, ok := r.Node().(ast.Expr); ok {
			if be, ok := ast.Unparen(e).(*ast.BinaryExpr); ok && be.Op == token.NEQ {
				if sel, ok := ast.Unparen(be.X).(*ast.SelectorExpr); ok && sel.Sel.Name == "Method" {
					if s, ok := constString(sinfo, be.Y); ok {
						srvMethod = s
					}
				}
			}
		}
	})
	ccfg.Calls(func(r NodeRef, call *ast.CallExpr) {
		if calleeIs(cinfo, call, "net/http", "NewRequestWithContext") && len(call.Args) >= 3 {
			if s, ok := constString(cinfo, call.Args[1]); ok {
				cliMethod = s
			}
		}
	})
	ast.Inspect(cli.Body, func(n ast.Node) bool {
		if be, ok := n.(*ast.BinaryExpr); ok && be.Op == token.ADD {
			if s, ok := constString(cinfo, be.Y); ok && strings.HasPrefix(s, "/") {
				cliPath = s
			}
		}
		return true
	})
	c.Check(srvMethod != "" && srvMethod == cliMethod, "session-request/method", cli.Pos(), "both sides use "+srvMethod, fmt.Sprintf("server requires method %q, client sends %q", srvMethod, cliMethod))
	c.Check(cliPath == "/session", "session-request/path", cli.Pos(), "client posts to the path the handler is registered on", fmt.Sprintf("client posts to %q but the handler is registered on /session", cliPath))

	// ---- /session query keys written by the client are read by the server
	srvSessionKeys := queryKeysRead(srv)
	for _, k := range sprintfQueryKeys(cli) {
		c.Check(srvSessionKeys[k.key] != nil, "session-request/query/"+k.key, k.pos, "server reads this key", fmt.Sprintf("client writes query key %q on /session which the server never reads", k.key))
	}

	// ---- /ws URL builders
	ws := p.Func("cmd/thruserv.handleWebSocket")
	if ws == nil {
		c.MissingAnchor("cmd/thruserv.handleWebSocket")
		return
	}
	if p.httpHandler("/ws") == nil {
		c.Bad("ws/path", ws.Pos(), "no handler registered on /ws")
	}
	read := queryKeysRead(ws)
	// keys whose empty value is rejected
	requiredKeys := map[string]bool{}
	wcfg := ws.CFG()
	winfo := ws.Info()
	for k, o := range read {
		obj := o
		wcfg.EachNode(func(r NodeRef) {
			if e, ok := r.Node().(ast.Expr); ok {
				for _, a := range Implied(e, true) {
					if be, ok := a.E.(*ast.BinaryExpr); ok && be.Op == token.EQL && a.Val && ObjOf(winfo, be.X) == obj {
						if s, ok := constString(winfo, be.Y); ok && s == "" {
							requiredKeys[k] = true
						}
					}
					// role != "sender" && role != "receiver": non-member rejected => required
					if be, ok := a.E.(*ast.BinaryExpr); ok && be.Op == token.NEQ && a.Val && ObjOf(winfo, be.X) == obj {
						if s, ok := constString(winfo, be.Y); ok && s != "" {
							requiredKeys[k] = true
						}
					}
				}
			}
		})
	}
	builders := 0
	for _, f := range p.Funcs() {
		info := f.Info()
		var lit *ast.CompositeLit
		InspectNoLits(f.Body, func(n ast.Node) bool {
			if cl, ok := n.(*ast.CompositeLit); ok {
				if named, ok := info.TypeOf(cl).(*types.Named); ok && named.Obj().Pkg() != nil && named.Obj().Pkg().Path() == "net/url" && named.Obj().Name() == "URL" {
					for _, el := range cl.Elts {
						if kv, ok := el.(*ast.KeyValueExpr); ok {
							if id, ok := kv.Key.(*ast.Ident); ok && id.Name == "Path" {
								if s, ok := constString(info, kv.Value); ok && s == "/ws" {
									lit = cl
								}
							}
						}
					}
				}
			}
			return true
		})
		if lit == nil {
			continue
		}
		builders++
		written := sprintfQueryKeys(f)
		alwaysWritten := map[string]bool{}
		for _, k := range written {
			key := fmt.Sprintf("ws-query/%s/%s", f.Name, k.key)
			if read[k.key] == nil {
				c.Bad(key, k.pos, fmt.Sprintf("client writes query key %q which handleWebSocket never reads", k.key))
				continue
			}
			if k.verb == "s" && !k.escaped {
				c.Bad(key, k.pos, fmt.Sprintf("value of query key %q is not a url.QueryEscape result: URL-significant characters in it change the query", k.key))
				continue
			}
			if k.first {
				alwaysWritten[k.key] = true
			}
			c.OK(key, k.pos, "read by the server; escaped")
		}
		for rk := range requiredKeys {
			c.Check(alwaysWritten[rk], fmt.Sprintf("ws-query/%s/required/%s", f.Name, rk), f.Pos(), "always written", fmt.Sprintf("server rejects a connection without %q but this builder does not always write it", rk))
		}
	}
	if builders == 0 {
		c.Bad("ws-query/builders", ws.Pos(), "no client function builds a url.URL with Path \"/ws\"")
	}
	// role constants at call sites
	if b := p.Func("app.buildWebSocketURL"); b != nil && b.Obj != nil {
		accepted := map[string]bool{}
		wcfg.EachNode(func(r NodeRef) {
			if e, ok := r.Node().(ast.Expr); ok {
				ast.Inspect(e, func(n ast.Node) bool {
					if be, ok := n.(*ast.BinaryExpr); ok && be.Op == token.NEQ && read["role"] != nil && ObjOf(winfo, be.X) == read["role"] {
						if s, ok := constString(winfo, be.Y); ok {
							accepted[s] = true
						}
					}
					return true
				})
			}
		})
		for _, st := range p.CallSites(b.Obj) {
			InspectNoLits(st.ref.Node(), func(n ast.Node) bool {
				if call, ok := n.(*ast.CallExpr); ok && Callee(st.f.Info(), call) == b.Obj && len(call.Args) >= 4 {
					if s, ok := constString(st.f.Info(), call.Args[3]); ok {
						c.Check(accepted[s], "ws-role/"+st.f.Name, call.Pos(), "role "+s+" is accepted by the server", fmt.Sprintf("client connects with role %q which handleWebSocket rejects", s))
					}
				}
				return true
			})
		}
	}
}

func reflectTag(tag, key string) string {
	// minimal struct tag lookup
	for tag != "" {
		i := 0
		for i < len(tag) && tag[i] == ' ' {
			i++
		}
		tag = tag[i:]
		if tag == "" {
			break
		}
		i = 0
		for i < len(tag) && tag[i] > ' ' && tag[i] != ':' && tag[i] != '"' {
			i++
		}
		if i == 0 || i+1 >= len(tag) || tag[i] != ':' || tag[i+1] != '"' {
			break
		}
		name := tag[:i]
		tag = tag[i+1:]
		i = 1
		for i < len(tag) && tag[i] != '"' {
			if tag[i] == '\\' {
				i++
			}
			i++
		}
		if i >= len(tag) {
			break
		}
		val := tag[1:i]
		tag = tag[i+1:]
		if name == key {
			return val
		}
	}
	return ""
}

// queryKeysRead: keys read via <req>.URL.Query().Get("k"), mapped to the variable receiving them (or a placeholder).
func queryKeysRead(f *FuncInfo) map[string]types.Object {
	out := map[string]types.Object{}
	info := f.Info()
	ast.Inspect(f.Body, func(n ast.Node) bool {
		as, isAs := n.(*ast.AssignStmt)
		var calls []*ast.CallExpr
		if isAs && len(as.Rhs) == 1 {
			if call, ok := ast.Unparen(as.Rhs[0]).(*ast.CallExpr); ok {
				calls = append(calls, call)
			}
		}
		for _, call := range calls {
			if calleeIs(info, call, "net/url", "Values.Get") && len(call.Args) == 1 {
				if s, ok := constString(info, call.Args[0]); ok {
					var o types.Object = types.NewVar(token.NoPos, nil, s, types.Typ[types.String])
					if len(as.Lhs) == 1 {
						if lo := ObjOf(info, as.Lhs[0]); lo != nil {
							o = lo
						}
					}
					out[s] = o
				}
			}
		}
		return true
	})
	return out
}

type qkey struct {
	key     string
	verb    string
	escaped bool
	first   bool // written by the unconditional first format
	pos     token.Pos
}

var qkeyRe = regexp.MustCompile(`([A-Za-z_][A-Za-z0-9_]*)=%([sdv])`)

// sprintfQueryKeys extracts key=%verb pairs from fmt.Sprintf formats in f and checks the arguments.
func sprintfQueryKeys(f *FuncInfo) []qkey {
	var out []qkey
	info := f.Info()
	n := 0
	ast.Inspect(f.Body, func(nd ast.Node) bool {
		call, ok := nd.(*ast.CallExpr)
		if !ok || !calleeIs(info, call, "fmt", "Sprintf") || len(call.Args) < 1 {
			return true
		}
		format, ok := constString(info, call.Args[0])
		if !ok || !strings.Contains(format, "=%") {
			return true
		}
		n++
		// map verbs to args in order
		verbRe := regexp.MustCompile(`%[sdvq]`)
		verbs := verbRe.FindAllStringIndex(format, -1)
		for _, m := range qkeyRe.FindAllStringSubmatchIndex(format, -1) {
			key, verb := format[m[2]:m[3]], format[m[4]:m[5]]
			// which verb index is this
			vi := -1
			for i, v := range verbs {
				if v[0] == m[4]-1 {
					vi = i
				}
			}
			escaped := false
			if vi >= 0 && vi+1 < len(call.Args) {
				if ac, ok := ast.Unparen(call.Args[vi+1]).(*ast.CallExpr); ok && calleeIs(info, ac, "net/url", "QueryEscape") {
					// PathEscape is not enough in a query: it leaves `+`, `&` and `=` as they are
					escaped = true
				}
			}
			out = append(out, qkey{key, verb, escaped, n == 1, call.Pos()})
		}
		return true
	})
	return out
}

// ---------------------------------------------------------------------------

type turnTable struct {
	cases   []string // "prefix=>rewrite+TrimPrefix(prefix')" or "prefix=>keep"
	dflt    string
	schemes []string
	hostFallback bool
	problems []string
}

func extractTurnTable(f *FuncInfo) (t turnTable) {
	info := f.Info()
	hostVars := map[types.Object]bool{}
	usesPath := false
	ast.Inspect(f.Body, func(n ast.Node) bool {
		if as, ok := n.(*ast.AssignStmt); ok && len(as.Lhs) == 1 && len(as.Rhs) == 1 {
			if sel, ok := ast.Unparen(as.Rhs[0]).(*ast.SelectorExpr); ok {
				if sel.Sel.Name == "Host" {
					if o := ObjOf(info, as.Lhs[0]); o != nil {
						hostVars[o] = true
					}
				}
				if sel.Sel.Name == "Path" {
					usesPath = true
				}
			}
		}
		return true
	})
	defer func() { t.hostFallback = t.hostFallback && usesPath }()
	ast.Inspect(f.Body, func(n ast.Node) bool {
		switch s := n.(type) {
		case *ast.SwitchStmt:
			if s.Tag != nil {
				return true
			}
			for _, cl := range s.Body.List {
				cc := cl.(*ast.CaseClause)
				rewrite := "keep"
				for _, st := range cc.Body {
					if as, ok := st.(*ast.AssignStmt); ok && len(as.Rhs) == 1 {
						if be, ok := ast.Unparen(as.Rhs[0]).(*ast.BinaryExpr); ok && be.Op == token.ADD {
							lhs, _ := constString(info, be.X)
							rhs := "raw"
							if call, ok := ast.Unparen(be.Y).(*ast.CallExpr); ok && calleeIs(info, call, "strings", "TrimPrefix") && len(call.Args) == 2 {
								pp, _ := constString(info, call.Args[1])
								rhs = "TrimPrefix(" + pp + ")"
							}
							rewrite = lhs + "+" + rhs
						} else {
							rewrite = "?" + types.ExprString(as.Rhs[0])
						}
					}
				}
				if cc.List == nil {
					t.dflt = rewrite
					continue
				}
				for _, e := range cc.List {
					if call, ok := ast.Unparen(e).(*ast.CallExpr); ok && calleeIs(info, call, "strings", "HasPrefix") && len(call.Args) == 2 {
						pp, _ := constString(info, call.Args[1])
						t.cases = append(t.cases, pp+"=>"+rewrite)
					} else {
						t.problems = append(t.problems, "unrecognised case "+types.ExprString(e))
					}
				}
			}
		case *ast.BinaryExpr:
			if s.Op == token.NEQ || s.Op == token.EQL {
				if sel, ok := ast.Unparen(s.X).(*ast.SelectorExpr); ok && sel.Sel.Name == "Scheme" {
					if v, ok := constString(info, s.Y); ok {
						t.schemes = append(t.schemes, v)
					}
				}
				if v, ok := constString(info, s.Y); ok && v == "" && s.Op == token.EQL {
					if sel, ok := ast.Unparen(s.X).(*ast.SelectorExpr); ok && sel.Sel.Name == "Host" {
						t.hostFallback = true
					}
					if o := ObjOf(info, s.X); o != nil && hostVars[o] {
						t.hostFallback = true
					}
				}
			}
		}
		return true
	})
	// ordered cases matter (first match wins): keep order
	sort.Strings(t.schemes)
	t.schemes = uniq(t.schemes)
	return t
}

func uniq(s []string) []string {
	var out []string
	for i, v := range s {
		if i == 0 || v != s[i-1] {
			out = append(out, v)
		}
	}
	return out
}

func runTurnSibling(c *Ctx) {
	p := c.P
	srv := p.Func("cmd/thruserv.injectTurnCredentials")
	cli := p.Func("ice.parseTurnServer")
	if srv == nil || cli == nil {
		c.MissingAnchor("cmd/thruserv.injectTurnCredentials / ice.parseTurnServer")
		return
	}
	a, b := extractTurnTable(srv), extractTurnTable(cli)
	if len(a.problems)+len(b.problems) > 0 {
		c.Unknown("turn/table", srv.Pos(), "unrecognised switch form: "+strings.Join(append(a.problems, b.problems...), "; "))
		return
	}
	as_, bs_ := strings.Join(a.cases, " | "), strings.Join(b.cases, " | ")
	c.Check(as_ == bs_ && len(a.cases) >= 2, "turn/prefix-table", srv.Pos(), "server and client normalise prefixes identically: "+as_,
		"server and client normalise TURN URL prefixes differently", "server: "+as_, "client: "+bs_)
	c.Check(a.dflt == b.dflt && a.dflt != "", "turn/default-rewrite", srv.Pos(), "same default rewrite "+a.dflt, fmt.Sprintf("default rewrite differs: server %q, client %q", a.dflt, b.dflt))
	c.Check(strings.Join(a.schemes, ",") == strings.Join(b.schemes, ",") && len(a.schemes) > 0, "turn/schemes", srv.Pos(), "same accepted schemes "+strings.Join(a.schemes, ","),
		fmt.Sprintf("accepted schemes differ: server %v, client %v", a.schemes, b.schemes))
	c.Check(a.hostFallback == b.hostFallback, "turn/host-fallback", srv.Pos(), "both fall back from Host to Path", "only one side falls back from u.Host to u.Path")
	// credentials
	inj, user, pass := false, false, false
	ast.Inspect(srv.Body, func(n ast.Node) bool {
		if call, ok := n.(*ast.CallExpr); ok && calleeIs(srv.Info(), call, "net/url", "UserPassword") && len(call.Args) == 2 {
			// args must be the username and password parameters, in that order
			names := []string{}
			for _, fld := range srv.Type.Params.List {
				for _, nm := range fld.Names {
					names = append(names, nm.Name)
				}
			}
			if len(names) == 3 && types.ExprString(call.Args[0]) == names[1] && types.ExprString(call.Args[1]) == names[2] {
				inj = true
			}
		}
		return true
	})
	ast.Inspect(cli.Body, func(n ast.Node) bool {
		if call, ok := n.(*ast.CallExpr); ok {
			if calleeIs(cli.Info(), call, "net/url", "Userinfo.Username") {
				user = true
			}
			if calleeIs(cli.Info(), call, "net/url", "Userinfo.Password") {
				pass = true
			}
		}
		return true
	})
	c.Check(inj && user && pass, "turn/credentials", srv.Pos(), "injected with url.UserPassword(username, password), extracted with Username()/Password()",
		fmt.Sprintf("credential injection/extraction mismatch (inject=%v username=%v password=%v)", inj, user, pass))
	// Issue: username carries expiry and peer id; password is HMAC over exactly that username
	if iss := p.Func("cmd/thruserv.(*turnIssuer).Issue"); iss != nil {
		info := iss.Info()
		var userObj, passObj types.Object
		okPass, okInject := false, false
		ast.Inspect(iss.Body, func(n ast.Node) bool {
			if as, ok := n.(*ast.AssignStmt); ok && len(as.Lhs) == 1 && len(as.Rhs) == 1 {
				if call, ok := ast.Unparen(as.Rhs[0]).(*ast.CallExpr); ok {
					if calleeIs(info, call, "fmt", "Sprintf") && userObj == nil {
						userObj = ObjOf(info, as.Lhs[0])
					}
					if fi := p.CalleeInfo(info, call); fi != nil && fi.Name == "cmd/thruserv.buildTurnPassword" && len(call.Args) == 2 {
						passObj = ObjOf(info, as.Lhs[0])
						okPass = ObjOf(info, call.Args[1]) == userObj && userObj != nil
					}
				}
			}
			if call, ok := n.(*ast.CallExpr); ok {
				if fi := p.CalleeInfo(info, call); fi != nil && fi == srv && len(call.Args) == 3 {
					okInject = ObjOf(info, call.Args[1]) == userObj && ObjOf(info, call.Args[2]) == passObj && passObj != nil
				}
			}
			return true
		})
		c.Check(okPass && okInject, "turn/issue", iss.Pos(), "password = HMAC(secret, username); the same username/password pair is injected",
			"Issue does not inject the username it signed (password is not the MAC of the injected username)")
	} else {
		c.MissingAnchor("cmd/thruserv.(*turnIssuer).Issue")
	}
}

// ---------------------------------------------------------------------------

func runZeroOff(c *Ctx) {
	p := c.P
	limType, _ := p.LookupObj("cmd/thruserv", "serverLimits").(*types.TypeName)
	if limType == nil {
		c.MissingAnchor("cmd/thruserv.serverLimits")
		return
	}
	st := limType.Type().Underlying().(*types.Struct)
	fields := map[*types.Var]bool{}
	for i := 0; i < st.NumFields(); i++ {
		fields[st.Field(i)] = true
	}
	limitFieldOf := func(info *types.Info, e ast.Expr) *types.Var {
		sel, ok := ast.Unparen(e).(*ast.SelectorExpr)
		if !ok {
			return nil
		}
		v, _ := info.Uses[sel.Sel].(*types.Var)
		if v != nil && fields[v] {
			return v
		}
		return nil
	}
	mentions := func(info *types.Info, e ast.Expr) []*types.Var {
		var out []*types.Var
		ast.Inspect(e, func(n ast.Node) bool {
			if x, ok := n.(ast.Expr); ok {
				if v := limitFieldOf(info, x); v != nil {
					out = append(out, v)
				}
			}
			return true
		})
		return out
	}
	spec := &PassSpec{Name: "zero-off"}
	// pos:F — atom `limits.F > 0` true (or `limits.F <= 0` false)
	spec.Vias = append(spec.Vias, Via{Cond: func(f *FuncInfo, e ast.Expr) (string, bool, bool) {
		be, ok := ast.Unparen(e).(*ast.BinaryExpr)
		if !ok {
			return "", false, false
		}
		v := limitFieldOf(f.Info(), be.X)
		if v == nil {
			return "", false, false
		}
		if z, ok := constInt(f.Info(), be.Y); !ok || z != 0 {
			if tv, ok2 := f.Info().Types[be.Y]; !ok2 || tv.Value == nil || constant.Sign(tv.Value) != 0 {
				return "", false, false
			}
		}
		switch be.Op {
		case token.GTR:
			return "pos:" + v.Name(), true, true
		case token.LEQ:
			return "pos:" + v.Name(), false, true
		}
		return "", false, false
	}})
	rejecting := func(info *types.Info, call *ast.CallExpr) string {
		if fi := p.CalleeInfo(info, call); fi != nil && fi.Name == "cmd/thruserv.sendError" {
			return "sendError"
		}
		for _, m := range []string{"Conn.Close", "Conn.SetReadDeadline", "Conn.SetReadLimit"} {
			if calleeIs(info, call, "github.com/gorilla/websocket", m) {
				return m
			}
		}
		if fi := p.CalleeInfo(info, call); fi != nil && (fi.Name == "cmd/thruserv.(*connLimiter).Acquire" || fi.Name == "cmd/thruserv.(*ipLimiter).Allow" || fi.Name == "cmd/thruserv.(*tokenBucket).Allow") {
			return fi.Name
		}
		return ""
	}
	var roots []*FuncInfo
	if h := p.httpHandler("/session"); h != nil {
		roots = append(roots, h)
	} else {
		c.MissingAnchor("/session handler")
	}
	if ws := p.Func("cmd/thruserv.handleWebSocket"); ws != nil {
		roots = append(roots, ws)
	} else {
		c.MissingAnchor("cmd/thruserv.handleWebSocket")
	}
	var visit func(f *FuncInfo)
	visit = func(f *FuncInfo) {
		info := f.Info()
		n := map[string]int{}
		f.CFG().Calls(func(r NodeRef, call *ast.CallExpr) {
			what := rejecting(info, call)
			if what == "" {
				return
			}
			facts := spec.PassedList(f, r)
			// data dependence: a deadline / size limit computed from a limit field is a rejection armed with that value;
			// with the value 0 it fires at once, so the call itself needs limit > 0 (closures inherit the facts common to
			// all their call sites)
			if what == "Conn.SetReadDeadline" || what == "Conn.SetReadLimit" {
				for _, a := range call.Args {
					for _, v := range mentions(info, a) {
						n["arg:"+v.Name()]++
						has := false
						for _, fb := range facts {
							if fb == "pos:"+v.Name() {
								has = true
							}
						}
						c.Check(has, fmt.Sprintf("zero-off/%s/%s/%s.arg#%d", f.Name, v.Name(), what, n["arg:"+v.Name()]), call.Pos(), what+" is armed with limits."+v.Name()+" only where limits."+v.Name()+" > 0 holds",
							what+" is armed with limits."+v.Name()+" on a path (or from a call site of this closure) where limits."+v.Name()+" > 0 was not tested: with the limit set to 0 ('disabled') the deadline/limit is already exceeded and the connection is dropped")
					}
				}
			}
			for _, fld := range enclosingLimitConds(p, f, call, func(info *types.Info, e ast.Expr) []string {
				var out []string
				for _, v := range mentions(info, e) {
					out = append(out, v.Name())
				}
				// a local computed from a limit field (`max := limits.F; if max <= 0 { max = 64 << 10 }`) still is that limit:
				// substituting a default for 0 does not make 0 mean 'no limit' (F37)
				ast.Inspect(e, func(n ast.Node) bool {
					id, ok := n.(*ast.Ident)
					if !ok {
						return true
					}
					o, _ := info.Uses[id].(*types.Var)
					if o == nil || o.IsField() {
						return true
					}
					for g := f; g != nil; g = g.Parent {
						for _, d := range allDefs(g, o) {
							// copies and arithmetic only: a value returned by a call that took the limit as an argument
							// (CreateWithLimit, newTokenBucket) is that callee's business
							ast.Inspect(d, func(m ast.Node) bool {
								if call, ok := m.(*ast.CallExpr); ok {
									if tv, ok := g.Info().Types[call.Fun]; !ok || !tv.IsType() {
										return false
									}
								}
								if x, ok := m.(ast.Expr); ok {
									if v := limitFieldOf(g.Info(), x); v != nil {
										out = append(out, v.Name())
									}
								}
								return true
							})
						}
					}
					return true
				})
				return out
			}) {
				n[fld]++
				key := fmt.Sprintf("zero-off/%s/%s/%s#%d", f.Name, fld, what, n[fld])
				has := false
				for _, fb := range facts {
					if fb == "pos:"+fld {
						has = true
					}
				}
				// the limiter calls themselves may sit in the same condition as the limit test: then they are evaluated only
				// after the left conjunct limit>0 — covered because dep is established on the edge, not inside the condition.
				c.Check(has, key, call.Pos(), what+" depends on limits."+fld+" and is dominated by limits."+fld+" > 0",
					what+" is control-dependent on limits."+fld+" without a dominating limits."+fld+" > 0 test: a limit of 0 would reject instead of disabling")
			}
		})
		for _, k := range f.Kids {
			visit(k)
		}
	}
	for _, r := range roots {
		visit(r)
	}
	// calls inside a condition (e.g. `limits.x > 0 && !limiter.Allow()`): check the condition shape directly
	for _, r := range roots {
		var visit2 func(f *FuncInfo)
		visit2 = func(f *FuncInfo) {
			info := f.Info()
			f.CFG().EachNode(func(ref NodeRef) {
				e, ok := ref.Node().(ast.Expr)
				if !ok {
					return
				}
				if _, _, _, isCond := CondEdges(ref.B); !isCond || ref.I != len(ref.B.Nodes)-1 {
					return
				}
				ast.Inspect(e, func(n ast.Node) bool {
					call, ok := n.(*ast.CallExpr)
					if !ok {
						return true
					}
					what := rejecting(info, call)
					if what == "" || what == "sendError" {
						return true
					}
					// the limiter call must be guarded: either dominated by pos fact of some field, or right operand of `limits.F > 0 && ...`
					guarded := false
					for _, fa := range spec.PassedList(f, ref) {
						if strings.HasPrefix(fa, "pos:") {
							guarded = true
						}
					}
					if be, ok := ast.Unparen(e).(*ast.BinaryExpr); ok && be.Op == token.LAND {
						for _, a := range Implied(be.X, true) {
							if b2, ok := a.E.(*ast.BinaryExpr); ok && b2.Op == token.GTR && a.Val && limitFieldOf(info, b2.X) != nil {
								guarded = true
							}
						}
					}
					c.Check(guarded, fmt.Sprintf("zero-off/%s/cond/%s", f.Name, what), call.Pos(), "limiter consulted only when its limit is > 0",
						"limiter "+what+" is consulted in a condition without a limit > 0 guard")
					return true
				})
			})
			for _, k := range f.Kids {
				visit2(k)
			}
		}
		visit2(r)
	}
	// session TTL: wherever the expiry is computed from the TTL
	{
		found := false
		for _, cr := range p.FuncsIn("internal/session") {
			info := cr.Info()
			ttlSpec := &PassSpec{Vias: []Via{{Cond: func(f *FuncInfo, e ast.Expr) (string, bool, bool) {
				be, ok := ast.Unparen(e).(*ast.BinaryExpr)
				if !ok || be.Op != token.GTR {
					return "", false, false
				}
				if sel, ok := ast.Unparen(be.X).(*ast.SelectorExpr); ok && sel.Sel.Name == "ttl" {
					return "ttl>0", true, true
				}
				return "", false, false
			}}}}
			cr.CFG().Calls(func(r NodeRef, call *ast.CallExpr) {
				if calleeIs(info, call, "time", "Time.Add") && strings.Contains(types.ExprString(call), "ttl") {
					found = true
					c.Check(ttlSpec.Passed(cr, r, "ttl>0"), "zero-off/session-ttl/"+cr.Name, call.Pos(), "expiry computed only under ttl > 0", "session expiry is computed from the TTL without a ttl > 0 guard: --session-timeout 0 would expire sessions immediately")
				}
			})
			// a count limit passed as a parameter: rejection only under limit > 0
			var params = map[types.Object]bool{}
			for _, fld := range cr.Type.Params.List {
				for _, nm := range fld.Names {
					if o := info.Defs[nm]; o != nil {
						if b, ok := o.Type().Underlying().(*types.Basic); ok && b.Info()&types.IsInteger != 0 {
							params[o] = true
						}
					}
				}
			}
			for _, b := range cr.CFG().Blocks {
				cond, _, _, ok := CondEdges(b)
				if !ok {
					continue
				}
				var limitParam types.Object
				ast.Inspect(cond, func(n ast.Node) bool {
					if be, ok := n.(*ast.BinaryExpr); ok && (be.Op == token.GEQ || be.Op == token.GTR) && strings.HasPrefix(types.ExprString(be.X), "len(") {
						if o := ObjOf(info, be.Y); o != nil && params[o] {
							limitParam = o
						}
					}
					return true
				})
				if limitParam == nil {
					continue
				}
				guarded := false
				for _, a := range Implied(cond, true) {
					if be, ok := a.E.(*ast.BinaryExpr); ok && be.Op == token.GTR && a.Val && ObjOf(info, be.X) == limitParam {
						if z, ok := constInt(info, be.Y); ok && z == 0 {
							guarded = true
						}
					}
				}
				c.Check(guarded, "zero-off/"+cr.Name+"/"+limitParam.Name(), cond.Pos(), "count limit enforced only when "+limitParam.Name()+" > 0",
					"the count limit "+limitParam.Name()+" is enforced without a "+limitParam.Name()+" > 0 guard: a limit of 0 would refuse every request instead of disabling the limit")
			}
		}
		if !found {
			c.Unknown("zero-off/session-ttl/create", token.NoPos, "cannot find the expiry computation now.Add(ttl) in internal/session")
		}
	}
	if g := p.Func("session.(*Store).GetByJoinCode"); g != nil {
		info := g.Info()
		zs := &PassSpec{Vias: []Via{{Cond: func(f *FuncInfo, e ast.Expr) (string, bool, bool) {
			if call, ok := ast.Unparen(e).(*ast.CallExpr); ok && calleeIs(f.Info(), call, "time", "Time.IsZero") {
				return "nonzero-expiry", false, true
			}
			return "", false, false
		}}}}
		n := 0
		g.CFG().Calls(func(r NodeRef, call *ast.CallExpr) {
			if id, ok := ast.Unparen(call.Fun).(*ast.Ident); ok {
				if b, ok := info.Uses[id].(*types.Builtin); ok && b.Name() == "delete" {
					n++
					c.Check(zs.Passed(g, r, "nonzero-expiry"), fmt.Sprintf("zero-off/session-ttl/lookup#%d", n), call.Pos(), "lazy expiry only for sessions with a non-zero ExpiresAt",
						"GetByJoinCode deletes a session without testing that ExpiresAt is set: sessions without a lifetime would be dropped")
				}
			}
		})
	}
}

// ---------------------------------------------------------------------------

func runFlagsDoc(c *Ctx) {
	p := c.P
	usage := p.Func("cmd/thruserv.printServerUsage")
	parse := p.Func("config.parseServerConfigWithFlagSet")
	if usage == nil || parse == nil {
		c.MissingAnchor("printServerUsage / parseServerConfigWithFlagSet")
		return
	}
	doc := map[string]bool{}
	re := regexp.MustCompile(`--([a-z][a-z0-9-]*)`)
	ast.Inspect(usage.Body, func(n ast.Node) bool {
		if bl, ok := n.(*ast.BasicLit); ok && bl.Kind == token.STRING {
			if s, ok := constString(usage.Info(), bl); ok {
				if strings.Contains(s, "example:") {
					return true
				}
				for _, m := range re.FindAllStringSubmatch(s, -1) {
					doc[m[1]] = true
				}
			}
		}
		return true
	})
	reg := map[string]bool{}
	ast.Inspect(parse.Body, func(n ast.Node) bool {
		call, ok := n.(*ast.CallExpr)
		if !ok {
			return true
		}
		fn := Callee(parse.Info(), call)
		if fn == nil || fn.Pkg() == nil || fn.Pkg().Path() != "flag" {
			return true
		}
		if !strings.HasSuffix(fn.Name(), "Var") && fn.Name() != "Var" {
			return true
		}
		if len(call.Args) >= 2 {
			if s, ok := constString(parse.Info(), call.Args[1]); ok {
				reg[s] = true
			}
		}
		return true
	})
	var missingDoc, missingReg []string
	for k := range reg {
		if !doc[k] {
			missingDoc = append(missingDoc, k)
		}
	}
	for k := range doc {
		if !reg[k] {
			missingReg = append(missingReg, k)
		}
	}
	sort.Strings(missingDoc)
	sort.Strings(missingReg)
	c.Check(len(missingReg) == 0, "flags/documented-are-registered", usage.Pos(), fmt.Sprintf("%d documented flags all registered", len(doc)), "usage text documents flags that are not registered: "+strings.Join(missingReg, ", "))
	c.Check(len(missingDoc) == 0, "flags/registered-are-documented", parse.Pos(), fmt.Sprintf("%d registered flags all documented", len(reg)), "registered server flags missing from the usage text: "+strings.Join(missingDoc, ", "))
}

// enclosingLimitConds walks the syntactic nesting (if statements, through enclosing function literals)
// around node n and returns the limit fields mentioned by the conditions of the if statements that contain it.
func enclosingLimitConds(p *Program, f *FuncInfo, n ast.Node, mentions func(*types.Info, ast.Expr) []string) []string {
	seen := map[string]bool{}
	var out []string
	cur := f
	target := n
	for cur != nil {
		var stack []ast.Node
		var found []ast.Node
		ast.Inspect(cur.Body, func(m ast.Node) bool {
			if found != nil {
				return false
			}
			if m == nil {
				stack = stack[:len(stack)-1]
				return false
			}
			stack = append(stack, m)
			if m == target {
				found = append([]ast.Node{}, stack...)
				return false
			}
			return true
		})
		for _, a := range found {
			if is, ok := a.(*ast.IfStmt); ok && is.Cond != nil {
				// only when the target is in the body/else, not in the condition itself or init
				inBody := target.Pos() >= is.Body.Pos() && target.End() <= is.Body.End()
				inElse := is.Else != nil && target.Pos() >= is.Else.Pos() && target.End() <= is.Else.End()
				if !inBody && !inElse {
					continue
				}
				for _, nm := range mentions(cur.Info(), is.Cond) {
					if !seen[nm] {
						seen[nm] = true
						out = append(out, nm)
					}
				}
			}
		}
		if cur.Lit == nil {
			break
		}
		target = cur.Lit
		cur = cur.Parent
	}
	sort.Strings(out)
	return out
}

// structTagOf: the JSON key of the field named fieldName of st ("" when there is none or it is "-").
func structTagOf(st *types.Struct, fieldName string) string {
	for i := 0; i < st.NumFields(); i++ {
		if st.Field(i).Name() != fieldName {
			continue
		}
		name := strings.Split(reflectTag(st.Tag(i), "json"), ",")[0]
		if name == "" {
			name = fieldName
		}
		if name == "-" {
			return ""
		}
		return name
	}
	return ""
}

// serverValueFits: the expression the server stores under a key decodes into the client's field type.
func serverValueFits(info *types.Info, val ast.Expr, clientType string) bool {
	if val == nil {
		return false
	}
	if t := info.TypeOf(val); t != nil && t.String() == clientType {
		return true
	}
	if clientType == "time.Time" {
		if call, ok := ast.Unparen(val).(*ast.CallExpr); ok && calleeIs(info, call, "time", "Time.Format") && len(call.Args) == 1 {
			if s, ok := constString(info, call.Args[0]); ok && (s == "2006-01-02T15:04:05Z07:00" || s == "2006-01-02T15:04:05.999999999Z07:00") {
				return true
			}
		}
	}
	return false
}
