package tf

import (
	"fmt"
	"go/ast"
	"go/token"
	"go/types"
	"sort"
	"strings"

	"golang.org/x/tools/go/packages"
	"golang.org/x/tools/go/types/typeutil"
)

// FuncInfo describes one function body of the repository: a declared function,
// a method, or a function literal (closure). Closures are first-class analysis
// units whose facts at entry are derived from the places that create/invoke them.
type FuncInfo struct {
	Prog   *Program
	Pkg    *packages.Package
	Name   string // "transfer.RecvManifestMultiStream", "transfer.(*Sidecar).Flush", "transfer.RecvManifestMultiStream$finalizeFile"
	Decl   *ast.FuncDecl
	Lit    *ast.FuncLit
	Body   *ast.BlockStmt
	Type   *ast.FuncType
	Obj    *types.Func // nil for literals
	Var    *types.Var  // for literals bound to a single variable: that variable
	Parent *FuncInfo   // enclosing function for literals
	Kids   []*FuncInfo // literals directly inside this body

	cfg *CFG
}

func (f *FuncInfo) Info() *types.Info { return f.Pkg.TypesInfo }
func (f *FuncInfo) Pos() token.Pos {
	if f.Decl != nil {
		return f.Decl.Pos()
	}
	return f.Lit.Pos()
}

// Root returns the outermost declared function enclosing f.
func (f *FuncInfo) Root() *FuncInfo {
	for f.Parent != nil {
		f = f.Parent
	}
	return f
}

func pkgShort(pk *packages.Package) string {
	rel := strings.TrimPrefix(strings.TrimPrefix(pk.PkgPath, ModulePath), "/")
	if strings.HasPrefix(rel, "cmd/") {
		return rel // cmd/thruserv etc. (all are package main)
	}
	return pk.Name
}

type funcIndex struct {
	all    []*FuncInfo
	byName map[string]*FuncInfo
	byObj  map[*types.Func]*FuncInfo
	byLit  map[*ast.FuncLit]*FuncInfo
	byVar  map[*types.Var]*FuncInfo // closure variables with exactly one literal ever assigned
}

func (p *Program) index() *funcIndex {
	if p.fidx != nil {
		return p.fidx
	}
	ix := &funcIndex{byName: map[string]*FuncInfo{}, byObj: map[*types.Func]*FuncInfo{}, byLit: map[*ast.FuncLit]*FuncInfo{}, byVar: map[*types.Var]*FuncInfo{}}
	p.fidx = ix
	for _, pk := range p.Pkgs {
		short := pkgShort(pk)
		for _, file := range pk.Syntax {
			for _, d := range file.Decls {
				fd, ok := d.(*ast.FuncDecl)
				if !ok || fd.Body == nil {
					continue
				}
				obj, _ := pk.TypesInfo.Defs[fd.Name].(*types.Func)
				name := short + "." + fd.Name.Name
				if fd.Recv != nil && len(fd.Recv.List) == 1 {
					name = short + ".(" + types.ExprString(fd.Recv.List[0].Type) + ")." + fd.Name.Name
				}
				fi := &FuncInfo{Prog: p, Pkg: pk, Name: name, Decl: fd, Body: fd.Body, Type: fd.Type, Obj: obj}
				ix.add(fi)
				p.collectLits(ix, fi)
			}
			// package-level var initialisers with literals
			for _, d := range file.Decls {
				gd, ok := d.(*ast.GenDecl)
				if !ok {
					continue
				}
				for _, sp := range gd.Specs {
					vs, ok := sp.(*ast.ValueSpec)
					if !ok {
						continue
					}
					for i, v := range vs.Values {
						ast.Inspect(v, func(n ast.Node) bool {
							if lit, ok := n.(*ast.FuncLit); ok {
								nm := "init"
								if i < len(vs.Names) {
									nm = vs.Names[i].Name
								}
								fi := &FuncInfo{Prog: p, Pkg: pk, Name: short + "." + nm + "$lit", Lit: lit, Body: lit.Body, Type: lit.Type}
								ix.add(fi)
								p.collectLits(ix, fi)
								return false
							}
							return true
						})
					}
				}
			}
		}
	}
	// Bind closure variables: a local variable that is assigned a literal exactly once
	// (by := / var / =) and never assigned anything else.
	type asg struct {
		lits  []*ast.FuncLit
		other int
	}
	for _, pk := range p.Pkgs {
		assigns := map[*types.Var]*asg{}
		note := func(lhs ast.Expr, rhs ast.Expr) {
			id, ok := lhs.(*ast.Ident)
			if !ok {
				return
			}
			var v *types.Var
			if o, ok := pk.TypesInfo.Defs[id].(*types.Var); ok {
				v = o
			} else if o, ok := pk.TypesInfo.Uses[id].(*types.Var); ok {
				v = o
			}
			if v == nil {
				return
			}
			if _, ok := v.Type().Underlying().(*types.Signature); !ok {
				return
			}
			a := assigns[v]
			if a == nil {
				a = &asg{}
				assigns[v] = a
			}
			if rhs != nil {
				if lit, ok := ast.Unparen(rhs).(*ast.FuncLit); ok {
					a.lits = append(a.lits, lit)
					return
				}
			}
			a.other++
		}
		for _, file := range pk.Syntax {
			ast.Inspect(file, func(n ast.Node) bool {
				switch s := n.(type) {
				case *ast.AssignStmt:
					if len(s.Lhs) == len(s.Rhs) {
						for i := range s.Lhs {
							note(s.Lhs[i], s.Rhs[i])
						}
					} else {
						for i := range s.Lhs {
							note(s.Lhs[i], nil)
						}
					}
				case *ast.ValueSpec:
					for i, nm := range s.Names {
						if i < len(s.Values) && len(s.Values) == len(s.Names) {
							note(nm, s.Values[i])
						} else if len(s.Values) > 0 {
							note(nm, nil)
						}
						// "var f func()" with no value: declaration only, later assignment counts
					}
				}
				return true
			})
		}
		for v, a := range assigns {
			if len(a.lits) == 1 && a.other == 0 {
				if fi := ix.byLit[a.lits[0]]; fi != nil {
					fi.Var = v
					ix.byVar[v] = fi
				}
			}
		}
	}
	// Name closures now that variable bindings are known.
	for _, fi := range ix.all {
		if fi.Lit == nil || fi.Parent == nil {
			continue
		}
	}
	var nameKids func(f *FuncInfo)
	nameKids = func(f *FuncInfo) {
		n := 0
		for _, k := range f.Kids {
			if k.Var != nil {
				k.Name = f.Name + "$" + k.Var.Name()
			} else {
				n++
				k.Name = fmt.Sprintf("%s$%d", f.Name, n)
			}
			nameKids(k)
		}
	}
	for _, fi := range ix.all {
		if fi.Parent == nil {
			nameKids(fi)
		}
	}
	for _, fi := range ix.all {
		if _, dup := ix.byName[fi.Name]; dup {
			// disambiguate (e.g. two closures bound to same-named vars in different scopes)
			for i := 2; ; i++ {
				nn := fmt.Sprintf("%s#%d", fi.Name, i)
				if _, d := ix.byName[nn]; !d {
					fi.Name = nn
					break
				}
			}
		}
		ix.byName[fi.Name] = fi
	}
	sort.SliceStable(ix.all, func(i, j int) bool { return ix.all[i].Pos() < ix.all[j].Pos() })
	return ix
}

func (ix *funcIndex) add(fi *FuncInfo) {
	ix.all = append(ix.all, fi)
	if fi.Obj != nil {
		ix.byObj[fi.Obj] = fi
	}
	if fi.Lit != nil {
		ix.byLit[fi.Lit] = fi
	}
}

func (p *Program) collectLits(ix *funcIndex, parent *FuncInfo) {
	ast.Inspect(parent.Body, func(n ast.Node) bool {
		lit, ok := n.(*ast.FuncLit)
		if !ok {
			return true
		}
		fi := &FuncInfo{Prog: p, Pkg: parent.Pkg, Lit: lit, Body: lit.Body, Type: lit.Type, Parent: parent}
		parent.Kids = append(parent.Kids, fi)
		ix.add(fi)
		p.collectLits(ix, fi)
		return false
	})
}

// Funcs returns every function body of the repository.
func (p *Program) Funcs() []*FuncInfo { return p.index().all }

// Func returns the function with the given qualified name or nil.
func (p *Program) Func(name string) *FuncInfo { return p.index().byName[name] }

// FuncOf returns the FuncInfo of a declared function object.
func (p *Program) FuncOf(obj *types.Func) *FuncInfo {
	if obj == nil {
		return nil
	}
	return p.index().byObj[obj.Origin()]
}

// LitInfo returns the FuncInfo of a literal.
func (p *Program) LitInfo(l *ast.FuncLit) *FuncInfo { return p.index().byLit[l] }

// ClosureOfVar returns the closure bound to v if v is only ever assigned one literal.
func (p *Program) ClosureOfVar(v *types.Var) *FuncInfo { return p.index().byVar[v] }

// FuncsIn returns all functions (incl. closures) of package rel.
func (p *Program) FuncsIn(rel string) []*FuncInfo {
	pk := p.ByPath[rel]
	var out []*FuncInfo
	for _, f := range p.Funcs() {
		if f.Pkg == pk {
			out = append(out, f)
		}
	}
	return out
}

// Callee resolves the static callee of a call: a declared function / method
// (possibly an interface method), or nil.
func Callee(info *types.Info, call *ast.CallExpr) *types.Func {
	if f, ok := typeutil.Callee(info, call).(*types.Func); ok {
		return f.Origin()
	}
	return nil
}

// CalleeInfo resolves a call to a repository function body: a declared function,
// a method, or a closure bound to a single variable; or an immediately invoked literal.
func (p *Program) CalleeInfo(info *types.Info, call *ast.CallExpr) *FuncInfo {
	if f := Callee(info, call); f != nil {
		return p.FuncOf(f)
	}
	switch fn := ast.Unparen(call.Fun).(type) {
	case *ast.Ident:
		if v, ok := info.Uses[fn].(*types.Var); ok {
			return p.ClosureOfVar(v)
		}
	case *ast.FuncLit:
		return p.LitInfo(fn)
	}
	return nil
}

// IsFunc reports whether f is the function pkgPath.name (name may be "T.m" or "(*T).m" style: give recv type name and method).
func IsFunc(f *types.Func, pkgPath, name string) bool {
	if f == nil || f.Pkg() == nil || f.Pkg().Path() != pkgPath {
		return false
	}
	if i := strings.Index(name, "."); i >= 0 {
		if f.Name() != name[i+1:] {
			return false
		}
		sig := f.Type().(*types.Signature)
		if sig.Recv() == nil {
			return false
		}
		return recvTypeName(sig.Recv().Type()) == name[:i]
	}
	if sig, ok := f.Type().(*types.Signature); ok && sig.Recv() != nil {
		return false
	}
	return f.Name() == name
}

func recvTypeName(t types.Type) string {
	if p, ok := t.(*types.Pointer); ok {
		t = p.Elem()
	}
	if n, ok := t.(*types.Named); ok {
		return n.Obj().Name()
	}
	return ""
}

// RepoPkg returns the full import path for a module-relative path.
func RepoPkg(rel string) string { return ModulePath + "/" + rel }

// InspectNoLits walks n but does not descend into function literals
// (the literal node itself is visited).
func InspectNoLits(n ast.Node, fn func(ast.Node) bool) {
	ast.Inspect(n, func(m ast.Node) bool {
		if m == nil {
			return false
		}
		if !fn(m) {
			return false
		}
		if _, ok := m.(*ast.FuncLit); ok && m != n {
			return false
		}
		return true
	})
}
