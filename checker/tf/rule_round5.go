package tf

// Rules added after seeding round 5 (DESIGN 8.10): each closes one change that compiled, passed the suite and was missed.

import (
	"fmt"
	"go/ast"
	"go/constant"
	"go/token"
	"go/types"
	"strings"
)

func init() {
	Register(&Rule{
		Name:  "R-READAT-EOF",
		Props: []string{"C04", "C06"},
		Min:   2,
		Doc: "a positioned read that ends at the end of the file may return io.EOF together with all the bytes asked for (io.ReaderAt), and it does so whenever the buffer is longer than what is left (the pooled chunk buffer for a short last chunk): " +
			"every error test behind (*os.File).ReadAt / readAtWithPool exempts io.EOF and leaves the verdict to the byte count - otherwise the last chunk of any file whose size is not a multiple of the chunk size cannot be hashed or sent, " +
			"and a resume that reaches it fails every time",
		Run: runReadAtEOF,
	})
	Register(&Rule{
		Name:  "R-CAPTURE-STABLE",
		Props: []string{"C08", "C09"},
		Min:   2,
		Doc: "a goroutine started inside a loop in the connection set-up code (internal/app) reads no variable that the loop assigns again and that lives outside the loop: " +
			"such a variable is shared by every goroutine the loop started, so the connection one goroutine authenticates can be another one than the connection it then reports as authenticated (or closes)",
		Run: runCaptureStable,
	})
	Register(&Rule{
		Name:  "R-DISCARD-EXACT",
		Props: []string{"C03", "C19"},
		Min:   1,
		Doc: "skipping the payload of a frame consumes exactly the frame: in every `for n > 0` loop over a stream read in internal/transfer, the slice that is read is cut to at most n and the count taken off n is the length of that same slice - " +
			"a read of the whole scratch buffer for the last piece eats the head of the next frame and the data stream is out of step for good",
		Run: runDiscardExact,
	})
	Register(&Rule{
		Name:  "R-SENDTO-FRESH",
		Props: []string{"C11", "C10"},
		Min:   1,
		Doc: "Hub.SendTo resolves peer id -> connection id -> connection in one place (one critical section, evaluated again on every attempt of the wait for room): " +
			"with the connection id resolved once in front of the wait, a peer that is replaced by a reconnect under the same id meanwhile is connected and listed but the message is reported undeliverable",
		Run: runSendToFresh,
	})
	Register(&Rule{
		Name:  "R-STREAM-NO-READAHEAD",
		Props: []string{"C18"},
		Min:   2,
		Doc: "no buffering reader (bufio.NewReader / NewReaderSize / NewScanner / NewReadWriter) is put directly over a transfer stream: the record primitives each take the bare stream, " +
			"so what a read-ahead buffer has taken beyond the record it was created for is lost to the next record (a reader over io.LimitReader(stream, n) cannot take more than the record and is accepted)",
		Run: runStreamNoReadahead,
	})
	Register(&Rule{
		Name:  "R-RESEND-REACHES",
		Props: []string{"C17"},
		Min:   2,
		Doc: "nextChunkToSend reports 'no chunk' only while the verification is pending or when no re-send is pending: every `return _, _, false` is reached through verifyPending == true or resendPending == false " +
			"(tested, or just cleared by the hand-out), or through scheduleDone == true on a tree where a re-send cannot be pending then (scheduleDone is set only where the cursor has reached the chunk count, a re-send is decided only for a chunk at or behind the cursor that the report's bitmap holds, " +
			"and the cursor moves only where no re-send is pending: since F53 the late-report case is handled by the ordinary schedule) - a re-send that is decided after the schedule ran out (late resume report) would otherwise never be handed to a worker, and end-of-file waits for it",
		Run: runResendReaches,
	})
	Register(&Rule{
		Name:  "R-RECEIVER-COUNT",
		Props: []string{"C16", "C14"},
		Min:   2,
		Doc: "what the server compares with the receivers-per-host limit is a count of receivers: every count of peers compared with limits.maxReceiversPerSender is a counter incremented only under `<peer>.Role == \"receiver\"` - " +
			"len(hub.List(..)) also counts the host, so with the limit at N the N-th receiver (with N = 1: every receiver) is refused",
		Run: runReceiverCount,
	})
	Register(&Rule{
		Name:  "R-ACCEPT-BOOKED",
		Props: []string{"C12"},
		Min:   2,
		Doc: "a receiver's accept is booked: every way out of SnapshotSender.handleManifestAccept passes enqueueLocked, except under `Status == Transferring` (its transfer runs already). " +
			"An accept can overtake the server's peer_joined notice, so 'unknown peer id' is not a reason to drop it - that receiver would wait for a transfer that is never started",
		Run: runAcceptBooked,
	})
	Register(&Rule{
		Name:  "R-RESOLVER-STAT",
		Props: []string{"C13"},
		Min:   1,
		Doc: "the sender's path resolver classifies each selected path the way the scanner does, through os.Stat (following a link that was selected itself): with os.Lstat a selected link to a directory is taken for a file, " +
			"and every file the manifest lists beneath it resolves to a path that does not exist",
		Run: runResolverStat,
	})
}

// ---------------------------------------------------------------------------

func isIOEOF(info *types.Info, e ast.Expr) bool {
	sel, ok := ast.Unparen(e).(*ast.SelectorExpr)
	if !ok {
		return false
	}
	v, _ := info.Uses[sel.Sel].(*types.Var)
	return v != nil && v.Pkg() != nil && v.Pkg().Path() == "io" && v.Name() == "EOF"
}

func isIOVar(info *types.Info, e ast.Expr, name string) bool {
	sel, ok := ast.Unparen(e).(*ast.SelectorExpr)
	if !ok {
		return false
	}
	v, _ := info.Uses[sel.Sel].(*types.Var)
	return v != nil && v.Pkg() != nil && v.Pkg().Path() == "io" && v.Name() == name
}

func runReadAtEOF(c *Ctx) {
	p := c.P
	n := 0
	for _, f := range p.FuncsIn("internal/transfer") {
		if f.Body == nil {
			continue
		}
		info := f.Info()
		type site struct {
			as   *ast.AssignStmt
			errO types.Object
			what string
			cut  bool // the buffer is cut to the expected length at the call: (*os.File).ReadAt returns io.EOF only together with a short count then
		}
		var sites []site
		InspectNoLits(f.Body, func(m ast.Node) bool {
			as, ok := m.(*ast.AssignStmt)
			if !ok || len(as.Lhs) != 2 || len(as.Rhs) != 1 {
				return true
			}
			call, ok := ast.Unparen(as.Rhs[0]).(*ast.CallExpr)
			if !ok {
				return true
			}
			what := ""
			if fn := Callee(info, call); fn != nil {
				if fn.Name() == "ReadAt" && fn.Type().(*types.Signature).Recv() != nil {
					what = "ReadAt"
				}
				if fi := p.FuncOf(fn); fi != nil && fi.Name == "transfer.readAtWithPool" {
					what = "readAtWithPool"
				}
				// io.ReadFull over a file section (round 9): a file that ends inside the buffer gives io.ErrUnexpectedEOF with the bytes
				if fn.Pkg() != nil && fn.Pkg().Path() == "io" && (fn.Name() == "ReadFull" || fn.Name() == "ReadAtLeast") && len(call.Args) >= 2 {
					if t := info.TypeOf(call.Args[0]); t != nil && (strings.HasSuffix(t.String(), "io.SectionReader") || strings.HasSuffix(t.String(), "os.File")) {
						what = "ReadFull"
					}
				}
			}
			if what == "" {
				return true
			}
			if o := ObjOf(info, as.Lhs[1]); o != nil {
				// the buffer argument: ReadAt(buf, off) / readAtWithPool(ctx, file, off, buf)
				bufArg := call.Args[0]
				if what == "readAtWithPool" && len(call.Args) == 4 {
					bufArg = call.Args[3]
				}
				if what == "ReadFull" {
					bufArg = call.Args[1]
				}
				cut := false
				if se, ok := ast.Unparen(bufArg).(*ast.SliceExpr); ok && se.High != nil {
					cut = true
				}
				sites = append(sites, site{as, o, what, cut})
			}
			return true
		})
		k := 0
		for _, st := range sites {
			// the first if statement behind the read whose condition mentions the error
			var test *ast.IfStmt
			InspectNoLits(f.Body, func(m ast.Node) bool {
				is, ok := m.(*ast.IfStmt)
				if !ok || test != nil || is.Pos() < st.as.End() {
					return true
				}
				mention := false
				ast.Inspect(is.Cond, func(x ast.Node) bool {
					if id, ok := x.(*ast.Ident); ok && info.Uses[id] == st.errO {
						mention = true
					}
					return true
				})
				if mention {
					test = is
				}
				return true
			})
			if test == nil {
				continue // the result travels on (result struct, return): judged where it is tested
			}
			n++
			k++
			key := fmt.Sprintf("eof-tolerated/%s#%d", f.Name, k)
			hasNil, hasEOF := false, false
			for _, a := range Implied(test.Cond, true) {
				be, ok := ast.Unparen(a.E).(*ast.BinaryExpr)
				if ok && be.Op == token.NEQ && a.Val && ObjOf(info, be.X) == st.errO {
					if id, ok := ast.Unparen(be.Y).(*ast.Ident); ok && id.Name == "nil" {
						hasNil = true
					}
					if isIOEOF(info, be.Y) && st.what != "ReadFull" {
						hasEOF = true
					}
					if isIOVar(info, be.Y, "ErrUnexpectedEOF") && st.what == "ReadFull" {
						hasEOF = true
					}
				}
				// !errors.Is(err, io.EOF)
				if call, ok := ast.Unparen(a.E).(*ast.CallExpr); ok && !a.Val && len(call.Args) == 2 {
					if fn := Callee(info, call); fn != nil && fn.Pkg() != nil && fn.Pkg().Path() == "errors" && fn.Name() == "Is" && ObjOf(info, call.Args[0]) == st.errO &&
						(isIOEOF(info, call.Args[1]) && st.what != "ReadFull" || isIOVar(info, call.Args[1], "ErrUnexpectedEOF") && st.what == "ReadFull") {
						hasEOF = true
					}
				}
			}
			if !hasNil {
				c.OK(key, test.Pos(), "the error of "+st.what+" is not tested with `err != nil` here")
				continue
			}
			if st.cut && !hasEOF {
				c.OK(key, test.Pos(), "the buffer is cut to the expected length at the call: io.EOF comes only with a short count, which is a failure either way")
				continue
			}
			if st.what == "ReadFull" {
				c.Check(hasEOF, key, test.Pos(), "io.ErrUnexpectedEOF together with the bytes is not a failure: the byte count decides",
					"the error of io.ReadFull over a section of the file is treated as a failure also when it is io.ErrUnexpectedEOF (the test exempts another error, or none): the file ends inside the chunk-size buffer for the last chunk of every file whose size is not a multiple of the chunk size, "+
						"ReadFull then returns the bytes with io.ErrUnexpectedEOF - hashing the highest complete chunk fails, and a resume that has to verify it fails every time")
				continue
			}
			c.Check(hasEOF, key, test.Pos(), "io.EOF together with the bytes is not a failure: the byte count decides",
				"the error of "+st.what+" is treated as a failure also when it is io.EOF: a positioned read that ends at the end of the file returns the bytes and io.EOF when the buffer is longer than what is left "+
					"(the pooled chunk-size buffer and a short last chunk), so the last chunk of every file whose size is not a multiple of the chunk size cannot be read - a resume that has to verify or send it fails every time")
		}
	}
	c.Stat("readat_sites", n)
}

// ---------------------------------------------------------------------------

func runCaptureStable(c *Ctx) {
	p := c.P
	n := 0
	for _, f := range p.FuncsIn("internal/app") {
		if f.Body == nil {
			continue
		}
		info := f.Info()
		k := 0
		var loops []ast.Node
		var visit func(m ast.Node) bool
		visit = func(m ast.Node) bool {
			switch s := m.(type) {
			case *ast.FuncLit:
				if s != f.Lit {
					return false
				}
			case *ast.ForStmt, *ast.RangeStmt:
				loops = append(loops, m)
				var body *ast.BlockStmt
				if fs, ok := s.(*ast.ForStmt); ok {
					body = fs.Body
				} else {
					body = s.(*ast.RangeStmt).Body
				}
				ast.Inspect(body, visit)
				loops = loops[:len(loops)-1]
				return false
			case *ast.GoStmt:
				if len(loops) == 0 {
					return true
				}
				loop := loops[len(loops)-1]
				// the body that runs in the new goroutine
				var g *FuncInfo
				if lit, ok := ast.Unparen(s.Call.Fun).(*ast.FuncLit); ok {
					g = p.LitInfo(lit)
				} else if id, ok := ast.Unparen(s.Call.Fun).(*ast.Ident); ok {
					if v, ok := info.Uses[id].(*types.Var); ok {
						g = p.ClosureOfVar(v)
					}
				}
				if g == nil || g.Body == nil {
					return true
				}
				n++
				k++
				key := fmt.Sprintf("stable-capture/%s#%d", f.Name, k)
				// variables the loop assigns (outside nested literals) that are declared outside the loop
				assigned := map[types.Object]token.Pos{}
				InspectNoLits(loop, func(x ast.Node) bool {
					if as, ok := x.(*ast.AssignStmt); ok {
						for _, l := range as.Lhs {
							if id, ok := ast.Unparen(l).(*ast.Ident); ok {
								o := info.Uses[id] // a plain use on the left: assignment to an existing variable
								if o == nil {
									continue
								}
								if o.Pos() < loop.Pos() || o.Pos() > loop.End() {
									assigned[o] = as.Pos()
								}
							}
						}
					}
					return true
				})
				var shared []string
				seen := map[types.Object]bool{}
				for _, gg := range allKids(g) {
					ast.Inspect(gg.Body, func(x ast.Node) bool {
						if id, ok := x.(*ast.Ident); ok {
							if o := gg.Info().Uses[id]; o != nil && !seen[o] {
								if _, ok := assigned[o]; ok && isConnLike(o.Type()) {
									seen[o] = true
									shared = append(shared, o.Name())
								}
							}
						}
						return true
					})
				}
				if len(shared) > 0 {
					c.Bad(key, s.Pos(), "the goroutine started here reads `"+strings.Join(shared, "`, `")+"`, a variable that lives outside the loop and that the loop assigns again for the next connection: every goroutine the loop started shares it, "+
						"so the connection that is authenticated, reported as authenticated or closed can be a later one than the connection this goroutine was started for - an unauthenticated connection can be handed on as authenticated")
				} else {
					c.OK(key, s.Pos(), "the goroutine reads no connection variable that the loop assigns again")
				}
				return true
			}
			return true
		}
		ast.Inspect(f.Body, visit)
	}
	c.Stat("go_in_loop_sites", n)
}

// isConnLike: interface, pointer, channel, func or slice values (what a goroutine could mix up between iterations); plain counters and flags are left to the race rules.
func isConnLike(t types.Type) bool {
	switch types.Unalias(t).Underlying().(type) {
	case *types.Interface, *types.Pointer, *types.Slice, *types.Map:
		return true
	}
	return false
}

// ---------------------------------------------------------------------------

func runDiscardExact(c *Ctx) {
	p := c.P
	n := 0
	for _, f := range p.FuncsIn("internal/transfer") {
		if f.Body == nil {
			continue
		}
		info := f.Info()
		k := 0
		InspectNoLits(f.Body, func(m ast.Node) bool {
			fs, ok := m.(*ast.ForStmt)
			if !ok || fs.Cond == nil {
				return true
			}
			be, ok := ast.Unparen(fs.Cond).(*ast.BinaryExpr)
			if !ok || be.Op != token.GTR {
				return true
			}
			if tv := info.Types[be.Y]; tv.Value == nil || constant.Sign(tv.Value) != 0 {
				return true
			}
			remain := ObjOf(info, be.X)
			if remain == nil {
				return true
			}
			// the stream read inside the loop
			var read *ast.CallExpr
			var buf ast.Expr
			InspectNoLits(fs.Body, func(x ast.Node) bool {
				call, ok := x.(*ast.CallExpr)
				if !ok || read != nil {
					return true
				}
				if fi := p.CalleeInfo(info, call); fi != nil && fi.Name == "transfer.readFullWithTimeout" && len(call.Args) >= 3 {
					read, buf = call, call.Args[2]
				} else if fn := Callee(info, call); fn != nil && fn.Pkg() != nil && fn.Pkg().Path() == "io" && fn.Name() == "ReadFull" && len(call.Args) == 2 {
					read, buf = call, call.Args[1]
				}
				return true
			})
			if read == nil {
				return true
			}
			n++
			k++
			key := fmt.Sprintf("discard-exact/%s#%d", f.Name, k)
			bufObj := ObjOf(info, buf)
			// (a) the slice read is cut to at most n
			bounded := false
			mentionsRemain := func(e ast.Expr) bool {
				hit := false
				ast.Inspect(e, func(x ast.Node) bool {
					if id, ok := x.(*ast.Ident); ok && info.Uses[id] == remain {
						hit = true
					}
					return true
				})
				return hit
			}
			// a slice expression x[:hi]: hi is n, min(n, ..) or a local defined so
			hiBounded := func(hi ast.Expr) bool {
				if hi == nil {
					return false
				}
				for _, e := range append([]ast.Expr{hi}, resolveExprsAll(f, hi)...) {
					e = ast.Unparen(e)
					if cv, ok := e.(*ast.CallExpr); ok && len(cv.Args) == 1 { // conversion int(n)
						if tv := info.Types[cv.Fun]; tv.IsType() {
							e = ast.Unparen(cv.Args[0])
						}
					}
					if ObjOf(info, e) == remain {
						return true
					}
					if call, ok := e.(*ast.CallExpr); ok {
						if id, ok := ast.Unparen(call.Fun).(*ast.Ident); ok && id.Name == "min" {
							if _, isB := info.Uses[id].(*types.Builtin); isB {
								for _, a := range call.Args {
									if mentionsRemain(a) {
										return true
									}
								}
							}
						}
					}
				}
				return false
			}
			if se, ok := ast.Unparen(buf).(*ast.SliceExpr); ok && hiBounded(se.High) {
				bounded = true
			}
			if bufObj != nil {
				// if int64(len(piece)) > n { piece = piece[:n] }   in the loop body, in front of the read
				InspectNoLits(fs.Body, func(x ast.Node) bool {
					is, ok := x.(*ast.IfStmt)
					if !ok || is.End() > read.Pos() || is.Else != nil {
						return true
					}
					cb, ok := ast.Unparen(is.Cond).(*ast.BinaryExpr)
					if !ok {
						return true
					}
					lenSide, nSide := cb.X, cb.Y
					if cb.Op == token.LSS || cb.Op == token.LEQ {
						lenSide, nSide = cb.Y, cb.X
					} else if cb.Op != token.GTR && cb.Op != token.GEQ {
						return true
					}
					isLen := false
					ast.Inspect(lenSide, func(y ast.Node) bool {
						if call, ok := y.(*ast.CallExpr); ok && len(call.Args) == 1 {
							if id, ok := ast.Unparen(call.Fun).(*ast.Ident); ok && id.Name == "len" && ObjOf(info, call.Args[0]) == bufObj {
								isLen = true
							}
						}
						return true
					})
					if !isLen || !mentionsRemain(nSide) {
						return true
					}
					for _, st := range is.Body.List {
						if as, ok := st.(*ast.AssignStmt); ok && len(as.Lhs) == 1 && len(as.Rhs) == 1 && ObjOf(info, as.Lhs[0]) == bufObj {
							if se, ok := ast.Unparen(as.Rhs[0]).(*ast.SliceExpr); ok && hiBounded(se.High) {
								bounded = true
							}
						}
					}
					return true
				})
				// piece := scratch[:min(n, len(scratch))]
				for _, d := range resolveExprsAll(f, buf) {
					if se, ok := ast.Unparen(d).(*ast.SliceExpr); ok && hiBounded(se.High) && d.Pos() > fs.Body.Pos() && d.End() < fs.Body.End() {
						// every definition inside the loop must be bounded; the plain `piece := scratch` plus the if-form is handled above
						bounded = true
					}
				}
			}
			// (b) what is taken off n is the length of the slice that was read
			exact := false
			var dec *ast.AssignStmt
			InspectNoLits(fs.Body, func(x ast.Node) bool {
				if as, ok := x.(*ast.AssignStmt); ok && as.Tok == token.SUB_ASSIGN && len(as.Lhs) == 1 && ObjOf(info, as.Lhs[0]) == remain {
					dec = as
				}
				return true
			})
			if dec != nil {
				bufText := types.ExprString(ast.Unparen(buf))
				for _, e := range append([]ast.Expr{dec.Rhs[0]}, resolveExprsAll(f, dec.Rhs[0])...) {
					ast.Inspect(e, func(y ast.Node) bool {
						if call, ok := y.(*ast.CallExpr); ok && len(call.Args) == 1 {
							if id, ok := ast.Unparen(call.Fun).(*ast.Ident); ok && id.Name == "len" && types.ExprString(ast.Unparen(call.Args[0])) == bufText {
								exact = true
							}
						}
						return true
					})
				}
				// or: the count the read returned
				InspectNoLits(fs.Body, func(y ast.Node) bool {
					if as, ok := y.(*ast.AssignStmt); ok && len(as.Rhs) == 1 && ast.Unparen(as.Rhs[0]) == ast.Expr(read) && len(as.Lhs) == 2 {
						if no := ObjOf(info, as.Lhs[0]); no != nil {
							ast.Inspect(dec.Rhs[0], func(z ast.Node) bool {
								if id, ok := z.(*ast.Ident); ok && info.Uses[id] == no {
									exact = true
								}
								return true
							})
						}
					}
					return true
				})
				// or: the slice is x[:k] and k itself is taken off
				if se, ok := ast.Unparen(buf).(*ast.SliceExpr); ok && se.High != nil && se.Low == nil {
					if ho := ObjOf(info, se.High); ho != nil {
						ast.Inspect(dec.Rhs[0], func(y ast.Node) bool {
							if id, ok := y.(*ast.Ident); ok && info.Uses[id] == ho {
								exact = true
							}
							return true
						})
					}
				}
			}
			switch {
			case dec == nil:
				c.Unknown(key, fs.Pos(), "the loop `for "+types.ExprString(fs.Cond)+"` reads from a stream but the remaining count is not reduced by a `-=`")
			case !bounded:
				c.Bad(key, read.Pos(), "the loop skips `"+remain.Name()+"` bytes of a frame but reads `"+types.ExprString(buf)+"`, a slice that is not cut to the bytes that are left: the last piece reads past the end of the frame, "+
					"the head of the next frame is lost and the data stream stays out of step - the receiver waits for a file that never begins")
			case !exact:
				c.Bad(key, dec.Pos(), "the loop reads `"+types.ExprString(buf)+"` but takes `"+types.ExprString(dec.Rhs[0])+"` off the remaining count, which is not the length of the slice that was read: bytes consumed and bytes counted can differ, the stream falls out of step")
			default:
				c.OK(key, read.Pos(), "the piece is cut to the remaining count and its length is what is counted")
			}
			return true
		})
	}
	c.Stat("discard_loops", n)
}

// ---------------------------------------------------------------------------

func runSendToFresh(c *Ctx) {
	p := c.P
	st := p.Func("peers.(*Hub).SendTo")
	if st == nil {
		c.MissingAnchor("peers.(*Hub).SendTo")
		return
	}
	_, sessions, byPeer, _ := hubFields(c)
	if sessions == nil || byPeer == nil {
		return
	}
	info := st.Info()
	var peerParam types.Object
	if ps := st.Type.Params.List; len(ps) >= 2 && len(ps[1].Names) > 0 {
		peerParam = info.Defs[ps[1].Names[0]]
	}
	fieldIndexed := func(e ast.Expr, fld *types.Var, aliases map[types.Object]bool) bool {
		base := ast.Unparen(e)
		if o := ObjOf(info, base); o != nil && aliases[o] {
			return true
		}
		if ix2, ok := base.(*ast.IndexExpr); ok {
			if sel, ok := ast.Unparen(ix2.X).(*ast.SelectorExpr); ok {
				if fv, _ := info.Uses[sel.Sel].(*types.Var); fv == fld {
					return true
				}
			}
		}
		return false
	}
	var resolveIn, useIn *FuncInfo
	var connObj types.Object
	for _, g := range allKids(st) {
		al := hubAliases(g, sessions, byPeer)
		InspectNoLits(g.Body, func(m ast.Node) bool {
			if as, ok := m.(*ast.AssignStmt); ok && len(as.Rhs) == 1 {
				if ix, ok := ast.Unparen(as.Rhs[0]).(*ast.IndexExpr); ok && peerParam != nil && ObjOf(info, ix.Index) == peerParam && fieldIndexed(ix.X, byPeer, al) {
					connObj = ObjOf(info, as.Lhs[0])
					resolveIn = g
				}
			}
			return true
		})
	}
	if connObj != nil {
		for _, g := range allKids(st) {
			al := hubAliases(g, sessions, byPeer)
			InspectNoLits(g.Body, func(m ast.Node) bool {
				if ix, ok := m.(*ast.IndexExpr); ok && ObjOf(info, ix.Index) == connObj && fieldIndexed(ix.X, sessions, al) {
					useIn = g
				}
				return true
			})
		}
	}
	if resolveIn == nil || useIn == nil {
		c.Unknown("per-attempt/SendTo", st.Pos(), "cannot find the look-up chain byPeerID[session][peer] -> sessions[session][connection] in Hub.SendTo")
		return
	}
	c.Check(resolveIn == useIn, "per-attempt/SendTo", st.Pos(), "both steps of the look-up are evaluated together ("+resolveIn.Name+")",
		"SendTo resolves the peer id to a connection id in "+resolveIn.Name+" and the connection id to the connection in "+useIn.Name+": the connection id is fixed before the wait for room in the addressee's queue, "+
			"so when the peer is replaced by a reconnect under the same id meanwhile - it is connected and listed the whole time - its new connection is never looked at and the message is reported undeliverable")
}

// ---------------------------------------------------------------------------

func runStreamNoReadahead(c *Ctx) {
	p := c.P
	n := 0
	isStreamType := func(t types.Type) bool {
		if t == nil {
			return false
		}
		s := types.Unalias(t).String()
		return strings.HasSuffix(s, "internal/transfer.Stream") || strings.HasSuffix(s, "quic-go.Stream") || strings.HasSuffix(s, "quic-go.ReceiveStream") || strings.HasSuffix(s, "internal/transfer.Conn")
	}
	for _, f := range p.Funcs() {
		if f.Body == nil || f.Pkg == nil {
			continue
		}
		info := f.Info()
		k := 0
		InspectNoLits(f.Body, func(m ast.Node) bool {
			call, ok := m.(*ast.CallExpr)
			if !ok {
				return true
			}
			fn := Callee(info, call)
			if fn == nil || fn.Pkg() == nil || fn.Pkg().Path() != "bufio" || !strings.HasPrefix(fn.Name(), "New") || len(call.Args) == 0 {
				return true
			}
			if fn.Name() == "NewWriter" || fn.Name() == "NewWriterSize" {
				return true
			}
			n++
			k++
			key := fmt.Sprintf("no-readahead/%s#%d", f.Name, k)
			arg := call.Args[0]
			over := ""
			check := func(e ast.Expr) {
				if isStreamType(info.TypeOf(e)) {
					over = types.ExprString(e)
				}
				// a conversion / type assertion of a stream
				if ta, ok := ast.Unparen(e).(*ast.TypeAssertExpr); ok && isStreamType(info.TypeOf(ta.X)) {
					over = types.ExprString(e)
				}
			}
			check(arg)
			for _, d := range resolveExprsAll(f, arg) {
				check(d)
			}
			if over != "" {
				c.Bad(key, call.Pos(), "bufio."+fn.Name()+" is put directly over the stream `"+over+"`: the buffer reads ahead as far as the stream delivers, and whatever it took beyond the record it was created for is lost when the function returns - "+
					"the next record starts in the middle of the bytes and decodes to something else (or the reader waits for bytes that were already consumed)")
			} else {
				c.OK(key, call.Pos(), "the buffered reader is not over a transfer stream")
			}
			return true
		})
	}
	c.Stat("bufio_sites", n)
}

// ---------------------------------------------------------------------------

func runResendReaches(c *Ctx) {
	p := c.P
	f := p.Func("transfer.(*sendFileState).nextChunkToSend")
	if f == nil {
		c.MissingAnchor("transfer.(*sendFileState).nextChunkToSend")
		return
	}
	info := f.Info()
	fieldNamed := func(e ast.Expr, name string) bool {
		sel, ok := ast.Unparen(e).(*ast.SelectorExpr)
		if !ok {
			return false
		}
		v, _ := info.Uses[sel.Sel].(*types.Var)
		return v != nil && v.IsField() && v.Name() == name
	}
	spec := &PassSpec{Name: "resend-reaches", SkipDefer: true, Vias: []Via{
		{Cond: func(g *FuncInfo, e ast.Expr) (string, bool, bool) {
			if fieldNamed(e, "resendPending") {
				return "no-resend", false, true
			}
			if fieldNamed(e, "verifyPending") {
				return "verify-pending", true, true
			}
			if fieldNamed(e, "scheduleDone") {
				return "schedule-done", true, true
			}
			// `verifyPending || scheduleDone`: one of the two holds on the true edge
			if be, ok := ast.Unparen(e).(*ast.BinaryExpr); ok && be.Op == token.LOR {
				all := true
				var walk func(x ast.Expr)
				walk = func(x ast.Expr) {
					if b2, ok := ast.Unparen(x).(*ast.BinaryExpr); ok && b2.Op == token.LOR {
						walk(b2.X)
						walk(b2.Y)
						return
					}
					if !fieldNamed(x, "verifyPending") && !fieldNamed(x, "scheduleDone") {
						all = false
					}
				}
				walk(be)
				if all {
					return "pending-or-done", true, true
				}
			}
			return "", false, false
		}},
		{Stmt: func(g *FuncInfo, n ast.Node) (string, bool) {
			if as, ok := n.(*ast.AssignStmt); ok && len(as.Lhs) == 1 && len(as.Rhs) == 1 && fieldNamed(as.Lhs[0], "resendPending") {
				if tv := info.Types[as.Rhs[0]]; tv.Value != nil && !constant.BoolVal(tv.Value) {
					return "no-resend", true
				}
			}
			return "", false
		}},
	}}
	spec.Kill = func(g *FuncInfo, n ast.Node) []string {
		if as, ok := n.(*ast.AssignStmt); ok && len(as.Lhs) == 1 && len(as.Rhs) == 1 {
			if fieldNamed(as.Lhs[0], "resendPending") {
				if tv := info.Types[as.Rhs[0]]; tv.Value == nil || constant.BoolVal(tv.Value) {
					return []string{"no-resend"}
				}
			}
			if fieldNamed(as.Lhs[0], "verifyPending") {
				return []string{"verify-pending", "pending-or-done"}
			}
			if fieldNamed(as.Lhs[0], "scheduleDone") {
				return []string{"schedule-done", "pending-or-done"}
			}
		}
		return nil
	}
	cfg := f.CFG()
	k := 0
	for _, b := range cfg.Blocks {
		ret, ok := IsReturnExit(b)
		if !ok || !b.Live || len(ret.Results) != 3 {
			continue
		}
		tv := info.Types[ret.Results[2]]
		if tv.Value != nil && constant.BoolVal(tv.Value) {
			continue
		}
		k++
		key := fmt.Sprintf("resend-reaches/return#%d", k)
		if tv.Value == nil {
			c.Unknown(key, ret.Pos(), "nextChunkToSend returns a non-constant 'handed out' flag")
			continue
		}
		ref := NodeRef{b, len(b.Nodes) - 1}
		good := spec.Passed(f, ref, "no-resend") || spec.Passed(f, ref, "verify-pending")
		if !good && (spec.Passed(f, ref, "schedule-done") || spec.Passed(f, ref, "pending-or-done")) && resendNeverPendingOnceDone(p, f, spec) {
			// reached with scheduleDone set, and the tree shows that no re-send is pending then
			good = true
		}
		c.Check(good, key, ret.Pos(), "'no chunk' only while the verdict is pending or with no re-send pending",
			"nextChunkToSend reports 'no chunk' on a path that neither saw resendPending == false nor verifyPending == true: a re-send that was decided when the schedule had already run out (the receiver's report came after the last chunk) "+
				"is never handed to a worker - the damaged chunk is not sent again and the end-of-file record, which waits for the re-send, is never written")
	}
	if k == 0 {
		c.Bad("resend-reaches/none", f.Pos(), "nextChunkToSend has no `return _, _, false`")
	}
}

// ---------------------------------------------------------------------------

func runReceiverCount(c *Ctx) {
	p := c.P
	n := 0
	isPeerSlice := func(t types.Type) bool {
		if t == nil {
			return false
		}
		sl, ok := types.Unalias(t).Underlying().(*types.Slice)
		if !ok {
			return false
		}
		// a peer record: a struct of this module with a Role field (peers.Peer, protocol.PeerInfo)
		st, ok := types.Unalias(sl.Elem()).Underlying().(*types.Struct)
		if !ok || !strings.Contains(types.Unalias(sl.Elem()).String(), ModulePath) {
			return false
		}
		for i := 0; i < st.NumFields(); i++ {
			if st.Field(i).Name() == "Role" {
				return true
			}
		}
		return false
	}
	for _, f := range p.FuncsIn("cmd/thruserv") {
		if f.Body == nil {
			continue
		}
		info := f.Info()
		k := 0
		InspectNoLits(f.Body, func(m ast.Node) bool {
			be, ok := m.(*ast.BinaryExpr)
			if !ok {
				return true
			}
			switch be.Op {
			case token.GEQ, token.GTR, token.LSS, token.LEQ, token.EQL, token.NEQ:
			default:
				return true
			}
			isLimit := func(e ast.Expr) bool {
				sel, ok := ast.Unparen(e).(*ast.SelectorExpr)
				if !ok {
					return false
				}
				v, _ := info.Uses[sel.Sel].(*types.Var)
				return v != nil && v.IsField() && v.Name() == "maxReceiversPerSender"
			}
			var other ast.Expr
			switch {
			case isLimit(be.Y):
				other = be.X
			case isLimit(be.X):
				other = be.Y
			default:
				return true
			}
			if tv := info.Types[other]; tv.Value != nil {
				return true // the on/off test against 0
			}
			// is the other side a count of peers?
			other = ast.Unparen(other)
			if call, ok := other.(*ast.CallExpr); ok && len(call.Args) == 1 {
				if id, ok := ast.Unparen(call.Fun).(*ast.Ident); ok && id.Name == "len" && isPeerSlice(info.TypeOf(call.Args[0])) {
					n++
					k++
					c.Bad(fmt.Sprintf("receiver-count/%s#%d", f.Name, k), be.Pos(), "the receivers-per-host limit is compared with `"+types.ExprString(other)+"`, the number of all peers of the session: the host is one of them, "+
						"so with the limit at N the N-th receiver is refused (with --max-receivers 1, every receiver)")
					return true
				}
			}
			o, _ := ObjOf(info, other).(*types.Var)
			if o == nil {
				return true
			}
			own := owningFunc(f, o)
			if own == nil {
				return true
			}
			// increments of o inside a range over peers: each must lie behind `<element>.Role == "receiver"` on every path
			roleSpec := &PassSpec{Name: "receiver-count", SkipDefer: true, Vias: []Via{
				{Cond: func(g *FuncInfo, e ast.Expr) (string, bool, bool) {
					eq, ok := ast.Unparen(e).(*ast.BinaryExpr)
					if !ok || (eq.Op != token.EQL && eq.Op != token.NEQ) {
						return "", false, false
					}
					roleSide, litSide := eq.X, eq.Y
					if _, isSel := ast.Unparen(roleSide).(*ast.SelectorExpr); !isSel {
						roleSide, litSide = eq.Y, eq.X
					}
					sel, ok := ast.Unparen(roleSide).(*ast.SelectorExpr)
					if !ok || sel.Sel.Name != "Role" {
						return "", false, false
					}
					eo := ObjOf(g.Info(), sel.X)
					if eo == nil {
						return "", false, false
					}
					if tv := g.Info().Types[litSide]; tv.Value != nil && tv.Value.Kind() == constant.String && constant.StringVal(tv.Value) == "receiver" {
						return fmt.Sprintf("is-receiver:%d", eo.Pos()), eq.Op == token.EQL, true
					}
					return "", false, false
				}},
				{Cond: func(g *FuncInfo, e ast.Expr) (string, bool, bool) {
					// <element>.PeerID != <the joiner's id>
					eq, ok := ast.Unparen(e).(*ast.BinaryExpr)
					if !ok || (eq.Op != token.EQL && eq.Op != token.NEQ) {
						return "", false, false
					}
					idSide := eq.X
					if sel, isSel := ast.Unparen(idSide).(*ast.SelectorExpr); !isSel || sel.Sel.Name != "PeerID" {
						idSide = eq.Y
					}
					sel, ok := ast.Unparen(idSide).(*ast.SelectorExpr)
					if !ok || sel.Sel.Name != "PeerID" {
						return "", false, false
					}
					eo := ObjOf(g.Info(), sel.X)
					if eo == nil {
						return "", false, false
					}
					return fmt.Sprintf("not-self:%d", eo.Pos()), eq.Op == token.NEQ, true
				}},
			}}
			// the element's fact ends with the iteration
			roleSpec.KillMatch = func(g *FuncInfo, nd ast.Node, id string) bool {
				for _, ao := range AssignedObjs(g.Info(), nd) {
					if id == fmt.Sprintf("is-receiver:%d", ao.Pos()) {
						return true
					}
				}
				return false
			}
			nInc, allGood, countsSelf := 0, true, false
			ocfg := own.CFG()
			var rstack []*ast.RangeStmt
			var walk func(x ast.Node) bool
			walk = func(x ast.Node) bool {
				switch st := x.(type) {
				case *ast.FuncLit:
					if st != own.Lit {
						return false
					}
				case *ast.RangeStmt:
					rstack = append(rstack, st)
					ast.Inspect(st.Body, walk)
					rstack = rstack[:len(rstack)-1]
					return false
				case *ast.IncDecStmt:
					if st.Tok == token.INC && ObjOf(info, st.X) == types.Object(o) && len(rstack) > 0 {
						r := rstack[len(rstack)-1]
						if isPeerSlice(info.TypeOf(r.X)) {
							nInc++
							elem := ObjOf(info, r.Value)
							ref := ocfg.Find(st.Pos())
							if elem == nil || !ref.Valid() || !roleSpec.Passed(own, ref, fmt.Sprintf("is-receiver:%d", elem.Pos())) {
								allGood = false
							}
							// F64: a list that comes from Hub.List holds the joiner's own older connection, which the new one replaces
							if rc, ok := ast.Unparen(r.X).(*ast.CallExpr); ok {
								if g := p.CalleeInfo(info, rc); g != nil && g.Name == "peers.(*Hub).List" {
									countsSelf = elem == nil || !ref.Valid() || !roleSpec.Passed(own, ref, fmt.Sprintf("not-self:%d", elem.Pos()))
								}
							}
						}
					}
				}
				return true
			}
			ast.Inspect(own.Body, walk)
			if nInc == 0 {
				return true // not a count of peers (the max_receivers request parameter)
			}
			n++
			k++
			key := fmt.Sprintf("receiver-count/%s#%d", f.Name, k)
			c.Check(!countsSelf, key+"/not-self", be.Pos(), "an older connection of the joining peer is not counted against it",
				"the count over Hub.List that is compared with the receivers-per-host limit includes an older connection of the joining peer itself, which the new connection replaces (the admission test at the insertion leaves it out): "+
					"a receiver that reconnects under its peer id while the session is full is refused with 429")
			c.Check(allGood, key, be.Pos(), "the counter compared with the limit counts peers whose Role is \"receiver\"",
				"the counter `"+o.Name()+"` that is compared with the receivers-per-host limit is incremented for peers that are not tested to be receivers: the host is counted too, and with the limit at N the N-th receiver is refused")
			return true
		})
	}
	c.Stat("receiver_limit_comparisons", n)
}

// ---------------------------------------------------------------------------

func runAcceptBooked(c *Ctx) {
	p := c.P
	f := p.Func("app.(*SnapshotSender).handleManifestAccept")
	if f == nil {
		c.MissingAnchor("app.(*SnapshotSender).handleManifestAccept")
		return
	}
	info := f.Info()
	transferring := p.LookupObj("internal/app", "ReceiverStatusTransferring")
	queued := p.LookupObj("internal/app", "ReceiverStatusQueued")
	if transferring == nil || queued == nil {
		c.MissingAnchor("app.ReceiverStatusTransferring")
		return
	}
	spec := &PassSpec{Name: "accept-booked", SkipDefer: true, Vias: []Via{
		{Immediate: true, Call: func(g *FuncInfo, call *ast.CallExpr) (string, bool) {
			if fi := p.CalleeInfo(g.Info(), call); fi != nil && fi.Name == "app.(*SnapshotSender).enqueueLocked" {
				return "booked", true
			}
			return "", false
		}},
		{Cond: func(g *FuncInfo, e ast.Expr) (string, bool, bool) {
			// already running, or already waiting in the queue: a repeated accept changes nothing
			var statusIs func(e ast.Expr, op token.Token) bool
			statusIs = func(e ast.Expr, op token.Token) bool {
				be, ok := ast.Unparen(e).(*ast.BinaryExpr)
				if !ok {
					return false
				}
				if (op == token.EQL && be.Op == token.LOR) || (op == token.NEQ && be.Op == token.LAND) {
					return statusIs(be.X, op) && statusIs(be.Y, op)
				}
				if be.Op != op {
					return false
				}
				sel, ok := ast.Unparen(be.X).(*ast.SelectorExpr)
				return ok && sel.Sel.Name == "Status" && (ObjOf(info, be.Y) == transferring || ObjOf(info, be.Y) == queued)
			}
			if statusIs(e, token.EQL) {
				return "running", true, true
			}
			if statusIs(e, token.NEQ) {
				return "running", false, true
			}
			return "", false, false
		}},
	}}
	cfg := f.CFG()
	k := 0
	for _, b := range cfg.Blocks {
		if !b.Live || len(b.Succs) != 0 {
			continue
		}
		k++
		key := fmt.Sprintf("accept-booked/exit#%d", k)
		var pos token.Pos = f.Body.Rbrace
		fs := FactSet(nil)
		if r := spec.Facts(f); r != nil {
			fs = r.AtEnd(b)
		}
		if len(b.Nodes) > 0 {
			pos = b.Nodes[len(b.Nodes)-1].Pos()
		}
		c.Check(fs != nil && (fs["pass:booked"] || fs["pass:running"]), key, pos, "the accept was enqueued (or the receiver's transfer runs already)",
			"handleManifestAccept can return without enqueueing the receiver although its transfer is not running: the receiver has accepted and waits, but it is in no queue and no slot - its transfer is never started "+
				"(an accept can arrive before the server's peer_joined notice, so an unknown peer id is no reason to drop it)")
	}
	if k < 2 {
		c.Bad("accept-booked/none", f.Pos(), fmt.Sprintf("handleManifestAccept has %d exits, expected the already-running return and the booked one", k))
	}
}

// ---------------------------------------------------------------------------

func runResolverStat(c *Ctx) {
	p := c.P
	f := p.Func("app.buildPathResolver")
	if f == nil {
		c.MissingAnchor("app.buildPathResolver")
		return
	}
	n := 0
	for _, g := range allKids(f) {
		info := g.Info()
		InspectNoLits(g.Body, func(m ast.Node) bool {
			call, ok := m.(*ast.CallExpr)
			if !ok {
				return true
			}
			sel, ok := ast.Unparen(call.Fun).(*ast.SelectorExpr)
			if !ok || sel.Sel.Name != "IsDir" || len(call.Args) != 0 {
				return true
			}
			n++
			key := fmt.Sprintf("resolver-stat/%s#%d", g.Name, n)
			var src []string
			okAll := true
			defs := resolveExprsAll(g, sel.X)
			if len(defs) == 0 {
				okAll = false
			}
			for _, d := range defs {
				dc, ok := ast.Unparen(d).(*ast.CallExpr)
				if !ok {
					okAll = false
					continue
				}
				fn := Callee(info, dc)
				if fn == nil || fn.Pkg() == nil {
					okAll = false
					continue
				}
				src = append(src, fn.Pkg().Name()+"."+fn.Name())
				if !(fn.Pkg().Path() == "os" && fn.Name() == "Stat") {
					okAll = false
				}
			}
			c.Check(okAll, key, call.Pos(), "the selected path is classified through os.Stat, as in the scanner",
				"buildPathResolver decides 'directory or file' from "+strings.Join(src, ", ")+" instead of os.Stat: the scanner follows a link that was selected itself (and lists what is beneath it), "+
					"the resolver takes the same link for a single file, so every file the manifest lists beneath it resolves to a path that does not exist and the transfer fails")
			return true
		})
	}
	if n == 0 {
		c.Bad("resolver-stat/none", f.Pos(), "buildPathResolver no longer classifies the selected paths with IsDir()")
	}
}

// resendNeverPendingOnceDone: the tree shows that scheduleDone && resendPending is unreachable:
//   (a) every `scheduleDone = true` is reached only where nextChunk >= totalChunks is known (the true edge of that
//       comparison or the exit of `for nextChunk < totalChunks`),
//   (b) every `resendPending = true` sits under a condition that implies `<chunk> >= <state>.nextChunk` and a Get(<chunk>)
//       on the report's bitmap (a chunk the bitmap holds is below the chunk count),
//   (c) in nextChunkToSend the cursor is advanced only on paths where resendPending is known false.
// The cursor is monotone (R-CURSOR-MONOTONE) and all of this happens under the state's mutex (R-LOCKSET).
func resendNeverPendingOnceDone(p *Program, next *FuncInfo, spec *PassSpec) bool {
	isField := func(info *types.Info, e ast.Expr, name string) bool {
		sel, ok := ast.Unparen(e).(*ast.SelectorExpr)
		if !ok {
			return false
		}
		v, _ := info.Uses[sel.Sel].(*types.Var)
		return v != nil && v.IsField() && v.Name() == name
	}
	okAll, nDone, nResend, nCursor := true, 0, 0, 0
	for _, f := range p.FuncsIn("internal/transfer") {
		if f.Body == nil || strings.HasSuffix(p.Fset.Position(f.Pos()).Filename, "_test.go") {
			continue
		}
		info := f.Info()
		InspectNoLits(f.Body, func(m ast.Node) bool {
			switch st := m.(type) {
			case *ast.AssignStmt:
				if len(st.Lhs) != 1 || len(st.Rhs) != 1 {
					return true
				}
				tv := info.Types[st.Rhs[0]]
				isTrue := tv.Value != nil && tv.Value.Kind() == constant.Bool && constant.BoolVal(tv.Value)
				switch {
				case isField(info, st.Lhs[0], "scheduleDone") && (tv.Value == nil || isTrue):
					// only the sender's file state
					if t := info.TypeOf(ast.Unparen(st.Lhs[0]).(*ast.SelectorExpr).X); t == nil || !strings.HasSuffix(t.String(), "sendFileState") {
						return true
					}
					nDone++
					if !cursorAtEnd(f, info, st, isField) {
						okAll = false
					}
				case isField(info, st.Lhs[0], "resendPending") && (tv.Value == nil || isTrue):
					nResend++
					behind, held := false, false
					for _, is := range enclosingIfs(f.Body, st) {
						for _, a := range Implied(is.Cond, true) {
							if !a.Val {
								continue
							}
							if be, ok := ast.Unparen(a.E).(*ast.BinaryExpr); ok {
								if (be.Op == token.GEQ && isField(info, be.Y, "nextChunk")) || (be.Op == token.LEQ && isField(info, be.X, "nextChunk")) {
									behind = true
								}
							}
							if call, ok := ast.Unparen(a.E).(*ast.CallExpr); ok {
								if sel, ok := ast.Unparen(call.Fun).(*ast.SelectorExpr); ok && sel.Sel.Name == "Get" {
									held = true
								}
							}
						}
					}
					if !behind || !held {
						okAll = false
					}
				}
			}
			return true
		})
	}
	// (c)
	{
		info := next.Info()
		cfg := next.CFG()
		cfg.EachNode(func(r NodeRef) {
			moved := false
			switch st := r.Node().(type) {
			case *ast.IncDecStmt:
				moved = isField(info, st.X, "nextChunk")
			case *ast.AssignStmt:
				for _, l := range st.Lhs {
					if isField(info, l, "nextChunk") {
						moved = true
					}
				}
			}
			if moved {
				nCursor++
				if !spec.Passed(next, r, "no-resend") {
					okAll = false
				}
			}
		})
	}
	return okAll && nDone > 0 && nResend > 0 && nCursor > 0
}

// cursorAtEnd: st is reached only with nextChunk >= totalChunks known: inside an if whose condition implies it, or
// behind a `for nextChunk < totalChunks` loop of the same block with no break in it.
func cursorAtEnd(f *FuncInfo, info *types.Info, st ast.Stmt, isField func(*types.Info, ast.Expr, string) bool) bool {
	for _, is := range enclosingIfs(f.Body, st) {
		if !(is.Body.Pos() <= st.Pos() && st.End() <= is.Body.End()) {
			continue
		}
		for _, a := range Implied(is.Cond, true) {
			if be, ok := ast.Unparen(a.E).(*ast.BinaryExpr); ok && a.Val {
				if (be.Op == token.GEQ && isField(info, be.X, "nextChunk") && isField(info, be.Y, "totalChunks")) ||
					(be.Op == token.LEQ && isField(info, be.Y, "nextChunk") && isField(info, be.X, "totalChunks")) {
					return true
				}
			}
		}
	}
	// behind the loop
	res := false
	ast.Inspect(f.Body, func(m ast.Node) bool {
		blk, ok := m.(*ast.BlockStmt)
		if !ok {
			return true
		}
		for i, s := range blk.List {
			if s != st || i == 0 {
				continue
			}
			fs, ok := blk.List[i-1].(*ast.ForStmt)
			if !ok || fs.Cond == nil || fs.Init != nil || fs.Post != nil {
				continue
			}
			be, ok := ast.Unparen(fs.Cond).(*ast.BinaryExpr)
			if !ok || be.Op != token.LSS || !isField(info, be.X, "nextChunk") || !isField(info, be.Y, "totalChunks") {
				continue
			}
			hasBreak := false
			ast.Inspect(fs.Body, func(k ast.Node) bool {
				switch b := k.(type) {
				case *ast.ForStmt, *ast.RangeStmt, *ast.SelectStmt, *ast.SwitchStmt, *ast.FuncLit:
					return false
				case *ast.BranchStmt:
					if b.Tok == token.BREAK || b.Tok == token.GOTO {
						hasBreak = true
					}
				}
				return true
			})
			if !hasBreak {
				res = true
			}
		}
		return true
	})
	return res
}
