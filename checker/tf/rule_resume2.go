package tf

import (
	"fmt"
	"go/ast"
	"go/token"
	"go/types"
	"regexp"
	"strings"
)

func init() {
	Register(&Rule{
		Name:  "R-FRESH-FILE",
		Props: []string{"C06", "C04", "C05", "C01"},
		Min:   3,
		Doc: "every receive-side load of a sidecar (LoadOrCreateSidecar*) is dominated by a stat of the data file (a non-sidecar path) that happens before the data file is created or resized, " +
			"and the stat result reaches a branch that removes the sidecar before the load: without observing the data file no implementation can tell 'sidecar present, file gone/shorter' from a valid partial state",
		Run: runFreshFile,
	})
	Register(&Rule{
		Name:  "R-RESUME-REPORT",
		Props: []string{"C04", "C06", "C17", "C03"},
		Min:   6,
		Doc: "every FileResumeInfo.Bitmap sent by a receiver is sidecar.MarshalBitmap() and LastVerifiedChunk is HighestComplete() of that same sidecar field (the one the chunk marks update), or totalChunks when nothing is complete; " +
			"on the sender every condition that consults the resume bitmap also requires index < forceSendFrom for the same index (a chunk above the verification point is never skipped); " +
			"a verification-hash mismatch is control-connected to resendPending=true for the verified chunk",
		Run: runResumeReport,
	})
}

func init() {
	Register(&Rule{
		Name:  "R-OVERWRITE-CLEARS",
		Props: []string{"C06"},
		Min:   1,
		Doc: "in the receiver's offer handler every path to sendAccept has settled what happens to existing resume metadata: none was found, the user chose resume, " +
			"or clearResumeData ran (the overwrite choice removes the metadata directory before the transfer is accepted)",
		Run: runOverwriteClears,
	})
}

func runOverwriteClears(c *Ctx) {
	p := c.P
	isAccept := func(g *FuncInfo) bool {
		return g != nil && (g.Name == "app.(*snapshotReceiver).sendAccept" || g.Name == "app.(*snapshotReceiver).sendAcceptTo")
	}
	// the offer handler: the function that answers an offer, and (since F80) the goroutine in it that asks the user
	var handlers []*FuncInfo
	sawQuestion := false
	for _, f := range p.FuncsIn("internal/app") {
		if f.Body == nil || isAccept(f) || strings.HasSuffix(p.Fset.Position(f.Pos()).Filename, "_test.go") {
			continue
		}
		accepts, asks := false, false
		InspectNoLits(f.Body, func(n ast.Node) bool {
			if call, ok := n.(*ast.CallExpr); ok {
				g := p.CalleeInfo(f.Info(), call)
				if isAccept(g) {
					accepts = true
				}
				if g != nil && g.Name == "app.hasResumeData" {
					asks = true
				}
			}
			return true
		})
		if accepts {
			handlers = append(handlers, f)
			if asks {
				sawQuestion = true
			}
		}
	}
	if len(handlers) == 0 || !sawQuestion {
		c.MissingAnchor("receiver offer handler calling hasResumeData and sendAccept")
		return
	}
	n := 0
	for _, handler := range handlers {
		info := handler.Info()
		var resumeVar types.Object
		handler.CFG().Calls(func(r NodeRef, call *ast.CallExpr) {
			if g := p.CalleeInfo(info, call); g != nil && g.Name == "app.promptResumeOrOverwrite" {
				if as, ok := r.Node().(*ast.AssignStmt); ok && len(as.Lhs) == 2 {
					resumeVar = ObjOf(info, as.Lhs[0])
				}
			}
		})
		spec := &PassSpec{Vias: []Via{
			{Immediate: true, Call: func(f *FuncInfo, call *ast.CallExpr) (string, bool) {
				if g := p.CalleeInfo(f.Info(), call); g != nil && g.Name == "app.clearResumeData" {
					return "settled", true
				}
				return "", false
			}},
			{Cond: func(f *FuncInfo, e ast.Expr) (string, bool, bool) {
				if call, ok := ast.Unparen(e).(*ast.CallExpr); ok {
					if g := p.CalleeInfo(f.Info(), call); g != nil && g.Name == "app.hasResumeData" {
						return "settled", false, true // no metadata present
					}
				}
				if o := ObjOf(f.Info(), e); o != nil && o == resumeVar {
					return "settled", true, true // user chose resume
				}
				// not the first offer: the question was settled when the first one was handled
				if sel, ok := ast.Unparen(e).(*ast.SelectorExpr); ok && sel.Sel.Name == "manifestPrompted" {
					return "settled", true, true
				}
				return "", false, false
			}},
		}}
		handler.CFG().Calls(func(r NodeRef, call *ast.CallExpr) {
			if g := p.CalleeInfo(info, call); isAccept(g) {
				n++
				c.Check(spec.Passed(handler, r, "settled"), fmt.Sprintf("overwrite/%s#%d", handler.Name, n), call.Pos(),
					"accept is sent only after the fate of existing resume metadata is settled (none / resume chosen / cleared)",
					"the transfer is accepted on a path where existing resume metadata was found, the user did not choose resume, and clearResumeData did not run: 'overwrite' would silently resume",
					"facts here: "+strings.Join(spec.PassedList(handler, r), ", "))
			}
		})
	}
}

func runFreshFile(c *Ctx) {
	p := c.P
	k := sidecarPathKinds(c)
	loaders := map[*FuncInfo]bool{}
	for _, n := range []string{"transfer.LoadOrCreateSidecar", "transfer.LoadOrCreateSidecarWithFallback"} {
		if f := p.Func(n); f != nil {
			loaders[f] = true
		} else {
			c.MissingAnchor(n)
		}
	}
	statFields := statDependentFields(p, k)
	for _, f := range recvDataFuncs(p) {
		info := f.Info()
		cfg := f.CFG()
		n := 0
		cfg.Calls(func(r NodeRef, call *ast.CallExpr) {
			fi := p.CalleeInfo(info, call)
			if fi == nil || !loaders[fi] {
				return
			}
			n++
			key := fmt.Sprintf("fresh/%s#%d", f.Name, n)
			// form 2: the observation was made where the file was created and travels in a struct field
			if len(statFields) > 0 {
				viaField := false
				ast.Inspect(f.Body, func(nd ast.Node) bool {
					is, ok := nd.(*ast.IfStmt)
					if !ok {
						return true
					}
					mentions := false
					ast.Inspect(is.Cond, func(m ast.Node) bool {
						if sel, ok := m.(*ast.SelectorExpr); ok {
							if fv, ok := info.Uses[sel.Sel].(*types.Var); ok && statFields[fv] {
								mentions = true
							}
						}
						return true
					})
					if !mentions {
						return true
					}
					ast.Inspect(is.Body, func(m ast.Node) bool {
						if rc, ok := m.(*ast.CallExpr); ok && calleeIs(info, rc, "os", "Remove") && len(rc.Args) == 1 &&
							samePathExpr(f, rc.Args[0], call.Args[0]) && rc.Pos() < call.Pos() {
							viaField = true
						}
						return true
					})
					return true
				})
				if viaField {
					c.OK(key, call.Pos(), "sidecar removed before the load when the state's stat-derived flag says the data file was not intact at FileBegin")
					return
				}
			}
			// (a) a stat of a non-sidecar path dominating the load
			var statRef NodeRef
			var statVars []types.Object
			var statPath ast.Expr
			for g := f; g != nil && !statRef.Valid(); g = g.Parent {
				gi := g.Info()
				target := r
				if g != f {
					// position of the closure chain inside g: use the node containing f's literal chain
					lit := f
					for lit.Parent != g {
						lit = lit.Parent
					}
					// named closures are called later; the stat must then be inside f itself — skip outer search for named closures
					if lit.Var != nil {
						break
					}
					target = g.CFG().Find(lit.Lit.Pos())
				}
				g.CFG().Calls(func(sr NodeRef, sc *ast.CallExpr) {
					if !(calleeIs(gi, sc, "os", "Stat") || calleeIs(gi, sc, "os", "Lstat")) || len(sc.Args) != 1 {
						return
					}
					if mentionsScPath(g, k, sc.Args[0]) {
						return
					}
					if !g.CFG().Dominates(sr, target) {
						return
					}
					statRef, statPath = sr, sc.Args[0]
					statVars = AssignedObjs(gi, sr.Node())
				})
			}
			if !statRef.Valid() {
				c.Bad(key, call.Pos(), "a sidecar is loaded and trusted without any dominating observation (os.Stat) of the data file it describes: after the output file was deleted or shortened the old completion bits make the sender skip data that is no longer there")
				return
			}
			// the stat must precede creation/resizing of the same file in this function
			okOrder := true
			var createRefs []NodeRef
			cfg.Calls(func(or NodeRef, oc *ast.CallExpr) {
				if calleeIs(info, oc, "os", "OpenFile") && len(oc.Args) == 3 && strings.Contains(types.ExprString(oc.Args[1]), "O_CREATE") &&
					types.ExprString(oc.Args[0]) == types.ExprString(statPath) {
					createRefs = append(createRefs, or)
					if statRef.B != nil && f.CFG() == cfg && statRef.B.Live && !cfg.Dominates(statRef, or) {
						okOrder = false
					}
				}
			})
			// (b) the stat result reaches a branch that removes the primary sidecar before the load
			dep := map[types.Object]bool{}
			for _, o := range statVars {
				dep[o] = true
			}
			mentionsDep := func(e ast.Expr) bool {
				hit := false
				ast.Inspect(e, func(nd ast.Node) bool {
					if id, ok := nd.(*ast.Ident); ok {
						if o := ObjOf(info, id); o != nil && dep[o] {
							hit = true
						}
					}
					return !hit
				})
				return hit
			}
			// propagate: variables assigned inside an if whose condition (or init) mentions a dependent variable
			for iter := 0; iter < 3; iter++ {
				ast.Inspect(f.Body, func(nd ast.Node) bool {
					is, ok := nd.(*ast.IfStmt)
					if !ok {
						return true
					}
					condDep := mentionsDep(is.Cond)
					if is.Init != nil {
						for _, o := range AssignedObjs(info, is.Init) {
							if dep[o] {
								condDep = true
							}
						}
						// `if st, err := os.Stat(p); ...` form
						if as, ok := is.Init.(*ast.AssignStmt); ok && len(as.Rhs) == 1 {
							if sc, ok := ast.Unparen(as.Rhs[0]).(*ast.CallExpr); ok && (calleeIs(info, sc, "os", "Stat") || calleeIs(info, sc, "os", "Lstat")) {
								for _, o := range AssignedObjs(info, as) {
									dep[o] = true
								}
								condDep = true
							}
						}
					}
					if condDep {
						ast.Inspect(is.Body, func(m ast.Node) bool {
							for _, o := range AssignedObjs(info, m) {
								dep[o] = true
							}
							return true
						})
					}
					return true
				})
			}
			removed := false
			var removeRefs []NodeRef
			primary := types.ExprString(call.Args[0])
			ast.Inspect(f.Body, func(nd ast.Node) bool {
				is, ok := nd.(*ast.IfStmt)
				if !ok || !mentionsDep(is.Cond) {
					return true
				}
				ast.Inspect(is.Body, func(m ast.Node) bool {
					if rc, ok := m.(*ast.CallExpr); ok && calleeIs(info, rc, "os", "Remove") && len(rc.Args) == 1 &&
						samePathExpr(f, rc.Args[0], call.Args[0]) && rc.Pos() < call.Pos() {
						removed = true
						removeRefs = append(removeRefs, cfg.Find(rc.Pos()))
					}
					return true
				})
				return true
			})
			// the fallback location (second argument of ...WithFallback) is stale metadata just the same
			fallbackMissing := ""
			if len(call.Args) >= 2 && strings.HasSuffix(fi.Name, "WithFallback") {
				if sv, isC := constString(info, call.Args[1]); !isC || sv != "" {
					want := pathCandidates(f, call.Args[1])
					got := false
					ast.Inspect(f.Body, func(nd ast.Node) bool {
						is, ok := nd.(*ast.IfStmt)
						if !ok || !mentionsDep(is.Cond) {
							return true
						}
						ast.Inspect(is.Body, func(m ast.Node) bool {
							if rc, ok := m.(*ast.CallExpr); ok && calleeIs(info, rc, "os", "Remove") && len(rc.Args) == 1 && rc.Pos() < call.Pos() {
								for _, a := range pathCandidates(f, rc.Args[0]) {
									for _, w := range want {
										if a == w {
											got = true
										}
									}
								}
								// the same path up to single-definition locals
								if o, ok := ObjOf(info, call.Args[1]).(*types.Var); ok && !o.IsField() {
									if own := owningFunc(f, o); own != nil {
										for _, d := range allDefs(own, o) {
											if sv, isC := constString(own.Info(), d); isC && sv == "" {
												continue
											}
											if samePathExpr(f, rc.Args[0], d) {
												got = true
											}
										}
									}
								}
							}
							return true
						})
						return true
					})
					if !got {
						fallbackMissing = types.ExprString(call.Args[1])
					}
				}
			}
			switch {
			case !okOrder:
				c.Bad(key, call.Pos(), "the data file is created/resized before it is observed: the stat can no longer tell a missing or shorter file from a valid partial one")
			case removed && fallbackMissing != "":
				c.Bad(key, call.Pos(), "when the data file is found missing or of another length only the primary sidecar is removed, not the fallback one ("+fallbackMissing+") that LoadOrCreateSidecarWithFallback loads next: the recreated, zero-filled file inherits the old completion marks, the sender skips those chunks and both sides report success")
			case !removed:
				c.Bad(key, call.Pos(), "the data file is observed but the result never leads to discarding the sidecar ("+primary+") before it is loaded")
			case removeAfterCreate(cfg, createRefs, removeRefs):
				c.Bad(key, call.Pos(), "the stale sidecar ("+primary+") is removed only after the data file was created/resized to its full size: a kill between the two leaves a full-size file of zeros next to metadata that marks its chunks complete, and the next run cannot tell it from an intact file (F19)")
			default:
				c.OK(key, call.Pos(), "sidecar load dominated by a stat of the data file whose result can remove the sidecar first")
			}
		})
	}
}

func runResumeReport(c *Ctx) {
	p := c.P
	// ---- receiver: stores to FileResumeInfo.Bitmap / LastVerifiedChunk
	bmField := p.LookupObj("internal/transfer", "FileResumeInfo.Bitmap")
	lvField := p.LookupObj("internal/transfer", "FileResumeInfo.LastVerifiedChunk")
	if bmField == nil || lvField == nil {
		c.MissingAnchor("transfer.FileResumeInfo.{Bitmap,LastVerifiedChunk}")
		return
	}
	for _, f := range recvDataFuncs(p) {
		info := f.Info()
		nb, nl := 0, 0
		var bitmapSidecar string
		InspectNoLits(f.Body, func(nd ast.Node) bool {
			if _, ok := nd.(*ast.FuncLit); ok {
				return false
			}
			as, ok := nd.(*ast.AssignStmt)
			if !ok || len(as.Lhs) != 1 || len(as.Rhs) != 1 {
				return true
			}
			sel, ok := ast.Unparen(as.Lhs[0]).(*ast.SelectorExpr)
			if !ok {
				return true
			}
			fo := info.Uses[sel.Sel]
			if fo == bmField {
				nb++
				key := fmt.Sprintf("report/%s/bitmap#%d", f.Name, nb)
				call, isCall := ast.Unparen(as.Rhs[0]).(*ast.CallExpr)
				if isCall {
					if g := p.CalleeInfo(info, call); g != nil && g.Name == "transfer.(*Sidecar).MarshalBitmap" {
						recv := ast.Unparen(call.Fun).(*ast.SelectorExpr).X
						bitmapSidecar = types.ExprString(recv)
						c.OK(key, as.Pos(), "advertised bitmap is "+bitmapSidecar+".MarshalBitmap()")
						return true
					}
				}
				c.Bad(key, as.Pos(), "FileResumeInfo.Bitmap is set from "+types.ExprString(as.Rhs[0])+" rather than the persisted sidecar's MarshalBitmap(): the sender would skip (or re-send) the wrong chunks")
			}
			return true
		})
		// LastVerifiedChunk stores
		InspectNoLits(f.Body, func(nd ast.Node) bool {
			if _, ok := nd.(*ast.FuncLit); ok {
				return false
			}
			as, ok := nd.(*ast.AssignStmt)
			if !ok || len(as.Lhs) != 1 || len(as.Rhs) != 1 {
				return true
			}
			sel, ok := ast.Unparen(as.Lhs[0]).(*ast.SelectorExpr)
			if !ok || info.Uses[sel.Sel] != lvField {
				return true
			}
			nl++
			key := fmt.Sprintf("report/%s/last-verified#%d", f.Name, nl)
			rhs := StripConv(info, as.Rhs[0])
			// totalChunks (nothing verified) — any count-valued variable/field named by role: accept identifiers/selectors of type uint32 that are not derived from HighestComplete
			if o := ObjOf(info, rhs); o != nil {
				// is o the first result of X.HighestComplete()?
				var src *ast.CallExpr
				ast.Inspect(f.Body, func(m ast.Node) bool {
					switch s := m.(type) {
					case *ast.AssignStmt:
						if len(s.Rhs) == 1 && len(s.Lhs) == 2 && ObjOf(info, s.Lhs[0]) == o {
							if call, ok := ast.Unparen(s.Rhs[0]).(*ast.CallExpr); ok {
								src = call
							}
						}
					}
					return true
				})
				if src != nil {
					if g := p.CalleeInfo(info, src); g != nil && g.Name == "transfer.(*Sidecar).HighestComplete" {
						recv := types.ExprString(ast.Unparen(src.Fun).(*ast.SelectorExpr).X)
						c.Check(bitmapSidecar == "" || recv == bitmapSidecar, key, as.Pos(), "verification point is HighestComplete() of the same sidecar ("+recv+")",
							"verification point comes from "+recv+" but the bitmap from "+bitmapSidecar)
						return true
					}
					c.Bad(key, as.Pos(), "LastVerifiedChunk derives from "+types.ExprString(src)+", not from the sidecar's HighestComplete()")
					return true
				}
			}
			// "nothing to verify": must be a total-chunks value
			if strings.Contains(strings.ToLower(types.ExprString(rhs)), "totalchunks") {
				c.OKTrivial(key, as.Pos(), "no verified chunk: LastVerifiedChunk = totalChunks (>= total disables verification on the sender)")
				return true
			}
			c.Bad(key, as.Pos(), "LastVerifiedChunk is set from "+types.ExprString(as.Rhs[0])+", neither HighestComplete() of the sidecar nor totalChunks")
			return true
		})
	}
	// the sidecar whose bitmap is advertised is the one the marks update: field identity
	if mk := p.Func("transfer.(*recvFileStateMux).markChunkComplete"); mk != nil {
		scField := p.LookupObj("internal/transfer", "recvFileStateMux.sidecar")
		uses := false
		ast.Inspect(mk.Body, func(nd ast.Node) bool {
			if sel, ok := nd.(*ast.SelectorExpr); ok && mk.Info().Uses[sel.Sel] == scField {
				uses = true
			}
			return true
		})
		rep := false
		if b := p.Func("transfer.RecvManifestMultiStream$buildResumeInfo"); b != nil {
			ast.Inspect(b.Body, func(nd ast.Node) bool {
				if call, ok := nd.(*ast.CallExpr); ok {
					if g := p.CalleeInfo(b.Info(), call); g != nil && g.Name == "transfer.(*Sidecar).MarshalBitmap" {
						if sel, ok := ast.Unparen(ast.Unparen(call.Fun).(*ast.SelectorExpr).X).(*ast.SelectorExpr); ok && b.Info().Uses[sel.Sel] == scField {
							rep = true
						}
					}
				}
				return true
			})
		} else {
			c.MissingAnchor("transfer.RecvManifestMultiStream$buildResumeInfo")
		}
		c.Check(uses && rep && scField != nil, "report/same-sidecar-field", mk.Pos(), "marks and resume report both use recvFileStateMux.sidecar", "the resume report and the chunk marks no longer use the same sidecar field")
	} else {
		c.MissingAnchor("transfer.(*recvFileStateMux).markChunkComplete")
	}

	// ---- sender: skip condition
	getFn := p.Func("transfer.(*Bitmap).Get")
	if getFn == nil {
		c.MissingAnchor("transfer.(*Bitmap).Get")
		return
	}
	below := &PassSpec{Vias: []Via{{Cond: func(f *FuncInfo, e ast.Expr) (string, bool, bool) {
		be, ok := ast.Unparen(e).(*ast.BinaryExpr)
		if ok && be.Op == token.GTR { // F > i  ==  i < F
			be = &ast.BinaryExpr{X: be.Y, Op: token.LSS, Y: be.X}
		}
		if !ok || be.Op != token.LSS {
			return "", false, false
		}
		if sel, ok := ast.Unparen(be.Y).(*ast.SelectorExpr); ok && sel.Sel.Name == "forceSendFrom" {
			return "below:" + types.ExprString(StripConv(f.Info(), be.X)), true, true
		}
		if id, ok := ast.Unparen(be.Y).(*ast.Ident); ok && id.Name == "forceSendFrom" {
			return "below:" + types.ExprString(StripConv(f.Info(), be.X)), true, true
		}
		return "", false, false
	}}}}
	for _, f := range p.FuncsIn("internal/transfer") {
		root := f.Root().Name
		if !(strings.Contains(root, "Send") || strings.Contains(root, "send")) {
			continue
		}
		info := f.Info()
		cfg := f.CFG()
		n := 0
		for _, b := range cfg.Blocks {
			cond, t, _, ok := CondEdges(b)
			if !ok {
				continue
			}
			var get *ast.CallExpr
			ast.Inspect(cond, func(nd ast.Node) bool {
				if call, ok := nd.(*ast.CallExpr); ok && p.CalleeInfo(info, call) == getFn && len(call.Args) == 1 {
					get = call
				}
				return true
			})
			if get == nil {
				continue
			}
			// only positive uses (skip when bit set): the Get atom must be implied true on the true edge
			pos := false
			for _, a := range Implied(cond, true) {
				if ast.Unparen(a.E) == ast.Expr(get) && a.Val {
					pos = true
				}
			}
			if !pos {
				continue
			}
			n++
			key := fmt.Sprintf("skip/%s#%d", f.Name, n)
			idx := types.ExprString(StripConv(info, get.Args[0]))
			if len(t.Nodes) == 0 {
				c.Unknown(key, cond.Pos(), "skip branch has no statement to anchor on")
				continue
			}
			ref := NodeRef{t, 0}
			c.Check(below.Passed(f, ref, "below:"+idx), key, cond.Pos(), "bitmap consulted only together with "+idx+" < forceSendFrom",
				"the sender skips a chunk because its bit is set without also requiring "+idx+" < forceSendFrom: chunks at or above the verification point (possibly torn) would never be re-sent",
				"facts in the skip branch: "+strings.Join(below.PassedList(f, ref), ", "))
		}
	}
	// ---- hash repair
	if ap := p.Func("transfer.SendManifestMultiStream$startResume$1$applyResumeInfo"); ap != nil {
		found := false
		var visit func(g *FuncInfo)
		visit = func(g *FuncInfo) {
			gi := g.Info()
			mis := &PassSpec{Vias: []Via{{Cond: func(h *FuncInfo, e ast.Expr) (string, bool, bool) {
				be, ok := ast.Unparen(e).(*ast.BinaryExpr)
				if !ok || (be.Op != token.NEQ && be.Op != token.EQL) {
					return "", false, false
				}
				// one side derives from hashFileChunk(...)
				l, r := ObjOf(h.Info(), be.X), ObjOf(h.Info(), be.Y)
				if l == nil || r == nil {
					return "", false, false
				}
				isHash := func(o types.Object) bool {
					hit := false
					ast.Inspect(h.Body, func(m ast.Node) bool {
						if as, ok := m.(*ast.AssignStmt); ok && len(as.Rhs) == 1 && len(as.Lhs) >= 1 && ObjOf(h.Info(), as.Lhs[0]) == o {
							if call, ok := ast.Unparen(as.Rhs[0]).(*ast.CallExpr); ok {
								if fi := p.CalleeInfo(h.Info(), call); fi != nil && fi.Name == "transfer.hashFileChunk" {
									hit = true
								}
							}
						}
						return true
					})
					return hit
				}
				if isHash(l) || isHash(r) {
					return "mismatch", be.Op == token.NEQ, true
				}
				return "", false, false
			}}}}
			g.CFG().EachNode(func(r NodeRef) {
				as, ok := r.Node().(*ast.AssignStmt)
				if !ok || len(as.Lhs) != 1 {
					return
				}
				if sel, ok := ast.Unparen(as.Lhs[0]).(*ast.SelectorExpr); ok && sel.Sel.Name == "resendPending" && types.ExprString(as.Rhs[0]) == "true" {
					found = true
					_ = gi
					c.Check(mis.Passed(g, r, "mismatch"), "hash-repair/resend-on-mismatch", as.Pos(), "resendPending = true on the mismatch branch of the verification hash comparison",
						"resendPending is set on a path that is not the hash-mismatch branch")
					// and the mismatch alone decides: the innermost condition around the assignment has no further conjunct
					var inner *ast.IfStmt
					ast.Inspect(g.Body, func(m ast.Node) bool {
						if is, ok := m.(*ast.IfStmt); ok && is.Body.Pos() <= as.Pos() && as.End() <= is.Body.End() {
							inner = is
						}
						return true
					})
					if inner != nil {
						var extra []string
						for _, a := range Implied(inner.Cond, true) {
							if id, _, ok := mis.Vias[0].Cond(g, a.E); !ok || id != "mismatch" {
								if a.Val {
									extra = append(extra, types.ExprString(a.E))
								} else {
									extra = append(extra, "!("+types.ExprString(a.E)+")")
								}
							}
						}
						// one further conjunct is sound: `<verified chunk> < F` where F is the value stored into resumePlan.forceSendFrom -
						// when it does not hold the chunk lies in the force-send range and goes out with the ordinary schedule
						// (which hands nothing out before the verdict); an explicit re-send would dispatch it twice (F43)
						if len(extra) > 0 {
							// the chunk that was hashed: what is assigned to resendChunk inside the branch
							chunkText := ""
							ast.Inspect(inner.Body, func(m ast.Node) bool {
								if a2, ok := m.(*ast.AssignStmt); ok && len(a2.Lhs) == 1 && len(a2.Rhs) == 1 {
									if sel, ok := ast.Unparen(a2.Lhs[0]).(*ast.SelectorExpr); ok && sel.Sel.Name == "resendChunk" {
										chunkText = types.ExprString(ast.Unparen(a2.Rhs[0]))
									}
								}
								return true
							})
							// storedInPlan: o is the value of key `field` in a resumePlan literal of g or its parents
							storedInPlan := func(o types.Object, field string) bool {
								hit := false
								for h := g; h != nil && o != nil; h = h.Parent {
									ast.Inspect(h.Body, func(m ast.Node) bool {
										if kv, ok := m.(*ast.KeyValueExpr); ok {
											if k, ok := kv.Key.(*ast.Ident); ok && k.Name == field && ObjOf(h.Info(), kv.Value) == o {
												hit = true
											}
										}
										return true
									})
								}
								return hit
							}
							sound := func(a Atom) bool {
								if !a.Val || chunkText == "" {
									return false
								}
								switch x := ast.Unparen(a.E).(type) {
								case *ast.BinaryExpr:
									l, op, r := x.X, x.Op, x.Y
									switch op {
									case token.GTR: // F > v  ==  v < F
										l, op, r = r, token.LSS, l
									case token.LEQ: // n <= v  ==  v >= n
										l, op, r = r, token.GEQ, l
									}
									if types.ExprString(ast.Unparen(l)) != chunkText {
										return false
									}
									// v < F, F the value stored into resumePlan.forceSendFrom: otherwise the chunk lies in the force-send range and goes out
									// with the ordinary schedule, which hands nothing out before the verdict; an explicit re-send would dispatch it twice (F43)
									if op == token.LSS && storedInPlan(ObjOf(g.Info(), r), "forceSendFrom") {
										return true
									}
									// v >= <state>.nextChunk: otherwise the schedule has handed the chunk out already (a report that came after the grace
									// period finds chunks sent without a plan) - it went out fresh from the source, a re-send would be a second dispatch,
									// possibly behind the end-of-file record (F53)
									if op == token.GEQ {
										if sel, ok := ast.Unparen(r).(*ast.SelectorExpr); ok && sel.Sel.Name == "nextChunk" {
											if t := g.Info().TypeOf(sel.X); t != nil && strings.HasSuffix(strings.TrimPrefix(t.String(), "*"), "transfer.sendFileState") {
												return true
											}
										}
									}
								case *ast.CallExpr:
									// B.Get(int(v)), B the bitmap stored into resumePlan.bitmap: the schedule skips only chunks whose bit is set in that
									// very bitmap, so without the bit the chunk goes out with the schedule (F53)
									sel, ok := ast.Unparen(x.Fun).(*ast.SelectorExpr)
									if !ok || sel.Sel.Name != "Get" || len(x.Args) != 1 || !storedInPlan(ObjOf(g.Info(), sel.X), "bitmap") {
										return false
									}
									return types.ExprString(StripConv(g.Info(), x.Args[0])) == chunkText
								}
								return false
							}
							var left []string
							for _, a := range Implied(inner.Cond, true) {
								if id, _, ok := mis.Vias[0].Cond(g, a.E); ok && id == "mismatch" {
									continue
								}
								if sound(a) {
									continue
								}
								if a.Val {
									left = append(left, types.ExprString(a.E))
								} else {
									left = append(left, "!("+types.ExprString(a.E)+")")
								}
							}
							extra = left
						}
						c.Check(len(extra) == 0, "hash-repair/mismatch-alone-decides", inner.Pos(), "every hash mismatch schedules the re-send (or leaves the chunk to the force-send range)",
							"a verification-hash mismatch schedules the re-send only if also "+strings.Join(extra, " && ")+": when that does not hold the damaged chunk is neither re-sent explicitly nor (for a file reported all-complete, where no tail is forced) with the schedule, FileEnd goes out and both sides report success")
					}
				}
			})
			for _, kid := range g.Kids {
				visit(kid)
			}
		}
		visit(ap)
		if !found {
			c.Bad("hash-repair/resend-on-mismatch", ap.Pos(), "applyResumeInfo never schedules a re-send: a damaged last chunk detected by hash is not repaired")
		}
	} else {
		c.MissingAnchor("transfer.SendManifestMultiStream$startResume$1$applyResumeInfo")
	}
}

// statDependentFields: struct fields of internal/transfer that are assigned (in a composite literal or an
// assignment) a local variable that depends on the result of an os.Stat of a non-sidecar path made before
// the data file is created in that function.
func statDependentFields(p *Program, k *KindEnv) map[*types.Var]bool {
	out := map[*types.Var]bool{}
	for _, f := range p.FuncsIn("internal/transfer") {
		info := f.Info()
		dep := map[types.Object]bool{}
		ast.Inspect(f.Body, func(nd ast.Node) bool {
			if as, ok := nd.(*ast.AssignStmt); ok && len(as.Rhs) == 1 {
				if sc, ok := ast.Unparen(as.Rhs[0]).(*ast.CallExpr); ok && (calleeIs(info, sc, "os", "Stat") || calleeIs(info, sc, "os", "Lstat")) && len(sc.Args) == 1 && !mentionsScPath(f, k, sc.Args[0]) {
					for _, o := range AssignedObjs(info, as) {
						dep[o] = true
					}
				}
			}
			return true
		})
		if len(dep) == 0 {
			continue
		}
		mentionsDep := func(e ast.Node) bool {
			hit := false
			ast.Inspect(e, func(nd ast.Node) bool {
				if id, ok := nd.(*ast.Ident); ok {
					if o := ObjOf(info, id); o != nil && dep[o] {
						hit = true
					}
				}
				return !hit
			})
			return hit
		}
		for iter := 0; iter < 3; iter++ {
			ast.Inspect(f.Body, func(nd ast.Node) bool {
				if is, ok := nd.(*ast.IfStmt); ok && (mentionsDep(is.Cond) || (is.Init != nil && mentionsDep(is.Init))) {
					ast.Inspect(is.Body, func(m ast.Node) bool {
						for _, o := range AssignedObjs(info, m) {
							dep[o] = true
						}
						return true
					})
				}
				return true
			})
		}
		ast.Inspect(f.Body, func(nd ast.Node) bool {
			switch v := nd.(type) {
			case *ast.KeyValueExpr:
				if id, ok := v.Key.(*ast.Ident); ok {
					if fv, ok := info.Uses[id].(*types.Var); ok && fv.IsField() {
						if o := ObjOf(info, v.Value); o != nil && dep[o] {
							out[fv] = true
						}
					}
				}
			case *ast.AssignStmt:
				if len(v.Lhs) == len(v.Rhs) {
					for i, l := range v.Lhs {
						if sel, ok := ast.Unparen(l).(*ast.SelectorExpr); ok {
							if fv, ok := info.Uses[sel.Sel].(*types.Var); ok && fv.IsField() {
								if o := ObjOf(info, v.Rhs[i]); o != nil && dep[o] {
									out[fv] = true
								}
							}
						}
					}
				}
			}
			return true
		})
	}
	return out
}

// samePathExpr: two path expressions are the same after expanding single-definition locals.
func samePathExpr(f *FuncInfo, a, b ast.Expr) bool {
	// the same expression up to single-definition locals (`sid := sidecarIdentifier(item)`); whole expressions are
	// compared, never the definitions of identifiers nested in them (two different paths share `item`)
	for i := 0; i <= 4; i++ {
		for j := 0; j <= 4; j++ {
			if inlineLocals(f, a, i) == inlineLocals(f, b, j) {
				return true
			}
		}
	}
	return false
}

// inlineLocals prints e with every local variable that has exactly one definition replaced by that definition (recursively).
func inlineLocals(f *FuncInfo, e ast.Expr, depth int) string {
	s := types.ExprString(ast.Unparen(e))
	if depth == 0 {
		return s
	}
	info := f.Info()
	seen := map[types.Object]bool{}
	ast.Inspect(e, func(n ast.Node) bool {
		id, ok := n.(*ast.Ident)
		if !ok {
			return true
		}
		o, _ := info.Uses[id].(*types.Var)
		if o == nil || o.IsField() || seen[o] {
			return true
		}
		seen[o] = true
		own := owningFunc(f, o)
		if own == nil {
			return true
		}
		defs := allDefs(own, o)
		if len(defs) != 1 {
			return true
		}
		rep := inlineLocals(own, defs[0], depth-1)
		s = regexp.MustCompile(`\b`+regexp.QuoteMeta(id.Name)+`\b`).ReplaceAllLiteralString(s, rep)
		return true
	})
	return s
}

// removeAfterCreate: some removal of the stale sidecar can run after the data file was created.
func removeAfterCreate(cfg *CFG, creates, removes []NodeRef) bool {
	for _, cr := range creates {
		for _, rm := range removes {
			if rm.Valid() && cr.Valid() && cfg.Reaches(cr, rm) {
				return true
			}
		}
	}
	return false
}

// pathCandidates: the expression itself and, for a local variable, every non-empty definition of it, as strings.
func pathCandidates(f *FuncInfo, e ast.Expr) []string {
	out := []string{types.ExprString(ast.Unparen(e))}
	if o, ok := ObjOf(f.Info(), e).(*types.Var); ok && !o.IsField() {
		if own := owningFunc(f, o); own != nil {
			for _, d := range allDefs(own, o) {
				if sv, isC := constString(own.Info(), d); isC && sv == "" {
					continue
				}
				out = append(out, types.ExprString(ast.Unparen(d)))
			}
		}
	}
	return out
}
