package tf

import (
	"fmt"
	"go/ast"
	"go/token"
	"go/types"
	"strings"
)

func init() {
	Register(&Rule{
		Name:  "R-AUTH-DOM",
		Props: []string{"C08", "C09"},
		Min:   6,
		Doc: "in package app every transfer.Conn handed to a call that moves manifest or file bytes (transfer.SendManifestMultiStream, RecvManifestMultiStream, NewMultiConn, sendDumbData*, recvDumbDiscard*) " +
			"is a connection for which authenticateTransport(ctx, <that conn>, joinCode, role) succeeded on every path (error tested, failure branch cannot reach the call), or comes from a slice all of whose elements are such " +
			"connections; functions that return connection slices (dialExtraConns, acceptExtraConns) append only authenticated connections; the multi-connection wrapper is never itself passed to authenticateTransport",
		Run: runAuthDom,
	})
	Register(&Rule{
		Name:  "R-AUTH-SHAPE",
		Props: []string{"C08"},
		Min:   14,
		Doc: "inside transport_auth.go: the receiver writes its response and both sides return nil only past hmac.Equal(received, expected)==true and the role test; a received MAC is only ever used as an argument of crypto/hmac.Equal; " +
			"expected is computeAuthMac(<derived key>, <received role>, <received nonce>); computeAuthMac keys the MAC with its key parameter and feeds version, role and nonce; deriveAuthKey combines the TLS exporter output and the join code " +
			"(one as HMAC key, the other as input) with a non-empty constant label and >= 32 bytes; nonces come from crypto/rand; no failure branch returns a nil error; QUICConn.ExportKeyingMaterial exports from its own connection's TLS state",
		Run: runAuthShape,
	})
}

func runAuthDom(c *Ctx) {
	p := c.P
	authFn := p.Func("app.authenticateTransport")
	if authFn == nil {
		c.MissingAnchor("app.authenticateTransport")
		return
	}
	spec := &PassSpec{Name: "auth"}
	spec.Vias = []Via{{Call: func(f *FuncInfo, call *ast.CallExpr) (string, bool) {
		if p.CalleeInfo(f.Info(), call) == authFn && len(call.Args) == 4 {
			if o := ObjOf(f.Info(), call.Args[1]); o != nil {
				return fmt.Sprintf("auth:%d", spec.objID(o)), true
			}
		}
		return "", false
	}}}
	spec.KillMatch = func(f *FuncInfo, n ast.Node, id string) bool {
		for _, o := range AssignedObjs(f.Info(), n) {
			if id == fmt.Sprintf("auth:%d", spec.objID(o)) {
				// reassignment of the conn variable (not the auth call statement itself)
				return true
			}
		}
		return false
	}
	// sinks: (callee name, index of conn / conns argument, isSlice)
	type sink struct {
		idx   int
		slice bool
	}
	sinks := map[string]sink{
		"transfer.SendManifestMultiStream": {1, false},
		"transfer.RecvManifestMultiStream": {1, false},
		"transfer.RecvManifestMultiStreamLegacy": {1, false},
		"transfer.NewMultiConn":            {0, true},
		"app.sendDumbData":                 {1, false},
		"app.sendDumbDataMulti":            {1, true},
		"app.recvDumbDiscard":              {1, false},
		"app.recvDumbDiscardMulti":         {1, true},
	}
	for n := range sinks {
		if p.Func(n) == nil {
			c.MissingAnchor(n)
		}
	}
	isConnType := func(t types.Type) bool { return t != nil && strings.HasSuffix(t.String(), "transfer.Conn") }
	isConnSlice := func(t types.Type) bool {
		if t == nil {
			return false
		}
		s, ok := t.Underlying().(*types.Slice)
		return ok && (isConnType(s.Elem()) || strings.HasSuffix(s.Elem().String(), "dumbExtraConn"))
	}
	// connections that travel through a channel: a value received from a channel is authenticated when every send into that
	// channel (anywhere below the same declared function) sends a connection that is authenticated at the send, a composite
	// value whose connection fields are, or a closure parameter whose every call site passes such a value
	treeOf := func(root *FuncInfo) []*FuncInfo {
		var out []*FuncInfo
		var walk func(g *FuncInfo)
		walk = func(g *FuncInfo) {
			out = append(out, g)
			for _, k := range g.Kids {
				walk(k)
			}
		}
		walk(root)
		return out
	}
	var valueAuthed func(g *FuncInfo, ref NodeRef, e ast.Expr, depth int) bool
	valueAuthed = func(g *FuncInfo, ref NodeRef, e ast.Expr, depth int) bool {
		info := g.Info()
		e = ast.Unparen(e)
		if depth > 3 {
			return false
		}
		switch v := e.(type) {
		case *ast.CompositeLit:
			for _, el := range v.Elts {
				val := el
				if kv, ok := el.(*ast.KeyValueExpr); ok {
					val = kv.Value
				}
				if isConnType(info.TypeOf(val)) && !valueAuthed(g, ref, val, depth+1) {
					return false
				}
			}
			return true
		case *ast.Ident:
			if v.Name == "nil" {
				return true
			}
			o := ObjOf(info, v)
			if o == nil {
				return false
			}
			if isConnType(o.Type()) {
				return spec.Passed(g, ref, fmt.Sprintf("auth:%d", spec.objID(o)))
			}
			// parameter of a closure: judged at the call sites of the closure
			if g.Lit == nil || g.Type.Params == nil {
				return false
			}
			idx, k := -1, 0
			for _, fld := range g.Type.Params.List {
				for _, nm := range fld.Names {
					if info.Defs[nm] == o {
						idx = k
					}
					k++
				}
			}
			if idx < 0 {
				return false
			}
			sites := 0
			for _, h := range treeOf(g.Root()) {
				okAll := true
				h.CFG().Calls(func(r NodeRef, call *ast.CallExpr) {
					if p.CalleeInfo(h.Info(), call) != g || len(call.Args) <= idx {
						return
					}
					sites++
					if !valueAuthed(h, r, call.Args[idx], depth+1) {
						okAll = false
					}
				})
				if !okAll {
					return false
				}
			}
			return sites > 0
		}
		return false
	}
	chanMemo := map[types.Object]bool{}
	var chanAuthed func(root *FuncInfo, ch types.Object) bool
	chanAuthed = func(root *FuncInfo, ch types.Object) bool {
		if v, ok := chanMemo[ch]; ok {
			return v
		}
		chanMemo[ch] = false
		// a channel parameter of a declared function: judged by the channels its callers pass
		if root.Decl != nil && root.Obj != nil && root.Type.Params != nil {
			idx, k := -1, 0
			for _, fld := range root.Type.Params.List {
				for _, nm := range fld.Names {
					if root.Info().Defs[nm] == ch {
						idx = k
					}
					k++
				}
			}
			if idx >= 0 {
				sites, okAll := 0, true
				for _, st := range p.CallSites(root.Obj) {
					InspectNoLits(st.ref.Node(), func(nd ast.Node) bool {
						call, ok := nd.(*ast.CallExpr)
						if !ok || p.CalleeInfo(st.f.Info(), call) != root || len(call.Args) <= idx {
							return true
						}
						sites++
						arg := ast.Unparen(call.Args[idx])
						if id, isId := arg.(*ast.Ident); isId && id.Name == "nil" {
							return true
						}
						if ao := ObjOf(st.f.Info(), arg); ao == nil || !chanAuthed(st.f.Root(), ao) {
							okAll = false
						}
						return true
					})
				}
				chanMemo[ch] = sites > 0 && okAll
				return chanMemo[ch]
			}
		}
		n, okAll := 0, true
		for _, g := range treeOf(root) {
			info := g.Info()
			g.CFG().EachNode(func(r NodeRef) {
				ss, ok := r.Node().(*ast.SendStmt)
				if !ok || ObjOf(info, ss.Chan) != ch {
					return
				}
				n++
				if !valueAuthed(g, r, ss.Value, 0) {
					okAll = false
				}
			})
		}
		chanMemo[ch] = n > 0 && okAll
		return chanMemo[ch]
	}
	// fromAuthedChan: e is x or x.<conn field> where every definition of x in f is a receive from an authenticated channel
	fromAuthedChan := func(f *FuncInfo, e ast.Expr) bool {
		info := f.Info()
		e = ast.Unparen(e)
		if !isConnType(info.TypeOf(e)) {
			return false
		}
		x := e
		if sel, ok := e.(*ast.SelectorExpr); ok {
			x = ast.Unparen(sel.X)
		}
		xo := ObjOf(info, x)
		if xo == nil {
			return false
		}
		n, okAll := 0, true
		InspectNoLits(f.Body, func(nd ast.Node) bool {
			as, ok := nd.(*ast.AssignStmt)
			if !ok {
				return true
			}
			for i, l := range as.Lhs {
				if ObjOf(info, l) != xo {
					continue
				}
				n++
				if len(as.Rhs) != 1 && len(as.Rhs) != len(as.Lhs) {
					okAll = false
					continue
				}
				rhs := as.Rhs[0]
				if len(as.Rhs) == len(as.Lhs) {
					rhs = as.Rhs[i]
				} else if i != 0 {
					continue // the ok of `x, ok := <-ch`
				}
				u, isRecv := ast.Unparen(rhs).(*ast.UnaryExpr)
				if !isRecv || u.Op != token.ARROW {
					okAll = false
					continue
				}
				ch := ObjOf(info, u.X)
				if ch == nil || !chanAuthed(f.Root(), ch) {
					okAll = false
				}
			}
			return true
		})
		return n > 0 && okAll
	}
	// producers: functions returning a conn slice whose every append is authenticated
	producers := map[*FuncInfo]bool{}
	for _, f := range p.FuncsIn("internal/app") {
		if f.Decl == nil || f.Type.Results == nil || len(f.Type.Results.List) == 0 {
			continue
		}
		if !isConnSlice(f.Info().TypeOf(f.Type.Results.List[0].Type)) {
			continue
		}
		info := f.Info()
		okAll, n := true, 0
		f.CFG().EachNode(func(r NodeRef) {
			as, ok := r.Node().(*ast.AssignStmt)
			if !ok || len(as.Rhs) != 1 {
				return
			}
			call, ok := ast.Unparen(as.Rhs[0]).(*ast.CallExpr)
			if !ok {
				return
			}
			id, ok := ast.Unparen(call.Fun).(*ast.Ident)
			if !ok || id.Name != "append" || len(call.Args) < 2 || !isConnSlice(info.TypeOf(call.Args[0])) {
				return
			}
			for _, el := range call.Args[1:] {
				n++
				key := fmt.Sprintf("producer/%s/append#%d", f.Name, n)
				var connExpr ast.Expr = el
				if cl, ok := ast.Unparen(el).(*ast.CompositeLit); ok { // dumbExtraConn{conn: x, ...}
					connExpr = nil
					for _, e2 := range cl.Elts {
						if kv, ok := e2.(*ast.KeyValueExpr); ok {
							if k, ok := kv.Key.(*ast.Ident); ok && k.Name == "conn" {
								connExpr = kv.Value
							}
						}
					}
				}
				authed := false
				if connExpr != nil {
					for _, e3 := range resolveExprs(f, connExpr, 1) {
						if o := ObjOf(info, e3); o != nil && spec.Passed(f, r, fmt.Sprintf("auth:%d", spec.objID(o))) {
							authed = true
						}
					}
					if !authed && fromAuthedChan(f, connExpr) {
						authed = true
					}
				}
				if !authed {
					okAll = false
				}
				c.Check(authed, key, el.Pos(), "connection appended to the returned slice only after authenticateTransport succeeded for it",
					"a connection is appended to the slice returned by "+f.Name+" on a path where authenticateTransport did not succeed for it: an unauthenticated extra connection carries file data")
			}
		})
		if okAll && n > 0 {
			producers[f] = true
		}
	}
	// per function: authenticated slices (flow-insensitive over all assignments, each judged at its own point)
	for _, f := range p.FuncsIn("internal/app") {
		info := f.Info()
		cfg := f.CFG()
		// is there any sink call here?
		hasSink := false
		cfg.Calls(func(r NodeRef, call *ast.CallExpr) {
			if g := p.CalleeInfo(info, call); g != nil {
				if _, ok := sinks[g.Name]; ok {
					hasSink = true
				}
			}
		})
		if !hasSink || sinks[f.Name].idx != 0 || f.Name == "app.sendDumbDataMulti" || f.Name == "app.recvDumbDiscardMulti" || strings.HasPrefix(f.Name, "app.sendDumbDataMulti$") || strings.HasPrefix(f.Name, "app.recvDumbDiscardMulti$") {
			// bodies of the sink helpers forward their own parameters: their callers carry the obligation
			if _, isSink := sinks[f.Root().Name]; isSink {
				continue
			}
			if !hasSink {
				continue
			}
		}
		authSlice := map[types.Object]bool{}
		var connAuthedAt func(r NodeRef, e ast.Expr) bool
		sliceOK := func(r NodeRef, e ast.Expr) bool {
			e = ast.Unparen(e)
			if o := ObjOf(info, e); o != nil && authSlice[o] {
				return true
			}
			if call, ok := e.(*ast.CallExpr); ok {
				if g := p.CalleeInfo(info, call); g != nil && producers[g] {
					return true
				}
				if id, ok := ast.Unparen(call.Fun).(*ast.Ident); ok && id.Name == "make" {
					return true
				}
			}
			if types.ExprString(e) == "nil" {
				return true
			}
			return false
		}
		connAuthedAt = func(r NodeRef, e ast.Expr) bool {
			e = ast.Unparen(e)
			if o := ObjOf(info, e); o != nil {
				if spec.Passed(f, r, fmt.Sprintf("auth:%d", spec.objID(o))) {
					return true
				}
				// variable assigned from an element of an authenticated slice, or a MultiConn over one
				okDef, ndef := true, 0
				InspectNoLits(f.Body, func(nd ast.Node) bool {
					var lhs, rhs []ast.Expr
					switch s := nd.(type) {
					case *ast.AssignStmt:
						if len(s.Lhs) == len(s.Rhs) {
							lhs, rhs = s.Lhs, s.Rhs
						} else if len(s.Rhs) == 1 {
							lhs, rhs = s.Lhs[:1], s.Rhs
						}
					case *ast.ValueSpec:
						if len(s.Values) == len(s.Names) {
							for _, nm := range s.Names {
								lhs = append(lhs, nm)
							}
							rhs = s.Values
						}
					}
					for i, l := range lhs {
						if ObjOf(info, l) != o {
							continue
						}
						ndef++
						rv := ast.Unparen(rhs[i])
						switch v := rv.(type) {
						case *ast.IndexExpr:
							if so := ObjOf(info, v.X); so == nil || !authSlice[so] {
								okDef = false
							}
						case *ast.CallExpr:
							if g := p.CalleeInfo(info, v); g != nil && g.Name == "transfer.NewMultiConn" && len(v.Args) == 1 {
								if so := ObjOf(info, v.Args[0]); so == nil || !authSlice[so] {
									okDef = false
								}
							} else {
								okDef = false
							}
						case *ast.Ident:
							if mo := ObjOf(info, v); mo == nil || !(connDerived(f, info, mo, authSlice, p) || fromAuthedChan(f, v)) {
								okDef = false
							}
						case *ast.SelectorExpr:
							if !fromAuthedChan(f, v) {
								okDef = false
							}
						default:
							okDef = false
						}
					}
					return true
				})
				if ndef > 0 && okDef {
					return true
				}
				// range value over an authenticated slice
				isRangeVal := false
				ast.Inspect(f.Body, func(nd ast.Node) bool {
					if rs, ok := nd.(*ast.RangeStmt); ok && rs.Value != nil && ObjOf(info, rs.Value) == o {
						if so := ObjOf(info, rs.X); so != nil && authSlice[so] {
							isRangeVal = true
						}
					}
					return true
				})
				if isRangeVal {
					return true
				}
				// parameter of a literal started with an authenticated argument
				if arg, ok := goLitBindings(f)[o]; ok && f.Parent != nil {
					_ = arg
				}
			}
			if sel, ok := e.(*ast.SelectorExpr); ok && sel.Sel.Name == "conn" {
				// c.conn where c ranges over an authenticated []dumbExtraConn
				if co := ObjOf(info, sel.X); co != nil {
					okR := false
					ast.Inspect(f.Body, func(nd ast.Node) bool {
						if rs, ok := nd.(*ast.RangeStmt); ok && rs.Value != nil && ObjOf(info, rs.Value) == co {
							if so := ObjOf(info, rs.X); so != nil && authSlice[so] {
								okR = true
							}
						}
						return true
					})
					return okR
				}
			}
			if ix, ok := e.(*ast.IndexExpr); ok {
				if so := ObjOf(info, ix.X); so != nil && authSlice[so] {
					return true
				}
			}
			return fromAuthedChan(f, e)
		}
		// fixpoint over slice variables
		type sasg struct {
			obj types.Object
			rhs ast.Expr
			ref NodeRef
		}
		var sas []sasg
		cfg.EachNode(func(r NodeRef) {
			var lhs, rhs []ast.Expr
			switch s := r.Node().(type) {
			case *ast.AssignStmt:
				if len(s.Lhs) == len(s.Rhs) {
					lhs, rhs = s.Lhs, s.Rhs
				} else if len(s.Rhs) == 1 {
					lhs, rhs = s.Lhs[:1], s.Rhs
				}
			case *ast.DeclStmt:
				if gd, ok := s.Decl.(*ast.GenDecl); ok {
					for _, sp := range gd.Specs {
						if vs, ok := sp.(*ast.ValueSpec); ok {
							for i, nm := range vs.Names {
								if i < len(vs.Values) {
									lhs = append(lhs, nm)
									rhs = append(rhs, vs.Values[i])
								} else if isConnSlice(info.TypeOf(nm)) {
									lhs = append(lhs, nm)
									rhs = append(rhs, ast.NewIdent("nil"))
								}
							}
						}
					}
				}
			}
			for i, l := range lhs {
				if o := ObjOf(info, l); o != nil && isConnSlice(o.Type()) {
					sas = append(sas, sasg{o, rhs[i], r})
				}
			}
		})
		for iter := 0; iter < 6; iter++ {
			byObj := map[types.Object]bool{}
			seen := map[types.Object]bool{}
			for _, a := range sas {
				if !seen[a.obj] {
					seen[a.obj] = true
					byObj[a.obj] = true
				}
				ok := false
				rv := ast.Unparen(a.rhs)
				switch v := rv.(type) {
				case *ast.CompositeLit:
					ok = true
					for _, el := range v.Elts {
						if !connAuthedAt(a.ref, el) {
							ok = false
						}
					}
				case *ast.CallExpr:
					if id, isId := ast.Unparen(v.Fun).(*ast.Ident); isId && id.Name == "append" && len(v.Args) >= 1 {
						ok = sliceOK(a.ref, v.Args[0]) || ObjOf(info, v.Args[0]) == a.obj
						if ObjOf(info, v.Args[0]) == a.obj && !authSlice[a.obj] && iter == 0 {
							ok = true // judged by the other assignments; first round optimistic for self-appends
						}
						for j, el := range v.Args[1:] {
							if v.Ellipsis.IsValid() && j == len(v.Args)-2 {
								if !sliceOK(a.ref, el) {
									ok = false
								}
							} else if !connAuthedAt(a.ref, el) {
								ok = false
							}
						}
					} else {
						ok = sliceOK(a.ref, rv)
					}
				default:
					ok = sliceOK(a.ref, rv)
				}
				if !ok {
					byObj[a.obj] = false
				}
			}
			changed := false
			for o, v := range byObj {
				if authSlice[o] != v {
					authSlice[o] = v
					changed = true
				}
			}
			if !changed {
				break
			}
		}
		n := 0
		cfg.Calls(func(r NodeRef, call *ast.CallExpr) {
			g := p.CalleeInfo(info, call)
			if g == nil {
				return
			}
			sk, ok := sinks[g.Name]
			if !ok || len(call.Args) <= sk.idx {
				return
			}
			n++
			key := fmt.Sprintf("sink/%s#%d->%s", f.Name, n, strings.TrimPrefix(g.Name, "transfer."))
			arg := call.Args[sk.idx]
			var good bool
			if sk.slice {
				good = sliceOK(r, arg)
			} else {
				good = connAuthedAt(r, arg)
			}
			c.Check(good, key, call.Pos(), types.ExprString(arg)+" is authenticated on every path to this call",
				"manifest/file bytes move over "+types.ExprString(arg)+" on a path where transport authentication has not succeeded for that connection (or for every connection in that slice)")
		})
	}
	// the wrapper type is never authenticated itself
	for _, st := range p.CallSites(authFn.Obj) {
		InspectNoLits(st.ref.Node(), func(n ast.Node) bool {
			call, ok := n.(*ast.CallExpr)
			if !ok || p.CalleeInfo(st.f.Info(), call) != authFn || len(call.Args) != 4 {
				return true
			}
			bad := false
			for _, e := range resolveExprs(st.f, call.Args[1], 2) {
				if c2, ok := ast.Unparen(e).(*ast.CallExpr); ok {
					if g := p.CalleeInfo(st.f.Info(), c2); g != nil && g.Name == "transfer.NewMultiConn" {
						bad = true
					}
				}
			}
			c.Check(!bad, "auth-arg/"+st.f.Name, call.Pos(), "authenticateTransport is given a single QUIC-backed connection", "authenticateTransport is given the multi-connection wrapper, which has no TLS exporter")
			return true
		})
	}
}

func connDerived(f *FuncInfo, info *types.Info, o types.Object, authSlice map[types.Object]bool, p *Program) bool {
	ok := false
	InspectNoLits(f.Body, func(nd ast.Node) bool {
		if as, isAs := nd.(*ast.AssignStmt); isAs && len(as.Lhs) >= 1 && len(as.Rhs) == 1 && ObjOf(info, as.Lhs[0]) == o {
			if call, isC := ast.Unparen(as.Rhs[0]).(*ast.CallExpr); isC {
				if g := p.CalleeInfo(info, call); g != nil && g.Name == "transfer.NewMultiConn" && len(call.Args) == 1 {
					if so := ObjOf(info, call.Args[0]); so != nil && authSlice[so] {
						ok = true
					}
				}
			}
		}
		return true
	})
	return ok
}

func runAuthShape(c *Ctx) {
	p := c.P
	get := func(n string) *FuncInfo {
		f := p.Func("app." + n)
		if f == nil {
			c.MissingAnchor("app." + n)
		}
		return f
	}
	asS, asR, derive, compute, rnd, readMsg, authT := get("authAsSender"), get("authAsReceiver"), get("deriveAuthKey"), get("computeAuthMac"), get("randomNonce"), get("readAuthMessage"), get("authenticateTransport")
	if asS == nil || asR == nil || derive == nil || compute == nil || rnd == nil || readMsg == nil || authT == nil {
		return
	}
	roleConst := map[*FuncInfo]string{asS: "authRoleReceive", asR: "authRoleSender"}
	for _, f := range []*FuncInfo{asS, asR} {
		info := f.Info()
		cfg := f.CFG()
		// variables received from readAuthMessage
		var roleV, nonceV, macV types.Object
		cfg.Calls(func(r NodeRef, call *ast.CallExpr) {
			if p.CalleeInfo(info, call) == readMsg {
				if as, ok := r.Node().(*ast.AssignStmt); ok && len(as.Lhs) == 4 {
					roleV, nonceV, macV = ObjOf(info, as.Lhs[0]), ObjOf(info, as.Lhs[1]), ObjOf(info, as.Lhs[2])
				}
			}
		})
		if macV == nil {
			c.Unknown("shape/"+f.Name+"/read", f.Pos(), "cannot find `role, nonce, mac, err := readAuthMessage(...)`")
			continue
		}
		var keyParam types.Object
		for _, fld := range f.Type.Params.List {
			for _, nm := range fld.Names {
				if nm.Name == "key" || strings.Contains(types.ExprString(fld.Type), "[]byte") {
					keyParam = info.Defs[nm]
				}
			}
		}
		spec := &PassSpec{Vias: []Via{
			{Cond: func(g *FuncInfo, e ast.Expr) (string, bool, bool) {
				if call, ok := ast.Unparen(e).(*ast.CallExpr); ok && calleeIs(g.Info(), call, "crypto/hmac", "Equal") && len(call.Args) == 2 {
					if ObjOf(g.Info(), call.Args[0]) == macV || ObjOf(g.Info(), call.Args[1]) == macV {
						return "mac-ok", true, true
					}
				}
				return "", false, false
			}},
			{Cond: func(g *FuncInfo, e ast.Expr) (string, bool, bool) {
				be, ok := ast.Unparen(e).(*ast.BinaryExpr)
				if !ok || (be.Op != token.NEQ && be.Op != token.EQL) {
					return "", false, false
				}
				if ObjOf(g.Info(), be.X) == roleV {
					if cn, ok := ObjOf(g.Info(), be.Y).(*types.Const); ok && cn.Name() == roleConst[f] {
						return "role-ok", be.Op == token.EQL, true
					}
				}
				return "", false, false
			}},
		}}
		// success return and (receiver) the response write
		k := 0
		for _, b := range cfg.Blocks {
			ret, ok := IsReturnExit(b)
			if !ok || len(ret.Results) != 1 || types.ExprString(ret.Results[0]) != "nil" {
				continue
			}
			k++
			ref := NodeRef{b, len(b.Nodes) - 1}
			c.Check(spec.Passed(f, ref, "mac-ok"), fmt.Sprintf("shape/%s/return-nil#%d/mac", f.Name, k), ret.Pos(), "nil is returned only past hmac.Equal(received, expected)", "authentication returns success on a path that does not pass the proof comparison: any peer is accepted")
			c.Check(spec.Passed(f, ref, "role-ok"), fmt.Sprintf("shape/%s/return-nil#%d/role", f.Name, k), ret.Pos(), "nil is returned only past the role test", "authentication returns success without checking the peer's role: a side's own proof can be reflected back to it")
		}
		if k == 0 {
			c.Bad("shape/"+f.Name+"/return-nil", f.Pos(), "no success return found")
		}
		if f == asR {
			cfg.Calls(func(r NodeRef, call *ast.CallExpr) {
				if g := p.CalleeInfo(info, call); g != nil && g.Name == "app.writeAuthMessage" {
					c.Check(spec.Passed(f, r, "mac-ok") && spec.Passed(f, r, "role-ok"), "shape/"+f.Name+"/verify-before-respond", call.Pos(), "the receiver proves itself only after verifying the sender", "the receiver sends its own proof before verifying the sender's: an unauthenticated dialer obtains a valid proof for this TLS session")
				}
			})
		}
		// received MAC only used in hmac.Equal
		badUse := ""
		ast.Inspect(f.Body, func(n ast.Node) bool {
			switch v := n.(type) {
			case *ast.CallExpr:
				if calleeIs(info, v, "crypto/hmac", "Equal") {
					return false // uses inside are fine
				}
			case *ast.Ident:
				if info.Uses[v] == macV {
					badUse = p.Pos(v.Pos())
				}
			}
			return true
		})
		c.Check(badUse == "", "shape/"+f.Name+"/constant-time", f.Pos(), "the received MAC is only ever an argument of crypto/hmac.Equal", "the received MAC is used outside crypto/hmac.Equal at "+badUse+" (bytes.Equal / == / prefix compare leak timing or weaken the comparison)")
		// expected = computeAuthMac(key, role, nonce)
		okExp := false
		ast.Inspect(f.Body, func(n ast.Node) bool {
			call, ok := n.(*ast.CallExpr)
			if !ok || !calleeIs(info, call, "crypto/hmac", "Equal") || len(call.Args) != 2 {
				return true
			}
			other := call.Args[1]
			if ObjOf(info, call.Args[1]) == macV {
				other = call.Args[0]
			}
			for _, e := range resolveExprs(f, other, 1) {
				if c2, ok := ast.Unparen(e).(*ast.CallExpr); ok && p.CalleeInfo(info, c2) == compute && len(c2.Args) == 3 {
					roleArgOK := ObjOf(info, c2.Args[1]) == roleV
					if cn, ok := ObjOf(info, c2.Args[1]).(*types.Const); ok && cn.Name() == roleConst[f] {
						roleArgOK = true
					}
					if ObjOf(info, c2.Args[0]) == keyParam && keyParam != nil && roleArgOK && ObjOf(info, c2.Args[2]) == nonceV {
						okExp = true
					}
				}
			}
			return true
		})
		c.Check(okExp, "shape/"+f.Name+"/expected", f.Pos(), "expected = computeAuthMac(key, received role, received nonce)", "the value compared with the received MAC is not computeAuthMac(<derived key>, <received role>, <received nonce>): the proof no longer covers what was received")
		// own nonce from randomNonce
		okNonce := false
		cfg.Calls(func(r NodeRef, call *ast.CallExpr) {
			if g := p.CalleeInfo(info, call); g != nil && g.Name == "app.writeAuthMessage" && len(call.Args) == 5 {
				for _, e := range resolveExprs(f, call.Args[3], 1) {
					if c2, ok := ast.Unparen(e).(*ast.CallExpr); ok && p.CalleeInfo(info, c2) == rnd {
						okNonce = true
					}
				}
			}
		})
		c.Check(okNonce, "shape/"+f.Name+"/nonce", f.Pos(), "the nonce sent comes from randomNonce()", "the nonce sent is not a fresh random value")
	}
	// computeAuthMac
	{
		info := compute.Info()
		params := map[string]types.Object{}
		var order []string
		for _, fld := range compute.Type.Params.List {
			for _, nm := range fld.Names {
				params[nm.Name] = info.Defs[nm]
				order = append(order, nm.Name)
			}
		}
		keyed, role, nonce, version := false, false, false, false
		ast.Inspect(compute.Body, func(n ast.Node) bool {
			call, ok := n.(*ast.CallExpr)
			if !ok {
				return true
			}
			if calleeIs(info, call, "crypto/hmac", "New") && len(call.Args) == 2 && len(order) == 3 && ObjOf(info, call.Args[1]) == params[order[0]] {
				keyed = true
			}
			if sel, ok := ast.Unparen(call.Fun).(*ast.SelectorExpr); ok && sel.Sel.Name == "Write" {
				ast.Inspect(call, func(m ast.Node) bool {
					if id, ok := m.(*ast.Ident); ok && len(order) == 3 {
						switch info.Uses[id] {
						case params[order[1]]:
							role = true
						case params[order[2]]:
							nonce = true
						}
						if cn, ok := info.Uses[id].(*types.Const); ok && cn.Name() == "authVersion" {
							version = true
						}
					}
					return true
				})
			}
			return true
		})
		c.Check(keyed, "shape/computeAuthMac/key", compute.Pos(), "the MAC is keyed with the key parameter", "computeAuthMac does not key the MAC with its key parameter: proofs no longer depend on the join code / TLS session")
		c.Check(role && nonce && version, "shape/computeAuthMac/covers", compute.Pos(), "the proof covers version, role and nonce", fmt.Sprintf("the proof does not cover all of version/role/nonce (version=%v role=%v nonce=%v): messages can be replayed, reflected or role-swapped", version, role, nonce))
	}
	// deriveAuthKey
	{
		info := derive.Info()
		var joinParam types.Object
		for _, fld := range derive.Type.Params.List {
			for _, nm := range fld.Names {
				if isStringType(info.TypeOf(fld.Type)) {
					joinParam = info.Defs[nm]
				}
			}
		}
		var ekmV types.Object
		labelOK, lenOK := false, false
		derive.CFG().Calls(func(r NodeRef, call *ast.CallExpr) {
			if sel, ok := ast.Unparen(call.Fun).(*ast.SelectorExpr); ok && sel.Sel.Name == "ExportKeyingMaterial" && len(call.Args) == 3 {
				if as, ok := r.Node().(*ast.AssignStmt); ok {
					ekmV = ObjOf(info, as.Lhs[0])
				}
				if s, ok := constString(info, call.Args[0]); ok && s != "" {
					labelOK = true
				}
				if z, ok := constInt(info, call.Args[2]); ok && z >= 32 {
					lenOK = true
				}
			}
		})
		mentions := func(e ast.Node, o types.Object) bool {
			hit := false
			ast.Inspect(e, func(m ast.Node) bool {
				if id, ok := m.(*ast.Ident); ok && info.Uses[id] == o && o != nil {
					hit = true
				}
				return true
			})
			return hit
		}
		keyJoin, keyEkm, inJoin, inEkm := false, false, false, false
		ast.Inspect(derive.Body, func(n ast.Node) bool {
			call, ok := n.(*ast.CallExpr)
			if !ok {
				return true
			}
			if calleeIs(info, call, "crypto/hmac", "New") && len(call.Args) == 2 {
				keyJoin = keyJoin || mentions(call.Args[1], joinParam)
				keyEkm = keyEkm || mentions(call.Args[1], ekmV)
			}
			if sel, ok := ast.Unparen(call.Fun).(*ast.SelectorExpr); ok && sel.Sel.Name == "Write" && len(call.Args) == 1 {
				inJoin = inJoin || mentions(call.Args[0], joinParam)
				inEkm = inEkm || mentions(call.Args[0], ekmV)
			}
			return true
		})
		c.Check((keyJoin && inEkm) || (keyEkm && inJoin), "shape/deriveAuthKey/binds-both", derive.Pos(), "the key combines the join code and the TLS exporter output",
			fmt.Sprintf("the derived key does not depend on both the join code and the TLS exporter (key: join=%v ekm=%v, input: join=%v ekm=%v): holders of another code, or a relay between two TLS sessions, would pass", keyJoin, keyEkm, inJoin, inEkm))
		c.Check(labelOK && lenOK, "shape/deriveAuthKey/export-params", derive.Pos(), "non-empty constant label and >= 32 bytes of keying material", "exporter label empty/non-constant or fewer than 32 bytes exported")
		// success return only past exporter ok and export error nil
		sp := &PassSpec{Vias: []Via{
			{Call: func(g *FuncInfo, call *ast.CallExpr) (string, bool) {
				if sel, ok := ast.Unparen(call.Fun).(*ast.SelectorExpr); ok && sel.Sel.Name == "ExportKeyingMaterial" {
					return "exported", true
				}
				return "", false
			}},
		}}
		for _, b := range derive.CFG().Blocks {
			ret, ok := IsReturnExit(b)
			if !ok || len(ret.Results) != 2 || types.ExprString(ret.Results[1]) != "nil" {
				continue
			}
			c.Check(sp.Passed(derive, NodeRef{b, len(b.Nodes) - 1}, "exported"), "shape/deriveAuthKey/no-nil-on-failure", ret.Pos(), "a key is returned only after a successful export", "deriveAuthKey returns a key with a nil error on a path where the TLS export failed or was skipped")
		}
	}
	// randomNonce uses crypto/rand
	{
		ok := false
		ast.Inspect(rnd.Body, func(n ast.Node) bool {
			if call, isC := n.(*ast.CallExpr); isC && calleeIs(rnd.Info(), call, "crypto/rand", "Read") {
				ok = true
			}
			return true
		})
		c.Check(ok, "shape/randomNonce", rnd.Pos(), "nonces are read from crypto/rand", "nonces are not read from crypto/rand")
	}
	// no literal nil error on failure in authenticateTransport / readAuthMessage
	for _, f := range []*FuncInfo{authT, readMsg} {
		bad := ""
		nret := 0
		for _, b := range f.CFG().Blocks {
			ret, ok := IsReturnExit(b)
			if !ok || len(ret.Results) == 0 {
				continue
			}
			nret++
			last := ret.Results[len(ret.Results)-1]
			if types.ExprString(last) == "nil" {
				// must be the only nil return and be the last statement of the body
				if ret.End() < f.Body.End()-2 {
					bad = p.Pos(ret.Pos())
				}
			}
		}
		c.Check(bad == "" && nret > 0, "shape/"+f.Name+"/no-nil-on-failure", f.Pos(), "no early return reports success", "an early return at "+bad+" reports success (nil error) from a failure branch")
	}
	// version check in readAuthMessage
	{
		ok := false
		ast.Inspect(readMsg.Body, func(n ast.Node) bool {
			if be, isB := n.(*ast.BinaryExpr); isB && be.Op == token.NEQ {
				if cn, isC := ObjOf(readMsg.Info(), be.Y).(*types.Const); isC && cn.Name() == "authVersion" {
					ok = true
				}
			}
			return true
		})
		c.Check(ok, "shape/readAuthMessage/version", readMsg.Pos(), "messages with another version byte are rejected", "readAuthMessage no longer rejects an unexpected version byte")
	}
	// QUICConn.ExportKeyingMaterial
	if ex := p.Func("transferquic.(*QUICConn).ExportKeyingMaterial"); ex != nil {
		info := ex.Info()
		ok := false
		var recv types.Object
		if ex.Decl.Recv != nil && len(ex.Decl.Recv.List[0].Names) > 0 {
			recv = info.Defs[ex.Decl.Recv.List[0].Names[0]]
		}
		for _, b := range ex.CFG().Blocks {
			ret, isR := IsReturnExit(b)
			if !isR || len(ret.Results) != 1 {
				continue
			}
			call, isC := ast.Unparen(ret.Results[0]).(*ast.CallExpr)
			if !isC {
				continue
			}
			sel, isS := ast.Unparen(call.Fun).(*ast.SelectorExpr)
			if !isS || sel.Sel.Name != "ExportKeyingMaterial" || len(call.Args) != 3 {
				continue
			}
			// receiver chain ends in a value derived from <recv>.conn
			derivedFromOwn := false
			for _, e := range resolveExprs(ex, sel.X, 3) {
				ast.Inspect(e, func(m ast.Node) bool {
					if s2, ok := m.(*ast.SelectorExpr); ok && s2.Sel.Name == "conn" && ObjOf(info, s2.X) == recv && recv != nil {
						derivedFromOwn = true
					}
					return true
				})
			}
			argsOK := true
			i := 0
			for _, fld := range ex.Type.Params.List {
				for _, nm := range fld.Names {
					if i < 3 && ObjOf(info, call.Args[i]) != info.Defs[nm] {
						argsOK = false
					}
					i++
				}
			}
			if derivedFromOwn && argsOK {
				ok = true
			}
		}
		c.Check(ok, "shape/QUICConn.ExportKeyingMaterial", ex.Pos(), "exports from the TLS state of this connection with the caller's label/context/length", "QUICConn.ExportKeyingMaterial does not export from its own connection's TLS state with the caller's parameters: the key is no longer bound to this TLS session")
	} else {
		c.MissingAnchor("transferquic.(*QUICConn).ExportKeyingMaterial")
	}
}
