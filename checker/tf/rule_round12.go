package tf

import (
	"fmt"
	"go/ast"
	"go/token"
	"go/types"
	"strings"
)

func init() {
	Register(&Rule{
		Name:  "R-CONTROL-ERROR-ENDS-RECEIVE",
		Props: []string{"C02", "C03"},
		Min:   1,
		Doc: "a control record the receiver cannot act on ends the receive: in the main loop of RecvManifestMultiStream every path from a non-nil result of handleControl reaches a return (no `continue` that leaves the file behind) - " +
			"a file whose FileBegin failed and is skipped in silence is never acknowledged, the receiver can never reach the file total and the sender waits for a FileDone that nobody sends: both sides hang",
		Run: runControlErrorEndsReceive,
	})
	Register(&Rule{
		Name:  "R-SIDECAR-NAME-FIXED-LENGTH",
		Props: []string{"C03"},
		Min:   1,
		Doc: "the name of a file's resume metadata does not grow with the file's name: sidecarIdentifier returns a value that reaches the item's path only through a hash (fmt.Sprintf of Sum64 / a fixed-width encoding), never a string built from RelPath or its base name - " +
			"`<name>.<hash>.sbxmap.tmp` is longer than the name itself, so a legal file name near NAME_MAX can be created as an output file but not get its metadata, and every attempt fails",
		Run: runSidecarNameFixedLength,
	})
	Register(&Rule{
		Name:  "R-PAD-MASK-GUARDED",
		Props: []string{"C04", "C06", "C05"},
		Min:   0,
		Doc: "a mask for the padding bits of a bitmap's last byte is not computed from a bit count that may be a multiple of 8: every expression of the shape (1 << (n % 8)) - 1 in the non-test code of internal/transfer lies under a condition that implies n % 8 != 0 - " +
			"for a multiple of 8 the mask is 0 and wipes the last byte: eight chunks reported missing and sent again on every resume, or a highest recorded chunk that is never found. Rule with expected count zero: the positive example is the hand mutant R12-pad-mask-unguarded",
		Run: runPadMaskGuarded,
	})
	Register(&Rule{
		Name:  "R-HASH-DEFAULT",
		Props: []string{"C06"},
		Min:   1,
		Doc: "the empty hash-algorithm name means the default algorithm: in parseHashAlg the case that lists \"\" returns what the case that lists \"crc32c\" returns - cmd/thru never sets Options.HashAlg, so with \"\" parsed as `none` no chunk is ever compared on resume",
		Run: runHashDefault,
	})
	Register(&Rule{
		Name:  "R-RELEASE-ONCE",
		Props: []string{"C14"},
		Min:   1,
		Doc: "a connection slot is given back once: in a function that defers X.Release() after X.Acquire() no other call of X.Release() exists - a second release on a refusal path frees the slot of another live connection, and after k refusals the server holds --max-ws-connections + k connections",
		Run: runReleaseOnce,
	})
	Register(&Rule{
		Name:  "R-TURN-QUERY-VERBATIM",
		Props: []string{"C16"},
		Min:   1,
		Doc: "the server mints a TURN URL with the operator's query and nothing added: injectTurnCredentials assigns neither RawQuery nor ForceQuery of the parsed URL and calls no Query().Set/Add on it - an appended ?transport=udp makes a bare turns: URL one the client refuses",
		Run: runTurnQueryVerbatim,
	})
	Register(&Rule{
		Name:  "R-SCHEDULE-DONE-AT-END",
		Props: []string{"C17", "C04"},
		Min:   2,
		Doc: "the sender declares a file's schedule exhausted only where its cursor has reached the chunk count: every `scheduleDone = true` on a sendFileState is reached with nextChunk >= totalChunks known (the true edge of that comparison, or straight behind `for nextChunk < totalChunks` without a break) - " +
			"a schedule ended from a count of set bits over-counts when a late report marks chunks the cursor already passed without a plan: missing chunks are never handed out and FileEnd goes out all the same",
		Run: runScheduleDoneAtEnd,
	})
}

func runControlErrorEndsReceive(c *Ctx) {
	p := c.P
	recv := p.Func("transfer.RecvManifestMultiStream")
	if recv == nil {
		c.MissingAnchor("transfer.RecvManifestMultiStream")
		return
	}
	info := recv.Info()
	n := 0
	InspectNoLits(recv.Body, func(m ast.Node) bool {
		is, ok := m.(*ast.IfStmt)
		if !ok || is.Init == nil {
			return true
		}
		as, ok := is.Init.(*ast.AssignStmt)
		if !ok || len(as.Rhs) != 1 {
			return true
		}
		call, ok := ast.Unparen(as.Rhs[0]).(*ast.CallExpr)
		if !ok {
			return true
		}
		h := p.CalleeInfo(info, call)
		if h == nil || !strings.HasSuffix(h.Name, "$handleControl") {
			return true
		}
		if _, nilOnTrue, ok := NilTest(info, is.Cond); !ok || nilOnTrue {
			return true
		}
		n++
		// every path through the body ends in a return
		escapes := false
		var walk func(list []ast.Stmt) bool // true when every path through list returns
		walk = func(list []ast.Stmt) bool {
			for _, st := range list {
				switch s := st.(type) {
				case *ast.ReturnStmt:
					return true
				case *ast.BranchStmt:
					escapes = true
					return true
				case *ast.IfStmt:
					thenRet := walk(s.Body.List)
					if s.Else != nil {
						var elseRet bool
						switch e := s.Else.(type) {
						case *ast.BlockStmt:
							elseRet = walk(e.List)
						case *ast.IfStmt:
							elseRet = walk([]ast.Stmt{e})
						}
						if thenRet && elseRet {
							return true
						}
					}
				case *ast.BlockStmt:
					if walk(s.List) {
						return true
					}
				}
			}
			return false
		}
		returns := walk(is.Body.List)
		c.Check(returns && !escapes, fmt.Sprintf("control-error/returns#%d", n), is.Pos(), "an error of handleControl ends the receive on every path",
			"the main loop of RecvManifestMultiStream can go on after handleControl returned an error (a continue / a path without return in the error branch): the file the record was about is never acknowledged, "+
				"the receiver cannot reach the file total any more and reports nothing, the sender waits for the missing FileDone - both sides hang")
		return true
	})
	if n == 0 {
		c.Bad("control-error/none", recv.Pos(), "found no `if err := handleControl(..); err != nil` in the main loop of RecvManifestMultiStream")
	}
}

func runSidecarNameFixedLength(c *Ctx) {
	p := c.P
	f := p.Func("transfer.sidecarIdentifier")
	if f == nil {
		c.MissingAnchor("transfer.sidecarIdentifier")
		return
	}
	info := f.Info()
	item := paramObj(f, 0)
	n := 0
	mentionsName := func(e ast.Expr) (bool, string) {
		hit, what := false, ""
		for _, d := range resolveExprs(f, e, 3) {
			ast.Inspect(d, func(k ast.Node) bool {
				switch x := k.(type) {
				case *ast.CallExpr:
					// what goes INTO a hash is fine: h.Write(..), Sum(..), fnv/sha calls
					if sel, ok := ast.Unparen(x.Fun).(*ast.SelectorExpr); ok && (sel.Sel.Name == "Write" || sel.Sel.Name == "WriteString" || strings.HasPrefix(sel.Sel.Name, "Sum")) {
						return false
					}
				case *ast.SelectorExpr:
					if ObjOf(info, x.X) == item && (x.Sel.Name == "RelPath" || x.Sel.Name == "Name") {
						hit, what = true, types.ExprString(x)
					}
				}
				return true
			})
		}
		return hit, what
	}
	InspectNoLits(f.Body, func(m ast.Node) bool {
		rs, ok := m.(*ast.ReturnStmt)
		if !ok || len(rs.Results) != 1 {
			return true
		}
		n++
		bad, what := mentionsName(rs.Results[0])
		c.Check(!bad, fmt.Sprintf("sidecar-name/return#%d", n), rs.Pos(), "the metadata name is built from a hash only",
			"sidecarIdentifier returns a name that contains "+what+" (or a part of it) outside a hash: the metadata file `<that>.sbxmap.tmp` is longer than the item's own name, "+
				"so a legal name near the file system's limit can be written as an output file but cannot get resume metadata - the receive fails with `file name too long` on every attempt")
		return true
	})
	if n == 0 {
		c.Bad("sidecar-name/none", f.Pos(), "sidecarIdentifier has no return")
	}
}

func runPadMaskGuarded(c *Ctx) {
	p := c.P
	n := 0
	for _, f := range p.FuncsIn("internal/transfer") {
		if f.Body == nil || strings.HasSuffix(p.Fset.Position(f.Pos()).Filename, "_test.go") {
			continue
		}
		info := f.Info()
		InspectNoLits(f.Body, func(m ast.Node) bool {
			be, ok := m.(*ast.BinaryExpr)
			if !ok || be.Op != token.SUB {
				return true
			}
			if v, ok := constInt(info, be.Y); !ok || v != 1 {
				return true
			}
			// the minuend holds 1 << (n % 8)
			var modOperand ast.Expr
			ast.Inspect(be.X, func(k ast.Node) bool {
				sh, ok := k.(*ast.BinaryExpr)
				if !ok || sh.Op != token.SHL {
					return true
				}
				ast.Inspect(sh.Y, func(k2 ast.Node) bool {
					if md, ok := k2.(*ast.BinaryExpr); ok && md.Op == token.REM {
						if v, ok := constInt(info, md.Y); ok && v == 8 {
							modOperand = md.X
						}
					}
					return true
				})
				return true
			})
			if modOperand == nil {
				return true
			}
			n++
			want := types.ExprString(StripConv(info, modOperand))
			guarded := false
			for _, is := range enclosingIfs(f.Body, be) {
				if !(is.Body.Pos() <= be.Pos() && be.End() <= is.Body.End()) {
					continue
				}
				for _, a := range Implied(is.Cond, true) {
					cmp, ok := ast.Unparen(a.E).(*ast.BinaryExpr)
					if !ok || !a.Val {
						continue
					}
					// n%8 != 0, n%8 > 0, or a local r := n%8 with r != 0 / r > 0
					isRem := func(e ast.Expr) bool {
						for _, d := range resolveExprs(f, e, 2) {
							if md, ok := ast.Unparen(StripConv(info, d)).(*ast.BinaryExpr); ok && md.Op == token.REM && types.ExprString(StripConv(info, md.X)) == want {
								return true
							}
						}
						return false
					}
					if z, ok := constInt(info, cmp.Y); ok && z == 0 && (cmp.Op == token.NEQ || cmp.Op == token.GTR) && isRem(cmp.X) {
						guarded = true
					}
				}
			}
			c.Check(guarded, fmt.Sprintf("pad-mask/%s#%d", f.Name, n), be.Pos(), "a padding mask is computed only for a bit count that is not a multiple of 8",
				f.Name+" computes the mask "+types.ExprString(be)+" with no guard for "+want+" % 8 == 0: for a multiple of 8 it is 0 - applied to the last byte of a bitmap it wipes eight chunks (reported missing and sent again on every resume; or the highest recorded chunk never found)")
			return true
		})
	}
	if n == 0 {
		c.OK("pad-mask/none", token.NoPos, "no padding mask of the shape (1 << (n % 8)) - 1 in internal/transfer")
	}
}

func runHashDefault(c *Ctx) {
	p := c.P
	f := p.Func("transfer.parseHashAlg")
	if f == nil {
		c.MissingAnchor("transfer.parseHashAlg")
		return
	}
	info := f.Info()
	retOf := map[string]string{}
	ast.Inspect(f.Body, func(m ast.Node) bool {
		cc, ok := m.(*ast.CaseClause)
		if !ok {
			return true
		}
		ret := ""
		for _, st := range cc.Body {
			if rs, ok := st.(*ast.ReturnStmt); ok && len(rs.Results) >= 1 {
				ret = types.ExprString(rs.Results[0])
			}
		}
		for _, e := range cc.List {
			if s, ok := constString(info, e); ok {
				retOf[s] = ret
			}
		}
		return true
	})
	empty, hasEmpty := retOf[""]
	def, hasDef := retOf["crc32c"]
	if !hasDef {
		c.Unknown("hash-default/empty", f.Pos(), "parseHashAlg has no case for \"crc32c\"")
		return
	}
	c.Check(hasEmpty && empty == def && def != "", "hash-default/empty", f.Pos(), "the empty algorithm name parses to the default",
		fmt.Sprintf("parseHashAlg maps the empty name to %q and \"crc32c\" to %q: the binaries never set Options.HashAlg, so every real transfer runs with what the empty name means - with `none` no chunk is hashed, the receiver reserves nothing and the sender compares nothing, a torn last chunk is skipped unseen", empty, def))
}

func runReleaseOnce(c *Ctx) {
	p := c.P
	n := 0
	for _, f := range p.Funcs() {
		if f.Decl == nil || f.Body == nil || !strings.Contains(p.Fset.Position(f.Pos()).Filename, "/cmd/thruserv/") || strings.HasSuffix(p.Fset.Position(f.Pos()).Filename, "_test.go") {
			continue
		}
		info := f.Info()
		// defer X.Release()
		deferred := map[string]token.Pos{}
		ast.Inspect(f.Body, func(m ast.Node) bool {
			if ds, ok := m.(*ast.DeferStmt); ok {
				if sel, ok := ast.Unparen(ds.Call.Fun).(*ast.SelectorExpr); ok && sel.Sel.Name == "Release" {
					deferred[types.ExprString(sel.X)] = ds.Pos()
				}
			}
			return true
		})
		for x, dpos := range deferred {
			n++
			var extra []token.Pos
			ast.Inspect(f.Body, func(m ast.Node) bool {
				if _, ok := m.(*ast.DeferStmt); ok {
					return false
				}
				if call, ok := m.(*ast.CallExpr); ok {
					if sel, ok := ast.Unparen(call.Fun).(*ast.SelectorExpr); ok && sel.Sel.Name == "Release" && types.ExprString(sel.X) == x && call.Pos() > dpos {
						extra = append(extra, call.Pos())
					}
				}
				return true
			})
			_ = info
			if len(extra) == 0 {
				c.OK(fmt.Sprintf("release-once/%s/%s", f.Name, x), dpos, "released by the deferred call only")
			} else {
				c.Bad(fmt.Sprintf("release-once/%s/%s", f.Name, x), extra[0], f.Name+" calls "+x+".Release() behind `defer "+x+".Release()`: on that path the slot is given back twice, the second time that of another live connection - after k such paths the server holds its connection limit + k connections")
			}
		}
	}
	if n == 0 {
		c.Bad("release-once/none", token.NoPos, "found no deferred Release() in cmd/thruserv")
	}
}

func runTurnQueryVerbatim(c *Ctx) {
	p := c.P
	f := p.Func("cmd/thruserv.injectTurnCredentials")
	if f == nil {
		c.MissingAnchor("cmd/thruserv.injectTurnCredentials")
		return
	}
	info := f.Info()
	var bad token.Pos
	what := ""
	ast.Inspect(f.Body, func(m ast.Node) bool {
		switch x := m.(type) {
		case *ast.AssignStmt:
			for _, l := range x.Lhs {
				if sel, ok := ast.Unparen(l).(*ast.SelectorExpr); ok && (sel.Sel.Name == "RawQuery" || sel.Sel.Name == "ForceQuery" || sel.Sel.Name == "Fragment" || sel.Sel.Name == "RawFragment") {
					if t := info.TypeOf(sel.X); t != nil && strings.HasSuffix(t.String(), "url.URL") {
						bad, what = x.Pos(), "assigns "+types.ExprString(l)
					}
				}
			}
		case *ast.CallExpr:
			if sel, ok := ast.Unparen(x.Fun).(*ast.SelectorExpr); ok && (sel.Sel.Name == "Set" || sel.Sel.Name == "Add" || sel.Sel.Name == "Del") {
				if t := info.TypeOf(sel.X); t != nil && strings.HasSuffix(t.String(), "url.Values") {
					bad, what = x.Pos(), "changes the query through "+types.ExprString(x.Fun)
				}
			}
		}
		return true
	})
	if bad == token.NoPos {
		c.OK("turn-query/verbatim", f.Pos(), "the query of the minted URL is the operator's")
	} else {
		c.Bad("turn-query/verbatim", bad, "injectTurnCredentials "+what+": the URL handed to clients no longer carries exactly the operator's options - a bare turns: URL with an added transport=udp is refused by the client (turns requires tcp), which is then left without a relay")
	}
}

func runScheduleDoneAtEnd(c *Ctx) {
	p := c.P
	isField := func(info *types.Info, e ast.Expr, name string) bool {
		sel, ok := ast.Unparen(e).(*ast.SelectorExpr)
		if !ok {
			return false
		}
		v, _ := info.Uses[sel.Sel].(*types.Var)
		return v != nil && v.IsField() && v.Name() == name
	}
	n := 0
	per := map[string]int{}
	for _, f := range p.FuncsIn("internal/transfer") {
		if f.Body == nil || strings.HasSuffix(p.Fset.Position(f.Pos()).Filename, "_test.go") {
			continue
		}
		info := f.Info()
		InspectNoLits(f.Body, func(m ast.Node) bool {
			st, ok := m.(*ast.AssignStmt)
			if !ok || len(st.Lhs) != 1 || len(st.Rhs) != 1 || !isField(info, st.Lhs[0], "scheduleDone") {
				return true
			}
			if t := info.TypeOf(ast.Unparen(st.Lhs[0]).(*ast.SelectorExpr).X); t == nil || !strings.HasSuffix(t.String(), "sendFileState") {
				return true
			}
			if types.ExprString(st.Rhs[0]) == "false" {
				return true
			}
			n++
			per[f.Name]++
			c.Check(types.ExprString(st.Rhs[0]) == "true" && cursorAtEnd(f, info, st, isField), fmt.Sprintf("schedule-done/%s#%d", f.Name, per[f.Name]), st.Pos(), "the schedule is declared exhausted only with the cursor at the chunk count",
				f.Name+" sets scheduleDone where nextChunk >= totalChunks is not known (not under that comparison, not straight behind `for nextChunk < totalChunks`): a schedule ended from a count or an estimate leaves chunks the receiver still needs unsent, "+
					"and FileEnd goes out all the same - the sender returns nil over an incomplete file, or the receiver waits for ever")
			return true
		})
	}
	if n == 0 {
		c.Bad("schedule-done/none", token.NoPos, "found no `scheduleDone = true` on a sendFileState")
	}
}

func init() {
	Register(&Rule{
		Name:  "R-HUB-ID-KINDS",
		Props: []string{"C10"},
		Min:   6,
		Doc: "the hub's two kinds of id are not confused: a string is a connection id (a key of Hub.sessions[s], a value of Hub.byPeerID[s]) or a peer id (a key of Hub.byPeerID[s]); kinds are inferred for locals, slice elements and the parameters of the hub's methods " +
			"(from how the method uses them), and every index into the two maps and every argument of a hub method whose parameter has a kind takes a value of that kind - the retry pass of a broadcast handing its connection ids to SendTo looks them up as peer ids, finds nobody, and the message is lost for a recipient that keeps reading",
		Run: runHubIDKinds,
	})
}

func runHubIDKinds(c *Ctx) {
	p := c.P
	var hubFuncs []*FuncInfo
	for _, f := range p.FuncsIn("internal/peers") {
		if f.Body == nil || strings.HasSuffix(p.Fset.Position(f.Pos()).Filename, "_test.go") {
			continue
		}
		hubFuncs = append(hubFuncs, f)
	}
	if len(hubFuncs) == 0 {
		c.MissingAnchor("functions of internal/peers")
		return
	}
	const (
		connK = "connection id"
		peerK = "peer id"
	)
	// which map does an expression like h.sessions[s] / h.byPeerID[s] (or a local alias of it) denote
	mapOf := func(f *FuncInfo, e ast.Expr) string {
		for _, d := range resolveExprs(f, e, 2) {
			if ix, ok := ast.Unparen(d).(*ast.IndexExpr); ok {
				if sel, ok := ast.Unparen(ix.X).(*ast.SelectorExpr); ok {
					switch sel.Sel.Name {
					case "sessions", "byPeerID":
						return sel.Sel.Name
					}
				}
			}
		}
		return ""
	}
	kinds := map[types.Object]string{}
	conflict := map[types.Object]bool{}
	set := func(o types.Object, k string) bool {
		if o == nil || k == "" {
			return false
		}
		if old, ok := kinds[o]; ok {
			if old != k {
				conflict[o] = true
			}
			return false
		}
		kinds[o] = k
		return true
	}
	var kindOf func(f *FuncInfo, e ast.Expr) string
	kindOf = func(f *FuncInfo, e ast.Expr) string {
		info := f.Info()
		switch x := ast.Unparen(e).(type) {
		case *ast.Ident:
			return kinds[info.ObjectOf(x)]
		case *ast.IndexExpr:
			// byPeerID[s][p] is a connection id
			if mapOf(f, x.X) == "byPeerID" {
				return connK
			}
			// an element of a slice with a kind
			if o := rootObj(info, x.X); o != nil {
				if _, isSlice := types.Unalias(info.TypeOf(x.X)).Underlying().(*types.Slice); isSlice {
					return kinds[o]
				}
			}
		case *ast.SelectorExpr:
			switch x.Sel.Name {
			case "PeerID":
				return peerK
			case "ConnID", "connID":
				return connK
			}
		}
		return ""
	}
	// fixed point over definitions, uses as indices, and calls
	for round := 0; round < 6; round++ {
		changed := false
		for _, f := range hubFuncs {
			info := f.Info()
			ast.Inspect(f.Body, func(m ast.Node) bool {
				switch x := m.(type) {
				case *ast.RangeStmt:
					switch mapOf(f, x.X) {
					case "sessions":
						if x.Key != nil {
							changed = set(ObjOf(info, x.Key), connK) || changed
						}
					case "byPeerID":
						if x.Key != nil {
							changed = set(ObjOf(info, x.Key), peerK) || changed
						}
						if x.Value != nil {
							changed = set(ObjOf(info, x.Value), connK) || changed
						}
					default:
						// a slice with a kind
						if o := rootObj(info, x.X); o != nil && x.Value != nil {
							if _, isSlice := types.Unalias(info.TypeOf(x.X)).Underlying().(*types.Slice); isSlice && kinds[o] != "" {
								changed = set(ObjOf(info, x.Value), kinds[o]) || changed
							}
						}
					}
				case *ast.AssignStmt:
					for i, l := range x.Lhs {
						if len(x.Rhs) == len(x.Lhs) || (len(x.Rhs) == 1 && i == 0) {
							r := x.Rhs[0]
							if len(x.Rhs) == len(x.Lhs) {
								r = x.Rhs[i]
							}
							if k := kindOf(f, r); k != "" {
								changed = set(ObjOf(info, l), k) || changed
							}
							// s = append(s, v)
							if call, ok := ast.Unparen(r).(*ast.CallExpr); ok && len(call.Args) >= 2 {
								if id, ok := ast.Unparen(call.Fun).(*ast.Ident); ok && id.Name == "append" {
									for _, a := range call.Args[1:] {
										if k := kindOf(f, a); k != "" {
											changed = set(ObjOf(info, l), k) || changed
										}
									}
								}
							}
						}
					}
				case *ast.IndexExpr:
					// a parameter or local used as a key tells its kind
					switch mapOf(f, x.X) {
					case "sessions":
						if id, ok := ast.Unparen(x.Index).(*ast.Ident); ok && kinds[info.ObjectOf(id)] == "" {
							if _, isParam := paramIndex(f, info.ObjectOf(id)); isParam {
								changed = set(info.ObjectOf(id), connK) || changed
							}
						}
					case "byPeerID":
						if id, ok := ast.Unparen(x.Index).(*ast.Ident); ok && kinds[info.ObjectOf(id)] == "" {
							if _, isParam := paramIndex(f, info.ObjectOf(id)); isParam {
								changed = set(info.ObjectOf(id), peerK) || changed
							}
						}
					}
				case *ast.CallExpr:
					// an argument handed to a parameter with a kind gives an un-kinded PARAMETER of f that kind
					g := p.CalleeInfo(info, x)
					if g == nil || g.Body == nil {
						return true
					}
					for i, a := range x.Args {
						po := paramObj(g, i)
						if po == nil {
							continue
						}
						// forwards: an argument with a kind gives the callee's parameter that kind (slices: their elements)
						if kinds[po] == "" {
							if k := kindOf(f, a); k != "" {
								changed = set(po, k) || changed
							} else if o := rootObj(info, a); o != nil && kinds[o] != "" {
								if _, isSlice := types.Unalias(info.TypeOf(a)).Underlying().(*types.Slice); isSlice {
									changed = set(po, kinds[o]) || changed
								}
							}
						}
						if kinds[po] == "" {
							continue
						}
						if id, ok := ast.Unparen(a).(*ast.Ident); ok && kinds[info.ObjectOf(id)] == "" {
							if _, isParam := paramIndex(f, info.ObjectOf(id)); isParam {
								changed = set(info.ObjectOf(id), kinds[po]) || changed
							}
						}
					}
				}
				return true
			})
		}
		if !changed {
			break
		}
	}
	n := 0
	per := map[string]int{}
	check := func(f *FuncInfo, at ast.Expr, want, where string) {
		got := kindOf(f, at)
		if got == "" {
			return
		}
		n++
		per[f.Name]++
		c.Check(got == want, fmt.Sprintf("hub-id-kinds/%s#%d", f.Name, per[f.Name]), at.Pos(), where+" takes a "+want,
			f.Name+" uses "+types.ExprString(at)+", a "+got+", "+where+", which takes a "+want+": the look-up finds nobody (or somebody else) - a message that waits for a recipient whose queue was full is dropped although the recipient keeps reading")
	}
	for _, f := range hubFuncs {
		info := f.Info()
		ast.Inspect(f.Body, func(m ast.Node) bool {
			switch x := m.(type) {
			case *ast.IndexExpr:
				switch mapOf(f, x.X) {
				case "sessions":
					check(f, x.Index, connK, "as a key of Hub.sessions[..]")
				case "byPeerID":
					check(f, x.Index, peerK, "as a key of Hub.byPeerID[..]")
				}
			case *ast.CallExpr:
				g := p.CalleeInfo(info, x)
				if g == nil || g.Body == nil {
					return true
				}
				for i, a := range x.Args {
					if po := paramObj(g, i); po != nil && kinds[po] != "" {
						check(f, a, kinds[po], "as argument "+po.Name()+" of "+g.Name)
					}
				}
			}
			return true
		})
	}
	for o := range conflict {
		c.Bad("hub-id-kinds/conflict/"+o.Name(), o.Pos(), o.Name()+" is used both as a connection id and as a peer id")
	}
	if n == 0 {
		c.Bad("hub-id-kinds/none", token.NoPos, "no use of an id with an inferred kind found in internal/peers")
	}
}

// paramIndex: o is the k-th parameter of f.
func paramIndex(f *FuncInfo, o types.Object) (int, bool) {
	if o == nil {
		return -1, false
	}
	for k := 0; ; k++ {
		po := paramObj(f, k)
		if po == nil {
			return -1, false
		}
		if po == o {
			return k, true
		}
	}
}

func init() {
	Register(&Rule{
		Name:  "R-WINNER-RETURNED-WHEN-DIALS-END",
		Props: []string{"C09"},
		Min:   1,
		Doc: "a dial that won is given to the caller unless the caller gave up: in internal/ice every connection taken out of the winner's channel and closed (`conn := <-resultCh; conn.CloseWithError(..)`) is closed inside the select clause of the context's Done() - " +
			"where the wait ends because all dials have returned, a winner that slipped in is returned; closing it there reports `all probes failed` for a peer that accepted the handshake, and the two sides are no longer on the same connection",
		Run: runWinnerReturnedWhenDialsEnd,
	})
}

func runWinnerReturnedWhenDialsEnd(c *Ctx) {
	p := c.P
	n := 0
	for _, f := range p.FuncsIn("internal/ice") {
		if f.Body == nil || strings.HasSuffix(p.Fset.Position(f.Pos()).Filename, "_test.go") {
			continue
		}
		info := f.Info()
		// locals defined by a receive from a channel
		fromChan := map[types.Object]bool{}
		InspectNoLits(f.Body, func(m ast.Node) bool {
			as, ok := m.(*ast.AssignStmt)
			if !ok || len(as.Lhs) != 1 || len(as.Rhs) != 1 {
				return true
			}
			if u, ok := ast.Unparen(as.Rhs[0]).(*ast.UnaryExpr); ok && u.Op == token.ARROW {
				if _, isComm := enclosingCommOf(f.Body, as); !isComm || true {
					if o := ObjOf(info, as.Lhs[0]); o != nil {
						fromChan[o] = true
					}
				}
			}
			return true
		})
		InspectNoLits(f.Body, func(m ast.Node) bool {
			call, ok := m.(*ast.CallExpr)
			if !ok {
				return true
			}
			sel, ok := ast.Unparen(call.Fun).(*ast.SelectorExpr)
			if !ok || !(sel.Sel.Name == "CloseWithError" || sel.Sel.Name == "Close") || !fromChan[ObjOf(info, sel.X)] {
				return true
			}
			n++
			cc, ok := enclosingCommOf(f.Body, call)
			inDone := false
			if ok && cc.Comm != nil {
				if rcv := commRecvExpr(cc); rcv != nil {
					if dc, ok := ast.Unparen(rcv).(*ast.CallExpr); ok {
						if s2, ok := ast.Unparen(dc.Fun).(*ast.SelectorExpr); ok && s2.Sel.Name == "Done" {
							if t := info.TypeOf(s2.X); t != nil && t.String() == "context.Context" {
								inDone = true
							}
						}
					}
				}
			}
			c.Check(inDone, fmt.Sprintf("winner-returned/%s#%d", f.Name, n), call.Pos(), "a winner is closed only where the caller's context ended",
				f.Name+" closes a connection it took out of the winner's channel outside the select clause of the context's Done(): on the path where the wait ends because every dial has returned, a dial that won in that moment is thrown away - "+
					"the peer has accepted the handshake and keeps the connection, the caller is told that all probes failed")
			return true
		})
	}
	if n == 0 {
		c.Bad("winner-returned/none", token.NoPos, "found no connection received from a channel and closed in internal/ice")
	}
}

// enclosingCommOf: the select clause whose body contains target.
func enclosingCommOf(root ast.Node, target ast.Node) (*ast.CommClause, bool) {
	var found *ast.CommClause
	ast.Inspect(root, func(m ast.Node) bool {
		cc, ok := m.(*ast.CommClause)
		if !ok {
			return true
		}
		for _, st := range cc.Body {
			if st.Pos() <= target.Pos() && target.End() <= st.End() {
				found = cc
			}
		}
		return true
	})
	return found, found != nil
}

func init() {
	Register(&Rule{
		Name:  "R-SCHED-REFUSES-ONLY-WHEN-IDLE",
		Props: []string{"C03"},
		Min:   1,
		Doc: "the file scheduler says `no file` only when nothing is pending: every `return FileKey{}, false` of HybridScheduler.Next is reached through `len(<a pending list>) == 0` - the workers poll Next for ever, so a refusal for any other reason (a slot budget that can be 0: " +
			"with one data stream `ParallelFiles - smallSlots` is 0) is a file that is never begun, and both sides wait without end",
		Run: runSchedRefusesOnlyWhenIdle,
	})
}

func runSchedRefusesOnlyWhenIdle(c *Ctx) {
	p := c.P
	f := p.Func("scheduler.(*HybridScheduler).Next")
	if f == nil {
		c.MissingAnchor("scheduler.(*HybridScheduler).Next")
		return
	}
	info := f.Info()
	// a pending list: a local defined by a call of a method whose name starts with "pending"
	isPending := func(e ast.Expr) bool {
		for _, d := range resolveExprs(f, e, 2) {
			if call, ok := ast.Unparen(d).(*ast.CallExpr); ok {
				if sel, ok := ast.Unparen(call.Fun).(*ast.SelectorExpr); ok && strings.HasPrefix(strings.ToLower(sel.Sel.Name), "pending") {
					return true
				}
			}
		}
		return false
	}
	spec := &PassSpec{Name: "idle", SkipDefer: true, Vias: []Via{{Cond: func(g *FuncInfo, e ast.Expr) (string, bool, bool) {
		be, ok := ast.Unparen(e).(*ast.BinaryExpr)
		if !ok || (be.Op != token.EQL && be.Op != token.NEQ && be.Op != token.GTR) {
			return "", false, false
		}
		call, ok := ast.Unparen(be.X).(*ast.CallExpr)
		if !ok || len(call.Args) != 1 {
			return "", false, false
		}
		if id, ok := ast.Unparen(call.Fun).(*ast.Ident); !ok || id.Name != "len" {
			return "", false, false
		}
		if z, ok := constInt(g.Info(), be.Y); !ok || z != 0 || !isPending(call.Args[0]) {
			return "", false, false
		}
		return "idle", be.Op == token.EQL, true
	}}}}
	n := 0
	for _, b := range f.CFG().Blocks {
		ret, ok := IsReturnExit(b)
		if !ok || !b.Live || len(ret.Results) != 2 || types.ExprString(ret.Results[1]) != "false" {
			continue
		}
		n++
		c.Check(spec.Passed(f, NodeRef{b, len(b.Nodes) - 1}, "idle"), fmt.Sprintf("sched-idle/return#%d", n), ret.Pos(), "`no file` only with an empty pending list",
			"HybridScheduler.Next returns `no file` on a path that has not found a pending list empty: the sender's workers keep polling, a file that is refused for a reason that never changes (a slot budget of 0 with a single data stream) is never begun - no FileBegin, both sides wait for ever")
	}
	_ = info
	if n == 0 {
		c.Bad("sched-idle/none", f.Pos(), "HybridScheduler.Next has no `return _, false`")
	}
}
