package tf

import (
	"go/ast"
	"go/token"
	"go/types"
)

// ExpandPred inlines calls to boolean predicates of the same package (declared functions and closure variables whose body is,
// apart from mutex operations, a single `return <expr>`) into the condition they appear in, substituting arguments for
// parameters (`*p` with argument `&x` becomes `x`). The result is only inspected structurally (Implied, operand identities);
// its leaves are original, typed nodes.
func ExpandPred(p *Program, f *FuncInfo, e ast.Expr, depth int) ast.Expr {
	e = ast.Unparen(e)
	switch v := e.(type) {
	case *ast.UnaryExpr:
		if v.Op == token.NOT {
			return &ast.UnaryExpr{OpPos: v.OpPos, Op: token.NOT, X: ExpandPred(p, f, v.X, depth)}
		}
	case *ast.BinaryExpr:
		if v.Op == token.LAND || v.Op == token.LOR {
			return &ast.BinaryExpr{X: ExpandPred(p, f, v.X, depth), OpPos: v.OpPos, Op: v.Op, Y: ExpandPred(p, f, v.Y, depth)}
		}
	case *ast.CallExpr:
		if depth == 0 {
			return e
		}
		info := f.Info()
		var callee *FuncInfo
		if g := p.CalleeInfo(info, v); g != nil && g.Pkg == f.Pkg {
			callee = g
		} else if id, ok := ast.Unparen(v.Fun).(*ast.Ident); ok {
			if o, ok := ObjOf(info, id).(*types.Var); ok {
				callee = p.ClosureOfVar(o)
			}
		}
		if callee == nil || callee.Body == nil || callee.Type.Results == nil || len(callee.Type.Results.List) != 1 {
			return e
		}
		if t := callee.Info().TypeOf(callee.Type.Results.List[0].Type); t == nil || !isBool(t) {
			return e
		}
		var ret *ast.ReturnStmt
		for _, st := range callee.Body.List {
			switch s := st.(type) {
			case *ast.ReturnStmt:
				if ret != nil {
					return e
				}
				ret = s
			case *ast.ExprStmt:
				if c2, ok := s.X.(*ast.CallExpr); ok {
					if _, _, isMu := mutexOp(callee.Info(), c2); isMu {
						continue
					}
				}
				return e
			case *ast.DeferStmt:
				if _, _, isMu := mutexOp(callee.Info(), s.Call); isMu {
					continue
				}
				return e
			default:
				return e
			}
		}
		if ret == nil || len(ret.Results) != 1 {
			return e
		}
		sub := map[types.Object]ast.Expr{}
		i := 0
		if callee.Type.Params != nil {
			for _, fl := range callee.Type.Params.List {
				for _, nm := range fl.Names {
					if i < len(v.Args) {
						sub[callee.Info().Defs[nm]] = v.Args[i]
					}
					i++
				}
			}
		}
		return ExpandPred(p, callee, substExpr(callee.Info(), ret.Results[0], sub), depth-1)
	}
	return e
}

func substExpr(info *types.Info, e ast.Expr, sub map[types.Object]ast.Expr) ast.Expr {
	switch v := e.(type) {
	case *ast.ParenExpr:
		return &ast.ParenExpr{Lparen: v.Lparen, X: substExpr(info, v.X, sub), Rparen: v.Rparen}
	case *ast.Ident:
		if a, ok := sub[info.Uses[v]]; ok && info.Uses[v] != nil {
			return a
		}
	case *ast.StarExpr:
		if id, ok := ast.Unparen(v.X).(*ast.Ident); ok {
			if a, ok := sub[info.Uses[id]]; ok && info.Uses[id] != nil {
				if u, ok := ast.Unparen(a).(*ast.UnaryExpr); ok && u.Op == token.AND {
					return u.X
				}
			}
		}
		return &ast.StarExpr{Star: v.Star, X: substExpr(info, v.X, sub)}
	case *ast.UnaryExpr:
		return &ast.UnaryExpr{OpPos: v.OpPos, Op: v.Op, X: substExpr(info, v.X, sub)}
	case *ast.BinaryExpr:
		return &ast.BinaryExpr{X: substExpr(info, v.X, sub), OpPos: v.OpPos, Op: v.Op, Y: substExpr(info, v.Y, sub)}
	case *ast.CallExpr:
		args := make([]ast.Expr, len(v.Args))
		for i, a := range v.Args {
			args[i] = substExpr(info, a, sub)
		}
		return &ast.CallExpr{Fun: v.Fun, Lparen: v.Lparen, Args: args, Ellipsis: v.Ellipsis, Rparen: v.Rparen}
	case *ast.SelectorExpr:
		return &ast.SelectorExpr{X: substExpr(info, v.X, sub), Sel: v.Sel}
	}
	return e
}
