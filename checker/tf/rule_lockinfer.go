package tf

import (
	"fmt"
	"go/ast"
	"go/token"
	"go/types"
	"sort"
	"strings"
)

// Thorough tier: the lockset table of rule_locks.go was confirmed by hand; this rule re-derives candidates from the code on
// every run so that a field added later is not silently outside the table. For every struct with a mutex field in the
// packages the table covers, every field that is (1) written after construction and (2) accessed at least once with the
// struct's mutex held is a lock-protected field by the code's own evidence; an access of such a field that conflicts with a
// write (any write, or a read while writes exist) and does not hold the mutex is reported. Fields in the table are skipped
// (decided by R-LOCKSET); the exceptions below were read and carry their reason.
var lockInferExempt = map[string]string{
	// "pkg.Type.field": reason
}

func init() {
	pkgsOf := map[string][]string{}
	for _, t := range locksetTable {
		for _, pr := range t.props {
			found := false
			for _, x := range pkgsOf[pr] {
				if x == t.pkg {
					found = true
				}
			}
			if !found {
				pkgsOf[pr] = append(pkgsOf[pr], t.pkg)
			}
		}
	}
	var props []string
	for pr := range pkgsOf {
		props = append(props, pr)
	}
	sort.Strings(props)
	for _, pr := range props {
		pr := pr
		Register(&Rule{
			Name:         "R-LOCKSET-INFER/" + pr,
			Props:        []string{pr},
			Min:          0,
			ThoroughOnly: true,
			Doc: "lockset inference over every struct with a mutex in " + strings.Join(pkgsOf[pr], ", ") + ": a field that is written after construction and accessed under the struct's mutex somewhere " +
				"is listed with its unlocked accesses as a candidate for the confirmed table (information, not a verdict: relevance to the property needs reading); table fields are decided by R-LOCKSET",
			Run: func(c *Ctx) { runLockInfer(c, pkgsOf[pr]) },
		})
	}
}

type lockAccess struct {
	f     *FuncInfo
	pos   token.Pos
	held  bool
	write bool
	base  string
}

func runLockInfer(c *Ctx, pkgs []string) {
	p := c.P
	ls := NewLockSpec()
	inTable := map[string]bool{}
	for _, t := range locksetTable {
		for _, f := range t.fields {
			inTable[t.pkg+"."+t.typ+"."+f] = true
		}
	}
	for _, pkg := range pkgs {
		pk := p.Pkg(pkg)
		if pk == nil {
			c.MissingAnchor(pkg)
			continue
		}
		// struct types with a mutex field
		type stInfo struct {
			tn  *types.TypeName
			mus []*types.Var
		}
		byField := map[*types.Var]*stInfo{}
		var sts []*stInfo
		scope := pk.Types.Scope()
		for _, name := range scope.Names() {
			tn, ok := scope.Lookup(name).(*types.TypeName)
			if !ok {
				continue
			}
			st, ok := tn.Type().Underlying().(*types.Struct)
			if !ok {
				continue
			}
			si := &stInfo{tn: tn}
			for i := 0; i < st.NumFields(); i++ {
				ts := st.Field(i).Type().String()
				if ts == "sync.Mutex" || ts == "sync.RWMutex" {
					si.mus = append(si.mus, st.Field(i))
				}
			}
			if len(si.mus) == 0 {
				continue
			}
			sts = append(sts, si)
			for i := 0; i < st.NumFields(); i++ {
				fv := st.Field(i)
				ts := fv.Type().String()
				if strings.HasPrefix(ts, "sync.") || strings.HasPrefix(ts, "sync/atomic.") || strings.HasPrefix(ts, "atomic.") {
					continue
				}
				byField[fv] = si
			}
		}
		acc := map[*types.Var][]lockAccess{}
		for _, f := range p.FuncsIn(pkg) {
			info := f.Info()
			localNew := map[types.Object]bool{}
			for g := f; g != nil; g = g.Parent {
				InspectNoLits(g.Body, func(n ast.Node) bool {
					if as, ok := n.(*ast.AssignStmt); ok && len(as.Lhs) == len(as.Rhs) {
						for i, r := range as.Rhs {
							e := ast.Unparen(r)
							if u, ok := e.(*ast.UnaryExpr); ok && u.Op == token.AND {
								e = ast.Unparen(u.X)
							}
							if _, ok := e.(*ast.CompositeLit); ok {
								if o := ObjOf(g.Info(), as.Lhs[i]); o != nil {
									localNew[o] = true
								}
							}
						}
					}
					return true
				})
				if g.Lit == nil || g.Var == nil {
					// only named closures defined in the constructor share its not-yet-escaped locals soundly enough; anonymous
					// literals (go func) run concurrently
					break
				}
			}
			f.CFG().EachNode(func(r NodeRef) {
				InspectNoLits(r.Node(), func(n ast.Node) bool {
					sel, ok := n.(*ast.SelectorExpr)
					if !ok {
						return true
					}
					fv, _ := info.Uses[sel.Sel].(*types.Var)
					si := byField[fv]
					if fv == nil || si == nil {
						return true
					}
					if ro := rootObj(info, sel.X); ro != nil && localNew[ro] && f.Lit == nil {
						return true
					}
					// address taken for sync/atomic: treat as synchronised
					base := types.ExprString(sel.X)
					held := false
					for _, mu := range si.mus {
						if any, _ := Held(ls, f, r, base+"."+mu.Name()); any {
							held = true
						}
					}
					acc[fv] = append(acc[fv], lockAccess{f, sel.Pos(), held, isWriteAccess(info, r.Node(), sel), base})
					return true
				})
			})
		}
		var fields []*types.Var
		for fv := range byField {
			fields = append(fields, fv)
		}
		sort.Slice(fields, func(i, j int) bool { return fields[i].Pos() < fields[j].Pos() })
		for _, fv := range fields {
			si := byField[fv]
			full := pkg + "." + si.tn.Name() + "." + fv.Name()
			if inTable[full] {
				continue
			}
			key := "infer/" + si.tn.Name() + "." + fv.Name()
			as := acc[fv]
			nHeld, nWrite := 0, 0
			for _, a := range as {
				if a.held {
					nHeld++
				}
				if a.write {
					nWrite++
				}
			}
			c.Stat("fields_examined", 1)
			if why, ok := lockInferExempt[full]; ok {
				c.OKTrivial(key, fv.Pos(), "exempt: "+why)
				continue
			}
			if nWrite == 0 || nHeld == 0 {
				c.OKTrivial(key, fv.Pos(), fmt.Sprintf("not lock-associated by the code's own evidence (%d accesses, %d under the mutex, %d writes after construction)", len(as), nHeld, nWrite))
				continue
			}
			var bad []string
			for _, a := range as {
				if !a.held {
					kind := "read"
					if a.write {
						kind = "write"
					}
					bad = append(bad, fmt.Sprintf("%s in %s at %s", kind, a.f.Name, p.Pos(a.pos)))
				}
			}
			if len(bad) == 0 {
				c.OK(key, fv.Pos(), fmt.Sprintf("all %d accesses hold the struct's mutex (%d writes)", len(as), nWrite))
				continue
			}
			// Not a verdict: whether such a field matters for the property needs reading (status lines, values fixed before the
			// goroutines start, fields owned by one goroutine). Reported as information so that a field added later shows up in
			// the thorough evidence as a candidate for the confirmed table.
			if len(bad) > 6 {
				bad = append(bad[:6], fmt.Sprintf("... %d more", len(bad)-6))
			}
			c.InfoOb(key, fv.Pos(), fmt.Sprintf("candidate for the lockset table: %s.%s is written after construction and accessed under %s.%s in %d places, %d accesses do not hold it: %s",
				si.tn.Name(), fv.Name(), si.tn.Name(), si.mus[0].Name(), nHeld, len(bad), strings.Join(bad, "; ")))
		}
	}
}
