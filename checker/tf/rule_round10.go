package tf

import (
	"fmt"
	"go/ast"
	"go/token"
	"go/types"
	"strings"

	"golang.org/x/tools/go/cfg"
)

// Round 10 (DESIGN 8.20): rules for the changes of the tenth seeding round that the earlier rules missed.

func init() {
	Register(&Rule{
		Name:  "R-OPEN-STREAM-WAITS",
		Props: []string{"C03"},
		Min:   1,
		Doc: "opening a stream waits for the peer's stream credit: transferquic.(*QUICConn).OpenStream calls the blocking OpenStreamSync with its context - the sender of F50 learns that the peer allows no further stream from its open deadline passing and goes on with the streams it has; " +
			"the non-blocking OpenStream answers `too many open streams` at once, which the sender takes for a failure, and a receiver limited below the sender's stream count can never be served",
		Run: runOpenStreamWaits,
	})
	Register(&Rule{
		Name:  "R-CREATE-AFTER-STAT",
		Props: []string{"C05", "C06"},
		Min:   1,
		Doc: "an output file is created only where its absence was looked at: in the receivers every os.OpenFile with O_CREATE (and os.Create) on a data-file path is reached only past an os.Stat of that same path in the same function (or the closure chain around it) - the stat is what decides whether resume metadata found next to it are stale (R-FRESH-FILE); " +
			"a file created earlier (reserved at the header, say) is always there with the expected length, the metadata of a deleted file are trusted for a file of zeros",
		Run: runCreateAfterStat,
	})
	Register(&Rule{
		Name:  "R-ITEM-STAT-PAIRED",
		Props: []string{"C05", "C13", "C06"},
		Min:   3,
		Doc: "size, modification time and identity of a listed item come from one stat: in pkg/manifest the Size and ModTime of every FileItem literal derive from the same FileInfo variable, and that variable is defined in the function the literal stands in (a walk callback uses the entry's own info, not the captured one of the selected directory) - " +
			"the item id hashes path, size and mtime: with the directory's mtime in it a file rewritten in place keeps its id, and the receiver trusts the previous version's resume metadata",
		Run: runItemStatPaired,
	})
	Register(&Rule{
		Name:  "R-CURSOR-FROZEN",
		Props: []string{"C17", "C06"},
		Min:   1,
		Doc: "the schedule's cursor stands still while the verdict on the receiver's highest chunk is pending: in sendFileState.nextChunkToSend every write of nextChunk is reached only past `verifyPending == false` - " +
			"a cursor that runs on during the verification (to skip the planned prefix early, say) passes the chunk under verdict, and the verdict schedules its re-send only while the chunk is still ahead of the cursor: the damaged chunk is dispatched zero times, FileEnd goes out and both sides report success. " +
			"(That the re-send goes out before the scheduled chunks is NOT demanded: since F74 the receiver does not claim the chunk under comparison on disk, and a seed that moved the re-send behind the schedule no longer breaks anything.)",
		Run: runResendFirst,
	})
	Register(&Rule{
		Name:  "R-EXPIRY-EXACT",
		Props: []string{"C14"},
		Min:   1,
		Doc: "a join code lives for the configured lifetime: the ExpiresAt a session is created with is <now>.Add(<ttl>) as it is (or the zero time) - no rounding or truncation on top: a truncation to the second takes up to a second off every lifetime, and with a sub-second lifetime sessions are dead at birth while they keep their slot of --max-sessions",
		Run: runExpiryExact,
	})
	Register(&Rule{
		Name:  "R-TURN-USER-VERBATIM",
		Props: []string{"C16"},
		Min:   1,
		Doc: "the relay user and secret the client uses are the ones the URL carries: in ice.parseTurnServer the values of Userinfo.Username() / Password() reach the result without another decoding step (url.PathUnescape, QueryUnescape ...) - net/url has decoded them once; a second pass turns a peer id that contains %XX into another user, for which the minted secret is not valid",
		Run: runTurnUserVerbatim,
	})
	Register(&Rule{
		Name:  "R-POOL-EXACT",
		Props: []string{"C19", "C04"},
		Min:   1,
		Doc: "a buffer of the pool for chunk size c has exactly c bytes: chunkPoolFor creates its pool with bufpool.New(int(<its parameter>)) - hashFileChunk reads with the whole buffer and relies on len(buf) == chunk size; a pool keyed by size class hands out longer buffers, the hash covers bytes of the next chunk and every resumed transfer with such a chunk size fails",
		Run: runPoolExact,
	})
}

func runOpenStreamWaits(c *Ctx) {
	p := c.P
	f := p.Func("transferquic.(*QUICConn).OpenStream")
	if f == nil {
		c.MissingAnchor("transferquic.(*QUICConn).OpenStream")
		return
	}
	info := f.Info()
	var ctxObj types.Object
	for _, fl := range f.Type.Params.List {
		if t := info.TypeOf(fl.Type); t != nil && t.String() == "context.Context" && len(fl.Names) == 1 {
			ctxObj = info.Defs[fl.Names[0]]
		}
	}
	n, ok := 0, true
	var pos token.Pos
	InspectNoLits(f.Body, func(m ast.Node) bool {
		call, isCall := m.(*ast.CallExpr)
		if !isCall {
			return true
		}
		sel, isSel := ast.Unparen(call.Fun).(*ast.SelectorExpr)
		if !isSel {
			return true
		}
		switch sel.Sel.Name {
		case "OpenStreamSync", "OpenUniStreamSync":
			n++
			if len(call.Args) != 1 || ctxObj == nil || rootObj(info, call.Args[0]) != ctxObj {
				ok, pos = false, call.Pos()
			}
		case "OpenStream", "OpenUniStream":
			if fn := Callee(info, call); fn != nil && fn.Pkg() != nil && strings.Contains(fn.Pkg().Path(), "quic-go") {
				n++
				ok, pos = false, call.Pos()
			}
		}
		return true
	})
	if pos == token.NoPos {
		pos = f.Pos()
	}
	c.Check(ok && n > 0, "open-stream-waits", pos, "the stream is opened with OpenStreamSync on the caller's context",
		"QUICConn.OpenStream does not wait for the peer's stream credit (no OpenStreamSync on its context): against a peer that allows fewer streams than the sender wants, the open fails at once with `too many open streams` instead of waiting out the caller's deadline - "+
			"the sender takes that for a failure (its fallback is the deadline passing), and the healthy receiver is left without an announcement")
}

// ---------------------------------------------------------------------------

func runCreateAfterStat(c *Ctx) {
	p := c.P
	live := p.LiveFuncs()
	n := 0
	for _, f := range recvDataFuncs(p) {
		if f.Body == nil || !(live[f] || live[f.Root()]) {
			continue
		}
		info := f.Info()
		spec := &PassSpec{Name: "stat-first", Vias: []Via{{Immediate: true, Call: func(g *FuncInfo, call *ast.CallExpr) (string, bool) {
			if (calleeIs(g.Info(), call, "os", "Stat") || calleeIs(g.Info(), call, "os", "Lstat")) && len(call.Args) == 1 {
				return "stat:" + types.ExprString(ast.Unparen(call.Args[0])), true
			}
			return "", false
		}}}}
		k := 0
		f.CFG().Calls(func(r NodeRef, call *ast.CallExpr) {
			creates := false
			if calleeIs(info, call, "os", "Create") && len(call.Args) == 1 {
				creates = true
			}
			if calleeIs(info, call, "os", "OpenFile") && len(call.Args) == 3 && strings.Contains(types.ExprString(call.Args[1]), "O_CREATE") {
				creates = true
			}
			if !creates {
				return
			}
			// data files only: not the sidecar's own files
			if strings.Contains(f.Root().Name, "Sidecar") {
				return
			}
			n++
			k++
			x := types.ExprString(ast.Unparen(call.Args[0]))
			c.Check(spec.Passed(f, r, "stat:"+x), fmt.Sprintf("create-after-stat/%s#%d", f.Name, k), call.Pos(), "the output file is created only past an os.Stat of its path",
				"the output file "+x+" is created on a path that has not passed os.Stat("+x+") in this function: whether resume metadata next to the file are stale is decided by looking whether the file is there with the expected length - "+
					"behind an earlier creation (files reserved when the header arrives, say) it always is, and the metadata of a data file the user deleted are trusted for a file of zeros")
		})
	}
	if n == 0 {
		c.Bad("create-after-stat/none", token.NoPos, "found no creation of an output file in the receivers")
	}
}

// ---------------------------------------------------------------------------

func runItemStatPaired(c *Ctx) {
	p := c.P
	n := 0
	for _, f := range p.FuncsIn("pkg/manifest") {
		if f.Body == nil || strings.HasSuffix(p.Fset.Position(f.Pos()).Filename, "_test.go") {
			continue
		}
		info := f.Info()
		k := 0
		ast.Inspect(f.Body, func(m ast.Node) bool {
			if lit, isLit := m.(*ast.FuncLit); isLit && lit != f.Lit {
				return false
			}
			cl, ok := m.(*ast.CompositeLit)
			if !ok {
				return true
			}
			if t := info.TypeOf(cl); t == nil || !strings.HasSuffix(t.String(), "manifest.FileItem") {
				return true
			}
			mt := litField(cl, "ModTime")
			if mt == nil {
				return true
			}
			n++
			k++
			// the FileInfo the mtime is read from
			statObj := func(e ast.Expr) types.Object {
				var out types.Object
				for _, d := range resolveExprs(f, e, 2) {
					ast.Inspect(d, func(x ast.Node) bool {
						if call, ok := x.(*ast.CallExpr); ok {
							if sel, ok := ast.Unparen(call.Fun).(*ast.SelectorExpr); ok && (sel.Sel.Name == "ModTime" || sel.Sel.Name == "Size") {
								if o := ObjOf(info, sel.X); o != nil {
									out = o
								}
							}
						}
						return true
					})
				}
				return out
			}
			mo := statObj(mt)
			key := fmt.Sprintf("item-stat/%s#%d", f.Name, k)
			if mo == nil {
				c.Unknown(key, mt.Pos(), "cannot find the FileInfo the item's ModTime is read from ("+types.ExprString(mt)+")")
				return true
			}
			// defined in this very function (not captured from the function around a walk callback)
			own := false
			InspectNoLits(f.Body, func(x ast.Node) bool {
				if as, ok := x.(*ast.AssignStmt); ok && as.Tok == token.DEFINE {
					for _, l := range as.Lhs {
						if id, ok := l.(*ast.Ident); ok && info.Defs[id] == mo {
							own = true
						}
					}
				}
				return true
			})
			if f.Type.Params != nil {
				for _, fl := range f.Type.Params.List {
					for _, nm := range fl.Names {
						if info.Defs[nm] == mo {
							own = true
						}
					}
				}
			}
			// the size, where it is read from a FileInfo too, comes from the same one
			same := true
			if sz := litField(cl, "Size"); sz != nil {
				if so := statObj(sz); so != nil && so != mo {
					same = false
				}
			}
			c.Check(own && same, key, mt.Pos(), "the item's mtime is read from the FileInfo obtained for this very entry (the one its size comes from)",
				"the ModTime of a listed item is read from "+mo.Name()+", which is "+map[bool]string{true: "not the FileInfo its size comes from", false: "a variable of the enclosing function (the selected path's info), not the entry's own"}[own]+
					": the item id hashes path, size and mtime, so a file below a selected directory keeps its id when it is rewritten in place with the same length - the receiver accepts the previous version's resume metadata and the sender skips the chunks they mark")
			return true
		})
	}
	if n == 0 {
		c.Bad("item-stat/none", token.NoPos, "found no FileItem literal with a ModTime in pkg/manifest")
	}
}

// ---------------------------------------------------------------------------

func runResendFirst(c *Ctx) {
	p := c.P
	f := p.Func("transfer.(*sendFileState).nextChunkToSend")
	if f == nil {
		c.MissingAnchor("transfer.(*sendFileState).nextChunkToSend")
		return
	}
	info := f.Info()
	fieldIs := func(e ast.Expr, name string) bool {
		sel, ok := ast.Unparen(e).(*ast.SelectorExpr)
		if !ok {
			return false
		}
		v, _ := info.Uses[sel.Sel].(*types.Var)
		return v != nil && v.IsField() && v.Name() == name
	}
	spec := &PassSpec{Name: "resend-first", Vias: []Via{
		{Cond: func(g *FuncInfo, e ast.Expr) (string, bool, bool) {
			if fieldIs(e, "resendPending") {
				return "no-resend", false, true
			}
			if fieldIs(e, "verifyPending") {
				return "verdict-in", false, true
			}
			return "", false, false
		}},
	}}
	g := f.CFG()
	// (b) the cursor stands still while the verdict is pending
	nw := 0
	g.EachNode(func(r NodeRef) {
		writes := false
		switch s := r.Node().(type) {
		case *ast.IncDecStmt:
			writes = fieldIs(s.X, "nextChunk")
		case *ast.AssignStmt:
			for _, l := range s.Lhs {
				if fieldIs(l, "nextChunk") {
					writes = true
				}
			}
		}
		if !writes {
			return
		}
		nw++
		c.Check(spec.Passed(f, r, "verdict-in"), fmt.Sprintf("cursor-frozen/write#%d", nw), r.Node().Pos(), "the cursor moves only once the verification verdict is in",
			"nextChunkToSend moves nextChunk while the verification of the receiver's highest chunk is pending: the cursor can pass that chunk before the verdict, and the verdict schedules the re-send only while the chunk is still ahead of the cursor - "+
				"the damaged chunk is dispatched zero times, FileEnd goes out and both sides report success")
	})
	if nw == 0 {
		c.Bad("cursor-frozen/none", f.Pos(), "nextChunkToSend never moves nextChunk")
	}
}

// ---------------------------------------------------------------------------

func runExpiryExact(c *Ctx) {
	p := c.P
	n := 0
	for _, f := range p.FuncsIn("internal/session") {
		if f.Body == nil || strings.HasSuffix(p.Fset.Position(f.Pos()).Filename, "_test.go") {
			continue
		}
		info := f.Info()
		ast.Inspect(f.Body, func(m ast.Node) bool {
			cl, ok := m.(*ast.CompositeLit)
			if !ok {
				return true
			}
			if t := info.TypeOf(cl); t == nil || !strings.HasSuffix(t.String(), "session.Session") {
				return true
			}
			ex := litField(cl, "ExpiresAt")
			if ex == nil {
				return true
			}
			n++
			bad := ""
			for _, d := range resolveExprsAllOrSelf(f, ex) {
				d = ast.Unparen(d)
				if cl2, ok := d.(*ast.CompositeLit); ok && len(cl2.Elts) == 0 {
					continue // time.Time{}
				}
				call, ok := d.(*ast.CallExpr)
				if ok && calleeIs(info, call, "time", "Time.Add") {
					if sel, ok := ast.Unparen(call.Fun).(*ast.SelectorExpr); ok {
						if _, isCall := ast.Unparen(sel.X).(*ast.CallExpr); !isCall || calleeIs(info, ast.Unparen(sel.X).(*ast.CallExpr), "time", "Now") {
							continue
						}
					}
				}
				bad = types.ExprString(d)
			}
			c.Check(bad == "", fmt.Sprintf("expiry-exact/%s#%d", f.Name, n), ex.Pos(), "the expiry is now.Add(ttl) as it is",
				"a session is created with ExpiresAt = "+bad+": the lifetime is not the configured one - a truncation or rounding takes up to a unit off every join code's life, and with a lifetime below that unit sessions are expired the moment they are created (201 for the host, 404 for every join) while they keep their slot of --max-sessions")
			return true
		})
	}
	if n == 0 {
		c.Bad("expiry-exact/none", token.NoPos, "found no Session literal with an ExpiresAt in internal/session")
	}
}

// resolveExprsAllOrSelf: every definition of e when it is a local variable, else e itself.
func resolveExprsAllOrSelf(f *FuncInfo, e ast.Expr) []ast.Expr {
	if ds := resolveExprsAll(f, e); len(ds) > 0 {
		return ds
	}
	return []ast.Expr{e}
}

// ---------------------------------------------------------------------------

func runTurnUserVerbatim(c *Ctx) {
	p := c.P
	f := p.Func("ice.parseTurnServer")
	if f == nil {
		c.MissingAnchor("ice.parseTurnServer")
		return
	}
	info := f.Info()
	// variables that hold Username() / Password() results
	cred := map[types.Object]string{}
	InspectNoLits(f.Body, func(m ast.Node) bool {
		as, ok := m.(*ast.AssignStmt)
		if !ok || len(as.Rhs) != 1 {
			return true
		}
		call, ok := ast.Unparen(as.Rhs[0]).(*ast.CallExpr)
		if !ok {
			return true
		}
		if calleeIs(info, call, "net/url", "Userinfo.Username") || calleeIs(info, call, "net/url", "Userinfo.Password") {
			if o := ObjOf(info, as.Lhs[0]); o != nil {
				cred[o] = Callee(info, call).Name()
			}
		}
		return true
	})
	// plain copies (password = pwd)
	for changed := true; changed; {
		changed = false
		InspectNoLits(f.Body, func(m ast.Node) bool {
			as, ok := m.(*ast.AssignStmt)
			if !ok || len(as.Lhs) != 1 || len(as.Rhs) != 1 {
				return true
			}
			if so := ObjOf(info, as.Rhs[0]); so != nil && cred[so] != "" {
				if lo := ObjOf(info, as.Lhs[0]); lo != nil && cred[lo] == "" {
					cred[lo] = cred[so]
					changed = true
				}
			}
			return true
		})
	}
	if len(cred) == 0 {
		c.Unknown("turn-user/source", f.Pos(), "parseTurnServer does not read Userinfo.Username()/Password()")
		return
	}
	n := 0
	var bad []string
	InspectNoLits(f.Body, func(m ast.Node) bool {
		call, ok := m.(*ast.CallExpr)
		if !ok {
			return true
		}
		fn := Callee(info, call)
		if fn == nil || fn.Pkg() == nil {
			return true
		}
		decodes := fn.Pkg().Path() == "net/url" && (strings.HasSuffix(fn.Name(), "Unescape") || fn.Name() == "ParseQuery") ||
			fn.Pkg().Path() == "strings" && (fn.Name() == "Replace" || fn.Name() == "ReplaceAll" || fn.Name() == "Map" || fn.Name() == "ToLower" || fn.Name() == "TrimSpace")
		if !decodes {
			return true
		}
		for _, a := range call.Args {
			if o := rootObj(info, a); o != nil && cred[o] != "" {
				bad = append(bad, fn.Pkg().Name()+"."+fn.Name()+"("+types.ExprString(a)+") at "+p.Pos(call.Pos()))
			}
		}
		return true
	})
	n = len(cred)
	c.Check(len(bad) == 0, "turn-user/verbatim", f.Pos(), fmt.Sprintf("user and secret of the URL are used as net/url decoded them (%d variables)", n),
		"parseTurnServer decodes the relay user or secret a second time ("+strings.Join(bad, "; ")+"): net/url has unescaped the userinfo once; a peer id that contains a %XX sequence becomes another user than the one the server minted the secret for, and the relay refuses it")
}

// ---------------------------------------------------------------------------

func runPoolExact(c *Ctx) {
	p := c.P
	f := p.Func("transfer.chunkPoolFor")
	if f == nil {
		c.MissingAnchor("transfer.chunkPoolFor")
		return
	}
	info := f.Info()
	var param types.Object
	if f.Type.Params != nil && len(f.Type.Params.List) == 1 && len(f.Type.Params.List[0].Names) == 1 {
		param = info.Defs[f.Type.Params.List[0].Names[0]]
	}
	n := 0
	InspectNoLits(f.Body, func(m ast.Node) bool {
		call, ok := m.(*ast.CallExpr)
		if !ok || len(call.Args) != 1 {
			return true
		}
		if g := p.CalleeInfo(info, call); g == nil || g.Name != "bufpool.New" {
			return true
		}
		n++
		exact := false
		for _, d := range append([]ast.Expr{call.Args[0]}, resolveExprsAll(f, StripConv(info, call.Args[0]))...) {
			if param != nil && ObjOf(info, StripConv(info, d)) == param {
				exact = true
			}
		}
		c.Check(exact, fmt.Sprintf("pool-exact/new#%d", n), call.Pos(), "the pool's buffers have exactly the chunk size asked for",
			"chunkPoolFor creates a pool of "+types.ExprString(call.Args[0])+" bytes for chunk size "+func() string {
				if param != nil {
					return param.Name()
				}
				return "?"
			}()+": hashFileChunk (and every reader that does not cut the buffer) relies on len(buf) == chunk size - with longer buffers the hash of a chunk covers bytes of the next one (`short chunk read: got 64 want 48`), and every resumed transfer with such a chunk size fails")
		return true
	})
	if n == 0 {
		c.Bad("pool-exact/none", f.Pos(), "chunkPoolFor creates no pool")
	}
}

// ---------------------------------------------------------------------------
// F75 (recorded, not repaired)

func init() {
	Register(&Rule{
		Name:  "R-METADATA-NAMESPACE",
		Props: []string{"C01", "C05"},
		Min:   1,
		Doc: "no payload item can have the path of the receiver's own resume metadata: the directory name SidecarPath puts the metadata under is refused as a path segment by validateRelPath (or the metadata do not live inside the output tree at all) - " +
			"a folder that was received with resume on holds `.thruflux_resumedata/<hash of relpath>.sbxmap` for every file; hosted again, those files are ordinary items whose output paths are exactly the next receiver's live sidecar paths (F75, recorded as a known finding: see known_findings.json)",
		Run: runMetadataNamespace,
	})
}

func runMetadataNamespace(c *Ctx) {
	p := c.P
	sp := p.Func("transfer.SidecarPath")
	vr := p.Func("transfer.validateRelPath")
	if sp == nil || vr == nil {
		c.MissingAnchor("transfer.SidecarPath / transfer.validateRelPath")
		return
	}
	info := sp.Info()
	name := ""
	InspectNoLits(sp.Body, func(m ast.Node) bool {
		call, ok := m.(*ast.CallExpr)
		if !ok || !calleeIs(info, call, "path/filepath", "Join") {
			return true
		}
		for _, a := range call.Args[1:] {
			if sv, isC := constString(info, a); isC && sv != "" && sv != "." && sv != ".." && !strings.ContainsAny(sv, "/\x00") {
				name = sv
			}
		}
		return true
	})
	if name == "" {
		c.OK("payload-in-metadata-dir/transfer.validateRelPath", sp.Pos(), "the resume metadata do not live under a fixed name inside the output tree")
		return
	}
	// does validateRelPath compare a segment with that name?
	vinfo := vr.Info()
	refused := false
	ast.Inspect(vr.Body, func(m ast.Node) bool {
		be, ok := m.(*ast.BinaryExpr)
		if !ok || be.Op != token.EQL {
			return true
		}
		for _, side := range []ast.Expr{be.X, be.Y} {
			if sv, isC := constString(vinfo, side); isC && sv == name {
				refused = true
			}
		}
		return true
	})
	if refused {
		c.OK("payload-in-metadata-dir/transfer.validateRelPath", vr.Pos(), "a path segment equal to the metadata directory's name is refused")
		return
	}
	c.Bad("payload-in-metadata-dir/transfer.validateRelPath", vr.Pos(), "validateRelPath accepts paths below `"+name+"`, the directory the receiver keeps its own resume metadata in")
}

// ---------------------------------------------------------------------------

func init() {
	Register(&Rule{
		Name:  "R-REPORT-ALWAYS-SENT",
		Props: []string{"C04"},
		Min:   1,
		Doc: "a receiver that resumes tells the sender what it has for every file: in the FileBegin handler of RecvManifestMultiStream every successful return is reached past the call that builds the resume report, or past `opts.Resume` being false - " +
			"a file whose metadata mark every chunk is no exception (acknowledging it at once, without a report, makes the sender wait out its grace period and send the whole file again; every frame is then discarded)",
		Run: runReportAlwaysSent,
	})
	Register(&Rule{
		Name:  "R-GRACE-PER-RECIPIENT",
		Props: []string{"C10", "C11"},
		Min:   1,
		Doc: "every recipient of a broadcast gets its own grace period: in internal/peers no deadline computed from time.Now() outside a loop over recipients is used inside it - with one deadline for the whole second pass, a recipient that has stopped reading uses it up, and the ones served after it get a single attempt with the deadline already over: " +
			"a recipient that reads steadily but whose queue is full at that instant is marked as not reading and cut off",
		Run: runGracePerRecipient,
	})
	Register(&Rule{
		Name:  "R-ENVELOPE-DECODED",
		Props: []string{"C10"},
		Min:   1,
		Doc: "a frame that did not decode is not routed: in the read loop of handleWebSocket no path from the failing edge of json.Unmarshal into the envelope reaches Hub.SendTo / Broadcast / BroadcastExcept - an envelope whose `to` had another type decodes with To empty, which is the spelling of a broadcast: a message its author addressed to one peer is shown to the whole session",
		Run: runEnvelopeDecoded,
	})
}

func runReportAlwaysSent(c *Ctx) {
	p := c.P
	recv := p.Func("transfer.RecvManifestMultiStream")
	if recv == nil {
		c.MissingAnchor("transfer.RecvManifestMultiStream")
		return
	}
	var hfb, bri *FuncInfo
	for _, k := range allKids(recv) {
		if strings.HasSuffix(k.Name, "$handleFileBegin") {
			hfb = k
		}
		if strings.HasSuffix(k.Name, "$buildResumeInfo") {
			bri = k
		}
	}
	if hfb == nil || bri == nil {
		c.MissingAnchor("RecvManifestMultiStream$handleFileBegin / $buildResumeInfo")
		return
	}
	spec := &PassSpec{Name: "report-sent", Vias: []Via{
		{Immediate: true, Call: func(g *FuncInfo, call *ast.CallExpr) (string, bool) {
			if id, ok := ast.Unparen(call.Fun).(*ast.Ident); ok {
				if v, ok := ObjOf(g.Info(), id).(*types.Var); ok && p.ClosureOfVar(v) == bri {
					return "report-settled", true
				}
			}
			return "", false
		}},
		{Cond: func(g *FuncInfo, e ast.Expr) (string, bool, bool) {
			if sel, ok := ast.Unparen(e).(*ast.SelectorExpr); ok && sel.Sel.Name == "Resume" {
				if t := g.Info().TypeOf(sel.X); t != nil && strings.HasSuffix(t.String(), "transfer.Options") {
					return "report-settled", false, true
				}
			}
			return "", false, false
		}},
	}}
	n := 0
	for _, b := range hfb.CFG().Blocks {
		ret, ok := IsReturnExit(b)
		if !ok || len(ret.Results) != 1 || types.ExprString(ret.Results[0]) != "nil" {
			continue
		}
		n++
		c.Check(spec.Passed(hfb, NodeRef{b, len(b.Nodes) - 1}, "report-settled"), fmt.Sprintf("report-always-sent/return#%d", n), ret.Pos(), "the file's resume report was built (or resume is off) before FileBegin is done with",
			"handleFileBegin can return successfully for a resumable file without having built its resume report: the sender, which asked for it, waits out its grace period and then sends from chunk 0 - work the metadata mark as complete is requested again, "+
				"and for a file that is acknowledged at once every frame of it is discarded on arrival")
	}
	if n == 0 {
		c.Bad("report-always-sent/none", hfb.Pos(), "handleFileBegin has no successful return")
	}
}

func runGracePerRecipient(c *Ctx) {
	p := c.P
	n := 0
	for _, f := range p.FuncsIn("internal/peers") {
		if f.Body == nil || strings.HasSuffix(p.Fset.Position(f.Pos()).Filename, "_test.go") {
			continue
		}
		info := f.Info()
		// deadlines: X := time.Now().Add(..)
		InspectNoLits(f.Body, func(m ast.Node) bool {
			as, ok := m.(*ast.AssignStmt)
			if !ok || len(as.Lhs) != 1 || len(as.Rhs) != 1 {
				return true
			}
			call, ok := ast.Unparen(as.Rhs[0]).(*ast.CallExpr)
			if !ok || !calleeIs(info, call, "time", "Time.Add") {
				return true
			}
			sel, _ := ast.Unparen(call.Fun).(*ast.SelectorExpr)
			if sel == nil {
				return true
			}
			if now, ok := ast.Unparen(sel.X).(*ast.CallExpr); !ok || !calleeIs(info, now, "time", "Now") {
				return true
			}
			d := ObjOf(info, as.Lhs[0])
			if d == nil {
				return true
			}
			n++
			// used inside a range loop (over recipients) that does not contain the definition
			var bad token.Pos
			ast.Inspect(f.Body, func(x ast.Node) bool {
				rs, ok := x.(*ast.RangeStmt)
				if !ok || (rs.Pos() <= as.Pos() && as.End() <= rs.End()) {
					return true
				}
				ast.Inspect(rs.Body, func(y ast.Node) bool {
					if id, ok := y.(*ast.Ident); ok && info.Uses[id] == d {
						bad = id.Pos()
					}
					return true
				})
				return true
			})
			c.Check(bad == token.NoPos, fmt.Sprintf("grace-per-recipient/%s#%d", f.Name, n), as.Pos(), "the deadline is not shared by the iterations of a loop over recipients",
				"the deadline "+d.Name()+" is computed once in front of a loop over recipients and used inside it (at "+p.Pos(bad)+"): the first recipient that does not read uses the whole grace period up, "+
					"every recipient served after it gets one attempt with the deadline already over, and one that reads steadily but whose queue is full at that instant is cut off as not reading")
			return true
		})
	}
	if n == 0 {
		c.Bad("grace-per-recipient/none", token.NoPos, "found no deadline computed from time.Now() in internal/peers (the waits for room have no bound?)")
	}
}

func runEnvelopeDecoded(c *Ctx) {
	p := c.P
	hw := p.Func("cmd/thruserv.handleWebSocket")
	if hw == nil {
		c.MissingAnchor("cmd/thruserv.handleWebSocket")
		return
	}
	info := hw.Info()
	g := hw.CFG()
	n := 0
	g.EachNode(func(r NodeRef) {
		// err := json.Unmarshal(message, &env)  (also as the init of an if)
		as, ok := r.Node().(*ast.AssignStmt)
		if !ok || len(as.Rhs) != 1 || len(as.Lhs) != 1 {
			return
		}
		call, ok := ast.Unparen(as.Rhs[0]).(*ast.CallExpr)
		if !ok || !calleeIs(info, call, "encoding/json", "Unmarshal") || len(call.Args) != 2 {
			return
		}
		if t := info.TypeOf(call.Args[1]); t == nil || !strings.Contains(t.String(), "protocol.Envelope") {
			return
		}
		errObj := ObjOf(info, as.Lhs[0])
		// the block that tests it
		for _, b := range g.Blocks {
			cond, t, f, ok := CondEdges(b)
			if !ok || !b.Live {
				continue
			}
			o, nilOnTrue, isNil := NilTest(info, cond)
			if !isNil || o != errObj || !g.Reaches(r, NodeRef{b, 0}) {
				continue
			}
			failed := t
			if nilOnTrue {
				failed = f
			}
			n++
			routed := token.NoPos
			seen := map[*cfg.Block]bool{}
			var walk func(x *cfg.Block)
			walk = func(x *cfg.Block) {
				if seen[x] || routed != token.NoPos {
					return
				}
				seen[x] = true
				for _, nd := range x.Nodes {
					// the next frame: stop
					stop := false
					InspectNoLits(nd, func(m ast.Node) bool {
						if c2, ok := m.(*ast.CallExpr); ok {
							if calleeIs(info, c2, "github.com/gorilla/websocket", "Conn.ReadMessage") {
								stop = true
							}
							if h := p.CalleeInfo(info, c2); h != nil && (h.Name == "peers.(*Hub).SendTo" || h.Name == "peers.(*Hub).Broadcast" || h.Name == "peers.(*Hub).BroadcastExcept") {
								routed = c2.Pos()
							}
						}
						return true
					})
					if stop {
						return
					}
				}
				for _, s := range x.Succs {
					if s.Live {
						walk(s)
					}
				}
			}
			walk(failed)
			c.Check(routed == token.NoPos, fmt.Sprintf("envelope-decoded/unmarshal#%d", n), cond.Pos(), "a frame that did not decode is dropped before routing",
				"a frame whose JSON did not decode into the envelope can reach the routing at "+p.Pos(routed)+": json.Unmarshal leaves a field of another type at its zero value, and an envelope with To empty is a broadcast - "+
					"a message its author addressed to one peer (`\"to\": [\"bob\"]`) is delivered to every peer of the session under the author's name")
		}
	})
	if n == 0 {
		c.Bad("envelope-decoded/none", hw.Pos(), "handleWebSocket does not test the error of json.Unmarshal into the envelope")
	}
}

// ---------------------------------------------------------------------------
// F76

func init() {
	Register(&Rule{
		Name:  "R-REQUEST-ANSWERED-ONCE",
		Props: []string{"C15"},
		Min:   1,
		Doc: "a ResumeRequest for a file is answered once (F76): in the receiver's handler of ResumeRequest the call that builds the report - a copy of the file's whole bitmap, up to 8 MiB, queued for a peer that may not be reading - is reached only past the false edge of a per-file flag that the handler sets (a field of the file's state, read and set in the handler) - " +
			"a sender could repeat the 27-byte request at will: 2 KB of requests kept half a gigabyte alive",
		Run: runRequestAnsweredOnce,
	})
}

func runRequestAnsweredOnce(c *Ctx) {
	p := c.P
	recv := p.Func("transfer.RecvManifestMultiStream")
	if recv == nil {
		c.MissingAnchor("transfer.RecvManifestMultiStream")
		return
	}
	var hrr, bri *FuncInfo
	for _, k := range allKids(recv) {
		if strings.HasSuffix(k.Name, "$handleResumeRequest") {
			hrr = k
		}
		if strings.HasSuffix(k.Name, "$buildResumeInfo") {
			bri = k
		}
	}
	if hrr == nil || bri == nil {
		c.MissingAnchor("RecvManifestMultiStream$handleResumeRequest / $buildResumeInfo")
		return
	}
	info := hrr.Info()
	// flags: bool fields of the file state that the handler sets to true
	flags := map[types.Object]bool{}
	InspectNoLits(hrr.Body, func(m ast.Node) bool {
		as, ok := m.(*ast.AssignStmt)
		if !ok || len(as.Lhs) != 1 || len(as.Rhs) != 1 || types.ExprString(as.Rhs[0]) != "true" {
			return true
		}
		if sel, ok := ast.Unparen(as.Lhs[0]).(*ast.SelectorExpr); ok {
			if fv, ok := info.Uses[sel.Sel].(*types.Var); ok && fv.IsField() && isBool(fv.Type()) {
				flags[fv] = true
			}
		}
		return true
	})
	// locals that hold the flag's earlier value
	held := map[types.Object]bool{}
	InspectNoLits(hrr.Body, func(m ast.Node) bool {
		as, ok := m.(*ast.AssignStmt)
		if !ok || len(as.Lhs) != 1 || len(as.Rhs) != 1 {
			return true
		}
		if sel, ok := ast.Unparen(as.Rhs[0]).(*ast.SelectorExpr); ok {
			if fv, ok := info.Uses[sel.Sel].(*types.Var); ok && flags[fv] {
				if o := ObjOf(info, as.Lhs[0]); o != nil {
					held[o] = true
				}
			}
		}
		return true
	})
	spec := &PassSpec{Name: "once", Vias: []Via{{Cond: func(g *FuncInfo, e ast.Expr) (string, bool, bool) {
		e = ast.Unparen(e)
		if o := ObjOf(g.Info(), e); o != nil && held[o] {
			return "first-request", false, true
		}
		if sel, ok := e.(*ast.SelectorExpr); ok {
			if fv, ok := g.Info().Uses[sel.Sel].(*types.Var); ok && flags[fv] {
				return "first-request", false, true
			}
		}
		return "", false, false
	}}}}
	n := 0
	hrr.CFG().Calls(func(r NodeRef, call *ast.CallExpr) {
		id, ok := ast.Unparen(call.Fun).(*ast.Ident)
		if !ok {
			return
		}
		v, ok := ObjOf(info, id).(*types.Var)
		if !ok || p.ClosureOfVar(v) != bri {
			return
		}
		n++
		c.Check(spec.Passed(hrr, r, "first-request"), fmt.Sprintf("request-answered-once/build#%d", n), call.Pos(), "the report is built only for the file's first request",
			"handleResumeRequest builds (and queues) a resume report for every request it is sent: each one copies the file's whole bitmap - up to 8 MiB for a file announced in 64 Mi chunks - and waits in the control write queue for a peer that may not read; "+
				"a sender that repeats the 27-byte request keeps up to 64 copies alive: half a gigabyte for about 2 KB of input")
	})
	if n == 0 {
		c.Bad("request-answered-once/none", hrr.Pos(), "handleResumeRequest does not build a resume report")
	}
}
