package tf

import (
	"fmt"
	"go/ast"
	"go/token"
	"go/types"
	"strings"
)

// R-ACCEPT-COMMIT (C09, accepting side; F28): the receiver commits to a candidate
// connection only after the sender authenticated on that very connection.
//
// The sender races its dials, keeps the first handshake that completes on ITS side
// and closes (or silently drops) every other attempt. All of them reach the receiver's
// listener, in an order that is not the sender's completion order. The only event
// that tells the receiver which connection the sender kept is the sender's
// authentication message, which it sends on the kept connection and on no other.

func init() {
	Register(&Rule{
		Name:  "R-ACCEPT-COMMIT",
		Props: []string{"C09", "C08"},
		Min:   6,
		Doc: "accept-side commitment of the receiver (runTransfer, acceptExtraConns and their closures): for every transfer.Conn obtained from QUICTransport.Accept / QUICTransport.Dial, or received as a closure parameter or captured by a nested closure: " +
			"(commit-after-auth) every hand-over of it (channel send, return, append, store into an outer variable) is reachable only over the nil edge of authenticateTransport(.., that connection, .., receiver role); " +
			"(elected) in runTransfer the hand-over send into the channel runTransfer itself receives from is additionally reachable only through a successful atomic CompareAndSwap (one primary connection, a second winner closes itself); " +
			"(elect-after-auth) the CompareAndSwap itself is reached only past that authentication; (authenticated-kept) a connection past its authentication is closed only in the default clause of the select that hands it over; " +
			"(owned-select) every other clause of a select that hands the connection over closes it; (owned) from the success edge of the Accept/Dial (or the closure entry) every path closes the connection, hands it over or delegates it to a closure that is checked the same way; " +
			"(accept-unbounded) the loop around Accept in acceptExtraConns has no bound that counts accepts (only one that counts authenticated connections, or none); (failure-continues) an authentication failure on one extra connection does not leave the accept loop: from the failure edge every path reaches the Accept again, or the authentication runs in its own goroutine",
		Run: runAcceptCommit,
	})
}

func runAcceptCommit(c *Ctx) {
	p := c.P
	roots := []*FuncInfo{}
	for _, name := range []string{"app.(*snapshotReceiver).runTransfer", "app.(*snapshotReceiver).acceptExtraConns"} {
		f := p.Func(name)
		if f == nil {
			c.MissingAnchor(name)
			return
		}
		roots = append(roots, f)
	}
	authFn, _ := p.LookupObj("internal/app", "authenticateTransport").(*types.Func)
	roleRecv, _ := p.LookupObj("internal/app", "authRoleReceive").(*types.Const)
	if authFn == nil || roleRecv == nil {
		c.MissingAnchor("app.authenticateTransport / app.authRoleReceive")
		return
	}
	isTConn := func(t types.Type) bool {
		return t != nil && strings.HasSuffix(types.Unalias(t).String(), "internal/transfer.Conn")
	}
	mentions := func(info *types.Info, n ast.Node, v types.Object) bool {
		hit := false
		ast.Inspect(n, func(m ast.Node) bool {
			if id, ok := m.(*ast.Ident); ok && info.Uses[id] == v {
				hit = true
			}
			return !hit
		})
		return hit
	}
	// mentionsNoLit: like mentions, but not inside nested function literals
	mentionsNoLit := func(info *types.Info, n ast.Node, v types.Object) bool {
		hit := false
		InspectNoLits(n, func(m ast.Node) bool {
			if id, ok := m.(*ast.Ident); ok && info.Uses[id] == v {
				hit = true
			}
			return !hit
		})
		return hit
	}
	// authCallOn: call is authenticateTransport(_, v, _, authRoleReceive)
	authCallOn := func(info *types.Info, call *ast.CallExpr) types.Object {
		if Callee(info, call) != authFn || len(call.Args) != 4 {
			return nil
		}
		if ObjOf(info, call.Args[3]) != types.Object(roleRecv) {
			return nil
		}
		return ObjOf(info, call.Args[1])
	}
	var spec *PassSpec
	spec = &PassSpec{Name: "accept-commit", SkipDefer: true, Vias: []Via{
		{Call: func(f *FuncInfo, call *ast.CallExpr) (string, bool) {
			if v := authCallOn(f.Info(), call); v != nil {
				return fmt.Sprintf("auth-ok:%d", spec.objID(v)), true
			}
			return "", false
		}},
		{Cond: func(f *FuncInfo, e ast.Expr) (string, bool, bool) {
			call, ok := ast.Unparen(e).(*ast.CallExpr)
			if !ok {
				return "", false, false
			}
			if sel, ok := ast.Unparen(call.Fun).(*ast.SelectorExpr); ok && strings.HasPrefix(sel.Sel.Name, "CompareAndSwap") {
				if fn := Callee(f.Info(), call); fn != nil && fn.Pkg() != nil && fn.Pkg().Path() == "sync/atomic" {
					return "elected", true, true
				}
			}
			return "", false, false
		}},
	}}
	// round 5: a plain copy `w := v` carries v's authentication over to w
	spec.Vias = append(spec.Vias, Via{StmtIn: func(f *FuncInfo, n ast.Node, has func(id string) bool) (ids []string) {
		as, ok := n.(*ast.AssignStmt)
		if !ok || len(as.Lhs) != len(as.Rhs) {
			return nil
		}
		for i := range as.Lhs {
			w, v := ObjOf(f.Info(), as.Lhs[i]), ObjOf(f.Info(), as.Rhs[i])
			if w == nil || v == nil || w == v || !isTConn(w.Type()) || !isTConn(v.Type()) {
				continue
			}
			if _, isId := ast.Unparen(as.Rhs[i]).(*ast.Ident); !isId {
				continue
			}
			if has(fmt.Sprintf("auth-ok:%d", spec.objID(v))) {
				ids = append(ids, fmt.Sprintf("auth-ok:%d", spec.objID(w)))
			}
		}
		return ids
	}})
	// a fact about connection v dies when v is assigned again
	spec.KillMatch = func(f *FuncInfo, n ast.Node, id string) bool {
		if !strings.HasPrefix(id, "auth-ok:") {
			return false
		}
		for _, o := range AssignedObjs(f.Info(), n) {
			if fmt.Sprintf("auth-ok:%d", spec.objID(o)) == id {
				// the assignment that holds the authentication call itself is not a kill of another variable's fact
				return true
			}
		}
		return false
	}

	type connVar struct {
		f     *FuncInfo // function whose CFG the variable lives in
		v     types.Object
		start NodeRef // success edge of its definition, or function entry
		what  string
	}
	var vars []connVar
	inScope := map[*FuncInfo]bool{}
	var collect func(f *FuncInfo)
	var all []*FuncInfo
	collect = func(f *FuncInfo) {
		inScope[f] = true
		all = append(all, f)
		for _, k := range f.Kids {
			collect(k)
		}
	}
	for _, r := range roots {
		collect(r)
	}
	successStart := func(f *FuncInfo, r NodeRef, errObj types.Object) NodeRef {
		cfg := f.CFG()
		for _, b := range cfg.Blocks {
			cond, t, fs, okc := CondEdges(b)
			if !okc {
				continue
			}
			if o, nilOnTrue, okn := NilTest(f.Info(), cond); okn && o == errObj && cfg.Dominates(r, NodeRef{b, len(b.Nodes) - 1}) {
				if nilOnTrue {
					return NodeRef{t, -1}
				}
				return NodeRef{fs, -1}
			}
		}
		return NodeRef{}
	}
	failureStart := func(f *FuncInfo, r NodeRef, errObj types.Object) NodeRef {
		cfg := f.CFG()
		for _, b := range cfg.Blocks {
			cond, t, fs, okc := CondEdges(b)
			if !okc {
				continue
			}
			if o, nilOnTrue, okn := NilTest(f.Info(), cond); okn && o == errObj && cfg.Dominates(r, NodeRef{b, len(b.Nodes) - 1}) {
				if nilOnTrue {
					return NodeRef{fs, -1}
				}
				return NodeRef{t, -1}
			}
		}
		return NodeRef{}
	}
	nsrc := 0
	for _, f := range all {
		info := f.Info()
		cfg := f.CFG()
		// (a) results of QUICTransport.Accept / Dial
		cfg.Calls(func(r NodeRef, call *ast.CallExpr) {
			fn := Callee(info, call)
			if fn == nil || !(IsFunc(fn, ModulePath+"/internal/transferquic", "QUICTransport.Accept") || IsFunc(fn, ModulePath+"/internal/transferquic", "QUICTransport.Dial")) {
				return
			}
			nsrc++
			as, ok := r.Node().(*ast.AssignStmt)
			if !ok || len(as.Lhs) != 2 || len(as.Rhs) != 1 || ast.Unparen(as.Rhs[0]) != ast.Expr(call) {
				c.Unknown(fmt.Sprintf("source/%s#%d", f.Name, nsrc), call.Pos(), "the result of "+fn.Name()+" is not assigned to (conn, err)")
				return
			}
			v, e := ObjOf(info, as.Lhs[0]), ObjOf(info, as.Lhs[1])
			if v == nil || e == nil {
				c.Unknown(fmt.Sprintf("source/%s#%d", f.Name, nsrc), call.Pos(), "the connection or the error of "+fn.Name()+" is discarded")
				return
			}
			st := successStart(f, r, e)
			if !st.Valid() {
				c.Unknown(fmt.Sprintf("source/%s#%d", f.Name, nsrc), call.Pos(), "cannot find the error test of "+fn.Name())
				return
			}
			vars = append(vars, connVar{f, v, st, "QUICTransport." + fn.Name()})
		})
		// (b) parameters of closures
		if f.Lit != nil && f.Type.Params != nil {
			for _, fld := range f.Type.Params.List {
				for _, nm := range fld.Names {
					if o := info.Defs[nm]; o != nil && isTConn(o.Type()) {
						vars = append(vars, connVar{f, o, NodeRef{cfg.Blocks[0], -1}, "parameter " + nm.Name})
					}
				}
			}
		}
	}
	if nsrc == 0 {
		c.Bad("source/none", roots[0].Pos(), "found no QUICTransport.Accept / Dial in the receiver's connection intake")
		return
	}
	// (a') round 5: a plain copy `w := v` of a tracked connection into another local of the same function: the connection travels
	// on under the new name (v's duty ends at the copy, w's begins there)
	copyOut := map[ast.Node]map[types.Object]bool{}
	for i := 0; i < len(vars); i++ {
		cv := vars[i]
		info := cv.f.Info()
		cfg := cv.f.CFG()
		cfg.EachNode(func(r NodeRef) {
			as, ok := r.Node().(*ast.AssignStmt)
			if !ok || len(as.Lhs) != len(as.Rhs) {
				return
			}
			for j := range as.Lhs {
				if _, isId := ast.Unparen(as.Rhs[j]).(*ast.Ident); !isId || ObjOf(info, as.Rhs[j]) != cv.v {
					continue
				}
				w := ObjOf(info, as.Lhs[j])
				if w == nil || w == cv.v || !isTConn(w.Type()) || w.Pos() < cv.f.Body.Pos() || w.Pos() > cv.f.Body.End() {
					continue // a store into an outer variable is a sink (sinksOf)
				}
				if _, isId := ast.Unparen(as.Lhs[j]).(*ast.Ident); !isId {
					continue
				}
				dup := false
				for _, o := range vars {
					if o.f == cv.f && o.v == w {
						dup = true
					}
				}
				if copyOut[as] == nil {
					copyOut[as] = map[types.Object]bool{}
				}
				copyOut[as][cv.v] = true
				if !dup {
					vars = append(vars, connVar{cv.f, w, r, "copy of " + cv.v.Name() + " (" + cv.what + ")"})
				}
			}
		})
	}
	// (c) captured by nested literals: each literal below the defining function that mentions v
	base := len(vars)
	for i := 0; i < base; i++ {
		cv := vars[i]
		var down func(g *FuncInfo)
		down = func(g *FuncInfo) {
			for _, k := range g.Kids {
				if mentions(k.Info(), k.Body, cv.v) {
					vars = append(vars, connVar{k, cv.v, NodeRef{k.CFG().Blocks[0], -1}, "captured " + cv.v.Name()})
				}
			}
		}
		down(cv.f)
	}
	// captured in deeper levels (a literal inside a capturing literal)
	for i := base; i < len(vars); i++ {
		cv := vars[i]
		for _, k := range cv.f.Kids {
			if mentions(k.Info(), k.Body, cv.v) {
				vars = append(vars, connVar{k, cv.v, NodeRef{k.CFG().Blocks[0], -1}, "captured " + cv.v.Name()})
			}
		}
	}

	isClose := func(info *types.Info, n ast.Node, v types.Object) bool {
		hit := false
		InspectNoLits(n, func(m ast.Node) bool {
			if c2, ok := m.(*ast.CallExpr); ok {
				if sel, ok := ast.Unparen(c2.Fun).(*ast.SelectorExpr); ok && ObjOf(info, sel.X) == v && (sel.Sel.Name == "Close" || sel.Sel.Name == "CloseWithError") {
					hit = true
				}
			}
			return true
		})
		return hit
	}
	// delegation: v passed as a direct argument to a closure in scope whose parameter is checked, or a go/defer/call of a literal that captures v
	isDelegation := func(f *FuncInfo, n ast.Node, v types.Object) bool {
		info := f.Info()
		hit := false
		ast.Inspect(n, func(m ast.Node) bool {
			switch x := m.(type) {
			case *ast.CallExpr:
				if g := p.CalleeInfo(info, x); g != nil && inScope[g] && g.Lit != nil {
					for _, a := range x.Args {
						if ObjOf(info, a) == v {
							hit = true
						}
					}
					if lit, ok := ast.Unparen(x.Fun).(*ast.FuncLit); ok && mentions(info, lit.Body, v) {
						hit = true
					}
				}
			}
			return !hit
		})
		return hit
	}
	// commit sinks of v in f (not inside nested literals)
	type sink struct {
		ref  NodeRef
		kind string
	}
	sinksOf := func(f *FuncInfo, v types.Object) []sink {
		info := f.Info()
		var out []sink
		f.CFG().EachNode(func(r NodeRef) {
			n := r.Node()
			switch s := n.(type) {
			case *ast.SendStmt:
				if mentionsNoLit(info, s.Value, v) {
					out = append(out, sink{r, "send"})
				}
			case *ast.ReturnStmt:
				for _, e := range s.Results {
					if mentionsNoLit(info, e, v) {
						out = append(out, sink{r, "return"})
						break
					}
				}
			case *ast.AssignStmt:
				for i, rhs := range s.Rhs {
					if call, ok := ast.Unparen(rhs).(*ast.CallExpr); ok {
						if id, ok := ast.Unparen(call.Fun).(*ast.Ident); ok && id.Name == "append" && info.Uses[id] == types.Universe.Lookup("append") {
							for _, a := range call.Args[1:] {
								if mentionsNoLit(info, a, v) {
									out = append(out, sink{r, "append"})
								}
							}
						}
						continue
					}
					// store of v (or of a composite holding v) into a variable declared outside f, or into a field / element
					if !mentionsNoLit(info, rhs, v) || i >= len(s.Lhs) {
						continue
					}
					if _, isCall := ast.Unparen(rhs).(*ast.CallExpr); isCall {
						continue
					}
					switch l := ast.Unparen(s.Lhs[i]).(type) {
					case *ast.Ident:
						if o := ObjOf(info, l); o != nil && o != v && (o.Pos() < f.Body.Pos() || o.Pos() > f.Body.End()) {
							out = append(out, sink{r, "store"})
						}
					case *ast.SelectorExpr, *ast.IndexExpr:
						out = append(out, sink{r, "store"})
					}
				}
			case *ast.ExprStmt, *ast.GoStmt, *ast.DeferStmt:
				// v wrapped in a composite value passed to a scope closure (report(extraResult{conn: conn})): a hand-over
				InspectNoLits(n, func(m ast.Node) bool {
					call, ok := m.(*ast.CallExpr)
					if !ok {
						return true
					}
					if g := p.CalleeInfo(info, call); g != nil && inScope[g] {
						for _, a := range call.Args {
							if ObjOf(info, a) != v && mentionsNoLit(info, a, v) {
								out = append(out, sink{r, "wrapped-argument"})
							}
						}
					}
					return true
				})
			}
		})
		return out
	}

	isRun := func(f *FuncInfo) bool { return f.Root() == roots[0] }
	// the primary channel: the one runTransfer itself receives its connection from (other channels carry spare extra connections)
	primaryChan := func(info *types.Info, ss *ast.SendStmt) bool {
		ch := ObjOf(info, ss.Chan)
		if ch == nil {
			return true
		}
		recv := false
		InspectNoLits(roots[0].Body, func(m ast.Node) bool {
			if u, ok := m.(*ast.UnaryExpr); ok && u.Op == token.ARROW && ObjOf(roots[0].Info(), u.X) == ch {
				recv = true
			}
			return true
		})
		return recv
	}
	ncommit := 0
	perFunc := map[string]int{}
	for _, cv := range vars {
		f, v := cv.f, cv.v
		info := f.Info()
		cfg := f.CFG()
		perFunc[f.Name]++
		key := fmt.Sprintf("%s/%s#%d", f.Name, v.Name(), perFunc[f.Name])
		sinks := sinksOf(f, v)
		sinkNode := map[ast.Node]bool{}
		for i, s := range sinks {
			ncommit++
			sinkNode[s.ref.Node()] = true
			id := fmt.Sprintf("auth-ok:%d", spec.objID(v))
			c.Check(spec.Passed(f, s.ref, id), fmt.Sprintf("commit-after-auth/%s/%s#%d", key, s.kind, i+1), s.ref.Node().Pos(),
				"the connection is handed over only past a successful authenticateTransport on that connection",
				"the receiver hands over ("+s.kind+") a connection ("+cv.what+") on which the sender has not authenticated: the listener yields the sender's raced dials in its own order, so this can be a connection the sender closed as race_lost or dropped - the receiver then fails (or waits 10 s) in authentication on a connection the sender has abandoned while the sender waits on the one it kept")
			if isRun(f) && s.kind == "send" && primaryChan(info, s.ref.Node().(*ast.SendStmt)) {
				c.Check(spec.Passed(f, s.ref, "elected"), fmt.Sprintf("elected/%s/%s#%d", key, s.kind, i+1), s.ref.Node().Pos(),
					"the primary hand-over is reachable only through a successful CompareAndSwap",
					"several candidates can complete the primary hand-over (a non-blocking send into a buffered channel is free again after the receive): a second winner is neither used nor closed")
			}
		}
		authID := fmt.Sprintf("auth-ok:%d", spec.objID(v))
		// (elect-after-auth) the election is entered only by a connection that has authenticated
		ne := 0
		for _, b := range cfg.Blocks {
			cond, _, _, okc := CondEdges(b)
			if !okc {
				continue
			}
			isCAS := false
			InspectNoLits(cond, func(m ast.Node) bool {
				if call, ok := m.(*ast.CallExpr); ok {
					if sel, ok := ast.Unparen(call.Fun).(*ast.SelectorExpr); ok && strings.HasPrefix(sel.Sel.Name, "CompareAndSwap") {
						if fn := Callee(info, call); fn != nil && fn.Pkg() != nil && fn.Pkg().Path() == "sync/atomic" {
							isCAS = true
						}
					}
				}
				return true
			})
			if !isCAS || !isRun(f) {
				continue
			}
			ne++
			ref := NodeRef{b, len(b.Nodes) - 1}
			c.Check(spec.Passed(f, ref, authID), fmt.Sprintf("elect-after-auth/%s#%d", key, ne), cond.Pos(),
				"a candidate enters the election only after it has authenticated",
				"a candidate connection ("+cv.what+") takes the election before the sender has authenticated on it: a connection the sender abandoned can win, fails its authentication afterwards, and the connection the sender kept can no longer become the primary one")
		}
		// (authenticated-kept) a connection the sender authenticated on is not closed by the intake, except as the overflow of its hand-over
		nk := 0
		cfg.EachNode(func(r NodeRef) {
			if !isClose(info, r.Node(), v) || !spec.Passed(f, r, authID) {
				return
			}
			nk++
			overflow := false
			ast.Inspect(f.Body, func(m ast.Node) bool {
				sl, ok := m.(*ast.SelectStmt)
				if !ok {
					return true
				}
				sends, inDefault := false, false
				for _, cl := range sl.Body.List {
					cc := cl.(*ast.CommClause)
					if ss, ok := cc.Comm.(*ast.SendStmt); ok && mentionsNoLit(info, ss.Value, v) {
						sends = true
					}
					if cc.Comm == nil {
						for _, st := range cc.Body {
							if st.Pos() <= r.Node().Pos() && r.Node().End() <= st.End() {
								inDefault = true
							}
						}
					}
				}
				if sends && inDefault {
					overflow = true
				}
				return true
			})
			c.Check(overflow, fmt.Sprintf("authenticated-kept/%s#%d", key, nk), r.Node().Pos(),
				"an authenticated connection is closed only as the overflow of its hand-over",
				"the intake closes a connection ("+cv.what+") on which the sender has authenticated: the sender authenticates on the primary connection and on each extra one, and dials the extras as soon as the primary is authenticated; closing one that arrives before the accept loop stopped fails the sender's extra connections and the receiver waits 10 s for them")
		})
		// (owned-select) go/cfg evaluates the communication of every select clause in the head block, so the path rule below
		// sees a send that may not have been chosen: the other clauses of such a select must dispose of the connection themselves
		nsel := 0
		InspectNoLits(f.Body, func(m ast.Node) bool {
			sl, ok := m.(*ast.SelectStmt)
			if !ok {
				return true
			}
			sends := false
			for _, cl := range sl.Body.List {
				if ss, ok := cl.(*ast.CommClause).Comm.(*ast.SendStmt); ok && mentionsNoLit(info, ss.Value, v) {
					sends = true
				}
			}
			if !sends {
				return true
			}
			for _, cl := range sl.Body.List {
				cc := cl.(*ast.CommClause)
				if ss, ok := cc.Comm.(*ast.SendStmt); ok && mentionsNoLit(info, ss.Value, v) {
					continue
				}
				nsel++
				disposed := false
				for _, st := range cc.Body {
					if isClose(info, st, v) || isDelegation(f, st, v) {
						disposed = true
					}
					InspectNoLits(st, func(x ast.Node) bool {
						if ss, ok := x.(*ast.SendStmt); ok && mentionsNoLit(info, ss.Value, v) {
							disposed = true
						}
						return true
					})
				}
				what := "default"
				if cc.Comm != nil {
					what = types.ExprString(commExpr(cc.Comm))
				}
				c.Check(disposed, fmt.Sprintf("owned-select/%s#%d", key, nsel), cc.Pos(), "the clause taken when the hand-over send is not chosen closes the connection",
					"when the hand-over send of the connection ("+cv.what+") is not chosen (clause `"+what+"`) the connection is neither closed nor handed over: it stays open at the sender until the idle timeout")
			}
			return true
		})
		owned := allPathsHit(cfg, cv.start, func(n ast.Node) bool {
			return sinkNode[n] || isClose(info, n, v) || isDelegation(f, n, v) || copyOut[n][v]
		}, func(ast.Node) bool { return false })
		c.Check(owned, "owned/"+key, startPos(f, cv.start), "the connection is closed, handed over or delegated on every path",
			"a candidate connection ("+cv.what+") can reach the end of "+f.Name+" neither closed nor handed over: it stays open at the sender until the idle timeout")
	}
	if ncommit == 0 {
		c.Bad("commit-after-auth/none", roots[0].Pos(), "found no hand-over of an accepted connection")
	}
	// (failure-continues) in acceptExtraConns
	nfail := 0
	for _, f := range all {
		if f.Root() != roots[1] {
			continue
		}
		info := f.Info()
		cfg := f.CFG()
		cfg.Calls(func(r NodeRef, call *ast.CallExpr) {
			if authCallOn(info, call) == nil {
				return
			}
			nfail++
			key := fmt.Sprintf("failure-continues/%s#%d", f.Name, nfail)
			// which function holds the Accept whose connection is authenticated here?
			var acc NodeRef
			cfg.Calls(func(ar NodeRef, ac *ast.CallExpr) {
				if fn := Callee(info, ac); fn != nil && IsFunc(fn, ModulePath+"/internal/transferquic", "QUICTransport.Accept") {
					acc = ar
				}
			})
			if !acc.Valid() {
				// the authentication runs in its own function literal: is that literal started with go?
				async := false
				if f.Lit != nil && f.Parent != nil {
					ast.Inspect(f.Parent.Body, func(m ast.Node) bool {
						if g, ok := m.(*ast.GoStmt); ok && ast.Unparen(g.Call.Fun) == ast.Expr(f.Lit) {
							async = true
						}
						// invoked on the spot with its result unused: its return ends only the literal
						if es, ok := m.(*ast.ExprStmt); ok {
							if call, ok := es.X.(*ast.CallExpr); ok && ast.Unparen(call.Fun) == ast.Expr(f.Lit) {
								async = true
							}
						}
						return true
					})
				}
				c.Check(async, key, call.Pos(), "each extra connection is authenticated in its own goroutine: a failure ends only that goroutine",
					"the authentication of an extra connection runs in a nested function that is not started as a goroutine: cannot show that a failure leaves the accept loop running")
				return
			}
			// same function: from the failure edge every path reaches the Accept again
			var errObj types.Object
			switch s := r.Node().(type) {
			case *ast.AssignStmt:
				if len(s.Lhs) == 1 {
					errObj = ObjOf(info, s.Lhs[0])
				}
			}
			if errObj == nil {
				c.Unknown(key, call.Pos(), "the result of authenticateTransport is not assigned to an error variable")
				return
			}
			fs := failureStart(f, r, errObj)
			if !fs.Valid() {
				c.Unknown(key, call.Pos(), "cannot find the error test of authenticateTransport")
				return
			}
			again := allPathsHit(cfg, fs, func(n ast.Node) bool { return n == acc.Node() }, func(ast.Node) bool { return false })
			c.Check(again, key, call.Pos(), "after a failed authentication the loop accepts the next connection",
				"an extra connection that fails authentication ends the collection of extra connections: the listener also yields the connections the sender abandoned in the race (closed as race_lost), the first of them makes the receiver give up all extras while the sender dials them and waits 10 s for their authentication")
		})
	}
	if nfail == 0 {
		c.Bad("failure-continues/none", roots[1].Pos(), "acceptExtraConns does not authenticate its connections")
	}
	// (accept-unbounded) the loop that takes connections off the listener is not limited by a count of accepts: the listener also
	// yields the connections the sender abandoned (their authentication fails), each would use up one of the counted accepts
	nloop := 0
	for _, f := range all {
		if f.Root() != roots[1] {
			continue
		}
		info := f.Info()
		ast.Inspect(f.Body, func(m ast.Node) bool {
			if lit, ok := m.(*ast.FuncLit); ok && lit != f.Lit {
				return false
			}
			var body *ast.BlockStmt
			var cond ast.Expr
			var isRange bool
			switch s := m.(type) {
			case *ast.ForStmt:
				body, cond = s.Body, s.Cond
			case *ast.RangeStmt:
				body, isRange = s.Body, true
			default:
				return true
			}
			accepts := false
			InspectNoLits(body, func(x ast.Node) bool {
				if call, ok := x.(*ast.CallExpr); ok {
					if fn := Callee(info, call); fn != nil && IsFunc(fn, ModulePath+"/internal/transferquic", "QUICTransport.Accept") {
						accepts = true
					}
				}
				return true
			})
			if !accepts {
				return true
			}
			nloop++
			key := fmt.Sprintf("accept-unbounded/%s#%d", f.Name, nloop)
			switch {
			case isRange:
				c.Bad(key, m.Pos(), "the accept loop of acceptExtraConns iterates over a fixed range: a connection the sender abandoned in the race (its authentication fails) uses up one iteration, the sender's last extra connection is never accepted and its authentication times out after 10 s")
			case cond == nil:
				c.OK(key, m.Pos(), "the accept loop runs until Accept fails (deadline or cancellation)")
			default:
				// a condition is fine when it counts successes: it mentions len(<slice of connections>)
				countsSuccess := false
				ast.Inspect(cond, func(x ast.Node) bool {
					if call, ok := x.(*ast.CallExpr); ok && len(call.Args) == 1 {
						if id, ok := ast.Unparen(call.Fun).(*ast.Ident); ok && id.Name == "len" {
							if t := info.TypeOf(call.Args[0]); t != nil {
								if sl, ok := t.Underlying().(*types.Slice); ok && isTConn(sl.Elem()) {
									countsSuccess = true
								}
							}
						}
					}
					return true
				})
				// a condition that is not a count at all (acceptCtx.Err() == nil) does not ration accepts either
				countsIter := false
				if fs, ok := m.(*ast.ForStmt); ok {
					counters := map[types.Object]bool{}
					note := func(x ast.Node) {
						switch st := x.(type) {
						case *ast.IncDecStmt:
							if o := ObjOf(info, st.X); o != nil {
								counters[o] = true
							}
						case *ast.AssignStmt:
							if st.Tok == token.ADD_ASSIGN || st.Tok == token.SUB_ASSIGN {
								if o := ObjOf(info, st.Lhs[0]); o != nil {
									counters[o] = true
								}
							}
						}
					}
					if fs.Post != nil {
						note(fs.Post)
					}
					InspectNoLits(fs.Body, func(x ast.Node) bool { note(x); return true })
					ast.Inspect(cond, func(x ast.Node) bool {
						if id, ok := x.(*ast.Ident); ok && counters[info.Uses[id]] {
							countsIter = true
						}
						return true
					})
				}
				if !countsIter && !countsSuccess {
					c.OK(key, m.Pos(), "the accept loop's condition is not a count of accepts")
					return true
				}
				c.Check(countsSuccess, key, m.Pos(), "the accept loop is bounded by the number of authenticated connections",
					"the accept loop of acceptExtraConns is bounded by `"+types.ExprString(cond)+"`, a count of accepts rather than of authenticated connections: a connection the sender abandoned in the race (closed as race_lost, still in the accept queue) uses up one accept, the sender's last extra connection is never accepted, its authentication times out after 10 s and the receiver returns one connection too few")
			}
			return true
		})
	}
	if nloop == 0 {
		c.Bad("accept-unbounded/none", roots[1].Pos(), "acceptExtraConns has no loop around QUICTransport.Accept")
	}
	// (accept-not-blocked) round 5: the goroutine that takes connections off the listener never waits for a peer's authentication
	// itself: a connection that stays silent (a probe the sender abandoned, a stranger) would hold the next Accept back for the whole
	// authentication timeout, and the sender's real connection behind it in the queue is admitted only after that
	authsMemo := map[*FuncInfo]int{}
	var auths func(g *FuncInfo) bool
	auths = func(g *FuncInfo) bool {
		if g == nil || g.Body == nil {
			return false
		}
		if v, ok := authsMemo[g]; ok {
			return v == 1
		}
		authsMemo[g] = 0
		ginfo := g.Info()
		hit := false
		var walk func(n ast.Node) bool
		walk = func(n ast.Node) bool {
			switch x := n.(type) {
			case *ast.FuncLit:
				return false
			case *ast.GoStmt:
				for _, a := range x.Call.Args {
					ast.Inspect(a, walk)
				}
				return false
			case *ast.CallExpr:
				if Callee(ginfo, x) == authFn {
					hit = true
				} else if fi := p.CalleeInfo(ginfo, x); fi != nil && fi != g && auths(fi) {
					hit = true
				} else if lit, ok := ast.Unparen(x.Fun).(*ast.FuncLit); ok && auths(p.LitInfo(lit)) {
					hit = true
				}
			}
			return !hit
		}
		ast.Inspect(g.Body, walk)
		if hit {
			authsMemo[g] = 1
		}
		return hit
	}
	nblk := 0
	for _, f := range all {
		info := f.Info()
		ast.Inspect(f.Body, func(m ast.Node) bool {
			if lit, ok := m.(*ast.FuncLit); ok && lit != f.Lit {
				return false
			}
			var body *ast.BlockStmt
			switch s := m.(type) {
			case *ast.ForStmt:
				body = s.Body
			case *ast.RangeStmt:
				body = s.Body
			default:
				return true
			}
			accepts := false
			InspectNoLits(body, func(x ast.Node) bool {
				if call, ok := x.(*ast.CallExpr); ok {
					if fn := Callee(info, call); fn != nil && IsFunc(fn, ModulePath+"/internal/transferquic", "QUICTransport.Accept") {
						accepts = true
					}
				}
				return true
			})
			if !accepts {
				return true
			}
			nblk++
			key := fmt.Sprintf("accept-not-blocked/%s#%d", f.Name, nblk)
			var blocking *ast.CallExpr
			var walk func(n ast.Node) bool
			walk = func(n ast.Node) bool {
				switch x := n.(type) {
				case *ast.FuncLit:
					return false
				case *ast.GoStmt:
					for _, a := range x.Call.Args {
						ast.Inspect(a, walk)
					}
					return false
				case *ast.CallExpr:
					if blocking != nil {
						return false
					}
					if Callee(info, x) == authFn {
						blocking = x
					} else if fi := p.CalleeInfo(info, x); fi != nil && auths(fi) {
						blocking = x
					} else if lit, ok := ast.Unparen(x.Fun).(*ast.FuncLit); ok && auths(p.LitInfo(lit)) {
						blocking = x
					}
				}
				return true
			}
			ast.Inspect(body, walk)
			if blocking != nil {
				c.Bad(key, blocking.Pos(), "the loop that takes connections off the listener waits for the authentication of each connection itself (`"+types.ExprString(blocking.Fun)+"` is called, not started with go): "+
					"a connection that stays silent - a probe the sender abandoned in the race, or a stranger - holds the next Accept back for the whole authentication timeout, and the sender's connection behind it is admitted only then")
			} else {
				c.OK(key, m.Pos(), "no authentication runs in the accepting goroutine")
			}
			return true
		})
	}
	if nblk < 2 {
		c.Bad("accept-not-blocked/none", roots[0].Pos(), fmt.Sprintf("found %d accept loops under runTransfer / acceptExtraConns, expected the primary and the extra one", nblk))
	}
}

func startPos(f *FuncInfo, r NodeRef) token.Pos {
	if r.B != nil && len(r.B.Nodes) > 0 {
		return r.B.Nodes[0].Pos()
	}
	return f.Pos()
}

func commExpr(s ast.Stmt) ast.Expr {
	switch x := s.(type) {
	case *ast.ExprStmt:
		return x.X
	case *ast.SendStmt:
		return x.Chan
	case *ast.AssignStmt:
		if len(x.Rhs) == 1 {
			return x.Rhs[0]
		}
	}
	return ast.NewIdent("?")
}
