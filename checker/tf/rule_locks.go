package tf

import (
	"fmt"
	"go/ast"
	"go/token"
	"go/types"
	"sort"
	"strings"
)

// R-LOCKSET: every access to a guarded field happens inside a critical section of its mutex.

type locksetInst struct {
	pkg    string
	typ    string
	mu     string
	fields []string
	props  []string
	why    string
	min    int
}

var locksetTable = []locksetInst{
	{"internal/peers", "Hub", "mu", []string{"sessions", "byPeerID"}, []string{"C10", "C11"}, "an unsynchronised map access crashes the signaling server (concurrent map read and map write)", 20},
	{"internal/session", "Store", "mu", []string{"sessions", "byCode"}, []string{"C14"}, "an unsynchronised map access crashes the server; a racy code-collision test admits duplicate codes", 8},
	{"cmd/thruserv", "connLimiter", "mu", []string{"inUse", "limit"}, []string{"C14"}, "a racy inUse++ exceeds the connection limit", 5},
	{"cmd/thruserv", "tokenBucket", "mu", []string{"tokens", "last"}, []string{"C14"}, "a racy token update exceeds the message rate", 5},
	{"cmd/thruserv", "ipLimiter", "mu", []string{"buckets", "rate", "burst"}, []string{"C14"}, "an unsynchronised map access crashes the server", 5},
	{"cmd/thruserv", "sessionExpiryManager", "mu", []string{"timers"}, []string{"C14"}, "an unsynchronised map access crashes the server", 4},
	{"internal/app", "SnapshotSender", "mu", []string{"receivers", "queue", "active"}, []string{"C12"}, "a racy slot test starts more transfers than max-receivers; a racy queue edit reorders or loses receivers", 25},
	{"internal/transfer", "sendFileState", "mu", []string{"nextChunk", "inFlight", "scheduleDone", "endSent", "verifyPending", "resendPending", "resendChunk", "plan", "readyErr", "framesSent"}, []string{"C17"}, "a racy take/finish step dispatches a chunk twice or emits FileEnd twice", 30},
	{"internal/transfer", "recvFileStateMux", "mu", []string{"remaining", "endReceived", "done", "framesRecv", "endFrames", "needEnd"}, []string{"C02", "C01"}, "a racy remaining-- / frame count finalises a file with a chunk missing or a repair pending", 8},
	{"internal/transfer", "fileWaitRegistry", "mu", []string{"waiters", "signaled"}, []string{"C03"}, "an unsynchronised map access crashes the receiver; a racy signalled-set test loses a wake-up", 4},
}

func init() {
	byProp := map[string]bool{}
	var props []string
	for _, t := range locksetTable {
		for _, p := range t.props {
			if !byProp[p] {
				byProp[p] = true
				props = append(props, p)
			}
		}
	}
	sort.Strings(props)
	for _, prop := range props {
		prop := prop
		min := 0
		var names []string
		for _, t := range locksetTable {
			for _, p := range t.props {
				if p == prop {
					min += t.min
					names = append(names, fmt.Sprintf("%s{%s}/%s", t.typ, strings.Join(t.fields, ","), t.mu))
				}
			}
		}
		Register(&Rule{
			Name:  "R-LOCKSET/" + prop,
			Props: []string{prop},
			Min:   min,
			Doc: "every read or write of a guarded field (map index, delete, range, len, assignment, ++) is inside a critical section of its mutex on all paths " +
				"(writes need the exclusive lock of an RWMutex); constructor code before the value escapes is exempt. Instances: " + strings.Join(names, "; "),
			Run: func(c *Ctx) {
				ls := NewLockSpec()
				for _, t := range locksetTable {
					for _, p := range t.props {
						if p == prop {
							checkLockset(c, ls, t)
						}
					}
				}
			},
		})
	}
}

// isWriteAccess reports whether expression e (a selector on a guarded field, possibly indexed) is written by statement node n.
func isWriteAccess(info *types.Info, n ast.Node, sel *ast.SelectorExpr) bool {
	write := false
	contains := func(root ast.Expr) bool {
		hit := false
		ast.Inspect(root, func(m ast.Node) bool {
			if m == ast.Node(sel) {
				hit = true
			}
			return !hit
		})
		return hit
	}
	ast.Inspect(n, func(m ast.Node) bool {
		switch s := m.(type) {
		case *ast.FuncLit:
			return false
		case *ast.AssignStmt:
			for _, l := range s.Lhs {
				if contains(l) {
					write = true
				}
			}
		case *ast.IncDecStmt:
			if contains(s.X) {
				write = true
			}
		case *ast.CallExpr:
			if id, ok := ast.Unparen(s.Fun).(*ast.Ident); ok {
				if b, ok := info.Uses[id].(*types.Builtin); ok && (b.Name() == "delete" || b.Name() == "clear") && len(s.Args) > 0 && contains(s.Args[0]) {
					write = true
				}
			}
		}
		return true
	})
	return write
}

func checkLockset(c *Ctx, ls *PassSpec, t locksetInst) {
	p := c.P
	tn, _ := p.LookupObj(t.pkg, t.typ).(*types.TypeName)
	if tn == nil {
		c.MissingAnchor(t.pkg + "." + t.typ)
		return
	}
	st, ok := tn.Type().Underlying().(*types.Struct)
	if !ok {
		c.MissingAnchor(t.pkg + "." + t.typ + " (struct)")
		return
	}
	guarded := map[*types.Var]bool{}
	var muVar *types.Var
	for i := 0; i < st.NumFields(); i++ {
		f := st.Field(i)
		if f.Name() == t.mu {
			muVar = f
		}
		for _, g := range t.fields {
			if f.Name() == g {
				guarded[f] = true
			}
		}
	}
	if muVar == nil || len(guarded) != len(t.fields) {
		c.MissingAnchor(fmt.Sprintf("%s.%s fields %v / mutex %s", t.pkg, t.typ, t.fields, t.mu))
		return
	}
	_, isRW := muVar.Type().(*types.Named)
	isRW = isRW && strings.HasSuffix(muVar.Type().String(), "RWMutex")
	counts := map[string]int{}
	for _, f := range p.FuncsIn(t.pkg) {
		info := f.Info()
		// constructor exemption: base variable is a local created from a composite literal in this very function and f is not a closure
		localNew := map[types.Object]bool{}
		InspectNoLits(f.Body, func(n ast.Node) bool {
			if as, ok := n.(*ast.AssignStmt); ok && len(as.Lhs) == len(as.Rhs) {
				for i, r := range as.Rhs {
					e := ast.Unparen(r)
					if u, ok := e.(*ast.UnaryExpr); ok && u.Op == token.AND {
						e = ast.Unparen(u.X)
					}
					if _, ok := e.(*ast.CompositeLit); ok {
						if o := ObjOf(info, as.Lhs[i]); o != nil {
							localNew[o] = true
						}
					}
				}
			}
			return true
		})
		f.CFG().EachNode(func(r NodeRef) {
			InspectNoLits(r.Node(), func(n ast.Node) bool {
				if _, ok := n.(*ast.FuncLit); ok {
					return false
				}
				sel, ok := n.(*ast.SelectorExpr)
				if !ok {
					return true
				}
				fv, _ := info.Uses[sel.Sel].(*types.Var)
				if fv == nil || !guarded[fv] {
					return true
				}
				if ro := rootObj(info, sel.X); ro != nil && localNew[ro] {
					return true // not yet shared
				}
				base := types.ExprString(sel.X)
				mu := base + "." + t.mu
				any, w := Held(ls, f, r, mu)
				write := isWriteAccess(info, r.Node(), sel)
				counts[fv.Name()]++
				key := fmt.Sprintf("%s.%s/%s#%d", t.typ, fv.Name(), f.Name, counts[fv.Name()+"@"+f.Name]+1)
				counts[fv.Name()+"@"+f.Name]++
				kind := "read"
				if write {
					kind = "write"
				}
				switch {
				case !any:
					c.Bad(key, sel.Pos(), fmt.Sprintf("%s of %s.%s without holding %s: %s", kind, base, fv.Name(), mu, t.why), "held here: "+strings.Join(HeldAny(ls, f, r), ", "))
				case write && isRW && !w:
					c.Bad(key, sel.Pos(), fmt.Sprintf("write of %s.%s under the read lock only", base, fv.Name()))
				default:
					c.OK(key, sel.Pos(), fmt.Sprintf("%s under %s", kind, mu))
				}
				return true
			})
		})
	}
}
