package tf

// Rules added after the second round of seeded changes (DESIGN.md section 8.2).

import (
	"fmt"
	"os"
	"go/ast"
	"go/token"
	"go/types"
	"strings"
)

func init() {
	Register(&Rule{
		Name:  "R-FS-ERR",
		Props: []string{"C02"},
		Min:   8,
		Doc: "on the receive side every os.Mkdir/MkdirAll/OpenFile/Create/Rename/WriteFile has its error bound and tested by a plain `err != nil` whose branch reports it: " +
			"no class of errors is exempted (`&& !os.IsExist(err)`: EEXIST is also what an obstructing regular file returns) and none is discarded - an output path that cannot be written must make the transfer fail",
		Run: runFsErr,
	})
	Register(&Rule{
		Name:  "R-NO-RELOCK",
		Props: []string{"C03", "C11", "C12", "C10"},
		Min:   10,
		Doc: "sync.Mutex is not reentrant: while a mutex is held (lockset), no call goes to a function or closure (resolved statically, two levels) that acquires the same mutex " +
			"(same captured variable, or same field on the same receiver): such a path blocks forever on its own lock and, through it, every other user of that lock",
		Run: runNoRelock,
	})
}

func runFsErr(c *Ctx) {
	p := c.P
	targets := map[string]bool{"Mkdir": true, "MkdirAll": true, "OpenFile": true, "Create": true, "Rename": true, "WriteFile": true}
	var funcs []*FuncInfo
	funcs = append(funcs, recvDataFuncs(p)...)
	for _, f := range p.FuncsIn("internal/transfer") {
		if strings.HasPrefix(f.Root().Name, "transfer.(*Sidecar)") {
			funcs = append(funcs, f)
		}
	}
	for _, f := range p.FuncsIn("internal/app") {
		if strings.HasPrefix(f.Root().Name, "app.(*snapshotReceiver)") || strings.HasPrefix(f.Root().Name, "app.RunSnapshotReceiver") {
			funcs = append(funcs, f)
		}
	}
	for _, f := range funcs {
		info := f.Info()
		cfg := f.CFG()
		n := 0
		cfg.Calls(func(r NodeRef, call *ast.CallExpr) {
			fn := Callee(info, call)
			if fn == nil || fn.Pkg() == nil || fn.Pkg().Path() != "os" || !targets[fn.Name()] {
				return
			}
			if sig := fn.Type().(*types.Signature); sig.Recv() != nil {
				return
			}
			n++
			key := fmt.Sprintf("fs-err/%s#%d/os.%s", f.Name, n, fn.Name())
			// the variable the error is bound to
			var errObj types.Object
			switch st := r.Node().(type) {
			case *ast.AssignStmt:
				for i, l := range st.Lhs {
					if len(st.Rhs) == 1 && ast.Unparen(st.Rhs[0]) == ast.Expr(call) {
						if t := info.TypeOf(l); t != nil && isErrorType(t) && i == len(st.Lhs)-1 {
							errObj = ObjOf(info, l)
						}
					}
				}
			}
			if rs, ok := r.Node().(*ast.ReturnStmt); ok && errObj == nil {
				// `return os.Rename(a, b)`: the error goes to the caller as it is
				direct := false
				for _, res := range rs.Results {
					if ast.Unparen(res) == ast.Expr(call) {
						direct = true
					}
				}
				if direct {
					c.OK(key, call.Pos(), "the error is returned to the caller as it is")
					return
				}
			}
			if errObj == nil {
				c.Bad(key, call.Pos(), "the error of os."+fn.Name()+" is discarded: an output path that cannot be created is not reported, and the transfer can still end in success")
				return
			}
			// the first condition that tests it
			var test ast.Expr
			var testBlk NodeRef
			for _, b := range cfg.Blocks {
				cond, _, _, ok := CondEdges(b)
				if !ok {
					continue
				}
				mentions := false
				ast.Inspect(cond, func(m ast.Node) bool {
					if id, ok := m.(*ast.Ident); ok && ObjOf(info, id) == errObj {
						mentions = true
					}
					return true
				})
				ref := NodeRef{b, len(b.Nodes) - 1}
				if mentions && cfg.Dominates(r, ref) && (test == nil || cfg.Dominates(ref, testBlk)) {
					test, testBlk = cond, ref
				}
			}
			if test == nil {
				c.Bad(key, call.Pos(), "the error of os."+fn.Name()+" is never tested")
				return
			}
			atoms := Implied(test, true)
			plain := len(atoms) == 1
			if plain {
				o, nilOnTrue, ok := NilTest(info, atoms[0].E)
				plain = ok && o == errObj && nilOnTrue != atoms[0].Val
			}
			c.Check(plain, key, call.Pos(), "error tested by a plain err != nil",
				"the error of os."+fn.Name()+" is tested by `"+types.ExprString(test)+"`, which lets a class of errors pass (for os.Mkdir, EEXIST is also returned when a regular file sits at the path): an output path that cannot be written is accepted and both sides can report success with the entry missing")
		})
	}
}

// locksOf returns the mutex expressions (as written, e.g. "stateMu", "s.mu") that f acquires in its own body, not counting
// nested literals that are started asynchronously.
func locksOf(f *FuncInfo) map[string]token.Pos {
	out := map[string]token.Pos{}
	if f == nil || f.Body == nil {
		return out
	}
	info := f.Info()
	InspectNoLits(f.Body, func(n ast.Node) bool {
		if call, ok := n.(*ast.CallExpr); ok {
			if mu, op, ok := mutexOp(info, call); ok && (op == "Lock" || op == "RLock") {
				if _, seen := out[mu]; !seen {
					out[mu] = call.Pos()
				}
			}
		}
		return true
	})
	return out
}

func runNoRelock(c *Ctx) {
	p := c.P
	ls := NewLockSpec()
	for _, pkg := range []string{"internal/transfer", "internal/peers", "internal/app", "internal/session", "cmd/thruserv"} {
		for _, f := range p.FuncsIn(pkg) {
			if strings.HasSuffix(p.Pos(f.Pos()), "_test.go") || strings.Contains(p.Pos(f.Pos()), "mock.go") {
				continue
			}
			info := f.Info()
			cfg := f.CFG()
			n := 0
			cfg.Calls(func(r NodeRef, call *ast.CallExpr) {
				held := HeldAny(ls, f, r)
				if len(held) == 0 {
					return
				}
				if _, _, isMu := mutexOp(info, call); isMu {
					return
				}
				// resolve the callee: declared function/method, or a closure variable
				var callee *FuncInfo
				recvExpr := ""
				if g := p.CalleeInfo(info, call); g != nil {
					callee = g
					if sel, ok := ast.Unparen(call.Fun).(*ast.SelectorExpr); ok && g.Decl != nil && g.Decl.Recv != nil {
						recvExpr = types.ExprString(sel.X)
					}
				} else if id, ok := ast.Unparen(call.Fun).(*ast.Ident); ok {
					if v, ok := ObjOf(info, id).(*types.Var); ok {
						callee = p.ClosureOfVar(v)
					}
				}
				if callee == nil {
					return
				}
				n++
				// mutexes the callee takes, translated into the caller's expressions
				type acq struct {
					mu   string
					pos  token.Pos
					path string
				}
				var acqs []acq
				var collect func(g *FuncInfo, recv string, depth int, path string)
				collect = func(g *FuncInfo, recv string, depth int, path string) {
					gRecvName := ""
					if g.Decl != nil && g.Decl.Recv != nil && len(g.Decl.Recv.List) == 1 && len(g.Decl.Recv.List[0].Names) == 1 {
						gRecvName = g.Decl.Recv.List[0].Names[0].Name
					}
					for mu, pos := range locksOf(g) {
						name := mu
						if gRecvName != "" {
							if mu == gRecvName || strings.HasPrefix(mu, gRecvName+".") {
								if recv == "" {
									continue
								}
								name = recv + strings.TrimPrefix(mu, gRecvName)
							} else {
								continue // a lock of some other object inside a method: not comparable by name
							}
						} else if g.Lit == nil {
							continue // package-level function: its mutex expressions are its own
						}
						acqs = append(acqs, acq{name, pos, path + " -> " + g.Name})
					}
					if depth == 0 {
						return
					}
					gi := g.Info()
					InspectNoLits(g.Body, func(m ast.Node) bool {
						c2, ok := m.(*ast.CallExpr)
						if !ok {
							return true
						}
						if h := p.CalleeInfo(gi, c2); h != nil && h.Pkg == g.Pkg {
							r2 := ""
							if sel, ok := ast.Unparen(c2.Fun).(*ast.SelectorExpr); ok && h.Decl != nil && h.Decl.Recv != nil {
								r2 = types.ExprString(sel.X)
								if gRecvName != "" && r2 == gRecvName {
									r2 = recv
								} else if g.Lit == nil {
									r2 = ""
								}
							}
							if h.Decl != nil && h.Decl.Recv != nil && r2 == "" {
								return true
							}
							collect(h, r2, depth-1, path+" -> "+g.Name)
						} else if id, ok := ast.Unparen(c2.Fun).(*ast.Ident); ok && g.Lit != nil {
							if v, ok := ObjOf(gi, id).(*types.Var); ok {
								if h := p.ClosureOfVar(v); h != nil && h != g {
									collect(h, "", depth-1, path+" -> "+g.Name)
								}
							}
						}
						return true
					})
				}
				collect(callee, recvExpr, 1, f.Name)
				bad := ""
				for _, a := range acqs {
					for _, h := range held {
						if h[2:] == a.mu {
							// an RLock taken again while only the read lock is held is still a deadlock hazard with a waiting writer; report both
							bad = fmt.Sprintf("%s is held here and acquired again at %s (%s)", a.mu, p.Pos(a.pos), strings.TrimPrefix(a.path, f.Name+" -> "))
						}
					}
				}
				key := fmt.Sprintf("relock/%s#%d->%s", f.Name, n, callee.Name)
				if bad != "" {
					c.Bad(key, call.Pos(), "call to "+types.ExprString(call.Fun)+" while holding a mutex that the callee locks itself: "+bad+" - sync.Mutex is not reentrant, the goroutine blocks forever and every other user of the lock with it")
				} else {
					c.OK(key, call.Pos(), "callee takes none of the mutexes held here")
				}
			})
		}
	}
}

func init() {
	Register(&Rule{
		Name:  "R-DEQUEUE",
		Props: []string{"C12"},
		Min:   2,
		Doc: "a receiver taken off the head of the wait queue is started, unless it is gone (no state) or already being served: after `s.queue = s.queue[1:]` every way back to the loop head or out of the function " +
			"passes the slot insertion, or a branch taken on state == nil / Status == TRANSFERRING. Any other reason to drop a popped receiver loses its place (it is in no admission state and a later arrival overtakes it)",
		Run: runDequeue,
	})
}

func runDequeue(c *Ctx) {
	p := c.P
	f := p.Func("app.(*SnapshotSender).maybeStartTransfers")
	if f == nil {
		c.MissingAnchor("app.(*SnapshotSender).maybeStartTransfers")
		return
	}
	get := func(n string) *types.Var {
		v, _ := p.LookupObj("internal/app", n).(*types.Var)
		return v
	}
	active, queue, statusF := get("SnapshotSender.active"), get("SnapshotSender.queue"), get("ReceiverState.Status")
	if active == nil || queue == nil || statusF == nil {
		c.MissingAnchor("app.SnapshotSender.{active,queue} / ReceiverState.Status")
		return
	}
	info := f.Info()
	cfg := f.CFG()
	isField := func(e ast.Expr, fv *types.Var) bool {
		sel, ok := ast.Unparen(e).(*ast.SelectorExpr)
		if !ok {
			return false
		}
		v, _ := info.Uses[sel.Sel].(*types.Var)
		return v == fv
	}
	// the pop
	var pop NodeRef
	cfg.EachNode(func(r NodeRef) {
		as, ok := r.Node().(*ast.AssignStmt)
		if !ok || len(as.Lhs) != 1 || len(as.Rhs) != 1 || !isField(as.Lhs[0], queue) {
			return
		}
		if sl, ok := ast.Unparen(as.Rhs[0]).(*ast.SliceExpr); ok && isField(sl.X, queue) && sl.Low != nil {
			pop = r
		}
	})
	if !pop.Valid() {
		c.Unknown("dequeue/pop", f.Pos(), "cannot find the pop `s.queue = s.queue[1:]` in maybeStartTransfers")
		return
	}
	transferring, _ := p.LookupObj("internal/app", "ReceiverStatusTransferring").(*types.Const)
	spec := &PassSpec{SkipDefer: true}
	spec.Vias = []Via{
		{Cond: func(g *FuncInfo, e ast.Expr) (string, bool, bool) {
			var settled func(e ast.Expr) (bool, bool)
			settled = func(e ast.Expr) (bool, bool) {
				e = ast.Unparen(e)
				if o, nilOnTrue, ok := NilTest(info, e); ok && o != nil {
					if pt, isPtr := o.Type().(*types.Pointer); isPtr && strings.HasSuffix(pt.Elem().String(), "ReceiverState") {
						return nilOnTrue, true
					}
				}
				be, ok := e.(*ast.BinaryExpr)
				if !ok {
					return false, false
				}
				if be.Op == token.LOR { // gone || already served: true means one of the two
					lv, lok := settled(be.X)
					rv, rok := settled(be.Y)
					if lok && rok && lv && rv {
						return true, true
					}
					return false, false
				}
				if (be.Op != token.EQL && be.Op != token.NEQ) || !isField(be.X, statusF) {
					return false, false
				}
				if cn, ok := ObjOf(info, be.Y).(*types.Const); ok && cn == transferring && transferring != nil {
					return be.Op == token.EQL, true
				}
				// `Status != QUEUED`: the same as gone-or-served where the tree shows that every member of the queue has status QUEUED
				if cn, ok := ObjOf(info, be.Y).(*types.Const); ok && cn.Name() == "ReceiverStatusQueued" && queueMembersAreQueued(p) {
					return be.Op == token.NEQ, true
				}
				return false, false
			}
			if v, ok := settled(e); ok {
				return "settled", v, true
			}
			return "", false, false
		}},
		{Stmt: func(g *FuncInfo, n ast.Node) (string, bool) {
			if as, ok := n.(*ast.AssignStmt); ok {
				for _, l := range as.Lhs {
					if ix, ok := ast.Unparen(l).(*ast.IndexExpr); ok && isField(ix.X, active) {
						return "settled", true
					}
				}
			}
			return "", false
		}},
	}
	spec.KillAll = func(g *FuncInfo, n ast.Node) bool { return n == pop.Node() }
	facts := spec.Facts(f)
	if facts == nil {
		c.Unknown("dequeue/flow", f.Pos(), "dataflow did not converge")
		return
	}
	k := 0
	for _, b := range cfg.Blocks {
		if !b.Live {
			continue
		}
		if len(b.Nodes) == 0 || !cfg.BlockDominates(pop.B, b) {
			continue // only the part of the round after the pop
		}
		exit := false
		what := ""
		if _, ok := IsReturnExit(b); ok {
			exit, what = true, "return"
		}
		for _, s := range b.Succs {
			if s.Live && !cfg.BlockDominates(pop.B, s) {
				exit, what = true, "next round"
			}
		}
		if !exit {
			continue
		}
		k++
		out := facts.AtEnd(b)
		c.Check(out != nil && out["pass:settled"], fmt.Sprintf("dequeue/exit#%d/%s", k, strings.ReplaceAll(what, " ", "-")), b.Nodes[len(b.Nodes)-1].Pos(),
			"the popped receiver was started, or is gone / already being served",
			"maybeStartTransfers can leave a round after taking a receiver off the queue without starting it, on a branch that is neither `state == nil` nor `Status == TRANSFERRING`: a receiver whose status is anything else (e.g. re-announced while waiting) is dropped from the queue, never started, and later arrivals overtake it")
	}
	if k == 0 {
		c.Unknown("dequeue/exits", f.Pos(), "found no loop exit after the pop")
	}
}

func init() {
	Register(&Rule{
		Name:  "R-TURN-CRED",
		Props: []string{"C16"},
		Min:   2,
		Doc: "TURN REST credentials: the secret handed to a peer is base64(HMAC(static secret, username)) computed on a MAC object that is fresh for this credential (hmac.New in the same function, or Reset() before the Write) - " +
			"a keyed hash kept across calls accumulates earlier usernames and every credential after the first is refused by the relay; " +
			"host:port strings in the TURN code of server and client are assembled with net.JoinHostPort, never by concatenation with \":\" (which drops the brackets of an IPv6 literal, so the client derives an undialable endpoint from the URL the server minted)",
		Run: runTurnCred,
	})
}

func runTurnCred(c *Ctx) {
	p := c.P
	// (1) MAC freshness in cmd/thruserv
	nsum := 0
	for _, f := range p.FuncsIn("cmd/thruserv") {
		info := f.Info()
		cfg := f.CFG()
		cfg.Calls(func(r NodeRef, call *ast.CallExpr) {
			sel, ok := ast.Unparen(call.Fun).(*ast.SelectorExpr)
			if !ok || sel.Sel.Name != "Sum" {
				return
			}
			t := info.TypeOf(sel.X)
			if t == nil || !strings.HasSuffix(types.Unalias(t).String(), "hash.Hash") {
				return
			}
			nsum++
			key := fmt.Sprintf("turn-cred/mac-fresh/%s#%d", f.Name, nsum)
			// a local, a parameter, or a field of the issuer (t.mac): the field's object stands for it
			objOrField := func(inf *types.Info, e ast.Expr) types.Object {
				if o := ObjOf(inf, e); o != nil {
					return o
				}
				if fs, ok := ast.Unparen(e).(*ast.SelectorExpr); ok {
					if v, ok := inf.Uses[fs.Sel].(*types.Var); ok && v.IsField() {
						return v
					}
				}
				return nil
			}
			macObj := objOrField(info, sel.X)
			if macObj == nil {
				c.Unknown(key, call.Pos(), "cannot identify the MAC object "+types.ExprString(sel.X))
				return
			}
			fresh := &PassSpec{Vias: []Via{{Stmt: func(g *FuncInfo, n ast.Node) (string, bool) {
				hit := false
				InspectNoLits(n, func(m ast.Node) bool {
					switch v := m.(type) {
					case *ast.AssignStmt:
						for i, l := range v.Lhs {
							if objOrField(g.Info(), l) == macObj && i < len(v.Rhs) {
								if nc, ok := ast.Unparen(v.Rhs[i]).(*ast.CallExpr); ok && calleeIs(g.Info(), nc, "crypto/hmac", "New") {
									hit = true
								}
							}
						}
					case *ast.CallExpr:
						if s2, ok := ast.Unparen(v.Fun).(*ast.SelectorExpr); ok && s2.Sel.Name == "Reset" && objOrField(g.Info(), s2.X) == macObj {
							hit = true
						}
					}
					return true
				})
				if hit {
					return "fresh", true
				}
				return "", false
			}}}}
			isFresh := fresh.Passed(f, r, "fresh")
			if !isFresh && f.Obj != nil && f.Type.Params != nil {
				// the MAC is a parameter: fresh if at every call site the argument was created or Reset in the caller before the call
				idx, j := -1, 0
				for _, fl := range f.Type.Params.List {
					for _, nm := range fl.Names {
						if info.Defs[nm] == macObj {
							idx = j
						}
						j++
					}
				}
				if sites := p.CallSites(f.Obj); idx >= 0 && len(sites) > 0 {
					all := true
					for _, st := range sites {
						var c2 *ast.CallExpr
						InspectNoLits(st.ref.Node(), func(n ast.Node) bool {
							if ce, ok := n.(*ast.CallExpr); ok && Callee(st.f.Info(), ce) == f.Obj {
								c2 = ce
							}
							return true
						})
						if c2 == nil || idx >= len(c2.Args) {
							all = false
							continue
						}
						if nc, ok := ast.Unparen(c2.Args[idx]).(*ast.CallExpr); ok && calleeIs(st.f.Info(), nc, "crypto/hmac", "New") {
							continue
						}
						ao := ObjOf(st.f.Info(), c2.Args[idx])
						if ao == nil {
							all = false
							continue
						}
						saved := macObj
						macObj = ao
						sub := &PassSpec{Vias: fresh.Vias}
						if !sub.Passed(st.f, st.ref, "fresh") {
							all = false
						}
						macObj = saved
					}
					isFresh = all
				}
			}
			c.Check(isFresh, key, call.Pos(), "the MAC is created (hmac.New) or Reset per credential before it is summed",
				"the credential is taken from a MAC object ("+types.ExprString(sel.X)+") that is neither created nor Reset in this function: a keyed hash shared across calls still contains the usernames of earlier credentials, so every credential after the first differs from base64(HMAC(secret, username)) and the relay refuses it")
		})
	}
	if nsum == 0 {
		c.Unknown("turn-cred/mac-fresh", token.NoPos, "no hash.Hash.Sum call found in cmd/thruserv (TURN credential computation)")
	}
	// (2) host:port assembly
	njoin, nconcat := 0, 0
	for _, pkg := range []string{"cmd/thruserv", "internal/ice"} {
		for _, f := range p.FuncsIn(pkg) {
			info := f.Info()
			InspectNoLits(f.Body, func(n ast.Node) bool {
				switch v := n.(type) {
				case *ast.CallExpr:
					if calleeIs(info, v, "net", "JoinHostPort") {
						njoin++
					}
				case *ast.BinaryExpr:
					if v.Op != token.ADD {
						return true
					}
					// X + ":" (+ Y) where the result is used as an address: flag any string concatenation with the literal ":"
					isColon := func(e ast.Expr) bool { sv, ok := constString(info, e); return ok && sv == ":" }
					if isColon(v.Y) || isColon(v.X) {
						other := v.X
						if isColon(v.X) {
							other = v.Y
						}
						if _, isConst := constString(info, other); isConst {
							return true
						}
						nconcat++
						c.Bad(fmt.Sprintf("turn-cred/hostport/%s#%d", f.Name, nconcat), v.Pos(), "host:port assembled by concatenation ("+types.ExprString(v)+"): an IPv6 literal loses its brackets, so for a relay configured as turn:[2001:db8::10]:3478 the client derives the undialable endpoint 2001:db8::10:3478 from the URL the server minted; use net.JoinHostPort")
					}
				}
				return true
			})
		}
	}
	if nconcat == 0 {
		c.Check(njoin > 0, "turn-cred/hostport", token.NoPos, fmt.Sprintf("no \":\" concatenation in server/ICE code; %d net.JoinHostPort calls", njoin), "no net.JoinHostPort call found in cmd/thruserv or internal/ice (anchor lost)")
	}
}

func init() {
	Register(&Rule{
		Name:  "R-RESEND-GATE",
		Props: []string{"C06", "C17", "C01"},
		Min:   6,
		Doc: "a chunk re-sent after a failed verification is not among the chunks the receiver counts as missing, so three things keep it from racing with finalisation (F20): " +
			"(sender) nextChunkToSend hands out a chunk only where verifyPending is false - the re-send, when there is one, is the first thing sent of the file; " +
			"(sender) every chunk frame written is counted (noteFrameSent on the success path of writeChunkFrame) and FileEnd carries that count; " +
			"(receiver) the file-complete verdict of recvFileStateMux requires remaining == 0 and, unless the file was started fresh (!needEnd), endReceived and framesRecv >= endFrames; " +
			"needEnd is set wherever a loaded bitmap reduced remaining",
		Run: runResendGate,
	})
}

func runResendGate(c *Ctx) {
	p := c.P
	fieldNamed := func(info *types.Info, e ast.Expr, name string) bool {
		sel, ok := ast.Unparen(e).(*ast.SelectorExpr)
		if !ok {
			return false
		}
		v, _ := info.Uses[sel.Sel].(*types.Var)
		return v != nil && v.IsField() && v.Name() == name
	}
	// (1) sender: nothing handed out while verifyPending
	if f := p.Func("transfer.(*sendFileState).nextChunkToSend"); f != nil {
		info := f.Info()
		spec := &PassSpec{Vias: []Via{{Cond: func(g *FuncInfo, e ast.Expr) (string, bool, bool) {
			if fieldNamed(g.Info(), e, "verifyPending") {
				return "verdict-in", false, true
			}
			return "", false, false
		}}}}
		n := 0
		for _, b := range f.CFG().Blocks {
			ret, ok := IsReturnExit(b)
			if !ok {
				continue
			}
			handsOut := false
			if len(ret.Results) == 3 {
				if tv := info.Types[ret.Results[2]]; tv.Value != nil && tv.Value.String() == "true" {
					handsOut = true
				}
			}
			// `return s.helper(idx)`: a method of the same state that hands the chunk out
			if len(ret.Results) == 1 {
				if call, isCall := ast.Unparen(ret.Results[0]).(*ast.CallExpr); isCall {
					if h := p.CalleeInfo(info, call); h != nil && h.Body != nil && h.Decl != nil && h.Decl.Recv != nil {
						ast.Inspect(h.Body, func(m ast.Node) bool {
							if r2, ok := m.(*ast.ReturnStmt); ok && len(r2.Results) == 3 {
								if tv := h.Info().Types[r2.Results[2]]; tv.Value != nil && tv.Value.String() == "true" {
									handsOut = true
								}
							}
							return true
						})
					}
				}
			}
			if !handsOut {
				continue
			}
			n++
			c.Check(spec.Passed(f, NodeRef{b, len(b.Nodes) - 1}, "verdict-in"), fmt.Sprintf("resend-gate/hand-out#%d/verdict-in", n), ret.Pos(), "a chunk is handed out only once the verification verdict is in",
				"nextChunkToSend can hand out a chunk while the verification of the receiver's last complete chunk is still pending: the remaining chunks can complete the file at the receiver before the re-send of a damaged chunk goes out, the re-send is then discarded as a late duplicate and both sides report success")
		}
		if n == 0 {
			c.Unknown("resend-gate/hand-out", f.Pos(), "nextChunkToSend has no `return ..., true`")
		}
	} else {
		c.MissingAnchor("transfer.(*sendFileState).nextChunkToSend")
	}
	// (2) sender: frames counted, count reported
	wcf := p.Func("transfer.writeChunkFrame")
	note := p.Func("transfer.(*sendFileState).noteFrameSent")
	if wcf == nil || note == nil {
		c.Bad("resend-gate/frame-count", token.NoPos, "the sender does not count the chunk frames it writes (no writeChunkFrame / noteFrameSent): a receiver that resumed a file cannot know whether a re-send is still coming")
	} else {
		nw := 0
		for _, f := range p.FuncsIn("internal/transfer") {
			info := f.Info()
			cfg := f.CFG()
			cfg.Calls(func(r NodeRef, call *ast.CallExpr) {
				if p.CalleeInfo(info, call) != wcf {
					return
				}
				nw++
				// success edge of the error test of this call
				var errObj types.Object
				switch st := r.Node().(type) {
				case *ast.AssignStmt:
					if len(st.Lhs) == 1 {
						errObj = ObjOf(info, st.Lhs[0])
					}
				}
				var succ NodeRef
				for _, b := range cfg.Blocks {
					cond, tb, fb, ok := CondEdges(b)
					if !ok || errObj == nil {
						continue
					}
					if o, nilOnTrue, okn := NilTest(info, cond); okn && o == errObj && cfg.Dominates(r, NodeRef{b, len(b.Nodes) - 1}) {
						if nilOnTrue {
							succ = NodeRef{tb, -1}
						} else {
							succ = NodeRef{fb, -1}
						}
						break
					}
				}
				if !succ.Valid() {
					c.Unknown(fmt.Sprintf("resend-gate/frame-counted/%s#%d", f.Name, nw), call.Pos(), "cannot find the error test of writeChunkFrame")
					return
				}
				counted := allPathsHit(cfg, succ, func(n ast.Node) bool {
					hit := false
					InspectNoLits(n, func(m ast.Node) bool {
						if c2, ok := m.(*ast.CallExpr); ok && p.CalleeInfo(info, c2) == note {
							hit = true
						}
						return true
					})
					return hit
				}, func(n ast.Node) bool {
					// must come before the chunk is reported done (which can emit FileEnd)
					bad := false
					InspectNoLits(n, func(m ast.Node) bool {
						if c2, ok := m.(*ast.CallExpr); ok {
							if g := p.CalleeInfo(info, c2); g != nil && g.Name == "transfer.(*sendFileState).markChunkDone" {
								bad = true
							}
						}
						return true
					})
					return bad
				})
				c.Check(counted, fmt.Sprintf("resend-gate/frame-counted/%s#%d", f.Name, nw), call.Pos(), "every written frame is counted before the chunk is reported done",
					"a chunk frame can be written without being counted before markChunkDone: FileEnd then announces fewer frames than were sent and a receiver that resumed the file finalises before the last of them (possibly the repair of a damaged chunk) arrived")
			})
		}
		if nw == 0 {
			c.Unknown("resend-gate/frame-counted", wcf.Pos(), "no call of writeChunkFrame found")
		}
		// FileEnd{CRC32: state.frameCount()} on the mux sender
		reported := false
		if send := p.Func("transfer.SendManifestMultiStream"); send != nil {
			var visit func(g *FuncInfo)
			visit = func(g *FuncInfo) {
				ast.Inspect(g.Body, func(n ast.Node) bool {
					cl, ok := n.(*ast.CompositeLit)
					if !ok {
						return true
					}
					if t := g.Info().TypeOf(cl); t == nil || !strings.HasSuffix(t.String(), "transfer.FileEnd") {
						return true
					}
					for _, el := range cl.Elts {
						if kv, ok := el.(*ast.KeyValueExpr); ok && types.ExprString(kv.Key) == "CRC32" {
							for _, d := range resolveExprs(g, kv.Value, 2) {
								if call, ok := ast.Unparen(d).(*ast.CallExpr); ok {
									if fi := p.CalleeInfo(g.Info(), call); fi != nil && fi.Name == "transfer.(*sendFileState).frameCount" {
										reported = true
									}
								}
							}
						}
					}
					return true
				})
				for _, k := range g.Kids {
					visit(k)
				}
			}
			visit(send)
		}
		c.Check(reported, "resend-gate/frame-count-reported", wcf.Pos(), "FileEnd carries the sender's frame count", "the multiplexed sender's FileEnd does not carry the number of frames sent for the file: a receiver that resumed the file cannot wait for a re-send")
	}
	// (3) receiver: the completeness verdict
	cl := p.Func("transfer.(*recvFileStateMux).completeLocked")
	if cl == nil {
		c.Bad("resend-gate/verdict", token.NoPos, "recvFileStateMux has no single completeness verdict (completeLocked): a resumed file is finalised as soon as no chunk is missing, before a re-sent chunk arrived")
		return
	}
	{
		info := cl.Info()
		spec := &PassSpec{Vias: []Via{{Cond: func(g *FuncInfo, e ast.Expr) (string, bool, bool) {
			if be, ok := ast.Unparen(e).(*ast.BinaryExpr); ok && fieldNamed(g.Info(), be.X, "remaining") {
				if z, isC := constInt(g.Info(), be.Y); isC && z == 0 {
					switch be.Op {
					case token.NEQ, token.GTR:
						return "none-missing", false, true
					case token.EQL:
						return "none-missing", true, true
					}
				}
			}
			if fieldNamed(g.Info(), e, "needEnd") {
				return "fresh-file", false, true
			}
			return "", false, false
		}}}}
		n := 0
		for _, b := range cl.CFG().Blocks {
			ret, ok := IsReturnExit(b)
			if !ok || len(ret.Results) != 1 {
				continue
			}
			if tv := info.Types[ret.Results[0]]; tv.Value != nil && tv.Value.String() == "false" {
				continue
			}
			n++
			ref := NodeRef{b, len(b.Nodes) - 1}
			key := fmt.Sprintf("resend-gate/verdict/return#%d", n)
			none := spec.Passed(cl, ref, "none-missing")
			fresh := spec.Passed(cl, ref, "fresh-file")
			endIn, framesIn := false, false
			for _, a := range Implied(ret.Results[0], true) {
				if a.Val && fieldNamed(info, a.E, "endReceived") {
					endIn = true
				}
				if be, ok := a.E.(*ast.BinaryExpr); ok && a.Val && be.Op == token.GEQ && fieldNamed(info, be.X, "framesRecv") && fieldNamed(info, be.Y, "endFrames") {
					framesIn = true
				}
				if be, ok := a.E.(*ast.BinaryExpr); ok && a.Val && be.Op == token.EQL && fieldNamed(info, be.X, "remaining") {
					if z, isC := constInt(info, be.Y); isC && z == 0 {
						none = true
					}
				}
			}
			c.Check(none && (fresh || (endIn && framesIn)), key, ret.Pos(), "complete only with nothing missing and, for a resumed file, FileEnd in and all announced frames processed",
				"the receiver can declare a file complete without (remaining == 0) && (!needEnd || (endReceived && framesRecv >= endFrames)): a resumed file is finalised while a re-sent (repair) chunk may still be on its way")
		}
		if n == 0 {
			c.Unknown("resend-gate/verdict", cl.Pos(), "completeLocked never returns a non-false value")
		}
	}
	// the done results of the state methods are that verdict
	for _, name := range []string{"transfer.(*recvFileStateMux).markChunkComplete", "transfer.(*recvFileStateMux).markEndReceived"} {
		f := p.Func(name)
		if f == nil {
			c.MissingAnchor(name)
			continue
		}
		info := f.Info()
		okAll, n := true, 0
		for _, b := range f.CFG().Blocks {
			ret, ok := IsReturnExit(b)
			if !ok || len(ret.Results) == 0 {
				continue
			}
			n++
			res := ret.Results[0]
			if tv := info.Types[res]; tv.Value != nil && tv.Value.String() == "false" {
				continue
			}
			isVerdict := false
			for _, d := range resolveExprs(f, res, 2) {
				if call, ok := ast.Unparen(d).(*ast.CallExpr); ok && p.CalleeInfo(info, call) == cl {
					isVerdict = true
				}
			}
			if !isVerdict {
				okAll = false
			}
		}
		c.Check(okAll && n > 0, "resend-gate/verdict-used/"+name, f.Pos(), "the done result is completeLocked()", name+" reports a file complete by something other than completeLocked(): the resumed-file conditions (FileEnd in, all announced frames processed) are bypassed")
	}
	// frames are counted on the receiver for every processed chunk, and needEnd is set where the bitmap reduced remaining
	if mc := p.Func("transfer.(*recvFileStateMux).markChunkComplete"); mc != nil {
		info := mc.Info()
		cfg := mc.CFG()
		inc := func(n ast.Node) bool {
			if s, ok := n.(*ast.IncDecStmt); ok && s.Tok == token.INC && fieldNamed(info, s.X, "framesRecv") {
				return true
			}
			return false
		}
		c.Check(allPathsHit(cfg, NodeRef{cfg.Entry(), -1}, inc, func(ast.Node) bool { return false }), "resend-gate/frames-received-counted", mc.Pos(), "every processed chunk increments framesRecv",
			"markChunkComplete has a path that does not count the processed frame: the receiver waits for announced frames that it already processed (hang) or, if counted twice, finalises early")
	}
	nNeed := 0
	for _, f := range p.FuncsIn("internal/transfer") {
		info := f.Info()
		f.CFG().EachNode(func(r NodeRef) {
			as, ok := r.Node().(*ast.AssignStmt)
			if !ok || len(as.Lhs) != 1 || !fieldNamed(info, as.Lhs[0], "remaining") {
				return
			}
			if be, ok := StripConv(info, as.Rhs[0]).(*ast.BinaryExpr); !ok || be.Op != token.SUB {
				return
			}
			nNeed++
			// needEnd assigned in the same block region after/before: look for an assignment to needEnd in the same function that this node reaches or that reaches it
			set := false
			f.CFG().EachNode(func(r2 NodeRef) {
				if a2, ok := r2.Node().(*ast.AssignStmt); ok && len(a2.Lhs) == 1 && fieldNamed(info, a2.Lhs[0], "needEnd") && (f.CFG().Reaches(r, r2) || f.CFG().Reaches(r2, r)) {
					if types.ExprString(a2.Rhs[0]) != "false" {
						set = true
					}
				}
			})
			c.Check(set, fmt.Sprintf("resend-gate/need-end/%s#%d", f.Name, nNeed), as.Pos(), "needEnd is set where the loaded bitmap reduced remaining",
				"remaining is reduced by the recorded chunks without marking the file as resumed (needEnd): it is finalised on its last missing chunk although a re-send may follow")
			// ... and set whenever anything was skipped: the value follows from `skipped > 0` alone (round 8)
			sub := StripConv(info, as.Rhs[0]).(*ast.BinaryExpr).Y
			subObj := ObjOf(info, StripConv(info, sub))
			f.CFG().EachNode(func(r2 NodeRef) {
				a2, ok := r2.Node().(*ast.AssignStmt)
				if !ok || len(a2.Lhs) != 1 || !fieldNamed(info, a2.Lhs[0], "needEnd") || !(f.CFG().Reaches(r, r2) || f.CFG().Reaches(r2, r)) || types.ExprString(a2.Rhs[0]) == "false" {
					return
				}
				var positive func(e ast.Expr) bool
				positive = func(e ast.Expr) bool {
					e = ast.Unparen(e)
					if types.ExprString(e) == "true" {
						return true
					}
					be, ok := e.(*ast.BinaryExpr)
					if !ok {
						if id, ok := e.(*ast.Ident); ok {
							for _, d := range resolveExprsAll(f, id) {
								if !positive(d) {
									return false
								}
							}
							return len(resolveExprsAll(f, id)) > 0
						}
						return false
					}
					switch be.Op {
					case token.LOR:
						return positive(be.X) || positive(be.Y)
					case token.LAND:
						return positive(be.X) && positive(be.Y)
					case token.GTR, token.NEQ:
						if v, ok := constInt(info, be.Y); ok && v == 0 && subObj != nil && ObjOf(info, StripConv(info, be.X)) == subObj {
							return true
						}
					case token.GEQ:
						if v, ok := constInt(info, be.Y); ok && v == 1 && subObj != nil && ObjOf(info, StripConv(info, be.X)) == subObj {
							return true
						}
					case token.LSS:
						if v, ok := constInt(info, be.X); ok && v == 0 && subObj != nil && ObjOf(info, StripConv(info, be.Y)) == subObj {
							return true
						}
					}
					return false
				}
				c.Check(positive(a2.Rhs[0]), fmt.Sprintf("resend-gate/need-end/%s#%d/whenever-skipped", f.Name, nNeed), a2.Pos(), "needEnd holds whenever recorded chunks were skipped",
					"needEnd = "+types.ExprString(a2.Rhs[0])+" can be false although recorded chunks were skipped: the sender re-sends the highest recorded chunk after a failed hash comparison, that chunk is not among the missing ones, "+
						"and FileEnd travels on another stream than the chunk - a file with nothing missing is finalised by FileEnd alone, the corrected chunk is dropped as a late duplicate and the damaged one stays in a tree reported as delivered")
			})
		})
	}
}

func init() {
	Register(&Rule{
		Name:  "R-BOUNDED-STOP",
		Props: []string{"C03", "C02", "C15"},
		Min:   6,
		Doc: "places where an endpoint could wait for something the protocol does not promise (F21-F24): " +
			"(wake-up) fileWaitRegistry.wait consults the set of already signalled ids in the critical section in which it registers its waiter, and signal records the id in the critical section in which it removes the waiters - a look-up followed by wait cannot miss a signal that came in between; " +
			"(dispatcher) nothing reachable from the receiver's control-record handler calls fileReady.wait: the handler runs in the loop that would have to handle the awaited FileBegin; " +
			"(end) once the End record is taken off the control channel the receiver returns on every path (nothing is read from the stream after End), and a file is counted complete before its FileDone is queued, so an honest End finds the count complete; " +
			"(acks) the sender's acknowledgement reader returns without reporting an error only for context.Canceled",
		Run: runBoundedStop,
	})
}

func runBoundedStop(c *Ctx) {
	p := c.P
	ls := NewLockSpec()
	// ---- (wake-up)
	wait := p.Func("transfer.(*fileWaitRegistry).wait")
	sig := p.Func("transfer.(*fileWaitRegistry).signal")
	if wait == nil || sig == nil {
		c.MissingAnchor("transfer.(*fileWaitRegistry).wait / signal")
	} else {
		info := wait.Info()
		cfg := wait.CFG()
		fieldSel := func(i *types.Info, e ast.Expr, name string) bool {
			e = ast.Unparen(e)
			if ix, ok := e.(*ast.IndexExpr); ok {
				e = ast.Unparen(ix.X)
			}
			sel, ok := e.(*ast.SelectorExpr)
			if !ok {
				return false
			}
			v, _ := i.Uses[sel.Sel].(*types.Var)
			return v != nil && v.IsField() && v.Name() == name
		}
		// the append to waiters
		var reg NodeRef
		cfg.EachNode(func(r NodeRef) {
			if as, ok := r.Node().(*ast.AssignStmt); ok && len(as.Lhs) == 1 && fieldSel(info, as.Lhs[0], "waiters") {
				reg = r
			}
		})
		if !reg.Valid() {
			c.Unknown("wake-up/wait", wait.Pos(), "cannot find the registration of the waiter")
		} else {
			// a condition on a look-up in a set of signalled ids, false edge, in the same critical section
			consulted := &PassSpec{SkipDefer: true}
			sigObjs := map[types.Object]bool{}
			ast.Inspect(wait.Body, func(n ast.Node) bool {
				if as, ok := n.(*ast.AssignStmt); ok && len(as.Rhs) == 1 && len(as.Lhs) == 2 {
					if ix, ok := ast.Unparen(as.Rhs[0]).(*ast.IndexExpr); ok {
						if sel, ok := ast.Unparen(ix.X).(*ast.SelectorExpr); ok {
							if v, _ := info.Uses[sel.Sel].(*types.Var); v != nil && v.IsField() && v.Name() != "waiters" {
								if _, isMap := v.Type().Underlying().(*types.Map); isMap {
									sigObjs[ObjOf(info, as.Lhs[1])] = true
								}
							}
						}
					}
				}
				return true
			})
			consulted.Vias = []Via{{Cond: func(g *FuncInfo, e ast.Expr) (string, bool, bool) {
				if o := ObjOf(g.Info(), e); o != nil && sigObjs[o] {
					return "not-yet-signalled", false, true
				}
				return "", false, false
			}}}
			consulted.KillAll = func(g *FuncInfo, n ast.Node) bool {
				kill := false
				InspectNoLits(n, func(m ast.Node) bool {
					if call, ok := m.(*ast.CallExpr); ok {
						if _, op, ok := mutexOp(g.Info(), call); ok && (op == "Unlock" || op == "Lock") {
							kill = true // what was learnt in another critical section does not count
						}
					}
					return true
				})
				return kill
			}
			held := len(HeldAny(ls, wait, reg)) > 0
			c.Check(held && consulted.Passed(wait, reg, "not-yet-signalled"), "wake-up/wait-consults-signalled", reg.Node().Pos(), "the waiter is registered only after the signalled set said 'not yet', in one critical section",
				"fileWaitRegistry.wait registers its waiter without consulting, in the same critical section, the ids that were already signalled: callers look the file up and then wait; a FileBegin handled between the two steps signals nobody and the reader waits forever (about 3 of 100 transfers of 40 small files over 8 streams between healthy peers)")
		}
		si := sig.Info()
		recorded := false
		sig.CFG().EachNode(func(r NodeRef) {
			if as, ok := r.Node().(*ast.AssignStmt); ok && len(as.Lhs) == 1 {
				if ix, ok := ast.Unparen(as.Lhs[0]).(*ast.IndexExpr); ok {
					if sel, ok := ast.Unparen(ix.X).(*ast.SelectorExpr); ok {
						if v, _ := si.Uses[sel.Sel].(*types.Var); v != nil && v.IsField() && v.Name() != "waiters" && len(HeldAny(ls, sig, r)) > 0 {
							recorded = true
						}
					}
				}
			}
		})
		c.Check(recorded, "wake-up/signal-records", sig.Pos(), "signal records the id under the lock", "fileWaitRegistry.signal does not record the signalled id under its lock: a later wait for that id blocks forever")
	}
	// ---- (dispatcher)
	recv := p.Func("transfer.RecvManifestMultiStream")
	if recv == nil {
		c.MissingAnchor("transfer.RecvManifestMultiStream")
		return
	}
	var handle *FuncInfo
	for _, k := range recv.Kids {
		if k.Var != nil && k.Var.Name() == "handleControl" {
			handle = k
		}
	}
	if handle == nil {
		c.MissingAnchor("transfer.RecvManifestMultiStream$handleControl")
	} else {
		seen := map[*FuncInfo]bool{}
		var blocked []string
		var walk func(g *FuncInfo, path string)
		walk = func(g *FuncInfo, path string) {
			if seen[g] {
				return
			}
			seen[g] = true
			gi := g.Info()
			InspectNoLits(g.Body, func(n ast.Node) bool {
				call, ok := n.(*ast.CallExpr)
				if !ok {
					return true
				}
				if fi := p.CalleeInfo(gi, call); fi != nil && fi.Name == "transfer.(*fileWaitRegistry).wait" {
					blocked = append(blocked, path+" -> "+g.Name+" at "+p.Pos(call.Pos()))
				}
				if id, ok := ast.Unparen(call.Fun).(*ast.Ident); ok {
					if v, ok := ObjOf(gi, id).(*types.Var); ok {
						if h := p.ClosureOfVar(v); h != nil {
							walk(h, path+" -> "+g.Name)
						}
					}
				}
				return true
			})
		}
		walk(handle, "control loop")
		c.Stat("dispatcher_closures", len(seen))
		c.Check(len(blocked) == 0, "dispatcher/never-waits-for-a-file", handle.Pos(), fmt.Sprintf("%d handler closures reachable from handleControl, none waits for a file to begin", len(seen)),
			"a control-record handler waits for a file to begin ("+strings.Join(blocked, "; ")+"): it runs inside the loop that handles FileBegin, so the awaited record can never be handled and the receiver stays blocked after the peer went away")
	}
	// ---- (end)
	{
		info := recv.Info()
		cfg := recv.CFG()
		endConst, _ := p.LookupObj("internal/transfer", "controlTypeEnd").(*types.Const)
		n := 0
		for _, b := range cfg.Blocks {
			cond, tb, _, ok := CondEdges(b)
			if !ok || endConst == nil {
				continue
			}
			be, isB := ast.Unparen(cond).(*ast.BinaryExpr)
			if !isB || be.Op != token.EQL || ObjOf(info, be.Y) != endConst {
				continue
			}
			// only the main loop (after the data-stream announcement): the event comes off controlCh in a select
			if _, isSel := ast.Unparen(be.X).(*ast.SelectorExpr); !isSel {
				continue
			}
			n++
			// every path from the true edge reaches a return without leaving through a back edge
			allReturn := true
			seenB := map[int32]bool{}
			stack := []NodeRef{{tb, -1}}
			for len(stack) > 0 {
				cur := stack[len(stack)-1]
				stack = stack[:len(stack)-1]
				if seenB[cur.B.Index] {
					continue
				}
				seenB[cur.B.Index] = true
				if _, isRet := IsReturnExit(cur.B); isRet {
					continue
				}
				if len(cur.B.Succs) == 0 {
					continue
				}
				for _, s := range cur.B.Succs {
					if !s.Live {
						continue
					}
					if cfg.BlockDominates(s, b) && s != tb { // jumps back to (or before) the test: the loop goes on waiting
						allReturn = false
					}
					stack = append(stack, NodeRef{s, -1})
				}
			}
			c.Check(allReturn, fmt.Sprintf("end/returns#%d", n), cond.Pos(), "after End the receiver returns on every path",
				"after taking the End record off the control channel the receiver can go on waiting: the control stream is not read after End, so a peer that sent End early and went away can never wake it - it blocks although all its input has ended")
		}
		if n == 0 {
			c.Unknown("end/returns", recv.Pos(), "cannot find the test `ev.typ == controlTypeEnd` in the receiver's main loop")
		}
		// counted before FileDone is queued
		var fin *FuncInfo
		for _, k := range recv.Kids {
			if k.Var != nil && k.Var.Name() == "finalizeFile" {
				fin = k
			}
		}
		if fin == nil {
			c.MissingAnchor("transfer.RecvManifestMultiStream$finalizeFile")
		} else {
			fi := fin.Info()
			fcfg := fin.CFG()
			var inc, send NodeRef
			fcfg.EachNode(func(r NodeRef) {
				switch s := r.Node().(type) {
				case *ast.IncDecStmt:
					if id, ok := ast.Unparen(s.X).(*ast.Ident); ok && id.Name == "completedCount" && s.Tok == token.INC {
						inc = r
					}
				}
			})
			if qn := ackQueueNode(p, fin, "done"); qn != nil {
				send = fcfg.Find(qn.Pos())
			}
			_ = fi
			if !inc.Valid() || !send.Valid() {
				c.Unknown("end/counted-before-ack", fin.Pos(), "cannot find completedCount++ / the FileDone enqueue in finalizeFile")
			} else {
				c.Check(fcfg.Reaches(inc, send) && !fcfg.Reaches(send, inc), "end/counted-before-ack", inc.Node().Pos(), "a file is counted before its FileDone is queued",
					"finalizeFile queues the FileDone before it counts the file: the sender can see every acknowledgement and send End while the count here is still short, and the receiver then reports an honest End as premature")
			}
		}
	}
	// ---- (acks)
	if send := p.Func("transfer.SendManifestMultiStream"); send != nil {
		n := 0
		for _, k := range send.Kids {
			ki := k.Info()
			reads := false
			InspectNoLits(k.Body, func(m ast.Node) bool {
				if call, ok := m.(*ast.CallExpr); ok {
					if fi := p.CalleeInfo(ki, call); fi != nil && fi.Name == "transfer.readControlMessage" {
						reads = true
					}
				}
				return true
			})
			if !reads {
				continue
			}
			// the error variable of the read
			var readErr types.Object
			var readNode ast.Node
			InspectNoLits(k.Body, func(m ast.Node) bool {
				if as, ok := m.(*ast.AssignStmt); ok && len(as.Rhs) == 1 && len(as.Lhs) >= 2 {
					if call, ok := ast.Unparen(as.Rhs[0]).(*ast.CallExpr); ok {
						if fi := p.CalleeInfo(ki, call); fi != nil && fi.Name == "transfer.readControlMessage" {
							readErr = ObjOf(ki, as.Lhs[len(as.Lhs)-1])
							readNode = as
						}
					}
				}
				return true
			})
			spec := &PassSpec{NoInheritAsync: true, Vias: []Via{
				{Cond: func(g *FuncInfo, e ast.Expr) (string, bool, bool) {
					if call, ok := ast.Unparen(e).(*ast.CallExpr); ok && calleeIs(g.Info(), call, "errors", "Is") && len(call.Args) == 2 {
						if strings.HasSuffix(types.ExprString(call.Args[1]), "context.Canceled") && ObjOf(g.Info(), call.Args[0]) == readErr {
							return "reported-or-cancelled", true, true
						}
					}
					if o, nilOnTrue, ok := NilTest(g.Info(), e); ok && o == readErr && readErr != nil {
						return "reported-or-cancelled", nilOnTrue, true // no error: not an error exit
					}
					return "", false, false
				}},
			}}
			spec.KillAll = func(g *FuncInfo, n ast.Node) bool { return n == readNode }
			kcfg := k.CFG()
			// a send on an error channel is a communication of a select clause: facts are generated on clause entry
			spec.Vias = append(spec.Vias, Via{Stmt: func(g *FuncInfo, nd ast.Node) (string, bool) {
				if ss, ok := nd.(*ast.SendStmt); ok {
					if t := g.Info().TypeOf(ss.Value); t != nil && isErrorType(t) {
						return "reported-or-cancelled", true
					}
				}
				return "", false
			}})
			for _, b := range kcfg.Blocks {
				ret, ok := IsReturnExit(b)
				if !ok {
					continue
				}
				ref := NodeRef{b, len(b.Nodes) - 1}
				// only returns on the error path of the read
				n++
				_ = ret
				okRet := spec.Passed(k, ref, "reported-or-cancelled")
				if os.Getenv("TFDEBUG") == "acks" {
					fmt.Fprintf(os.Stderr, "ACKS return at %s passed=%v facts=%v\n", p.Pos(ret.Pos()), okRet, spec.PassedList(k, ref))
				}
				if !okRet {
					// `select { case ch <- err: default: }` : the default arm also counts as an attempt to report (channel of capacity 1 already holds an error)
					for _, pb := range kcfg.Preds(b) {
						_ = pb
					}
					okRet = returnFollowsReportSelect(k, ret)
				}
				c.Check(okRet, fmt.Sprintf("acks/%s/return#%d", k.Name, n), b.Nodes[len(b.Nodes)-1].Pos(), "the acknowledgement reader ends silently only for a cancelled context",
					"the sender's acknowledgement reader can return after a read error without reporting it (only context.Canceled may be silent): when the receiver ends its side of the control stream before acknowledging every file, the sender keeps waiting for FileDone records that can no longer arrive")
			}
		}
		if n == 0 {
			c.Unknown("acks/reader", send.Pos(), "cannot find the acknowledgement reader (a goroutine of SendManifestMultiStream calling readControlMessage)")
		}
	}
}

// returnFollowsReportSelect: ret is the statement right after a `select` whose non-default clause sends an error, or it is the
// body of a select clause that received from a context's Done channel.
func returnFollowsReportSelect(f *FuncInfo, ret *ast.ReturnStmt) bool {
	info := f.Info()
	okAll := false
	ast.Inspect(f.Body, func(n ast.Node) bool {
		switch v := n.(type) {
		case *ast.BlockStmt:
			for i, st := range v.List {
				sel, ok := st.(*ast.SelectStmt)
				if !ok || i+1 >= len(v.List) || v.List[i+1] != ast.Stmt(ret) {
					continue
				}
				for _, cl := range sel.Body.List {
					if cc := cl.(*ast.CommClause); cc.Comm != nil {
						if ss, ok := cc.Comm.(*ast.SendStmt); ok {
							if t := info.TypeOf(ss.Value); t != nil && isErrorType(t) {
								okAll = true
							}
						}
					}
				}
			}
		case *ast.CommClause:
			if v.Comm == nil || len(v.Body) == 0 || v.Body[0] != ast.Stmt(ret) {
				return true
			}
			if es, ok := v.Comm.(*ast.ExprStmt); ok {
				if u, ok := ast.Unparen(es.X).(*ast.UnaryExpr); ok && u.Op == token.ARROW {
					if call, ok := ast.Unparen(u.X).(*ast.CallExpr); ok {
						if sel, ok := ast.Unparen(call.Fun).(*ast.SelectorExpr); ok && sel.Sel.Name == "Done" {
							okAll = true
						}
					}
				}
			}
		}
		return true
	})
	return okAll
}

func init() {
	Register(&Rule{
		Name:  "R-WG-ORDER",
		Props: []string{"C03", "C09"},
		Min:   1,
		Doc: "sync.WaitGroup discipline: a goroutine that calls Wait on a group is started only at a point from which no Add on that group is reachable any more - " +
			"a Wait that runs before the first Add finds an empty group, returns at once and its 'everything finished' signal fires while the work has not started (ProbeAndDial reported 'all probes failed' against a healthy listener: F25)",
		Run: runWgOrder,
	})
}

func runWgOrder(c *Ctx) {
	p := c.P
	n := 0
	for _, f := range p.Funcs() {
		if f.Body == nil || strings.HasSuffix(p.Pos(f.Pos()), "_test.go") {
			continue
		}
		info := f.Info()
		// wait groups declared in f
		wgs := map[types.Object]bool{}
		InspectNoLits(f.Body, func(m ast.Node) bool {
			if id, ok := m.(*ast.Ident); ok {
				if o, ok := info.Defs[id].(*types.Var); ok && o != nil && strings.HasSuffix(o.Type().String(), "sync.WaitGroup") {
					wgs[o] = true
				}
			}
			return true
		})
		if len(wgs) == 0 {
			continue
		}
		cfg := f.CFG()
		callsOn := func(node ast.Node, meth string, intoLits bool) map[types.Object]ast.Node {
			out := map[types.Object]ast.Node{}
			visit := func(m ast.Node) bool {
				if call, ok := m.(*ast.CallExpr); ok {
					if sel, ok := ast.Unparen(call.Fun).(*ast.SelectorExpr); ok && sel.Sel.Name == meth {
						if o := ObjOf(info, sel.X); o != nil && wgs[o] {
							out[o] = call
						}
					}
				}
				return true
			}
			if intoLits {
				ast.Inspect(node, visit)
			} else {
				InspectNoLits(node, visit)
			}
			return out
		}
		cfg.EachNode(func(r NodeRef) {
			gs, ok := r.Node().(*ast.GoStmt)
			if !ok {
				return
			}
			lit, ok := ast.Unparen(gs.Call.Fun).(*ast.FuncLit)
			if !ok {
				return
			}
			for wg := range callsOn(lit.Body, "Wait", true) {
				n++
				late := ""
				cfg.EachNode(func(r2 NodeRef) {
					if r2 == r || !cfg.Reaches(r, r2) {
						return
					}
					if a, ok := callsOn(r2.Node(), "Add", false)[wg]; ok {
						late = p.Pos(a.Pos())
					}
				})
				c.Check(late == "", fmt.Sprintf("wg-order/%s/%s#%d", f.Name, wg.Name(), n), gs.Pos(), "the waiting goroutine is started after the last Add on "+wg.Name(),
					"a goroutine waiting on "+wg.Name()+" is started while "+wg.Name()+".Add can still follow (at "+late+"): if it runs first, Wait finds an empty group and returns at once, and whatever it signals ('all done') fires before the work started")
			}
		})
	}
}

// queueMembersAreQueued: the non-test code of internal/app shows, step by step, that a receiver in SnapshotSender.queue has
// Status == ReceiverStatusQueued (all under SnapshotSender.mu, which R-LOCKSET decides):
//   (1) every call of the function that appends to the queue is reached behind `<state>.Status = ReceiverStatusQueued`;
//   (2) every other assignment of a Status constant is (a) under a condition that implies Status != Queued, (b) in a function
//       that takes the receiver off the queue (re-assigns the queue from a slice of it / a filtered copy), or (c) under the
//       ownership test of a running transfer (`active[..] == slot`, or the finished-while-leaving form that asks for Status == Failed):
//       a receiver that owns a slot was popped before it got it, and an accept of a transferring receiver returns early.
func queueMembersAreQueued(p *Program) bool {
	okAll, nAssign, nEnq := true, 0, 0
	var enqueuers []*FuncInfo
	for _, f := range p.FuncsIn("internal/app") {
		if f.Body == nil || strings.HasSuffix(p.Fset.Position(f.Pos()).Filename, "_test.go") {
			continue
		}
		info := f.Info()
		InspectNoLits(f.Body, func(m ast.Node) bool {
			as, ok := m.(*ast.AssignStmt)
			if !ok || len(as.Lhs) != 1 || len(as.Rhs) != 1 {
				return true
			}
			if sel, ok := ast.Unparen(as.Lhs[0]).(*ast.SelectorExpr); ok && sel.Sel.Name == "queue" {
				if call, ok := ast.Unparen(as.Rhs[0]).(*ast.CallExpr); ok {
					if id, ok := ast.Unparen(call.Fun).(*ast.Ident); ok && id.Name == "append" && len(call.Args) >= 2 {
						if s0, ok := ast.Unparen(call.Args[0]).(*ast.SelectorExpr); ok && s0.Sel.Name == "queue" {
							enqueuers = append(enqueuers, f)
						}
					}
				}
			}
			_ = info
			return true
		})
	}
	isEnq := func(g *FuncInfo) bool {
		for _, e := range enqueuers {
			if e == g {
				return true
			}
		}
		return false
	}
	for _, f := range p.FuncsIn("internal/app") {
		if f.Body == nil || strings.HasSuffix(p.Fset.Position(f.Pos()).Filename, "_test.go") {
			continue
		}
		info := f.Info()
		statusConst := func(e ast.Expr) string {
			if cn, ok := ObjOf(info, e).(*types.Const); ok && strings.HasPrefix(cn.Name(), "ReceiverStatus") {
				return cn.Name()
			}
			return ""
		}
		// (1)
		spec := &PassSpec{SkipDefer: true, Vias: []Via{{Stmt: func(g *FuncInfo, n ast.Node) (string, bool) {
			if as, ok := n.(*ast.AssignStmt); ok && len(as.Lhs) == 1 && len(as.Rhs) == 1 {
				if sel, ok := ast.Unparen(as.Lhs[0]).(*ast.SelectorExpr); ok && sel.Sel.Name == "Status" && statusConst(as.Rhs[0]) == "ReceiverStatusQueued" {
					return "queued", true
				}
			}
			return "", false
		}}}}
		f.CFG().Calls(func(r NodeRef, call *ast.CallExpr) {
			if g := p.CalleeInfo(info, call); g != nil && isEnq(g) && !isEnq(f) {
				nEnq++
				if !spec.Passed(f, r, "queued") {
					okAll = false
				}
			}
		})
		// does f take receivers off the queue?
		dequeues := false
		InspectNoLits(f.Body, func(m ast.Node) bool {
			as, ok := m.(*ast.AssignStmt)
			if !ok || len(as.Lhs) != 1 || len(as.Rhs) != 1 {
				return true
			}
			if sel, ok := ast.Unparen(as.Lhs[0]).(*ast.SelectorExpr); ok && sel.Sel.Name == "queue" {
				switch r := ast.Unparen(as.Rhs[0]).(type) {
				case *ast.SliceExpr:
					dequeues = true
				case *ast.Ident:
					_ = r
					dequeues = true // a filtered copy
				}
			}
			return true
		})
		// (2)
		InspectNoLits(f.Body, func(m ast.Node) bool {
			as, ok := m.(*ast.AssignStmt)
			if !ok || len(as.Lhs) != 1 || len(as.Rhs) != 1 {
				return true
			}
			sel, ok := ast.Unparen(as.Lhs[0]).(*ast.SelectorExpr)
			if !ok || sel.Sel.Name != "Status" {
				return true
			}
			if t := info.TypeOf(sel.X); t == nil || !strings.HasSuffix(strings.TrimPrefix(t.String(), "*"), "ReceiverState") {
				return true
			}
			v := statusConst(as.Rhs[0])
			if v == "ReceiverStatusQueued" {
				return true
			}
			nAssign++
			if v == "" {
				okAll = false // a computed status
				return true
			}
			good := dequeues
			for _, is := range enclosingIfs(f.Body, as) {
				if !(is.Body.Pos() <= as.Pos() && as.End() <= is.Body.End()) {
					continue
				}
				cs := types.ExprString(is.Cond)
				for _, a := range Implied(is.Cond, true) {
					if be, ok := ast.Unparen(a.E).(*ast.BinaryExpr); ok && a.Val && be.Op == token.NEQ && statusConst(be.Y) == "ReceiverStatusQueued" {
						good = true // (a)
					}
				}
				if strings.Contains(cs, "active[") || strings.Contains(cs, "finishedWhileLeaving") {
					good = true // (c)
				}
			}
			if !good {
				okAll = false
			}
			return true
		})
	}
	return okAll && nAssign > 0 && nEnq > 0
}
