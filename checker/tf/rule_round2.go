package tf

// Rules added after the second round of seeded changes (DESIGN.md section 8.2).

import (
	"fmt"
	"go/ast"
	"go/token"
	"go/types"
	"strings"
)

func init() {
	Register(&Rule{
		Name:  "R-FS-ERR",
		Props: []string{"C02"},
		Min:   8,
		Doc: "on the receive side every os.Mkdir/MkdirAll/OpenFile/Create/Rename/WriteFile has its error bound and tested by a plain `err != nil` whose branch reports it: " +
			"no class of errors is exempted (`&& !os.IsExist(err)`: EEXIST is also what an obstructing regular file returns) and none is discarded - an output path that cannot be written must make the transfer fail",
		Run: runFsErr,
	})
	Register(&Rule{
		Name:  "R-NO-RELOCK",
		Props: []string{"C03", "C11", "C12"},
		Min:   10,
		Doc: "sync.Mutex is not reentrant: while a mutex is held (lockset), no call goes to a function or closure (resolved statically, two levels) that acquires the same mutex " +
			"(same captured variable, or same field on the same receiver): such a path blocks forever on its own lock and, through it, every other user of that lock",
		Run: runNoRelock,
	})
}

func runFsErr(c *Ctx) {
	p := c.P
	targets := map[string]bool{"Mkdir": true, "MkdirAll": true, "OpenFile": true, "Create": true, "Rename": true, "WriteFile": true}
	var funcs []*FuncInfo
	funcs = append(funcs, recvDataFuncs(p)...)
	for _, f := range p.FuncsIn("internal/transfer") {
		if strings.HasPrefix(f.Root().Name, "transfer.(*Sidecar)") {
			funcs = append(funcs, f)
		}
	}
	for _, f := range p.FuncsIn("internal/app") {
		if strings.HasPrefix(f.Root().Name, "app.(*snapshotReceiver)") || strings.HasPrefix(f.Root().Name, "app.RunSnapshotReceiver") {
			funcs = append(funcs, f)
		}
	}
	for _, f := range funcs {
		info := f.Info()
		cfg := f.CFG()
		n := 0
		cfg.Calls(func(r NodeRef, call *ast.CallExpr) {
			fn := Callee(info, call)
			if fn == nil || fn.Pkg() == nil || fn.Pkg().Path() != "os" || !targets[fn.Name()] {
				return
			}
			if sig := fn.Type().(*types.Signature); sig.Recv() != nil {
				return
			}
			n++
			key := fmt.Sprintf("fs-err/%s#%d/os.%s", f.Name, n, fn.Name())
			// the variable the error is bound to
			var errObj types.Object
			switch st := r.Node().(type) {
			case *ast.AssignStmt:
				for i, l := range st.Lhs {
					if len(st.Rhs) == 1 && ast.Unparen(st.Rhs[0]) == ast.Expr(call) {
						if t := info.TypeOf(l); t != nil && isErrorType(t) && i == len(st.Lhs)-1 {
							errObj = ObjOf(info, l)
						}
					}
				}
			}
			if errObj == nil {
				c.Bad(key, call.Pos(), "the error of os."+fn.Name()+" is discarded: an output path that cannot be created is not reported, and the transfer can still end in success")
				return
			}
			// the first condition that tests it
			var test ast.Expr
			var testBlk NodeRef
			for _, b := range cfg.Blocks {
				cond, _, _, ok := CondEdges(b)
				if !ok {
					continue
				}
				mentions := false
				ast.Inspect(cond, func(m ast.Node) bool {
					if id, ok := m.(*ast.Ident); ok && ObjOf(info, id) == errObj {
						mentions = true
					}
					return true
				})
				ref := NodeRef{b, len(b.Nodes) - 1}
				if mentions && cfg.Dominates(r, ref) && (test == nil || cfg.Dominates(ref, testBlk)) {
					test, testBlk = cond, ref
				}
			}
			if test == nil {
				c.Bad(key, call.Pos(), "the error of os."+fn.Name()+" is never tested")
				return
			}
			atoms := Implied(test, true)
			plain := len(atoms) == 1
			if plain {
				o, nilOnTrue, ok := NilTest(info, atoms[0].E)
				plain = ok && o == errObj && nilOnTrue != atoms[0].Val
			}
			c.Check(plain, key, call.Pos(), "error tested by a plain err != nil",
				"the error of os."+fn.Name()+" is tested by `"+types.ExprString(test)+"`, which lets a class of errors pass (for os.Mkdir, EEXIST is also returned when a regular file sits at the path): an output path that cannot be written is accepted and both sides can report success with the entry missing")
		})
	}
}

// locksOf returns the mutex expressions (as written, e.g. "stateMu", "s.mu") that f acquires in its own body, not counting
// nested literals that are started asynchronously.
func locksOf(f *FuncInfo) map[string]token.Pos {
	out := map[string]token.Pos{}
	if f == nil || f.Body == nil {
		return out
	}
	info := f.Info()
	InspectNoLits(f.Body, func(n ast.Node) bool {
		if call, ok := n.(*ast.CallExpr); ok {
			if mu, op, ok := mutexOp(info, call); ok && (op == "Lock" || op == "RLock") {
				if _, seen := out[mu]; !seen {
					out[mu] = call.Pos()
				}
			}
		}
		return true
	})
	return out
}

func runNoRelock(c *Ctx) {
	p := c.P
	ls := NewLockSpec()
	for _, pkg := range []string{"internal/transfer", "internal/peers", "internal/app", "internal/session", "cmd/thruserv"} {
		for _, f := range p.FuncsIn(pkg) {
			if strings.HasSuffix(p.Pos(f.Pos()), "_test.go") || strings.Contains(p.Pos(f.Pos()), "mock.go") {
				continue
			}
			info := f.Info()
			cfg := f.CFG()
			n := 0
			cfg.Calls(func(r NodeRef, call *ast.CallExpr) {
				held := HeldAny(ls, f, r)
				if len(held) == 0 {
					return
				}
				if _, _, isMu := mutexOp(info, call); isMu {
					return
				}
				// resolve the callee: declared function/method, or a closure variable
				var callee *FuncInfo
				recvExpr := ""
				if g := p.CalleeInfo(info, call); g != nil {
					callee = g
					if sel, ok := ast.Unparen(call.Fun).(*ast.SelectorExpr); ok && g.Decl != nil && g.Decl.Recv != nil {
						recvExpr = types.ExprString(sel.X)
					}
				} else if id, ok := ast.Unparen(call.Fun).(*ast.Ident); ok {
					if v, ok := ObjOf(info, id).(*types.Var); ok {
						callee = p.ClosureOfVar(v)
					}
				}
				if callee == nil {
					return
				}
				n++
				// mutexes the callee takes, translated into the caller's expressions
				type acq struct {
					mu   string
					pos  token.Pos
					path string
				}
				var acqs []acq
				var collect func(g *FuncInfo, recv string, depth int, path string)
				collect = func(g *FuncInfo, recv string, depth int, path string) {
					gRecvName := ""
					if g.Decl != nil && g.Decl.Recv != nil && len(g.Decl.Recv.List) == 1 && len(g.Decl.Recv.List[0].Names) == 1 {
						gRecvName = g.Decl.Recv.List[0].Names[0].Name
					}
					for mu, pos := range locksOf(g) {
						name := mu
						if gRecvName != "" {
							if mu == gRecvName || strings.HasPrefix(mu, gRecvName+".") {
								if recv == "" {
									continue
								}
								name = recv + strings.TrimPrefix(mu, gRecvName)
							} else {
								continue // a lock of some other object inside a method: not comparable by name
							}
						} else if g.Lit == nil {
							continue // package-level function: its mutex expressions are its own
						}
						acqs = append(acqs, acq{name, pos, path + " -> " + g.Name})
					}
					if depth == 0 {
						return
					}
					gi := g.Info()
					InspectNoLits(g.Body, func(m ast.Node) bool {
						c2, ok := m.(*ast.CallExpr)
						if !ok {
							return true
						}
						if h := p.CalleeInfo(gi, c2); h != nil && h.Pkg == g.Pkg {
							r2 := ""
							if sel, ok := ast.Unparen(c2.Fun).(*ast.SelectorExpr); ok && h.Decl != nil && h.Decl.Recv != nil {
								r2 = types.ExprString(sel.X)
								if gRecvName != "" && r2 == gRecvName {
									r2 = recv
								} else if g.Lit == nil {
									r2 = ""
								}
							}
							if h.Decl != nil && h.Decl.Recv != nil && r2 == "" {
								return true
							}
							collect(h, r2, depth-1, path+" -> "+g.Name)
						} else if id, ok := ast.Unparen(c2.Fun).(*ast.Ident); ok && g.Lit != nil {
							if v, ok := ObjOf(gi, id).(*types.Var); ok {
								if h := p.ClosureOfVar(v); h != nil && h != g {
									collect(h, "", depth-1, path+" -> "+g.Name)
								}
							}
						}
						return true
					})
				}
				collect(callee, recvExpr, 1, f.Name)
				bad := ""
				for _, a := range acqs {
					for _, h := range held {
						if h[2:] == a.mu {
							// an RLock taken again while only the read lock is held is still a deadlock hazard with a waiting writer; report both
							bad = fmt.Sprintf("%s is held here and acquired again at %s (%s)", a.mu, p.Pos(a.pos), strings.TrimPrefix(a.path, f.Name+" -> "))
						}
					}
				}
				key := fmt.Sprintf("relock/%s#%d->%s", f.Name, n, callee.Name)
				if bad != "" {
					c.Bad(key, call.Pos(), "call to "+types.ExprString(call.Fun)+" while holding a mutex that the callee locks itself: "+bad+" - sync.Mutex is not reentrant, the goroutine blocks forever and every other user of the lock with it")
				} else {
					c.OK(key, call.Pos(), "callee takes none of the mutexes held here")
				}
			})
		}
	}
}

func init() {
	Register(&Rule{
		Name:  "R-DEQUEUE",
		Props: []string{"C12"},
		Min:   2,
		Doc: "a receiver taken off the head of the wait queue is started, unless it is gone (no state) or already being served: after `s.queue = s.queue[1:]` every way back to the loop head or out of the function " +
			"passes the slot insertion, or a branch taken on state == nil / Status == TRANSFERRING. Any other reason to drop a popped receiver loses its place (it is in no admission state and a later arrival overtakes it)",
		Run: runDequeue,
	})
}

func runDequeue(c *Ctx) {
	p := c.P
	f := p.Func("app.(*SnapshotSender).maybeStartTransfers")
	if f == nil {
		c.MissingAnchor("app.(*SnapshotSender).maybeStartTransfers")
		return
	}
	get := func(n string) *types.Var {
		v, _ := p.LookupObj("internal/app", n).(*types.Var)
		return v
	}
	active, queue, statusF := get("SnapshotSender.active"), get("SnapshotSender.queue"), get("ReceiverState.Status")
	if active == nil || queue == nil || statusF == nil {
		c.MissingAnchor("app.SnapshotSender.{active,queue} / ReceiverState.Status")
		return
	}
	info := f.Info()
	cfg := f.CFG()
	isField := func(e ast.Expr, fv *types.Var) bool {
		sel, ok := ast.Unparen(e).(*ast.SelectorExpr)
		if !ok {
			return false
		}
		v, _ := info.Uses[sel.Sel].(*types.Var)
		return v == fv
	}
	// the pop
	var pop NodeRef
	cfg.EachNode(func(r NodeRef) {
		as, ok := r.Node().(*ast.AssignStmt)
		if !ok || len(as.Lhs) != 1 || len(as.Rhs) != 1 || !isField(as.Lhs[0], queue) {
			return
		}
		if sl, ok := ast.Unparen(as.Rhs[0]).(*ast.SliceExpr); ok && isField(sl.X, queue) && sl.Low != nil {
			pop = r
		}
	})
	if !pop.Valid() {
		c.Unknown("dequeue/pop", f.Pos(), "cannot find the pop `s.queue = s.queue[1:]` in maybeStartTransfers")
		return
	}
	transferring, _ := p.LookupObj("internal/app", "ReceiverStatusTransferring").(*types.Const)
	spec := &PassSpec{SkipDefer: true}
	spec.Vias = []Via{
		{Cond: func(g *FuncInfo, e ast.Expr) (string, bool, bool) {
			var settled func(e ast.Expr) (bool, bool)
			settled = func(e ast.Expr) (bool, bool) {
				e = ast.Unparen(e)
				if o, nilOnTrue, ok := NilTest(info, e); ok && o != nil {
					if pt, isPtr := o.Type().(*types.Pointer); isPtr && strings.HasSuffix(pt.Elem().String(), "ReceiverState") {
						return nilOnTrue, true
					}
				}
				be, ok := e.(*ast.BinaryExpr)
				if !ok {
					return false, false
				}
				if be.Op == token.LOR { // gone || already served: true means one of the two
					lv, lok := settled(be.X)
					rv, rok := settled(be.Y)
					if lok && rok && lv && rv {
						return true, true
					}
					return false, false
				}
				if (be.Op != token.EQL && be.Op != token.NEQ) || !isField(be.X, statusF) {
					return false, false
				}
				if cn, ok := ObjOf(info, be.Y).(*types.Const); ok && cn == transferring && transferring != nil {
					return be.Op == token.EQL, true
				}
				return false, false
			}
			if v, ok := settled(e); ok {
				return "settled", v, true
			}
			return "", false, false
		}},
		{Stmt: func(g *FuncInfo, n ast.Node) (string, bool) {
			if as, ok := n.(*ast.AssignStmt); ok {
				for _, l := range as.Lhs {
					if ix, ok := ast.Unparen(l).(*ast.IndexExpr); ok && isField(ix.X, active) {
						return "settled", true
					}
				}
			}
			return "", false
		}},
	}
	spec.KillAll = func(g *FuncInfo, n ast.Node) bool { return n == pop.Node() }
	facts := spec.Facts(f)
	if facts == nil {
		c.Unknown("dequeue/flow", f.Pos(), "dataflow did not converge")
		return
	}
	k := 0
	for _, b := range cfg.Blocks {
		if !b.Live {
			continue
		}
		if len(b.Nodes) == 0 || !cfg.BlockDominates(pop.B, b) {
			continue // only the part of the round after the pop
		}
		exit := false
		what := ""
		if _, ok := IsReturnExit(b); ok {
			exit, what = true, "return"
		}
		for _, s := range b.Succs {
			if s.Live && !cfg.BlockDominates(pop.B, s) {
				exit, what = true, "next round"
			}
		}
		if !exit {
			continue
		}
		k++
		out := facts.AtEnd(b)
		c.Check(out != nil && out["pass:settled"], fmt.Sprintf("dequeue/exit#%d/%s", k, strings.ReplaceAll(what, " ", "-")), b.Nodes[len(b.Nodes)-1].Pos(),
			"the popped receiver was started, or is gone / already being served",
			"maybeStartTransfers can leave a round after taking a receiver off the queue without starting it, on a branch that is neither `state == nil` nor `Status == TRANSFERRING`: a receiver whose status is anything else (e.g. re-announced while waiting) is dropped from the queue, never started, and later arrivals overtake it")
	}
	if k == 0 {
		c.Unknown("dequeue/exits", f.Pos(), "found no loop exit after the pop")
	}
}

func init() {
	Register(&Rule{
		Name:  "R-TURN-CRED",
		Props: []string{"C16"},
		Min:   2,
		Doc: "TURN REST credentials: the secret handed to a peer is base64(HMAC(static secret, username)) computed on a MAC object that is fresh for this credential (hmac.New in the same function, or Reset() before the Write) - " +
			"a keyed hash kept across calls accumulates earlier usernames and every credential after the first is refused by the relay; " +
			"host:port strings in the TURN code of server and client are assembled with net.JoinHostPort, never by concatenation with \":\" (which drops the brackets of an IPv6 literal, so the client derives an undialable endpoint from the URL the server minted)",
		Run: runTurnCred,
	})
}

func runTurnCred(c *Ctx) {
	p := c.P
	// (1) MAC freshness in cmd/thruserv
	nsum := 0
	for _, f := range p.FuncsIn("cmd/thruserv") {
		info := f.Info()
		cfg := f.CFG()
		cfg.Calls(func(r NodeRef, call *ast.CallExpr) {
			sel, ok := ast.Unparen(call.Fun).(*ast.SelectorExpr)
			if !ok || sel.Sel.Name != "Sum" {
				return
			}
			t := info.TypeOf(sel.X)
			if t == nil || !strings.HasSuffix(types.Unalias(t).String(), "hash.Hash") {
				return
			}
			nsum++
			key := fmt.Sprintf("turn-cred/mac-fresh/%s#%d", f.Name, nsum)
			macObj := ObjOf(info, sel.X)
			if macObj == nil {
				c.Unknown(key, call.Pos(), "cannot identify the MAC object "+types.ExprString(sel.X))
				return
			}
			fresh := &PassSpec{Vias: []Via{{Stmt: func(g *FuncInfo, n ast.Node) (string, bool) {
				hit := false
				InspectNoLits(n, func(m ast.Node) bool {
					switch v := m.(type) {
					case *ast.AssignStmt:
						for i, l := range v.Lhs {
							if ObjOf(g.Info(), l) == macObj && i < len(v.Rhs) {
								if nc, ok := ast.Unparen(v.Rhs[i]).(*ast.CallExpr); ok && calleeIs(g.Info(), nc, "crypto/hmac", "New") {
									hit = true
								}
							}
						}
					case *ast.CallExpr:
						if s2, ok := ast.Unparen(v.Fun).(*ast.SelectorExpr); ok && s2.Sel.Name == "Reset" && ObjOf(g.Info(), s2.X) == macObj {
							hit = true
						}
					}
					return true
				})
				if hit {
					return "fresh", true
				}
				return "", false
			}}}}
			isFresh := fresh.Passed(f, r, "fresh")
			if !isFresh && f.Obj != nil && f.Type.Params != nil {
				// the MAC is a parameter: fresh if at every call site the argument was created or Reset in the caller before the call
				idx, j := -1, 0
				for _, fl := range f.Type.Params.List {
					for _, nm := range fl.Names {
						if info.Defs[nm] == macObj {
							idx = j
						}
						j++
					}
				}
				if sites := p.CallSites(f.Obj); idx >= 0 && len(sites) > 0 {
					all := true
					for _, st := range sites {
						var c2 *ast.CallExpr
						InspectNoLits(st.ref.Node(), func(n ast.Node) bool {
							if ce, ok := n.(*ast.CallExpr); ok && Callee(st.f.Info(), ce) == f.Obj {
								c2 = ce
							}
							return true
						})
						if c2 == nil || idx >= len(c2.Args) {
							all = false
							continue
						}
						if nc, ok := ast.Unparen(c2.Args[idx]).(*ast.CallExpr); ok && calleeIs(st.f.Info(), nc, "crypto/hmac", "New") {
							continue
						}
						ao := ObjOf(st.f.Info(), c2.Args[idx])
						if ao == nil {
							all = false
							continue
						}
						saved := macObj
						macObj = ao
						sub := &PassSpec{Vias: fresh.Vias}
						if !sub.Passed(st.f, st.ref, "fresh") {
							all = false
						}
						macObj = saved
					}
					isFresh = all
				}
			}
			c.Check(isFresh, key, call.Pos(), "the MAC is created (hmac.New) or Reset per credential before it is summed",
				"the credential is taken from a MAC object ("+types.ExprString(sel.X)+") that is neither created nor Reset in this function: a keyed hash shared across calls still contains the usernames of earlier credentials, so every credential after the first differs from base64(HMAC(secret, username)) and the relay refuses it")
		})
	}
	if nsum == 0 {
		c.Unknown("turn-cred/mac-fresh", token.NoPos, "no hash.Hash.Sum call found in cmd/thruserv (TURN credential computation)")
	}
	// (2) host:port assembly
	njoin, nconcat := 0, 0
	for _, pkg := range []string{"cmd/thruserv", "internal/ice"} {
		for _, f := range p.FuncsIn(pkg) {
			info := f.Info()
			InspectNoLits(f.Body, func(n ast.Node) bool {
				switch v := n.(type) {
				case *ast.CallExpr:
					if calleeIs(info, v, "net", "JoinHostPort") {
						njoin++
					}
				case *ast.BinaryExpr:
					if v.Op != token.ADD {
						return true
					}
					// X + ":" (+ Y) where the result is used as an address: flag any string concatenation with the literal ":"
					isColon := func(e ast.Expr) bool { sv, ok := constString(info, e); return ok && sv == ":" }
					if isColon(v.Y) || isColon(v.X) {
						other := v.X
						if isColon(v.X) {
							other = v.Y
						}
						if _, isConst := constString(info, other); isConst {
							return true
						}
						nconcat++
						c.Bad(fmt.Sprintf("turn-cred/hostport/%s#%d", f.Name, nconcat), v.Pos(), "host:port assembled by concatenation ("+types.ExprString(v)+"): an IPv6 literal loses its brackets, so for a relay configured as turn:[2001:db8::10]:3478 the client derives the undialable endpoint 2001:db8::10:3478 from the URL the server minted; use net.JoinHostPort")
					}
				}
				return true
			})
		}
	}
	if nconcat == 0 {
		c.Check(njoin > 0, "turn-cred/hostport", token.NoPos, fmt.Sprintf("no \":\" concatenation in server/ICE code; %d net.JoinHostPort calls", njoin), "no net.JoinHostPort call found in cmd/thruserv or internal/ice (anchor lost)")
	}
}
