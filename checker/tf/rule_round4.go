package tf

import (
	"fmt"
	"go/ast"
	"go/token"
	"go/types"
	"sort"
	"strings"
)

// LiveFuncs: declared functions (and their literals) reachable from the main functions and
// package initialisers of the repository through references to function objects; calls
// through an interface reach every repository method of that name (over-approximation).
func (p *Program) LiveFuncs() map[*FuncInfo]bool {
	if p.live != nil {
		return p.live
	}
	live := map[*FuncInfo]bool{}
	byMethodName := map[string][]*FuncInfo{}
	for _, f := range p.Funcs() {
		if f.Decl != nil && f.Obj != nil {
			if sig, ok := f.Obj.Type().(*types.Signature); ok && sig.Recv() != nil {
				byMethodName[f.Obj.Name()] = append(byMethodName[f.Obj.Name()], f)
			}
		}
	}
	var work []*FuncInfo
	add := func(f *FuncInfo) {
		if f != nil && !live[f] {
			live[f] = true
			work = append(work, f)
		}
	}
	for _, f := range p.Funcs() {
		if f.Decl == nil || f.Obj == nil {
			continue
		}
		if strings.HasSuffix(p.Fset.Position(f.Pos()).Filename, "_test.go") {
			continue
		}
		if (f.Obj.Name() == "main" && f.Pkg.Name == "main") || f.Obj.Name() == "init" {
			add(f)
		}
	}
	// package-level variable initialisers may reference functions: treat every function referenced at package level as live
	for _, pk := range p.Pkgs {
		for _, file := range pk.Syntax {
			if strings.HasSuffix(p.Fset.Position(file.Pos()).Filename, "_test.go") {
				continue
			}
			for _, d := range file.Decls {
				gd, ok := d.(*ast.GenDecl)
				if !ok || gd.Tok != token.VAR {
					continue
				}
				ast.Inspect(gd, func(n ast.Node) bool {
					if id, ok := n.(*ast.Ident); ok {
						if fn, ok := pk.TypesInfo.Uses[id].(*types.Func); ok {
							add(p.FuncOf(fn))
						}
					}
					return true
				})
			}
		}
	}
	for len(work) > 0 {
		f := work[len(work)-1]
		work = work[:len(work)-1]
		for _, k := range f.Kids {
			add(k)
		}
		info := f.Info()
		InspectNoLits(f.Body, func(n ast.Node) bool {
			var id *ast.Ident
			switch e := n.(type) {
			case *ast.Ident:
				id = e
			case *ast.SelectorExpr:
				id = e.Sel
			}
			if id == nil {
				return true
			}
			fn, ok := info.Uses[id].(*types.Func)
			if !ok {
				return true
			}
			if g := p.FuncOf(fn); g != nil {
				add(g)
				return true
			}
			// interface method (or a method without a body in the repository): every repository method of that name
			if sig, ok := fn.Type().(*types.Signature); ok && sig.Recv() != nil {
				if _, isIface := sig.Recv().Type().Underlying().(*types.Interface); isIface {
					for _, g := range byMethodName[fn.Name()] {
						add(g)
					}
				}
			}
			return true
		})
	}
	p.live = live
	return live
}

func init() {
	Register(&Rule{
		Name:  "R-COUNT-FITS",
		Props: []string{"C19", "C01"},
		Min:   3,
		Doc: "a chunk count is never cut to 32 bits silently: in the code of internal/transfer that the binaries reach, every conversion uint32(E) where E is (or is a local defined as) a 64-bit quotient " +
			"is reached only past chunkCountFits(size, divisor) == true for that very size and divisor, or past a comparison that bounds E; when size and divisor are parameters of a helper (chunkTotal) the obligation is checked at each live call site instead. " +
			"Sender and receiver truncate alike, so a truncated count makes both finish after count mod 2^32 chunks and report success (F32)",
		Run: runCountFits,
	})
}

func runCountFits(c *Ctx) {
	p := c.P
	live := p.LiveFuncs()
	fitsFn, _ := p.LookupObj("internal/transfer", "chunkCountFits").(*types.Func)
	norm := func(info *types.Info, e ast.Expr) string { return types.ExprString(StripConv(info, e)) }
	spec := &PassSpec{Name: "count-fits", Vias: []Via{{Cond: func(f *FuncInfo, e ast.Expr) (string, bool, bool) {
		call, ok := ast.Unparen(e).(*ast.CallExpr)
		if !ok || fitsFn == nil || Callee(f.Info(), call) != fitsFn || len(call.Args) != 2 {
			return "", false, false
		}
		return "fits:" + norm(f.Info(), call.Args[0]) + "|" + norm(f.Info(), call.Args[1]), true, true
	}}}}
	spec.KillMatch = func(f *FuncInfo, n ast.Node, id string) bool {
		for _, o := range AssignedObjs(f.Info(), n) {
			for _, part := range strings.Split(strings.TrimPrefix(id, "fits:"), "|") {
				root := part
				if i := strings.IndexAny(root, ".[("); i >= 0 {
					root = root[:i]
				}
				if o.Name() == root {
					return true
				}
			}
		}
		return false
	}
	bs := boundSpec()
	is64 := func(t types.Type) bool { return t != nil && isIntType(t) && typeBitsOf(t) == 64 }
	// quotientOf: E (or its single local definition) is a 64-bit division; returns numerator leaves and divisor
	quotientOf := func(f *FuncInfo, e ast.Expr) (*ast.BinaryExpr, bool) {
		for _, d := range resolveExprs(f, e, 1) {
			var q *ast.BinaryExpr
			ast.Inspect(d, func(m ast.Node) bool {
				if be, ok := m.(*ast.BinaryExpr); ok && be.Op == token.QUO && is64(f.Info().TypeOf(be)) && q == nil {
					q = be
				}
				return q == nil
			})
			if q != nil {
				return q, true
			}
		}
		return nil, false
	}
	nLive := 0
	perFn := map[string]int{}
	var checkAt func(f *FuncInfo, ref NodeRef, sizeLeaves []string, div string) bool
	checkAt = func(f *FuncInfo, ref NodeRef, sizeLeaves []string, div string) bool {
		for _, s := range sizeLeaves {
			if spec.Passed(f, ref, "fits:"+s+"|"+div) {
				return true
			}
		}
		return false
	}
	for _, f := range p.FuncsIn("internal/transfer") {
		if !live[f] || strings.HasSuffix(p.Fset.Position(f.Pos()).Filename, "_test.go") {
			continue
		}
		info := f.Info()
		f.CFG().Calls(func(r NodeRef, call *ast.CallExpr) {
			tv, ok := info.Types[call.Fun]
			if !ok || !tv.IsType() || len(call.Args) != 1 {
				return
			}
			if b, ok := tv.Type.Underlying().(*types.Basic); !ok || b.Kind() != types.Uint32 {
				return
			}
			if !is64(info.TypeOf(call.Args[0])) {
				return
			}
			q, ok := quotientOf(f, call.Args[0])
			if !ok {
				return
			}
			nLive++
			perFn[f.Name]++
			key := fmt.Sprintf("count/%s#%d", f.Name, perFn[f.Name])
			div := norm(info, q.Y)
			var leaves []string
			ast.Inspect(q.X, func(m ast.Node) bool {
				switch e := m.(type) {
				case *ast.Ident, *ast.SelectorExpr:
					ex := e.(ast.Expr)
					if tv, ok := info.Types[ex]; ok && (tv.IsType() || tv.Value != nil) {
						return true
					}
					if s := types.ExprString(ex); s != div && is64or32(info.TypeOf(ex)) {
						leaves = append(leaves, s)
					}
					if _, isSel := e.(*ast.SelectorExpr); isSel {
						return false
					}
				}
				return true
			})
			if checkAt(f, r, leaves, div) {
				c.OK(key, call.Pos(), "the count conversion is past chunkCountFits("+strings.Join(leaves, "/")+", "+div+")")
				return
			}
			if bs.Passed(f, r, "bounded:"+norm(info, call.Args[0])) {
				c.OK(key, call.Pos(), "the count is bounded by a dominating comparison")
				return
			}
			// helper with parameters: obligation at the live call sites
			if f.Decl != nil && f.Obj != nil {
				params := map[string]int{}
				k := 0
				for _, fld := range f.Type.Params.List {
					for _, nm := range fld.Names {
						params[nm.Name] = k
						k++
					}
				}
				di, dok := params[div]
				si, sok := -1, false
				for _, l := range leaves {
					if i, ok := params[l]; ok {
						si, sok = i, true
					}
				}
				if dok && sok {
					sites := 0
					okAll := true
					for _, st := range p.CallSites(f.Obj) {
						if !live[st.f] && !live[st.f.Root()] {
							continue
						}
						InspectNoLits(st.ref.Node(), func(nd ast.Node) bool {
							c2, ok := nd.(*ast.CallExpr)
							if !ok || p.CalleeInfo(st.f.Info(), c2) != f || len(c2.Args) <= di || len(c2.Args) <= si {
								return true
							}
							sites++
							good := spec.PassedIn(st.f, st.ref, c2, "fits:"+norm(st.f.Info(), c2.Args[si])+"|"+norm(st.f.Info(), c2.Args[di]))
							if !good {
								okAll = false
							}
							c.Check(good, fmt.Sprintf("%s/site/%s#%d", key, st.f.Name, sites), c2.Pos(), "the helper is called only past chunkCountFits on the same size and chunk size",
								f.Name+" cuts its 64-bit quotient to 32 bits and is called here with a size and chunk size whose chunk count was not checked to fit: sender and receiver truncate alike, both finish after count mod 2^32 chunks and report success with most of the file missing")
							return true
						})
					}
					if sites > 0 {
						_ = okAll
						return
					}
				}
			}
			c.Bad(key, call.Pos(), "a 64-bit chunk count ("+types.ExprString(call.Args[0])+") is converted to uint32 with no dominating range check: with a small chunk size and a large file the count wraps, sender and receiver agree on the wrapped count, transfer count mod 2^32 chunks and both report success")
		})
	}
	if nLive == 0 {
		c.Bad("count/none", token.NoPos, "found no 32-bit chunk-count conversion in the live transfer code")
	}
}

func is64or32(t types.Type) bool {
	return t != nil && isIntType(t) && typeBitsOf(t) >= 32
}

func init() {
	Register(&Rule{
		Name:  "R-NO-SILENT-DROP",
		Props: []string{"C10"},
		Min:   4,
		Doc: "a message the hub accepted for a connected recipient is queued, handed to the waiting path, or its failure is reported - never dropped in silence (F33): in internal/peers, for every select that tries `pc.send <- env` with a default clause, " +
			"(default-disposes) every path from the default clause to the function's exit tries the send again, passes env on to another hub function (directly, or by recording the connection in a slice that goes to that function together with env), or returns false; " +
			"(true-means-queued) a function with a bool result returns true only inside the clause of the successful send (or forwards the result of such a function); " +
			"(retry-all) the function that receives the recorded connections tries each of them, unconditionally, in a loop over the whole slice",
		Run: runNoSilentDrop,
	})
}

func runNoSilentDrop(c *Ctx) {
	p := c.P
	_, _, _, sendF := hubFields(c)
	if sendF == nil {
		return
	}
	isSendOn := func(info *types.Info, s ast.Stmt) (*ast.SendStmt, bool) {
		ss, ok := s.(*ast.SendStmt)
		if !ok {
			return nil, false
		}
		sel, ok := ast.Unparen(ss.Chan).(*ast.SelectorExpr)
		if !ok {
			return nil, false
		}
		fv, _ := info.Uses[sel.Sel].(*types.Var)
		return ss, fv == sendF
	}
	nsel := 0
	for _, f := range p.FuncsIn("internal/peers") {
		if strings.HasSuffix(p.Fset.Position(f.Pos()).Filename, "_test.go") {
			continue
		}
		info := f.Info()
		cfg := f.CFG()
		k := 0
		InspectNoLits(f.Body, func(m ast.Node) bool {
			sl, ok := m.(*ast.SelectStmt)
			if !ok {
				return true
			}
			var send *ast.SendStmt
			var sendClause, dflt *ast.CommClause
			for _, cl := range sl.Body.List {
				cc := cl.(*ast.CommClause)
				if cc.Comm == nil {
					dflt = cc
				} else if ss, ok := isSendOn(info, cc.Comm); ok {
					send, sendClause = ss, cc
				}
			}
			if send == nil || dflt == nil {
				return true
			}
			nsel++
			k++
			key := fmt.Sprintf("%s#%d", f.Name, k)
			msg := ObjOf(info, send.Value)
			// the delegate calls of this function: repository functions of package peers that get the message
			passesMsg := func(n ast.Node, also types.Object) bool {
				hit := false
				InspectNoLits(n, func(x ast.Node) bool {
					call, ok := x.(*ast.CallExpr)
					if !ok {
						return true
					}
					g := p.CalleeInfo(info, call)
					if g == nil || g.Pkg != f.Pkg {
						return true
					}
					hasMsg, hasAlso := false, also == nil
					for _, a := range call.Args {
						// a callee that takes a list of connections delivers only to those recorded in it
						if also == nil {
							if t := info.TypeOf(a); t != nil {
								if _, isSlice := t.Underlying().(*types.Slice); isSlice {
									return true
								}
							}
						}
						if msg != nil && ObjOf(info, a) == msg {
							hasMsg = true
						}
						if also != nil && ObjOf(info, a) == also {
							hasAlso = true
						}
					}
					if hasMsg && hasAlso {
						hit = true
					}
					return true
				})
				return hit
			}
			// recorded: default clause appends to a slice variable
			var recorded types.Object
			for _, st := range dflt.Body {
				if as, ok := st.(*ast.AssignStmt); ok && len(as.Lhs) == 1 && len(as.Rhs) == 1 {
					if call, ok := ast.Unparen(as.Rhs[0]).(*ast.CallExpr); ok {
						if id, ok := ast.Unparen(call.Fun).(*ast.Ident); ok && id.Name == "append" && len(call.Args) >= 2 && ObjOf(info, call.Args[0]) == ObjOf(info, as.Lhs[0]) {
							recorded = ObjOf(info, as.Lhs[0])
						}
					}
				}
			}
			// go/cfg evaluates the communication in the head block and then branches to the clauses: walk from the send node,
			// counting the statements of the successful clause as disposal; an empty default clause has no node of its own
			start := cfg.Find(send.Pos())
			disposed := false
			if start.Valid() {
				from := start
				disposed = allPathsHit(cfg, from, func(n ast.Node) bool {
					if n == ast.Node(send) {
						return true // the send is tried again
					}
					for _, st := range sendClause.Body {
						if n.Pos() >= st.Pos() && n.End() <= st.End() {
							return true // the successful clause
						}
					}
					if rs, ok := n.(*ast.ReturnStmt); ok && len(rs.Results) == 1 {
						if id, ok := ast.Unparen(rs.Results[0]).(*ast.Ident); ok && id.Name == "false" {
							return true
						}
					}
					if recorded != nil {
						// `if len(recorded) > 0 { delegate(recorded, msg) }`: after the default clause ran the list is not empty
						if cond, ok := n.(ast.Expr); ok {
							guarded := false
							ast.Inspect(f.Body, func(x ast.Node) bool {
								is, ok := x.(*ast.IfStmt)
								if !ok || is.Cond != cond || is.Init != nil {
									return true
								}
								be, ok := ast.Unparen(is.Cond).(*ast.BinaryExpr)
								if !ok {
									return true
								}
								nonEmpty := false
								if call, ok := ast.Unparen(be.X).(*ast.CallExpr); ok && len(call.Args) == 1 {
									if id, ok := ast.Unparen(call.Fun).(*ast.Ident); ok && id.Name == "len" && ObjOf(info, call.Args[0]) == recorded {
										if z, ok := constInt(info, be.Y); ok && z == 0 && (be.Op == token.GTR || be.Op == token.NEQ) {
											nonEmpty = true
										}
									}
								}
								if ObjOf(info, be.X) == recorded && be.Op == token.NEQ && types.ExprString(be.Y) == "nil" {
									nonEmpty = true
								}
								if nonEmpty {
									for _, st := range is.Body.List {
										if passesMsg(st, recorded) {
											guarded = true
										}
									}
								}
								return true
							})
							if guarded {
								return true
							}
						}
						return passesMsg(n, recorded)
					}
					return passesMsg(n, nil)
				}, func(ast.Node) bool { return false })
			}
			c.Check(disposed, "default-disposes/"+key, dflt.Pos(), "when the queue is full the message is retried, handed on, or its failure is reported",
				"when the recipient's queue is full the message is dropped in silence: a recipient that keeps reading, only slower than the authors' bursts together, loses messages and nobody is told")
			// true-means-queued
			if f.Type.Results != nil && len(f.Type.Results.List) == 1 {
				if t := info.TypeOf(f.Type.Results.List[0].Type); t != nil && t.String() == "bool" {
					j := 0
					InspectNoLits(f.Body, func(x ast.Node) bool {
						rs, ok := x.(*ast.ReturnStmt)
						if !ok || len(rs.Results) != 1 {
							return true
						}
						id, ok := ast.Unparen(rs.Results[0]).(*ast.Ident)
						if !ok || id.Name != "true" {
							return true
						}
						j++
						inside := rs.Pos() >= sendClause.Pos() && rs.End() <= sendClause.End()
						c.Check(inside, fmt.Sprintf("true-means-queued/%s/return#%d", key, j), rs.Pos(), "success is reported only by the clause of the successful send",
							f.Name+" reports success on a path where the message was not queued: the author is told its message was delivered while it was dropped")
						return true
					})
				}
			}
			return true
		})
	}
	if nsel == 0 {
		c.Bad("default-disposes/none", token.NoPos, "found no non-blocking send on peerConnection.send in internal/peers")
	}
	// retry-all: functions of package peers with a []string parameter and the message: range over the slice, one delegate call per element
	nretry := 0
	for _, f := range p.FuncsIn("internal/peers") {
		if f.Decl == nil || strings.HasSuffix(p.Fset.Position(f.Pos()).Filename, "_test.go") {
			continue
		}
		info := f.Info()
		var slice, msg types.Object
		for _, fld := range f.Type.Params.List {
			for _, nm := range fld.Names {
				o := info.Defs[nm]
				if o == nil {
					continue
				}
				if sl, ok := o.Type().Underlying().(*types.Slice); ok {
					if b, ok := sl.Elem().Underlying().(*types.Basic); ok && b.Kind() == types.String {
						slice = o
					}
				}
				if strings.HasSuffix(o.Type().String(), "protocol.Envelope") {
					msg = o
				}
			}
		}
		if slice == nil || msg == nil {
			continue
		}
		nretry++
		good := false
		for _, st := range f.Body.List {
			rs, ok := st.(*ast.RangeStmt)
			if !ok || ObjOf(info, rs.X) != slice {
				continue
			}
			// the delegate call is a top-level statement of the loop body, and no break/continue/return precedes it
			for _, bs := range rs.Body.List {
				if es, ok := bs.(*ast.ExprStmt); ok {
					if call, ok := es.X.(*ast.CallExpr); ok {
						if g := p.CalleeInfo(info, call); g != nil && g.Pkg == f.Pkg {
							for _, a := range call.Args {
								if ObjOf(info, a) == msg {
									good = true
								}
							}
						}
					}
					if good {
						break
					}
				}
				if _, isAssign := bs.(*ast.AssignStmt); isAssign {
					continue
				}
				break
			}
		}
		c.Check(good, "retry-all/"+f.Name, f.Pos(), "each recorded connection gets the message, in a loop over the whole slice",
			f.Name+" does not hand the message to every recorded connection (no unconditional delegate call in a loop over "+slice.Name()+"): the connections whose queue was full in the first pass never get it")
	}
	if nretry == 0 {
		c.Bad("retry-all/none", token.NoPos, "found no function that retries the connections recorded by a broadcast")
	}
}

func init() {
	Register(&Rule{
		Name:  "R-SIDECAR-KEY",
		Props: []string{"C06", "C05"},
		Min:   4,
		Doc: "one sidecar per output file (F35): the name of a file's resume metadata is a function of its relative path alone - sidecarIdentifier reads no field of the manifest item but RelPath - and every SidecarPath in the receive code takes its key from sidecarIdentifier; " +
			"named after the item id (path, size, modification time) the metadata of an abandoned transfer survives a later transfer of another version to the same path and is trusted again when the first version returns with its old time stamp",
		Run: runSidecarKey,
	})
}

func runSidecarKey(c *Ctx) {
	p := c.P
	si := p.Func("transfer.sidecarIdentifier")
	if si == nil {
		c.MissingAnchor("transfer.sidecarIdentifier")
		return
	}
	info := si.Info()
	var param types.Object
	if ps := si.Type.Params.List; len(ps) == 1 && len(ps[0].Names) == 1 {
		param = info.Defs[ps[0].Names[0]]
	}
	if param == nil {
		c.Unknown("key/param", si.Pos(), "sidecarIdentifier does not take exactly one named parameter")
		return
	}
	var other []string
	usesPath := false
	ast.Inspect(si.Body, func(n ast.Node) bool {
		sel, ok := n.(*ast.SelectorExpr)
		if !ok || ObjOf(info, sel.X) != param {
			return true
		}
		if sel.Sel.Name == "RelPath" {
			usesPath = true
		} else {
			other = append(other, sel.Sel.Name)
		}
		return true
	})
	// the parameter must not escape whole either (passed to another function that could read the id)
	whole := false
	ast.Inspect(si.Body, func(n ast.Node) bool {
		if call, ok := n.(*ast.CallExpr); ok {
			for _, a := range call.Args {
				if ObjOf(info, a) == param {
					whole = true
				}
			}
		}
		return true
	})
	c.Check(usesPath && len(other) == 0 && !whole, "key/path-only", si.Pos(), "the sidecar name is computed from the relative path alone",
		fmt.Sprintf("sidecarIdentifier reads %v of the manifest item (or hands the item on): the sidecar's name then changes with the source's size or time stamp, so that several sidecars can exist for one output file; the one left by an abandoned transfer survives a later transfer of another version to the same path and is loaded again (right length, valid header) when the first version returns with its old modification time - its marked chunks are skipped and both sides report success for a mixed file", other))
	n := 0
	for _, f := range p.FuncsIn("internal/transfer") {
		if strings.HasSuffix(p.Fset.Position(f.Pos()).Filename, "_test.go") {
			continue
		}
		fi := f.Info()
		k := 0
		InspectNoLits(f.Body, func(m ast.Node) bool {
			call, ok := m.(*ast.CallExpr)
			if !ok || len(call.Args) != 3 {
				return true
			}
			if g := p.CalleeInfo(fi, call); g == nil || g.Name != "transfer.SidecarPath" {
				return true
			}
			n++
			k++
			good := false
			for _, d := range resolveExprs(f, call.Args[2], 2) {
				if c2, ok := ast.Unparen(d).(*ast.CallExpr); ok {
					if g := p.CalleeInfo(fi, c2); g == si {
						good = true
					}
				}
			}
			c.Check(good, fmt.Sprintf("key/site/%s#%d", f.Name, k), call.Pos(), "the metadata path is built from sidecarIdentifier(item)",
				"a sidecar path is built from "+types.ExprString(call.Args[2])+" instead of sidecarIdentifier(item): two code paths then name the metadata of the same output file differently, and one of them works on a stale copy")
			return true
		})
	}
	if n == 0 {
		c.Bad("key/site/none", si.Pos(), "no SidecarPath call found in internal/transfer")
	}
}

func init() {
	Register(&Rule{
		Name:  "R-PATH-BYTES",
		Props: []string{"C18"},
		Min:   1,
		Doc: "the manifest header round-trips its paths (F36): encoding/json replaces every byte sequence of a string that is not valid UTF-8 by U+FFFD. Every json.Marshal / Encoder.Encode in the live code of internal/transfer whose argument holds manifest.FileItem values " +
			"is dominated by a successful validity check of the item paths (a repository function that calls unicode/utf8.Valid*), or the path field is not a Go string - otherwise the peer decodes another path than was encoded and two names that differ only in invalid bytes collapse into one",
		Run: func(c *Ctx) { runPathBytes(c, false) },
	})
	Register(&Rule{
		Name:  "R-PATH-TRANSPARENT",
		Props: []string{"C03"},
		Min:   1,
		Doc: "file names travel byte-exact (F36): a relative path reaches the peer inside the JSON manifest header and, as raw bytes, in FileBegin, and the receiver matches the two by equality; a Go string in JSON cannot carry a name that is not valid UTF-8 (legal on Linux). " +
			"For every JSON serialisation of manifest.FileItem values in the live transfer code the path field must have a byte-exact representation ([]byte); rejecting such names keeps the header honest (R-PATH-BYTES) but leaves a valid tree untransferable",
		Run: func(c *Ctx) { runPathBytes(c, true) },
	})
}

func runPathBytes(c *Ctx, transparent bool) {
	p := c.P
	live := p.LiveFuncs()
	fi, _ := p.LookupObj("pkg/manifest", "FileItem").(*types.TypeName)
	if fi == nil {
		c.MissingAnchor("manifest.FileItem")
		return
	}
	var pathFld *types.Var
	if st, ok := fi.Type().Underlying().(*types.Struct); ok {
		for i := 0; i < st.NumFields(); i++ {
			if st.Field(i).Name() == "RelPath" {
				pathFld = st.Field(i)
			}
		}
	}
	if pathFld == nil {
		c.MissingAnchor("manifest.FileItem.RelPath")
		return
	}
	var holds func(t types.Type, depth int) bool
	holds = func(t types.Type, depth int) bool {
		if t == nil || depth > 6 {
			return false
		}
		t = types.Unalias(t)
		if types.Identical(t, fi.Type()) {
			return true
		}
		switch u := t.Underlying().(type) {
		case *types.Pointer:
			return holds(u.Elem(), depth+1)
		case *types.Slice:
			return holds(u.Elem(), depth+1)
		case *types.Array:
			return holds(u.Elem(), depth+1)
		case *types.Map:
			return holds(u.Elem(), depth+1)
		case *types.Struct:
			for i := 0; i < u.NumFields(); i++ {
				if holds(u.Field(i).Type(), depth+1) {
					return true
				}
			}
		}
		return false
	}
	isString := func(t types.Type) bool {
		b, ok := t.Underlying().(*types.Basic)
		return ok && b.Kind() == types.String
	}
	// validators: repository functions that call unicode/utf8.Valid* on every string field of manifest.FileItem and manifest.Manifest
	// (each of them travels as a JSON string)
	required := map[*types.Var]bool{}
	for _, tn := range []string{"FileItem", "Manifest"} {
		if t, _ := p.LookupObj("pkg/manifest", tn).(*types.TypeName); t != nil {
			if st, ok := t.Type().Underlying().(*types.Struct); ok {
				for i := 0; i < st.NumFields(); i++ {
					if isString(st.Field(i).Type()) {
						required[st.Field(i)] = true
					}
				}
			}
		}
	}
	validators := map[*FuncInfo]bool{}
	partial := map[*FuncInfo][]string{}
	for _, f := range p.Funcs() {
		info := f.Info()
		covered := map[*types.Var]bool{}
		any := false
		ast.Inspect(f.Body, func(m ast.Node) bool {
			if call, ok := m.(*ast.CallExpr); ok {
				if fn := Callee(info, call); fn != nil && fn.Pkg() != nil && fn.Pkg().Path() == "unicode/utf8" && strings.HasPrefix(fn.Name(), "Valid") && len(call.Args) == 1 {
					any = true
					ast.Inspect(call.Args[0], func(x ast.Node) bool {
						if sel, ok := x.(*ast.SelectorExpr); ok {
							if v, ok := info.Uses[sel.Sel].(*types.Var); ok && required[v] {
								covered[v] = true
							}
						}
						return true
					})
				}
			}
			return true
		})
		if !any || f.Decl == nil {
			continue
		}
		var missing []string
		for v := range required {
			if !covered[v] {
				missing = append(missing, v.Name())
			}
		}
		sort.Strings(missing)
		if len(missing) == 0 {
			validators[f] = true
		} else if len(covered) > 0 {
			partial[f] = missing
		}
	}
	spec := &PassSpec{Name: "utf8-valid", Vias: []Via{{Call: func(f *FuncInfo, call *ast.CallExpr) (string, bool) {
		if g := p.CalleeInfo(f.Info(), call); g != nil && validators[g] {
			return "valid", true
		}
		return "", false
	}}}}
	n := 0
	for _, f := range p.FuncsIn("internal/transfer") {
		if !live[f] || strings.HasSuffix(p.Fset.Position(f.Pos()).Filename, "_test.go") {
			continue
		}
		info := f.Info()
		k := 0
		f.CFG().Calls(func(r NodeRef, call *ast.CallExpr) {
			fn := Callee(info, call)
			if fn == nil || fn.Pkg() == nil || fn.Pkg().Path() != "encoding/json" || !(fn.Name() == "Marshal" || fn.Name() == "Encode" || fn.Name() == "MarshalIndent") || len(call.Args) < 1 {
				return
			}
			if !holds(info.TypeOf(call.Args[0]), 0) {
				return
			}
			n++
			k++
			key := fmt.Sprintf("json/%s#%d", f.Name, k)
			if !isString(pathFld.Type()) {
				c.OK(key, call.Pos(), "the path field is not a Go string: encoding/json carries its bytes exactly")
				return
			}
			if transparent {
				c.Bad(key, call.Pos(), "relative paths are carried as JSON strings in the manifest header and as raw bytes in FileBegin; a name that is not valid UTF-8 (legal on Linux, e.g. Latin-1 `caf\\xe9.txt`) cannot be carried by the header, so a valid tree holding such a name cannot be transferred (before F36's partial repair: 'manifest mismatch: unexpected file' on the receiver; after it: refused by the sender)")
				return
			}
			if !spec.Passed(f, r, "valid") {
				for g, missing := range partial {
					if pspec := (&PassSpec{Name: "utf8-partial", Vias: []Via{{Call: func(h *FuncInfo, c2 *ast.CallExpr) (string, bool) {
						if k := p.CalleeInfo(h.Info(), c2); k == g {
							return "partial", true
						}
						return "", false
					}}}}); pspec.Passed(f, r, "partial") {
						c.Bad(key, call.Pos(), "the validity check in front of the JSON serialisation ("+g.Name+") does not cover the field(s) "+strings.Join(missing, ", ")+" of the manifest: encoding/json replaces invalid UTF-8 in them by U+FFFD and the peer decodes another value than was encoded")
						return
					}
				}
			}
			c.Check(spec.Passed(f, r, "valid"), key, call.Pos(), "paths are checked to be valid UTF-8 before they are serialised as JSON strings",
				"the manifest header is serialised with encoding/json, which silently replaces every byte of a path that is not valid UTF-8 by U+FFFD, and nothing rejects such a path first: the peer decodes another path than was encoded (`caf\\xe9.txt` -> `caf\\ufffd.txt`), two names that differ only in such bytes collapse into one")
		})
	}
	if n == 0 {
		c.Bad("json/none", token.NoPos, "found no JSON serialisation of the manifest in the live transfer code")
	}
}

func init() {
	Register(&Rule{
		Name:  "R-CANCEL-OWNER",
		Props: []string{"C09"},
		Min:   1,
		Doc: "a context is cancelled by the function that made it, not by a helper that runs more than once on it: in internal/ice, when `ctx, cancel := context.WithCancel/WithTimeout/WithDeadline(..)` is made in function F, " +
			"no closure of F that F calls from two or more sites (or from inside a loop) calls or defers that cancel - the probing rounds of ProbeAndDial (direct, then relay) share one dial context, and a round that cancels it leaves the next round dead: " +
			"all direct candidates fail, the relay is reachable, and the dialling side ends with no connection at all",
		Run: runCancelOwner,
	})
}

func runCancelOwner(c *Ctx) {
	p := c.P
	n := 0
	for _, g := range p.FuncsIn("internal/ice") {
		if strings.HasSuffix(p.Fset.Position(g.Pos()).Filename, "_test.go") {
			continue
		}
		info := g.Info()
		// cancel functions made here (not in nested literals)
		var cancels []types.Object
		InspectNoLits(g.Body, func(m ast.Node) bool {
			as, ok := m.(*ast.AssignStmt)
			if !ok || len(as.Lhs) != 2 || len(as.Rhs) != 1 {
				return true
			}
			call, ok := ast.Unparen(as.Rhs[0]).(*ast.CallExpr)
			if !ok || !(calleeIs(info, call, "context", "WithCancel") || calleeIs(info, call, "context", "WithTimeout") || calleeIs(info, call, "context", "WithDeadline")) {
				return true
			}
			if o := ObjOf(info, as.Lhs[1]); o != nil {
				cancels = append(cancels, o)
			}
			return true
		})
		for _, co := range cancels {
			n++
			key := fmt.Sprintf("cancel/%s/%s", g.Name, co.Name())
			bad := ""
			var visit func(h *FuncInfo)
			visit = func(h *FuncInfo) {
				uses := false
				// a use inside the `case <-ctx.Done():` clause of the function's own context parameter does not count: there the caller
				// has given up, and every later round ends through the same clause (F56)
				var giveUp []*ast.CommClause
				InspectNoLits(h.Body, func(m ast.Node) bool {
					cc, ok := m.(*ast.CommClause)
					if !ok || cc.Comm == nil {
						return true
					}
					if es, ok := cc.Comm.(*ast.ExprStmt); ok {
						if u, ok := ast.Unparen(es.X).(*ast.UnaryExpr); ok && u.Op == token.ARROW {
							if call, ok := ast.Unparen(u.X).(*ast.CallExpr); ok {
								if sel, ok := ast.Unparen(call.Fun).(*ast.SelectorExpr); ok && sel.Sel.Name == "Done" {
									if po, ok := ObjOf(h.Info(), sel.X).(*types.Var); ok && g.Type != nil && g.Type.Params != nil && g.Type.Params.Pos() <= po.Pos() && po.Pos() <= g.Type.Params.End() {
										giveUp = append(giveUp, cc)
									}
								}
							}
						}
					}
					return true
				})
				InspectNoLits(h.Body, func(m ast.Node) bool {
					if id, ok := m.(*ast.Ident); ok && h.Info().Uses[id] == co {
						for _, cc := range giveUp {
							if cc.Pos() <= id.Pos() && id.End() <= cc.End() {
								return true
							}
						}
						uses = true
					}
					return true
				})
				// a use inside an anonymous literal (a goroutine body) belongs to the named closure around it (round 7)
				named := h
				for named != nil && named != g && named.Var == nil {
					named = named.Parent
				}
				if uses && named != nil && named != g && named.Var != nil {
					h := named
					// how often is h invoked?
					sites, inLoop := 0, false
					var stack []ast.Node
					ast.Inspect(g.Body, func(m ast.Node) bool {
						if m == nil {
							stack = stack[:len(stack)-1]
							return true
						}
						stack = append(stack, m)
						if call, ok := m.(*ast.CallExpr); ok {
							if id, ok := ast.Unparen(call.Fun).(*ast.Ident); ok && info.Uses[id] == types.Object(h.Var) {
								sites++
								for _, s := range stack {
									switch s.(type) {
									case *ast.ForStmt, *ast.RangeStmt:
										inLoop = true
									}
								}
							}
						}
						return true
					})
					if sites >= 2 || inLoop {
						bad = fmt.Sprintf("%s (called from %d sites%s)", h.Name, sites, map[bool]string{true: ", in a loop", false: ""}[inLoop])
					}
				}
				for _, k := range h.Kids {
					visit(k)
				}
			}
			visit(g)
			c.Check(bad == "", key, co.Pos(), "the context is cancelled only by its maker or by helpers that run once",
				"the cancel function "+co.Name()+" of a context made in "+g.Name+" is called or deferred inside "+bad+": after the first run the shared context is dead, so the next probing round (the relay candidates, tried when every direct candidate failed) fails at once with 'context canceled' although the peer is reachable - the dialling side gets no connection")
		}
	}
	if n == 0 {
		c.Bad("cancel/none", token.NoPos, "found no cancellable context in internal/ice")
	}
}

func init() {
	Register(&Rule{
		Name:  "R-LOCK-BALANCE",
		Props: []string{"C11", "C10", "C12", "C14"},
		Min:   20,
		Doc: "no return leaves a mutex locked: in internal/peers, internal/session, cmd/thruserv and the host scheduler of internal/app, at every return statement (and at the end of the body) no sync.Mutex / RWMutex is held that the function locked itself, " +
			"unless its unlock is deferred in that function; locks already held at the function's entry (helpers called under the lock) are the caller's. A read lock leaked on an early return blocks the next writer (join, leave, close) for ever and every reader queues behind it",
		Run: runLockBalance,
	})
}

func runLockBalance(c *Ctx) {
	p := c.P
	ls := NewLockSpec()
	n := 0
	inScope := func(f *FuncInfo) bool {
		if strings.HasSuffix(p.Fset.Position(f.Pos()).Filename, "_test.go") {
			return false
		}
		switch {
		case f.Pkg.PkgPath == RepoPkg("internal/peers"), f.Pkg.PkgPath == RepoPkg("internal/session"), f.Pkg.PkgPath == RepoPkg("cmd/thruserv"):
			return true
		case f.Pkg.PkgPath == RepoPkg("internal/app"):
			return strings.HasPrefix(f.Root().Name, "app.(*SnapshotSender)")
		}
		return false
	}
	for _, f := range p.Funcs() {
		if !inScope(f) {
			continue
		}
		info := f.Info()
		cfg := f.CFG()
		// does f lock anything itself?
		locks := false
		InspectNoLits(f.Body, func(m ast.Node) bool {
			if call, ok := m.(*ast.CallExpr); ok {
				if _, op, ok := mutexOp(info, call); ok && (op == "Lock" || op == "RLock") {
					locks = true
				}
			}
			return true
		})
		if !locks {
			continue
		}
		deferred := map[string]bool{}
		InspectNoLits(f.Body, func(m ast.Node) bool {
			if d, ok := m.(*ast.DeferStmt); ok {
				if mu, op, ok := mutexOp(info, d.Call); ok {
					switch op {
					case "Unlock":
						deferred["W:"+mu] = true
					case "RUnlock":
						deferred["R:"+mu] = true
					}
				}
			}
			return true
		})
		entry := map[string]bool{}
		if len(cfg.Blocks) > 0 && len(cfg.Blocks[0].Nodes) > 0 {
			for _, h := range HeldAny(ls, f, NodeRef{cfg.Blocks[0], 0}) {
				entry[h] = true
			}
		}
		k := 0
		for _, b := range cfg.Blocks {
			if !b.Live || len(b.Succs) != 0 || len(b.Nodes) == 0 {
				continue
			}
			last := NodeRef{b, len(b.Nodes) - 1}
			// facts after the last node: evaluate "before" a virtual successor by looking at the held set before the last node and
			// applying that node's own unlocks / locks
			held := map[string]bool{}
			for _, h := range HeldAny(ls, f, last) {
				held[h] = true
			}
			if _, isDefer := last.Node().(*ast.DeferStmt); !isDefer {
				InspectNoLits(last.Node(), func(m ast.Node) bool {
					if call, ok := m.(*ast.CallExpr); ok {
						if mu, op, ok := mutexOp(info, call); ok {
							switch op {
							case "Unlock":
								delete(held, "W:"+mu)
							case "RUnlock":
								delete(held, "R:"+mu)
							case "Lock":
								held["W:"+mu] = true
							case "RLock":
								held["R:"+mu] = true
							}
						}
					}
					return true
				})
			}
			// a block that ends in a call that never returns (os.Exit, panic) is not an exit
			if call, ok := lastCall(last.Node()); ok && !p.mayReturn(info, call) {
				continue
			}
			var leaked []string
			for h := range held {
				if !entry[h] && !deferred[h] {
					leaked = append(leaked, h)
				}
			}
			k++
			n++
			key := fmt.Sprintf("balance/%s/exit#%d", f.Name, k)
			sort.Strings(leaked)
			c.Check(len(leaked) == 0, key, last.Node().Pos(), "no mutex locked here is still held at this exit",
				"this exit of "+f.Name+" leaves "+strings.Join(leaked, ", ")+" locked (no deferred unlock): every later writer blocks for ever and, for an RWMutex, every reader queues behind it - the hub deadlocks for all sessions")
		}
	}
	if n == 0 {
		c.Bad("balance/none", token.NoPos, "found no function that takes a mutex")
	}
}

func lastCall(n ast.Node) (*ast.CallExpr, bool) {
	if es, ok := n.(*ast.ExprStmt); ok {
		if call, ok := es.X.(*ast.CallExpr); ok {
			return call, true
		}
	}
	return nil, false
}

func init() {
	Register(&Rule{
		Name:  "R-BITMAP-INV",
		Props: []string{"C15"},
		Min:   2,
		Doc: "the bitmap's invariant len(data) == (bits+7)/8 is established by every constructor: each composite literal of transfer.Bitmap gets a buffer that is make([]byte, (bits+7)/8), or a copy of peer-supplied bytes whose length was compared with that byte length by `!=` / `==` " +
			"(exact) on every path - Get/Set bound their index by bits only, so a buffer shorter than the announced bit count (a hostile FileResumeInfo with the right TotalChunks and a 1-byte bitmap) makes the sender panic with an index out of range in a worker goroutine",
		Run: runBitmapInv,
	})
}

func runBitmapInv(c *Ctx) {
	p := c.P
	bt, _ := p.LookupObj("internal/transfer", "Bitmap").(*types.TypeName)
	if bt == nil {
		c.MissingAnchor("transfer.Bitmap")
		return
	}
	n := 0
	perFn := map[string]int{}
	for _, f := range p.FuncsIn("internal/transfer") {
		if strings.HasSuffix(p.Fset.Position(f.Pos()).Filename, "_test.go") {
			continue
		}
		info := f.Info()
		// byteLenOf: e is (B + 7) / 8 (possibly through a single-definition local); returns the text of B
		byteLenOf := func(e ast.Expr) (string, bool) {
			for _, d := range append([]ast.Expr{e}, resolveExprs(f, e, 1)...) {
				be, ok := ast.Unparen(d).(*ast.BinaryExpr)
				if !ok || be.Op != token.QUO {
					continue
				}
				if v, ok := constInt(info, be.Y); !ok || v != 8 {
					continue
				}
				add, ok := ast.Unparen(be.X).(*ast.BinaryExpr)
				if !ok || add.Op != token.ADD {
					continue
				}
				if v, ok := constInt(info, add.Y); ok && v == 7 {
					return types.ExprString(StripConv(info, add.X)), true
				}
			}
			return "", false
		}
		spec := &PassSpec{Name: "bitmap-exact", Vias: []Via{{Cond: func(g *FuncInfo, e ast.Expr) (string, bool, bool) {
			be, ok := ast.Unparen(e).(*ast.BinaryExpr)
			if !ok || (be.Op != token.NEQ && be.Op != token.EQL) {
				return "", false, false
			}
			x, y := be.X, be.Y
			lenOf := func(z ast.Expr) (string, bool) {
				call, ok := ast.Unparen(z).(*ast.CallExpr)
				if !ok || len(call.Args) != 1 {
					return "", false
				}
				if id, ok := ast.Unparen(call.Fun).(*ast.Ident); ok && id.Name == "len" {
					return types.ExprString(call.Args[0]), true
				}
				return "", false
			}
			lx, okx := lenOf(x)
			if !okx {
				lx, okx = lenOf(y)
				x, y = y, x
			}
			if !okx {
				return "", false, false
			}
			bits, ok := byteLenOf(y)
			if !ok {
				return "", false, false
			}
			return "exact:" + lx + "|" + bits, be.Op == token.EQL, true
		}}}}
		f.CFG().EachNode(func(r NodeRef) {
			InspectNoLits(r.Node(), func(m ast.Node) bool {
				cl, ok := m.(*ast.CompositeLit)
				if !ok {
					return true
				}
				if t := info.TypeOf(cl); t == nil || !types.Identical(t, bt.Type()) {
					return true
				}
				var bitsE, dataE ast.Expr
				for _, el := range cl.Elts {
					if kv, ok := el.(*ast.KeyValueExpr); ok {
						switch kv.Key.(*ast.Ident).Name {
						case "bits":
							bitsE = kv.Value
						case "data":
							dataE = kv.Value
						}
					}
				}
				n++
				perFn[f.Name]++
				key := fmt.Sprintf("ctor/%s#%d", f.Name, perFn[f.Name])
				if bitsE == nil || dataE == nil {
					c.Unknown(key, cl.Pos(), "Bitmap literal without keyed bits / data fields")
					return true
				}
				bits := types.ExprString(StripConv(info, bitsE))
				good := false
				why := ""
				for _, d := range append([]ast.Expr{dataE}, resolveExprs(f, dataE, 1)...) {
					mk, ok := ast.Unparen(d).(*ast.CallExpr)
					if !ok || len(mk.Args) != 2 {
						continue
					}
					if id, ok := ast.Unparen(mk.Fun).(*ast.Ident); !ok || id.Name != "make" {
						continue
					}
					size := mk.Args[1]
					if b, ok := byteLenOf(size); ok && b == bits {
						good = true
						why = "make([]byte, (bits+7)/8)"
					}
					if call, ok := ast.Unparen(size).(*ast.CallExpr); ok && len(call.Args) == 1 {
						if id, ok := ast.Unparen(call.Fun).(*ast.Ident); ok && id.Name == "len" {
							src := types.ExprString(call.Args[0])
							if spec.Passed(f, r, "exact:"+src+"|"+bits) {
								good = true
								why = "copy of " + src + " whose length was compared exactly with (bits+7)/8"
							}
						}
					}
				}
				c.Check(good, key, cl.Pos(), "the buffer has exactly (bits+7)/8 bytes: "+why,
					"a Bitmap is built with "+types.ExprString(dataE)+" for "+bits+" bits without establishing len(data) == ("+bits+"+7)/8 exactly (a `>` or `<` test lets a shorter buffer through): Get and Set bound the index by the bit count only, so a peer that announces the right chunk total with a too short bitmap makes the sender index past the buffer - a panic in a worker goroutine that takes the whole process down")
				return true
			})
		})
	}
	if n == 0 {
		c.Bad("ctor/none", token.NoPos, "found no constructor of transfer.Bitmap")
	}
}

func init() {
	Register(&Rule{
		Name:  "R-TAIL-SATURATES",
		Props: []string{"C17", "C01", "C06"},
		Min:   1,
		Doc: "the verify tail reaches back to chunk 0 when it is longer than what was received: the variable that becomes resumePlan.forceSendFrom is unsigned, so every `x -= t` on it is one branch of a saturating subtraction whose other branch (t >= x) sets x = 0 - " +
			"without that branch a resume whose highest complete chunk index is smaller than the tail keeps forceSendFrom at verified+1, and the chunks inside the tail (present in the bitmap, to be sent again) are handed to no worker",
		Run: runTailSaturates,
	})
}

func runTailSaturates(c *Ctx) {
	p := c.P
	send := p.Func("transfer.SendManifestMultiStream")
	if send == nil {
		c.MissingAnchor("transfer.SendManifestMultiStream")
		return
	}
	n := 0
	perFn := map[string]int{}
	for _, f := range allKids(send) {
		info := f.Info()
		// variables stored into resumePlan.forceSendFrom
		vars := map[types.Object]bool{}
		InspectNoLits(f.Body, func(m ast.Node) bool {
			kv, ok := m.(*ast.KeyValueExpr)
			if !ok {
				return true
			}
			if k, ok := kv.Key.(*ast.Ident); ok && k.Name == "forceSendFrom" {
				if o := ObjOf(info, kv.Value); o != nil {
					vars[o] = true
				}
			}
			return true
		})
		if len(vars) == 0 {
			continue
		}
		// parent map for IfStmt lookup
		var stack []ast.Node
		ast.Inspect(f.Body, func(m ast.Node) bool {
			if m == nil {
				stack = stack[:len(stack)-1]
				return true
			}
			if lit, ok := m.(*ast.FuncLit); ok && lit != f.Lit {
				return false // statements of nested literals belong to those literals
			}
			stack = append(stack, m)
			as, ok := m.(*ast.AssignStmt)
			if !ok || as.Tok != token.SUB_ASSIGN || len(as.Lhs) != 1 || !vars[ObjOf(info, as.Lhs[0])] {
				return true
			}
			x := ObjOf(info, as.Lhs[0])
			t := types.ExprString(ast.Unparen(as.Rhs[0]))
			n++
			perFn[f.Name]++
			key := fmt.Sprintf("saturate/%s#%d", f.Name, perFn[f.Name])
			// nearest enclosing if
			var is *ast.IfStmt
			for i := len(stack) - 2; i >= 0 && is == nil; i-- {
				if s, ok := stack[i].(*ast.IfStmt); ok {
					is = s
				}
			}
			zeroes := func(b ast.Node) bool {
				hit := false
				if b == nil {
					return false
				}
				ast.Inspect(b, func(y ast.Node) bool {
					if a2, ok := y.(*ast.AssignStmt); ok && a2.Tok == token.ASSIGN && len(a2.Lhs) == 1 && ObjOf(info, a2.Lhs[0]) == x {
						if v, ok := constInt(info, a2.Rhs[0]); ok && v == 0 {
							hit = true
						}
					}
					return true
				})
				return hit
			}
			good := false
			if is != nil {
				be, ok := ast.Unparen(is.Cond).(*ast.BinaryExpr)
				cmpOK := ok && (be.Op == token.GEQ || be.Op == token.LEQ || be.Op == token.GTR || be.Op == token.LSS) &&
					((types.ExprString(ast.Unparen(be.X)) == t && ObjOf(info, be.Y) == x) || (types.ExprString(ast.Unparen(be.Y)) == t && ObjOf(info, be.X) == x))
				inThen := as.Pos() >= is.Body.Pos() && as.End() <= is.Body.End()
				if cmpOK {
					if inThen {
						good = zeroes(is.Else)
					} else {
						good = zeroes(is.Body)
					}
				}
			}
			c.Check(good, key, as.Pos(), "the subtraction is the non-saturated branch of `if t >= x { x = 0 } else { x -= t }`",
				x.Name()+" -= "+t+" on the unsigned index that becomes resumePlan.forceSendFrom has no branch that sets it to 0 when "+t+" >= "+x.Name()+": with a tail longer than what was received the index stays at verified+1 and the chunks inside the tail, which the plan must send again, are given to no worker")
			return true
		})
	}
	if n == 0 {
		c.Bad("saturate/none", send.Pos(), "found no tail subtraction on the variable that becomes resumePlan.forceSendFrom")
	}
}

func init() {
	Register(&Rule{
		Name:  "R-READERS-MATCH",
		Props: []string{"C03"},
		Min:   1,
		Doc: "the receiver reads every data stream the sender announced: the loop of RecvManifestMultiStream that starts the data-stream readers runs exactly DataStreams.Count times - every definition of its limit variable is the announced count (a conversion of the Count field), " +
			"the constants 0 / 1 (not announced yet / the floor), or a copy of such a variable; a limit that is also cut by another quantity (files, a configured maximum) leaves announced streams unread, and the sender spreads one file's chunks over all its streams: those chunks never arrive, no FileDone, both sides wait",
		Run: runReadersMatch,
	})
}

func runReadersMatch(c *Ctx) {
	p := c.P
	recv := p.Func("transfer.RecvManifestMultiStream")
	cnt, _ := p.LookupObj("internal/transfer", "DataStreams.Count").(*types.Var)
	if recv == nil || cnt == nil {
		c.MissingAnchor("transfer.RecvManifestMultiStream / DataStreams.Count")
		return
	}
	info := recv.Info()
	var okDef func(e ast.Expr, depth int) (bool, string)
	okDef = func(e ast.Expr, depth int) (bool, string) {
		e = StripConv(info, e)
		if v, ok := constInt(info, e); ok && (v == 1 || v == 0) {
			return true, "" // 0: not announced yet (the receiver loops while it is 0); 1: the floor
		}
		if sel, ok := e.(*ast.SelectorExpr); ok && info.Uses[sel.Sel] == cnt {
			return true, ""
		}
		if o, ok := ObjOf(info, e).(*types.Var); ok && !o.IsField() && depth > 0 {
			defs := allDefs(recv, o)
			if len(defs) == 0 {
				return false, types.ExprString(e)
			}
			for _, d := range defs {
				if good, why := okDef(d, depth-1); !good {
					return false, why
				}
			}
			return true, ""
		}
		return false, types.ExprString(e)
	}
	n := 0
	InspectNoLits(recv.Body, func(m ast.Node) bool {
		fs, ok := m.(*ast.ForStmt)
		if !ok {
			return true
		}
		be, ok := ast.Unparen(fs.Cond).(*ast.BinaryExpr)
		if !ok || (be.Op != token.LSS && be.Op != token.LEQ) {
			return true
		}
		// a reader loop: a go statement whose literal accepts a stream
		reader := false
		ast.Inspect(fs.Body, func(x ast.Node) bool {
			if g, ok := x.(*ast.GoStmt); ok {
				ast.Inspect(g, func(y ast.Node) bool {
					if call, ok := y.(*ast.CallExpr); ok {
						if sel, ok := ast.Unparen(call.Fun).(*ast.SelectorExpr); ok && sel.Sel.Name == "AcceptStream" {
							reader = true
						}
					}
					return true
				})
			}
			return true
		})
		if !reader {
			return true
		}
		n++
		good, why := okDef(be.Y, 3)
		if be.Op == token.LEQ {
			good, why = false, "a <= bound"
		}
		c.Check(good, fmt.Sprintf("readers/loop#%d", n), fs.Cond.Pos(), "one reader per announced data stream",
			"the loop that starts the data-stream readers is bounded by "+types.ExprString(be.Y)+", which is not only the announced count (it also takes "+why+"): announced streams stay unread, the chunks the sender writes to them never arrive, the file is never finalised and both sides wait for ever (fewer files than streams, several connections)")
		return true
	})
	if n == 0 {
		c.Bad("readers/none", recv.Pos(), "found no loop starting data-stream readers in RecvManifestMultiStream")
	}
}

func init() {
	Register(&Rule{
		Name:  "R-LEN-PREFIX",
		Props: []string{"C18"},
		Min:   4,
		Doc: "a 16-bit length prefix never wraps: in the record writers of internal/transfer (functions named write*), every uint16(len(x)) is dominated by a bound on that text - `if len(x) > K { return err }` or `if len(x) > K { x = x[:K] }` with a constant K <= 65535 on x or on the message field x was made from, " +
			"or a validator call on that field (validateRelPath, validateFilename) whose error is returned; written modulo 65536 with the whole text after it, every record that follows is read from the middle of the text",
		Run: runLenPrefix,
	})
}

func runLenPrefix(c *Ctx) {
	p := c.P
	n := 0
	for _, f := range p.FuncsIn("internal/transfer") {
		if f.Decl == nil || !strings.HasPrefix(f.Decl.Name.Name, "write") || strings.HasSuffix(p.Fset.Position(f.Pos()).Filename, "_test.go") {
			continue
		}
		info := f.Info()
		// a record writer writes to a stream it is handed; a method that happens to be called write... and writes a local file is none
		if !hasWriterParam(info, f) {
			continue
		}
		// source(x): the expression strings that denote the same text: x itself and, for x := []byte(E) / string(E), E
		sources := func(e ast.Expr) []string {
			out := []string{types.ExprString(ast.Unparen(e))}
			for _, d := range resolveExprs(f, e, 1) {
				out = append(out, types.ExprString(StripConv(info, d)))
			}
			return out
		}
		spec := &PassSpec{Name: "len-bound", Vias: []Via{
			{Cond: func(g *FuncInfo, e ast.Expr) (string, bool, bool) { // len(X) > K: false edge bounded
				be, ok := ast.Unparen(e).(*ast.BinaryExpr)
				if !ok || (be.Op != token.GTR && be.Op != token.GEQ) {
					return "", false, false
				}
				call, ok := ast.Unparen(be.X).(*ast.CallExpr)
				if !ok || len(call.Args) != 1 {
					return "", false, false
				}
				if id, ok := ast.Unparen(call.Fun).(*ast.Ident); !ok || id.Name != "len" {
					return "", false, false
				}
				k, ok := constInt(info, be.Y)
				if !ok || k > 65535+int64(map[bool]int{true: 1, false: 0}[be.Op == token.GEQ]) {
					return "", false, false
				}
				return "bounded:" + types.ExprString(StripConv(info, call.Args[0])), false, true
			}},
			{Call: func(g *FuncInfo, call *ast.CallExpr) (string, bool) { // validator(E) == nil
				if h := p.CalleeInfo(g.Info(), call); h != nil && (h.Name == "transfer.validateRelPath" || h.Name == "transfer.validateFilename") && len(call.Args) == 1 {
					return "bounded:" + types.ExprString(StripConv(g.Info(), call.Args[0])), true
				}
				return "", false
			}},
			{Stmt: func(g *FuncInfo, nd ast.Node) (string, bool) { // x = x[:K]
				as, ok := nd.(*ast.AssignStmt)
				if !ok || len(as.Lhs) != 1 || len(as.Rhs) != 1 {
					return "", false
				}
				se, ok := ast.Unparen(as.Rhs[0]).(*ast.SliceExpr)
				if !ok || se.High == nil || types.ExprString(se.X) != types.ExprString(as.Lhs[0]) {
					return "", false
				}
				if k, ok := constInt(info, se.High); ok && k <= 65535 {
					return "bounded:" + types.ExprString(as.Lhs[0]), true
				}
				return "", false
			}},
		}}
		k := 0
		f.CFG().Calls(func(r NodeRef, call *ast.CallExpr) {
			tv, ok := info.Types[call.Fun]
			if !ok || !tv.IsType() || len(call.Args) != 1 {
				return
			}
			if b, ok := tv.Type.Underlying().(*types.Basic); !ok || b.Kind() != types.Uint16 {
				return
			}
			lc, ok := ast.Unparen(call.Args[0]).(*ast.CallExpr)
			if !ok || len(lc.Args) != 1 {
				return
			}
			if id, ok := ast.Unparen(lc.Fun).(*ast.Ident); !ok || id.Name != "len" {
				return
			}
			n++
			k++
			key := fmt.Sprintf("prefix/%s#%d", f.Name, k)
			good := false
			for _, src := range sources(lc.Args[0]) {
				if spec.Passed(f, r, "bounded:"+src) {
					good = true
				}
			}
			c.Check(good, key, call.Pos(), "the text is bounded (rejected, cut or validated) before its length is narrowed to 16 bits",
				f.Name+" writes uint16(len("+types.ExprString(lc.Args[0])+")) and then the whole text without bounding it first: for a text of 65536+k bytes the prefix says k, the peer decodes a k-byte text and reads the next record from the middle of this one")
		})
	}
	if n == 0 {
		c.Bad("prefix/none", token.NoPos, "found no 16-bit length prefix in the record writers")
	}
}

func init() {
	Register(&Rule{
		Name:  "R-SELECTED-REGULAR",
		Props: []string{"C13"},
		Min:   2,
		Doc: "a selected path is listed as a file only when it is a regular file: in pkg/manifest every FileItem literal with IsDir false whose Size is <info>.Size() of a FileInfo obtained in the function itself (the selection; it must come from os.Stat, which follows a selected link, not os.Lstat; entries of a walk are filtered by their DirEntry type) " +
			"is reached only past the false edge of `!info.IsDir() && !info.Mode().IsRegular()` (or the true edge of Mode().IsRegular()) on that very FileInfo - a device, pipe or socket (also behind a link) has a stat size that is not its readable content",
		Run: runSelectedRegular,
	})
}

func runSelectedRegular(c *Ctx) {
	p := c.P
	fi, _ := p.LookupObj("pkg/manifest", "FileItem").(*types.TypeName)
	if fi == nil {
		c.MissingAnchor("manifest.FileItem")
		return
	}
	n := 0
	for _, f := range p.FuncsIn("pkg/manifest") {
		if f.Lit != nil || strings.HasSuffix(p.Fset.Position(f.Pos()).Filename, "_test.go") {
			continue
		}
		info := f.Info()
		isRegularOf := func(e ast.Expr) (string, bool) { // X.Mode().IsRegular()
			call, ok := ast.Unparen(e).(*ast.CallExpr)
			if !ok {
				return "", false
			}
			sel, ok := ast.Unparen(call.Fun).(*ast.SelectorExpr)
			if !ok || sel.Sel.Name != "IsRegular" {
				return "", false
			}
			mc, ok := ast.Unparen(sel.X).(*ast.CallExpr)
			if !ok {
				return "", false
			}
			ms, ok := ast.Unparen(mc.Fun).(*ast.SelectorExpr)
			if !ok || ms.Sel.Name != "Mode" {
				return "", false
			}
			return types.ExprString(ms.X), true
		}
		spec := &PassSpec{Name: "regular", Vias: []Via{{Cond: func(g *FuncInfo, e ast.Expr) (string, bool, bool) {
			e = ast.Unparen(e)
			// the fact is "directory or regular file": it survives the join of `if !X.IsDir() { if !regular { return } }`,
			// and the literal checked below is a non-directory by construction (IsDir: false)
			isDirOf := func(z ast.Expr) (string, bool) {
				call, ok := ast.Unparen(z).(*ast.CallExpr)
				if !ok {
					return "", false
				}
				if sel, ok := ast.Unparen(call.Fun).(*ast.SelectorExpr); ok && sel.Sel.Name == "IsDir" && len(call.Args) == 0 {
					return types.ExprString(sel.X), true
				}
				return "", false
			}
			if x, ok := isDirOf(e); ok {
				return "regular:" + x, true, true
			}
			if u, ok := e.(*ast.UnaryExpr); ok && u.Op == token.NOT {
				if x, ok := isDirOf(u.X); ok {
					return "regular:" + x, false, true
				}
			}
			if x, ok := isRegularOf(e); ok {
				return "regular:" + x, true, true
			}
			if u, ok := e.(*ast.UnaryExpr); ok && u.Op == token.NOT {
				if x, ok := isRegularOf(u.X); ok {
					return "regular:" + x, false, true
				}
			}
			// !X.IsDir() && !X.Mode().IsRegular(): false edge = directory or regular file
			if be, ok := e.(*ast.BinaryExpr); ok && be.Op == token.LAND {
				var who string
				okShape := true
				for _, a := range Implied(be, true) {
					if x, ok := isRegularOf(a.E); ok && !a.Val {
						who = x
						continue
					}
					if call, ok := ast.Unparen(a.E).(*ast.CallExpr); ok && !a.Val {
						if sel, ok := ast.Unparen(call.Fun).(*ast.SelectorExpr); ok && sel.Sel.Name == "IsDir" {
							continue
						}
					}
					okShape = false
				}
				if okShape && who != "" {
					return "regular:" + who, false, true
				}
			}
			return "", false, false
		}}}}
		// FileInfo variables that come from os.Stat
		statVars := map[types.Object]bool{}
		lstatVars := map[types.Object]bool{}
		InspectNoLits(f.Body, func(m ast.Node) bool {
			if as, ok := m.(*ast.AssignStmt); ok && len(as.Rhs) == 1 && len(as.Lhs) == 2 {
				if call, ok := ast.Unparen(as.Rhs[0]).(*ast.CallExpr); ok && (calleeIs(info, call, "os", "Stat") || calleeIs(info, call, "os", "Lstat")) {
					if o := ObjOf(info, as.Lhs[0]); o != nil {
						statVars[o] = true
						if calleeIs(info, call, "os", "Lstat") {
							lstatVars[o] = true
						}
					}
				}
			}
			return true
		})
		k := 0
		f.CFG().EachNode(func(r NodeRef) {
			InspectNoLits(r.Node(), func(m ast.Node) bool {
				cl, ok := m.(*ast.CompositeLit)
				if !ok {
					return true
				}
				if t := info.TypeOf(cl); t == nil || !types.Identical(t, fi.Type()) {
					return true
				}
				var sizeE ast.Expr
				isDirFalse := false
				for _, el := range cl.Elts {
					if kv, ok := el.(*ast.KeyValueExpr); ok {
						switch kv.Key.(*ast.Ident).Name {
						case "Size":
							sizeE = kv.Value
						case "IsDir":
							if id, ok := ast.Unparen(kv.Value).(*ast.Ident); ok && id.Name == "false" {
								isDirFalse = true
							}
						}
					}
				}
				if !isDirFalse || sizeE == nil {
					return true
				}
				call, ok := ast.Unparen(sizeE).(*ast.CallExpr)
				if !ok {
					return true
				}
				sel, ok := ast.Unparen(call.Fun).(*ast.SelectorExpr)
				if !ok || sel.Sel.Name != "Size" || !statVars[ObjOf(info, sel.X)] {
					return true
				}
				n++
				k++
				who := types.ExprString(sel.X)
				if lstatVars[ObjOf(info, sel.X)] {
					c.Bad(fmt.Sprintf("selected/%s#%d", f.Name, k), cl.Pos(), f.Name+" classifies the selected path with os.Lstat: a selected symbolic link to a file is then not a regular file (refused, or listed with the length of the link text instead of its content), while the sender reads through the link")
					return true
				}
				c.Check(spec.Passed(f, r, "regular:"+who), fmt.Sprintf("selected/%s#%d", f.Name, k), cl.Pos(), "the selection is listed as a file only past the regular-file test of its FileInfo",
					f.Name+" lists the selected path as a file with the size of its os.Stat result without testing "+who+".Mode().IsRegular(): `thru host /dev/zero`, a named pipe or a link to one is listed as an empty regular file, which is not its readable content")
				return true
			})
		})
	}
	if n == 0 {
		c.Bad("selected/none", token.NoPos, "found no file item built from the os.Stat result of a selected path in pkg/manifest")
	}
}

func init() {
	Register(&Rule{
		Name:  "R-ANNOUNCE-WAIT",
		Props: []string{"C15"},
		Min:   1,
		Doc: "the wait for the data-stream announcement ends when the control stream has ended: in RecvManifestMultiStream the loop that runs while the announced count is 0 returns on an End record (after End the control reader is gone, nothing else would wake the loop), " +
			"besides its context and control-error arms - a control stream of header, End, close must not leave the receiver waiting",
		Run: runAnnounceWait,
	})
}

func runAnnounceWait(c *Ctx) {
	p := c.P
	recv := p.Func("transfer.RecvManifestMultiStream")
	cnt, _ := p.LookupObj("internal/transfer", "DataStreams.Count").(*types.Var)
	endC, _ := p.LookupObj("internal/transfer", "controlTypeEnd").(*types.Const)
	if recv == nil || cnt == nil || endC == nil {
		c.MissingAnchor("transfer.RecvManifestMultiStream / DataStreams.Count / controlTypeEnd")
		return
	}
	info := recv.Info()
	n := 0
	InspectNoLits(recv.Body, func(m ast.Node) bool {
		fs, ok := m.(*ast.ForStmt)
		if !ok || fs.Cond == nil {
			return true
		}
		be, ok := ast.Unparen(fs.Cond).(*ast.BinaryExpr)
		if !ok || be.Op != token.EQL {
			return true
		}
		if z, ok := constInt(info, be.Y); !ok || z != 0 {
			return true
		}
		x, _ := ObjOf(info, be.X).(*types.Var)
		if x == nil {
			return true
		}
		// x is assigned the announced count inside the loop
		fromCount := false
		ast.Inspect(fs.Body, func(y ast.Node) bool {
			if as, ok := y.(*ast.AssignStmt); ok && len(as.Lhs) == 1 && ObjOf(info, as.Lhs[0]) == types.Object(x) {
				ast.Inspect(as.Rhs[0], func(z ast.Node) bool {
					if sel, ok := z.(*ast.SelectorExpr); ok && info.Uses[sel.Sel] == cnt {
						fromCount = true
					}
					return true
				})
			}
			return true
		})
		if !fromCount {
			return true
		}
		n++
		// an `if … == controlTypeEnd` (or a switch case) whose body returns
		handles := false
		ast.Inspect(fs.Body, func(y ast.Node) bool {
			switch s := y.(type) {
			case *ast.IfStmt:
				mentionsEnd := false
				ast.Inspect(s.Cond, func(z ast.Node) bool {
					if id, ok := z.(*ast.Ident); ok && info.Uses[id] == types.Object(endC) {
						mentionsEnd = true
					}
					return true
				})
				if b, ok := ast.Unparen(s.Cond).(*ast.BinaryExpr); mentionsEnd && ok && b.Op == token.EQL {
					for _, st := range s.Body.List {
						if _, isRet := st.(*ast.ReturnStmt); isRet {
							handles = true
						}
					}
				}
			case *ast.CaseClause:
				for _, e := range s.List {
					if id, ok := ast.Unparen(e).(*ast.Ident); ok && info.Uses[id] == types.Object(endC) {
						for _, st := range s.Body {
							if _, isRet := st.(*ast.ReturnStmt); isRet {
								handles = true
							}
						}
					}
				}
			}
			return true
		})
		c.Check(handles, fmt.Sprintf("announce-wait/loop#%d", n), fs.Pos(), "the wait for the announcement returns on End",
			"the loop that waits for the DataStreams record keeps an End record for later and goes on waiting: after End the control reader has finished, so a control stream of header, End, close leaves RecvManifestMultiStream blocked until its context ends - input that has ended must produce an error")
		return true
	})
	if n == 0 {
		c.Bad("announce-wait/none", recv.Pos(), "found no loop waiting for the data-stream announcement")
	}
}

func init() {
	Register(&Rule{
		Name:  "R-BEGIN-ONCE",
		Props: []string{"C01", "C02", "C15"},
		Min:   1,
		Doc: "a file is begun once: in the multiplexed receiver the registration of receive state for a FileBegin (the store into the map of active files) is reached only past the rejection of a key that is already active AND of a key that was already completed " +
			"(the set finalizeFile fills) - a FileBegin replayed for a finished file would be received and counted again, the count of completed files reaches the manifest total with another file never delivered, and the receiver returns success (F42)",
		Run: runBeginOnce,
	})
}

func runBeginOnce(c *Ctx) {
	p := c.P
	recv := p.Func("transfer.RecvManifestMultiStream")
	if recv == nil {
		c.MissingAnchor("transfer.RecvManifestMultiStream")
		return
	}
	// the two key sets: a map whose values are the mux state pointer (active) and a map keyed alike that finalizeFile stores into (done)
	var active, done types.Object
	for _, f := range allKids(recv) {
		info := f.Info()
		InspectNoLits(f.Body, func(m ast.Node) bool {
			as, ok := m.(*ast.AssignStmt)
			if !ok || len(as.Lhs) != 1 {
				return true
			}
			ix, ok := ast.Unparen(as.Lhs[0]).(*ast.IndexExpr)
			if !ok {
				return true
			}
			o := ObjOf(info, ix.X)
			if o == nil {
				return true
			}
			mt, ok := o.Type().Underlying().(*types.Map)
			if !ok {
				return true
			}
			if b, ok := mt.Key().Underlying().(*types.Basic); !ok || b.Kind() != types.Uint64 {
				return true
			}
			if strings.Contains(mt.Elem().String(), "recvFileStateMux") {
				active = o
			} else if _, isStruct := mt.Elem().Underlying().(*types.Struct); isStruct && strings.Contains(f.Name, "finalizeFile") {
				done = o
			}
			return true
		})
	}
	if active == nil || done == nil {
		c.Unknown("begin-once/sets", recv.Pos(), "cannot identify the map of active files and the set of completed files in RecvManifestMultiStream")
		return
	}
	n := 0
	for _, f := range allKids(recv) {
		info := f.Info()
		spec := &PassSpec{Name: "begin-once", Vias: []Via{{Cond: func(g *FuncInfo, e ast.Expr) (string, bool, bool) {
			// `_, ok := M[key]; ok` : the ident tested is the comma-ok result of a lookup in M
			id, isID := ast.Unparen(e).(*ast.Ident)
			neg := false
			if u, ok := ast.Unparen(e).(*ast.UnaryExpr); ok && u.Op == token.NOT {
				id, isID = ast.Unparen(u.X).(*ast.Ident)
				neg = true
			}
			if !isID {
				return "", false, false
			}
			o := g.Info().Uses[id]
			if o == nil {
				return "", false, false
			}
			which := ""
			ast.Inspect(g.Body, func(m ast.Node) bool {
				as, ok := m.(*ast.AssignStmt)
				if !ok || len(as.Lhs) != 2 || len(as.Rhs) != 1 || ObjOf(g.Info(), as.Lhs[1]) != o {
					return true
				}
				if ix, ok := ast.Unparen(as.Rhs[0]).(*ast.IndexExpr); ok {
					switch ObjOf(g.Info(), ix.X) {
					case active:
						which = "not-active"
					case done:
						which = "not-done"
					}
				}
				return true
			})
			if which == "" {
				return "", false, false
			}
			return which, neg, true
		}}}}
		f.CFG().EachNode(func(r NodeRef) {
			as, ok := r.Node().(*ast.AssignStmt)
			if !ok || len(as.Lhs) != 1 {
				return
			}
			ix, ok := ast.Unparen(as.Lhs[0]).(*ast.IndexExpr)
			if !ok || ObjOf(info, ix.X) != active {
				return
			}
			n++
			key := fmt.Sprintf("begin-once/%s#%d", f.Name, n)
			c.Check(spec.Passed(f, r, "not-active"), key+"/not-active", as.Pos(), "registration only for a key that is not active", "receive state is registered for a key that may already be active: a duplicate FileBegin replaces the state of a file in progress")
			c.Check(spec.Passed(f, r, "not-done"), key+"/not-done", as.Pos(), "registration only for a key that was not completed before",
				"receive state is registered for a file that may already have been completed: a replayed FileBegin is received and counted again, the completed-files count reaches the manifest total while another file was never delivered, and the receiver returns success")
		})
	}
	if n == 0 {
		c.Bad("begin-once/none", recv.Pos(), "found no registration of receive state")
	}
}

func init() {
	Register(&Rule{
		Name:  "R-RESEND-ONCE",
		Props: []string{"C17", "C06"},
		Min:   1,
		Doc: "the chunk that failed verification goes out once: every assignment resendPending = true in the sender is reached only past `<chunk> < F` (true edge), where <chunk> is the value stored into resendChunk beside it and F the value stored into resumePlan.forceSendFrom - " +
			"a chunk at or above the force-send index is sent by the ordinary schedule anyway (after the verdict), so scheduling it as the re-send as well dispatches it twice; with the default verify tail of 1 that is every failed verification (F43)",
		Run: runResendOnce,
	})
}

func runResendOnce(c *Ctx) {
	p := c.P
	send := p.Func("transfer.SendManifestMultiStream")
	if send == nil {
		c.MissingAnchor("transfer.SendManifestMultiStream")
		return
	}
	n := 0
	for _, f := range allKids(send) {
		info := f.Info()
		// F candidates: objects stored into resumePlan.forceSendFrom in f or its ancestors
		fvars := map[types.Object]bool{}
		for h := f; h != nil; h = h.Parent {
			ast.Inspect(h.Body, func(m ast.Node) bool {
				if kv, ok := m.(*ast.KeyValueExpr); ok {
					if k, ok := kv.Key.(*ast.Ident); ok && k.Name == "forceSendFrom" {
						if o := ObjOf(h.Info(), kv.Value); o != nil {
							fvars[o] = true
						}
					}
				}
				return true
			})
		}
		// the bitmap stored into resumePlan.bitmap
		bvars := map[types.Object]bool{}
		for h := f; h != nil; h = h.Parent {
			ast.Inspect(h.Body, func(m ast.Node) bool {
				if kv, ok := m.(*ast.KeyValueExpr); ok {
					if k, ok := kv.Key.(*ast.Ident); ok && k.Name == "bitmap" {
						if o := ObjOf(h.Info(), kv.Value); o != nil {
							bvars[o] = true
						}
					}
				}
				return true
			})
		}
		spec := &PassSpec{Name: "below-force", Vias: []Via{{Cond: func(g *FuncInfo, e ast.Expr) (string, bool, bool) {
			be, ok := ast.Unparen(e).(*ast.BinaryExpr)
			if !ok {
				return "", false, false
			}
			switch {
			case be.Op == token.LSS && fvars[ObjOf(g.Info(), be.Y)]:
				return "below:" + types.ExprString(be.X), true, true
			case be.Op == token.GEQ && fvars[ObjOf(g.Info(), be.Y)]:
				return "below:" + types.ExprString(be.X), false, true
			case be.Op == token.GTR && fvars[ObjOf(g.Info(), be.X)]:
				return "below:" + types.ExprString(be.Y), true, true
			}
			// v >= <state>.nextChunk / <state>.nextChunk <= v / v < <state>.nextChunk (F53)
			isNext := func(e ast.Expr) bool {
				sel, ok := ast.Unparen(e).(*ast.SelectorExpr)
				return ok && sel.Sel.Name == "nextChunk"
			}
			switch {
			case be.Op == token.GEQ && isNext(be.Y):
				return "ahead:" + types.ExprString(be.X), true, true
			case be.Op == token.LSS && isNext(be.Y):
				return "ahead:" + types.ExprString(be.X), false, true
			case be.Op == token.LEQ && isNext(be.X):
				return "ahead:" + types.ExprString(be.Y), true, true
			}
			return "", false, false
		}}, {Cond: func(g *FuncInfo, e ast.Expr) (string, bool, bool) {
			// <plan bitmap>.Get(int(v)) (F53)
			call, ok := ast.Unparen(e).(*ast.CallExpr)
			if !ok || len(call.Args) != 1 {
				return "", false, false
			}
			sel, ok := ast.Unparen(call.Fun).(*ast.SelectorExpr)
			if !ok || sel.Sel.Name != "Get" || !bvars[ObjOf(g.Info(), sel.X)] {
				return "", false, false
			}
			return "bit:" + types.ExprString(StripConv(g.Info(), call.Args[0])), true, true
		}}}}
		f.CFG().EachNode(func(r NodeRef) {
			as, ok := r.Node().(*ast.AssignStmt)
			if !ok || len(as.Lhs) != 1 || len(as.Rhs) != 1 {
				return
			}
			sel, ok := ast.Unparen(as.Lhs[0]).(*ast.SelectorExpr)
			if !ok || sel.Sel.Name != "resendPending" || types.ExprString(as.Rhs[0]) != "true" {
				return
			}
			n++
			// the chunk stored into resendChunk in the same block
			chunk := ""
			for _, nd := range r.B.Nodes {
				if a2, ok := nd.(*ast.AssignStmt); ok && len(a2.Lhs) == 1 && len(a2.Rhs) == 1 {
					if s2, ok := ast.Unparen(a2.Lhs[0]).(*ast.SelectorExpr); ok && s2.Sel.Name == "resendChunk" {
						chunk = types.ExprString(a2.Rhs[0])
					}
				}
			}
			key := fmt.Sprintf("resend-once/%s#%d", f.Name, n)
			if chunk == "" {
				c.Unknown(key, as.Pos(), "cannot find the chunk stored into resendChunk beside resendPending = true")
				return
			}
			c.Check(spec.Passed(f, r, "below:"+chunk), key, as.Pos(), "the explicit re-send is scheduled only for a chunk below the force-send index",
				"the re-send of chunk "+chunk+" is scheduled without testing that it lies below the plan's force-send index: a chunk inside the verify tail (with the default tail of 1: always the chunk that was verified) is also sent by the ordinary schedule, so it is dispatched twice and announced as two frames")
			c.Check(spec.Passed(f, r, "bit:"+chunk), key+"/bit-set", as.Pos(), "the explicit re-send is scheduled only for a chunk whose bit is set in the plan's bitmap",
				"the re-send of chunk "+chunk+" is scheduled without testing its bit in the bitmap the plan skips by: the schedule skips only chunks whose bit is set, so a report that names a verified chunk outside its own bitmap gets that chunk dispatched twice (re-send and schedule), announced as two frames")
			c.Check(spec.Passed(f, r, "ahead:"+chunk), key+"/not-handed-out", as.Pos(), "the explicit re-send is scheduled only for a chunk the schedule has not reached",
				"the re-send of chunk "+chunk+" is scheduled without testing that the schedule has not handed it out already (chunk >= nextChunk): a report that arrives after the grace period finds chunks sent without a plan - "+
					"the chunk then goes out a second time, and when the whole file was sent, behind the end-of-file record and outside its frame count")
		})
		_ = info
	}
	if n == 0 {
		c.Bad("resend-once/none", send.Pos(), "found no scheduling of a re-send in the sender")
	}
}

func init() {
	Register(&Rule{
		Name:  "R-OPEN-BOUNDED",
		Props: []string{"C03"},
		Min:   2,
		Doc: "the sender does not wait without bound for the peer to allow another data stream, and announces what it opened (F44): in SendManifestMultiStream the OpenStream call in the loop over the data streams takes a context that has a definition by context.WithTimeout / WithDeadline " +
			"(opening blocks only at the peer's limit of concurrent streams, which cannot rise while all streams stay open), and the count written into the DataStreams record derives from the length of the slice the opened streams were appended to",
		Run: runOpenBounded,
	})
}

func runOpenBounded(c *Ctx) {
	p := c.P
	send := p.Func("transfer.SendManifestMultiStream")
	if send == nil {
		c.MissingAnchor("transfer.SendManifestMultiStream")
		return
	}
	info := send.Info()
	var opened types.Object // the slice the streams are appended to
	n := 0
	InspectNoLits(send.Body, func(m ast.Node) bool {
		fs, ok := m.(*ast.ForStmt)
		if !ok {
			return true
		}
		var open *ast.CallExpr
		InspectNoLits(fs.Body, func(x ast.Node) bool {
			if call, ok := x.(*ast.CallExpr); ok {
				if sel, ok := ast.Unparen(call.Fun).(*ast.SelectorExpr); ok && sel.Sel.Name == "OpenStream" && len(call.Args) == 1 {
					open = call
				}
			}
			return true
		})
		if open == nil {
			return true
		}
		n++
		timed := false
		if o, ok := ObjOf(info, open.Args[0]).(*types.Var); ok {
			for _, d := range allDefs(send, o) {
				if call, ok := ast.Unparen(d).(*ast.CallExpr); ok && (calleeIs(info, call, "context", "WithTimeout") || calleeIs(info, call, "context", "WithDeadline")) {
					timed = true
				}
			}
		}
		c.Check(timed, fmt.Sprintf("open-bounded/loop#%d", n), open.Pos(), "opening a further data stream waits a bounded time",
			"the loop that opens the data streams calls OpenStream on "+types.ExprString(open.Args[0])+", which never times out: a receiver whose limit of concurrent streams is below the sender's stream count (--quic-max-incoming-streams 4 against 8 streams) leaves the sender waiting in OpenStream and itself waiting for the announcement, both for ever")
		// the slice the result goes to
		InspectNoLits(fs.Body, func(x ast.Node) bool {
			if as, ok := x.(*ast.AssignStmt); ok && len(as.Lhs) == 1 && len(as.Rhs) == 1 {
				if call, ok := ast.Unparen(as.Rhs[0]).(*ast.CallExpr); ok {
					if id, ok := ast.Unparen(call.Fun).(*ast.Ident); ok && id.Name == "append" && len(call.Args) == 2 && ObjOf(info, call.Args[0]) == ObjOf(info, as.Lhs[0]) {
						opened = ObjOf(info, as.Lhs[0])
					}
				}
			}
			return true
		})
		return true
	})
	if n == 0 {
		c.Bad("open-bounded/none", send.Pos(), "found no loop opening data streams in SendManifestMultiStream")
		return
	}
	// the announced count
	cntF, _ := p.LookupObj("internal/transfer", "DataStreams.Count").(*types.Var)
	k := 0
	InspectNoLits(send.Body, func(m ast.Node) bool {
		kv, ok := m.(*ast.KeyValueExpr)
		if !ok {
			return true
		}
		if id, ok := kv.Key.(*ast.Ident); !ok || info.Uses[id] != types.Object(cntF) {
			return true
		}
		k++
		good := false
		if opened != nil {
			// through copies: every definition chain of the announced variable must end in len(<opened slice>) (depth 3)
			var derives func(e ast.Expr, depth int) bool
			derives = func(e ast.Expr, depth int) bool {
				e = StripConv(info, e)
				if call, ok := e.(*ast.CallExpr); ok && len(call.Args) == 1 {
					if id, ok := ast.Unparen(call.Fun).(*ast.Ident); ok && id.Name == "len" && ObjOf(info, call.Args[0]) == opened {
						return true
					}
				}
				if depth == 0 {
					return false
				}
				defs := resolveExprsAll(send, e)
				if len(defs) == 0 {
					return false
				}
				// the last definition before the announcement decides; accept when some definition derives and it is the latest one textually
				var last ast.Expr
				for _, d := range defs {
					if d.Pos() < kv.Pos() && (last == nil || d.Pos() > last.Pos()) {
						last = d
					}
				}
				return last != nil && derives(last, depth-1)
			}
			good = derives(kv.Value, 3)
		}
		c.Check(good, fmt.Sprintf("announce-opened/count#%d", k), kv.Pos(), "the announced count is the number of streams that were opened",
			"the DataStreams record announces "+types.ExprString(kv.Value)+", which does not derive from the number of streams actually opened: when fewer streams could be opened than planned the receiver waits for streams that never come")
		return true
	})
	if k == 0 {
		c.Bad("announce-opened/none", send.Pos(), "found no DataStreams record written by SendManifestMultiStream")
	}
}

// resolveExprsAll: every definition of the local variable e denotes (one level), for variables with several definitions too.
func resolveExprsAll(f *FuncInfo, e ast.Expr) []ast.Expr {
	o, ok := ObjOf(f.Info(), e).(*types.Var)
	if !ok || o.IsField() {
		return nil
	}
	if own := owningFunc(f, o); own != nil {
		return allDefs(own, o)
	}
	return nil
}

func init() {
	Register(&Rule{
		Name:  "R-SIDECAR-ALLOC",
		Props: []string{"C06"},
		Min:   2,
		Doc: "a damaged sidecar cannot size a buffer: in LoadSidecar every make([]byte, n) whose n was read from the file is dominated by a comparison that rejects n above the bytes that are left (n > reader.Len() / len(data)), " +
			"since the checksum is only compared after the whole file was parsed - one flipped bit in the 32-bit bitmap length would otherwise allocate gigabytes on every resume of that file (F45)",
		Run: runSidecarAlloc,
	})
}

func runSidecarAlloc(c *Ctx) {
	p := c.P
	f := p.Func("transfer.LoadSidecar")
	if f == nil {
		c.MissingAnchor("transfer.LoadSidecar")
		return
	}
	info := f.Info()
	bs := boundSpec()
	n := 0
	f.CFG().Calls(func(r NodeRef, call *ast.CallExpr) {
		id, ok := ast.Unparen(call.Fun).(*ast.Ident)
		if !ok || id.Name != "make" || len(call.Args) < 2 {
			return
		}
		size := call.Args[len(call.Args)-1]
		if tv, ok := info.Types[size]; ok && tv.Value != nil {
			return
		}
		n++
		sx := types.ExprString(StripConv(info, size))
		c.Check(bs.Passed(f, r, "bounded:"+sx), fmt.Sprintf("sidecar-alloc/make#%d", n), call.Pos(), "the buffer length was compared with the bytes left in the file",
			"LoadSidecar allocates make("+types.ExprString(call.Args[0])+", "+sx+") with a length read from the file and not yet validated (the checksum is compared later): one flipped bit in a sidecar of 50 bytes makes the receiver allocate up to 4 GiB while it handles FileBegin, on every resume of that file")
	})
	if n == 0 {
		c.Bad("sidecar-alloc/none", f.Pos(), "LoadSidecar allocates nothing sized by the file")
	}
}

// hasWriterParam: some parameter of f has a Write([]byte) (int, error) method (io.Writer, transfer.Stream, *bufio.Writer ...).
func hasWriterParam(info *types.Info, f *FuncInfo) bool {
	if f.Type == nil || f.Type.Params == nil {
		return false
	}
	for _, fl := range f.Type.Params.List {
		t := info.TypeOf(fl.Type)
		if t == nil {
			continue
		}
		for _, tt := range []types.Type{t, types.NewPointer(t)} {
			ms := types.NewMethodSet(tt)
			for i := 0; i < ms.Len(); i++ {
				if ms.At(i).Obj().Name() == "Write" {
					return true
				}
			}
		}
	}
	return false
}
