package tf

import (
	"fmt"
	"go/ast"
	"go/token"
	"go/types"
	"strings"
)

// LiveFuncs: declared functions (and their literals) reachable from the main functions and
// package initialisers of the repository through references to function objects; calls
// through an interface reach every repository method of that name (over-approximation).
func (p *Program) LiveFuncs() map[*FuncInfo]bool {
	if p.live != nil {
		return p.live
	}
	live := map[*FuncInfo]bool{}
	byMethodName := map[string][]*FuncInfo{}
	for _, f := range p.Funcs() {
		if f.Decl != nil && f.Obj != nil {
			if sig, ok := f.Obj.Type().(*types.Signature); ok && sig.Recv() != nil {
				byMethodName[f.Obj.Name()] = append(byMethodName[f.Obj.Name()], f)
			}
		}
	}
	var work []*FuncInfo
	add := func(f *FuncInfo) {
		if f != nil && !live[f] {
			live[f] = true
			work = append(work, f)
		}
	}
	for _, f := range p.Funcs() {
		if f.Decl == nil || f.Obj == nil {
			continue
		}
		if strings.HasSuffix(p.Fset.Position(f.Pos()).Filename, "_test.go") {
			continue
		}
		if (f.Obj.Name() == "main" && f.Pkg.Name == "main") || f.Obj.Name() == "init" {
			add(f)
		}
	}
	// package-level variable initialisers may reference functions: treat every function referenced at package level as live
	for _, pk := range p.Pkgs {
		for _, file := range pk.Syntax {
			if strings.HasSuffix(p.Fset.Position(file.Pos()).Filename, "_test.go") {
				continue
			}
			for _, d := range file.Decls {
				gd, ok := d.(*ast.GenDecl)
				if !ok || gd.Tok != token.VAR {
					continue
				}
				ast.Inspect(gd, func(n ast.Node) bool {
					if id, ok := n.(*ast.Ident); ok {
						if fn, ok := pk.TypesInfo.Uses[id].(*types.Func); ok {
							add(p.FuncOf(fn))
						}
					}
					return true
				})
			}
		}
	}
	for len(work) > 0 {
		f := work[len(work)-1]
		work = work[:len(work)-1]
		for _, k := range f.Kids {
			add(k)
		}
		info := f.Info()
		InspectNoLits(f.Body, func(n ast.Node) bool {
			var id *ast.Ident
			switch e := n.(type) {
			case *ast.Ident:
				id = e
			case *ast.SelectorExpr:
				id = e.Sel
			}
			if id == nil {
				return true
			}
			fn, ok := info.Uses[id].(*types.Func)
			if !ok {
				return true
			}
			if g := p.FuncOf(fn); g != nil {
				add(g)
				return true
			}
			// interface method (or a method without a body in the repository): every repository method of that name
			if sig, ok := fn.Type().(*types.Signature); ok && sig.Recv() != nil {
				if _, isIface := sig.Recv().Type().Underlying().(*types.Interface); isIface {
					for _, g := range byMethodName[fn.Name()] {
						add(g)
					}
				}
			}
			return true
		})
	}
	p.live = live
	return live
}

func init() {
	Register(&Rule{
		Name:  "R-COUNT-FITS",
		Props: []string{"C19", "C01"},
		Min:   3,
		Doc: "a chunk count is never cut to 32 bits silently: in the code of internal/transfer that the binaries reach, every conversion uint32(E) where E is (or is a local defined as) a 64-bit quotient " +
			"is reached only past chunkCountFits(size, divisor) == true for that very size and divisor, or past a comparison that bounds E; when size and divisor are parameters of a helper (chunkTotal) the obligation is checked at each live call site instead. " +
			"Sender and receiver truncate alike, so a truncated count makes both finish after count mod 2^32 chunks and report success (F32)",
		Run: runCountFits,
	})
}

func runCountFits(c *Ctx) {
	p := c.P
	live := p.LiveFuncs()
	fitsFn, _ := p.LookupObj("internal/transfer", "chunkCountFits").(*types.Func)
	norm := func(info *types.Info, e ast.Expr) string { return types.ExprString(StripConv(info, e)) }
	spec := &PassSpec{Name: "count-fits", Vias: []Via{{Cond: func(f *FuncInfo, e ast.Expr) (string, bool, bool) {
		call, ok := ast.Unparen(e).(*ast.CallExpr)
		if !ok || fitsFn == nil || Callee(f.Info(), call) != fitsFn || len(call.Args) != 2 {
			return "", false, false
		}
		return "fits:" + norm(f.Info(), call.Args[0]) + "|" + norm(f.Info(), call.Args[1]), true, true
	}}}}
	spec.KillMatch = func(f *FuncInfo, n ast.Node, id string) bool {
		for _, o := range AssignedObjs(f.Info(), n) {
			for _, part := range strings.Split(strings.TrimPrefix(id, "fits:"), "|") {
				root := part
				if i := strings.IndexAny(root, ".[("); i >= 0 {
					root = root[:i]
				}
				if o.Name() == root {
					return true
				}
			}
		}
		return false
	}
	bs := boundSpec()
	is64 := func(t types.Type) bool { return t != nil && isIntType(t) && typeBitsOf(t) == 64 }
	// quotientOf: E (or its single local definition) is a 64-bit division; returns numerator leaves and divisor
	quotientOf := func(f *FuncInfo, e ast.Expr) (*ast.BinaryExpr, bool) {
		for _, d := range resolveExprs(f, e, 1) {
			var q *ast.BinaryExpr
			ast.Inspect(d, func(m ast.Node) bool {
				if be, ok := m.(*ast.BinaryExpr); ok && be.Op == token.QUO && is64(f.Info().TypeOf(be)) && q == nil {
					q = be
				}
				return q == nil
			})
			if q != nil {
				return q, true
			}
		}
		return nil, false
	}
	nLive := 0
	perFn := map[string]int{}
	var checkAt func(f *FuncInfo, ref NodeRef, sizeLeaves []string, div string) bool
	checkAt = func(f *FuncInfo, ref NodeRef, sizeLeaves []string, div string) bool {
		for _, s := range sizeLeaves {
			if spec.Passed(f, ref, "fits:"+s+"|"+div) {
				return true
			}
		}
		return false
	}
	for _, f := range p.FuncsIn("internal/transfer") {
		if !live[f] || strings.HasSuffix(p.Fset.Position(f.Pos()).Filename, "_test.go") {
			continue
		}
		info := f.Info()
		f.CFG().Calls(func(r NodeRef, call *ast.CallExpr) {
			tv, ok := info.Types[call.Fun]
			if !ok || !tv.IsType() || len(call.Args) != 1 {
				return
			}
			if b, ok := tv.Type.Underlying().(*types.Basic); !ok || b.Kind() != types.Uint32 {
				return
			}
			if !is64(info.TypeOf(call.Args[0])) {
				return
			}
			q, ok := quotientOf(f, call.Args[0])
			if !ok {
				return
			}
			nLive++
			perFn[f.Name]++
			key := fmt.Sprintf("count/%s#%d", f.Name, perFn[f.Name])
			div := norm(info, q.Y)
			var leaves []string
			ast.Inspect(q.X, func(m ast.Node) bool {
				switch e := m.(type) {
				case *ast.Ident, *ast.SelectorExpr:
					ex := e.(ast.Expr)
					if tv, ok := info.Types[ex]; ok && (tv.IsType() || tv.Value != nil) {
						return true
					}
					if s := types.ExprString(ex); s != div && is64or32(info.TypeOf(ex)) {
						leaves = append(leaves, s)
					}
					if _, isSel := e.(*ast.SelectorExpr); isSel {
						return false
					}
				}
				return true
			})
			if checkAt(f, r, leaves, div) {
				c.OK(key, call.Pos(), "the count conversion is past chunkCountFits("+strings.Join(leaves, "/")+", "+div+")")
				return
			}
			if bs.Passed(f, r, "bounded:"+norm(info, call.Args[0])) {
				c.OK(key, call.Pos(), "the count is bounded by a dominating comparison")
				return
			}
			// helper with parameters: obligation at the live call sites
			if f.Decl != nil && f.Obj != nil {
				params := map[string]int{}
				k := 0
				for _, fld := range f.Type.Params.List {
					for _, nm := range fld.Names {
						params[nm.Name] = k
						k++
					}
				}
				di, dok := params[div]
				si, sok := -1, false
				for _, l := range leaves {
					if i, ok := params[l]; ok {
						si, sok = i, true
					}
				}
				if dok && sok {
					sites := 0
					okAll := true
					for _, st := range p.CallSites(f.Obj) {
						if !live[st.f] && !live[st.f.Root()] {
							continue
						}
						InspectNoLits(st.ref.Node(), func(nd ast.Node) bool {
							c2, ok := nd.(*ast.CallExpr)
							if !ok || p.CalleeInfo(st.f.Info(), c2) != f || len(c2.Args) <= di || len(c2.Args) <= si {
								return true
							}
							sites++
							good := spec.Passed(st.f, st.ref, "fits:"+norm(st.f.Info(), c2.Args[si])+"|"+norm(st.f.Info(), c2.Args[di]))
							if !good {
								okAll = false
							}
							c.Check(good, fmt.Sprintf("%s/site/%s#%d", key, st.f.Name, sites), c2.Pos(), "the helper is called only past chunkCountFits on the same size and chunk size",
								f.Name+" cuts its 64-bit quotient to 32 bits and is called here with a size and chunk size whose chunk count was not checked to fit: sender and receiver truncate alike, both finish after count mod 2^32 chunks and report success with most of the file missing")
							return true
						})
					}
					if sites > 0 {
						_ = okAll
						return
					}
				}
			}
			c.Bad(key, call.Pos(), "a 64-bit chunk count ("+types.ExprString(call.Args[0])+") is converted to uint32 with no dominating range check: with a small chunk size and a large file the count wraps, sender and receiver agree on the wrapped count, transfer count mod 2^32 chunks and both report success")
		})
	}
	if nLive == 0 {
		c.Bad("count/none", token.NoPos, "found no 32-bit chunk-count conversion in the live transfer code")
	}
}

func is64or32(t types.Type) bool {
	return t != nil && isIntType(t) && typeBitsOf(t) >= 32
}
