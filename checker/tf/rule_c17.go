package tf

import (
	"fmt"
	"go/ast"
	"go/token"
	"go/types"
	"sort"
	"strings"
)

func init() {
	Register(&Rule{
		Name:  "R-DISPATCH",
		Props: []string{"C17", "C03", "C06", "C04"},
		Min:   20,
		Doc: "sender dispatch: (end-once) sendFileState.endSent is written only in markChunkDone/trySendEnd, set to true only under scheduleDone && inFlight == 0 && !endSent && !verifyPending && !resendPending (a queued re-send must go out first: F20), and from that point the function can only return true; " +
			"every call site of those two methods uses the result as the condition of an if whose true branch calls sendFileEnd(state) for the same state, and sendFileEnd is called nowhere else; writeFileEnd is only called by sendFileEnd; " +
			"(begin-once) writeFileBegin has one call site, in activateNext, executed under schedMu and only after sched.Next returned ok; (cursor) nextChunk is only incremented, the index handed out is the pre-increment value, " +
			"inFlight is incremented on exactly the paths that return ok=true and decremented only in markChunkDone, resendPending is cleared on the path that returns the re-send index; " +
			"(scheduler) every (key, true) return of Next stores a non-zero StartedAt for that key, the pending filters skip started files, and the classes offered by the two pending filters cover every class effectiveClass can return",
		Run: runDispatch,
	})
}

func runDispatch(c *Ctx) {
	p := c.P
	fld := func(n string) *types.Var {
		v, _ := p.LookupObj("internal/transfer", "sendFileState."+n).(*types.Var)
		if v == nil {
			c.MissingAnchor("transfer.sendFileState." + n)
		}
		return v
	}
	endSent, inFlight, nextChunk, resendPending := fld("endSent"), fld("inFlight"), fld("nextChunk"), fld("resendPending")
	if endSent == nil || inFlight == nil || nextChunk == nil || resendPending == nil {
		return
	}
	selField := func(info *types.Info, e ast.Expr) *types.Var {
		sel, ok := ast.Unparen(e).(*ast.SelectorExpr)
		if !ok {
			return nil
		}
		v, _ := info.Uses[sel.Sel].(*types.Var)
		return v
	}
	enders := map[string]bool{"transfer.(*sendFileState).markChunkDone": true, "transfer.(*sendFileState).trySendEnd": true}
	// ---- who writes endSent; guard shape
	for _, f := range p.FuncsIn("internal/transfer") {
		info := f.Info()
		cfg := f.CFG()
		guard := &PassSpec{Vias: []Via{{Cond: func(g *FuncInfo, e ast.Expr) (string, bool, bool) {
			gi := g.Info()
			if v := selField(gi, e); v != nil && v.Pkg() != nil {
				switch v.Name() {
				case "scheduleDone":
					return "scheduleDone", true, true
				case "endSent":
					return "not-endSent", false, true
				case "verifyPending":
					return "not-verifyPending", false, true
				case "resendPending":
					return "not-resendPending", false, true
				}
			}
			if be, ok := ast.Unparen(e).(*ast.BinaryExpr); ok && (be.Op == token.EQL || be.Op == token.NEQ || be.Op == token.GTR) {
				if v := selField(gi, be.X); v == inFlight {
					if z, ok := constInt(gi, be.Y); ok && z == 0 {
						return "inFlight==0", be.Op == token.EQL, true
					}
				}
			}
			return "", false, false
		}}}}
		n := 0
		cfg.EachNode(func(r NodeRef) {
			as, ok := r.Node().(*ast.AssignStmt)
			if !ok || len(as.Lhs) != 1 || selField(info, as.Lhs[0]) != endSent {
				return
			}
			n++
			key := fmt.Sprintf("end-once/%s#%d", f.Name, n)
			if !enders[f.Name] {
				c.Bad(key+"/who-writes", as.Pos(), "sendFileState.endSent is written outside markChunkDone/trySendEnd: the end-of-file record can be emitted twice or never")
				return
			}
			if types.ExprString(as.Rhs[0]) != "true" {
				c.Bad(key+"/who-writes", as.Pos(), "endSent is reset: FileEnd can be emitted again")
				return
			}
			for _, g := range []string{"scheduleDone", "inFlight==0", "not-endSent", "not-verifyPending", "not-resendPending"} {
				c.Check(guard.Passed(f, r, g), key+"/guard/"+g, as.Pos(), "endSent=true only under "+g, "endSent is set on a path where "+g+" was not established: FileEnd can go out before all handed-out chunks were written / before verification was decided / a second time",
					"facts here: "+strings.Join(guard.PassedList(f, r), ", "))
			}
			// from here only `return true`
			okRet := true
			for _, b := range cfg.Blocks {
				ret, isRet := IsReturnExit(b)
				if !isRet || len(ret.Results) != 1 {
					continue
				}
				rr := NodeRef{b, len(b.Nodes) - 1}
				if (cfg.Reaches(r, rr)) && types.ExprString(ret.Results[0]) != "true" {
					okRet = false
				}
			}
			c.Check(okRet, key+"/returns-true", as.Pos(), "after endSent=true the function returns true", "after setting endSent the function can return false: the caller then never sends FileEnd and the file never completes")
		})
		// `return true` only after setting endSent
		if enders[f.Name] {
			set := &PassSpec{Vias: []Via{{Stmt: func(g *FuncInfo, nd ast.Node) (string, bool) {
				if as, ok := nd.(*ast.AssignStmt); ok && len(as.Lhs) == 1 && selField(g.Info(), as.Lhs[0]) == endSent {
					return "end-set", true
				}
				return "", false
			}}}}
			k := 0
			for _, b := range cfg.Blocks {
				ret, isRet := IsReturnExit(b)
				if !isRet || len(ret.Results) != 1 || types.ExprString(ret.Results[0]) != "true" {
					continue
				}
				k++
				c.Check(set.Passed(f, NodeRef{b, len(b.Nodes) - 1}, "end-set"), fmt.Sprintf("end-once/%s/return-true#%d", f.Name, k), ret.Pos(), "true is returned only by the call that set endSent",
					"true is returned without setting endSent: two callers can both be told to send FileEnd")
			}
		}
	}
	// ---- call-site pairing of the enders with sendFileEnd
	sender := p.Func("transfer.SendManifestMultiStream")
	if sender == nil {
		c.MissingAnchor("transfer.SendManifestMultiStream")
		return
	}
	sendFileEnd := p.Func("transfer.SendManifestMultiStream$sendFileEnd")
	if sendFileEnd == nil {
		c.MissingAnchor("transfer.SendManifestMultiStream$sendFileEnd")
		return
	}
	won := &PassSpec{Name: "end-won"}
	won.Vias = []Via{{Cond: func(g *FuncInfo, e ast.Expr) (string, bool, bool) {
		call, ok := ast.Unparen(e).(*ast.CallExpr)
		if !ok {
			return "", false, false
		}
		if fi := p.CalleeInfo(g.Info(), call); fi != nil && enders[fi.Name] {
			recv := ast.Unparen(call.Fun).(*ast.SelectorExpr).X
			return "end-won:" + types.ExprString(recv), true, true
		}
		return "", false, false
	}}}
	won.KillMatch = func(g *FuncInfo, n ast.Node, id string) bool {
		// consumed by sendFileEnd for that state
		hit := false
		InspectNoLits(n, func(m ast.Node) bool {
			if call, ok := m.(*ast.CallExpr); ok && p.CalleeInfo(g.Info(), call) == sendFileEnd && len(call.Args) == 1 {
				if id == "end-won:"+types.ExprString(call.Args[0]) {
					hit = true
				}
			}
			return true
		})
		return hit
	}
	var all []*FuncInfo
	var collect func(f *FuncInfo)
	collect = func(f *FuncInfo) {
		all = append(all, f)
		for _, k := range f.Kids {
			collect(k)
		}
	}
	collect(sender)
	nEnd, nCall := 0, 0
	for _, f := range all {
		info := f.Info()
		cfg := f.CFG()
		cfg.Calls(func(r NodeRef, call *ast.CallExpr) {
			fi := p.CalleeInfo(info, call)
			if fi == sendFileEnd && len(call.Args) == 1 {
				nEnd++
				c.Check(won.Passed(f, r, "end-won:"+types.ExprString(call.Args[0])), fmt.Sprintf("end-pairing/sendFileEnd/%s#%d", f.Name, nEnd), call.Pos(),
					"sendFileEnd(state) only on the true branch of state.markChunkDone()/trySendEnd()", "sendFileEnd is called without having won the end-once test for that state: a second FileEnd for the file, or one before its chunks are out")
			}
			if fi != nil && enders[fi.Name] {
				nCall++
				key := fmt.Sprintf("end-pairing/%s/%s#%d", strings.TrimPrefix(fi.Name, "transfer.(*sendFileState)."), f.Name, nCall)
				cond, t, _, isCond := CondEdges(r.B)
				if !isCond || r.I != len(r.B.Nodes)-1 || ast.Unparen(cond) != ast.Expr(call) {
					c.Bad(key, call.Pos(), "the result of the end-once test is not used as the condition that sends FileEnd: when it returns true and nobody sends FileEnd the file never completes")
					return
				}
				recv := types.ExprString(ast.Unparen(call.Fun).(*ast.SelectorExpr).X)
				first := NodeRef{t, -1}
				hit := allPathsHit(cfg, first, func(n ast.Node) bool {
					h := false
					InspectNoLits(n, func(m ast.Node) bool {
						if c2, ok := m.(*ast.CallExpr); ok && p.CalleeInfo(info, c2) == sendFileEnd && len(c2.Args) == 1 && types.ExprString(c2.Args[0]) == recv {
							h = true
						}
						return true
					})
					return h
				}, func(n ast.Node) bool { return false })
				c.Check(hit, key, call.Pos(), "true branch always reaches sendFileEnd("+recv+")", "the winner of the end-once test does not always send FileEnd for "+recv+": the file never completes on the receiver")
			}
		})
	}
	// writeFileEnd only from sendFileEnd; writeFileBegin only from activateNext under schedMu after sched.Next ok
	ls := NewLockSpec()
	for _, f := range p.FuncsIn("internal/transfer") {
		if !strings.HasPrefix(f.Root().Name, "transfer.SendManifestMultiStream") {
			continue
		}
		info := f.Info()
		f.CFG().Calls(func(r NodeRef, call *ast.CallExpr) {
			fi := p.CalleeInfo(info, call)
			if fi == nil {
				return
			}
			switch fi.Name {
			case "transfer.writeFileEnd":
				c.Check(f == sendFileEnd, "who-calls/writeFileEnd/"+f.Name, call.Pos(), "FileEnd is written only by sendFileEnd", "writeFileEnd is called outside sendFileEnd: a FileEnd that bypasses the end-once test")
			case "transfer.writeFileBegin":
				okWho := f.Name == "transfer.SendManifestMultiStream$activateNext"
				held, _ := Held(ls, f, r, "schedMu")
				next := &PassSpec{Vias: []Via{{Call: func(g *FuncInfo, c2 *ast.CallExpr) (string, bool) {
					if sel, ok := ast.Unparen(c2.Fun).(*ast.SelectorExpr); ok && sel.Sel.Name == "Next" {
						if fn := Callee(g.Info(), c2); fn != nil && fn.Pkg() != nil && fn.Pkg().Path() == RepoPkg("internal/scheduler") {
							return "scheduled", true
						}
					}
					return "", false
				}}}}
				c.Check(okWho, "begin-once/who-calls/"+f.Name, call.Pos(), "FileBegin is written only by activateNext", "writeFileBegin is called outside activateNext: a file can be begun twice")
				c.Check(held, "begin-once/under-schedMu/"+f.Name, call.Pos(), "FileBegin is written under schedMu (activateNext is only called with schedMu held)", "writeFileBegin can run without schedMu: two workers can activate the same scheduler pick concurrently")
				c.Check(next.Passed(f, r, "scheduled"), "begin-once/after-next/"+f.Name, call.Pos(), "FileBegin only for a key that sched.Next just returned with ok", "writeFileBegin is reachable without a successful sched.Next: files are begun that the scheduler did not hand out")
			}
		})
	}
	// ---- cursor discipline in nextChunkToSend
	if nx := p.Func("transfer.(*sendFileState).nextChunkToSend"); nx != nil {
		info := nx.Info()
		cfg := nx.CFG()
		// nextChunk: only ++ ; idx read before the increment
		okInc, okPre := true, false
		var pre types.Object
		cfg.EachNode(func(r NodeRef) {
			switch s := r.Node().(type) {
			case *ast.AssignStmt:
				for i, l := range s.Lhs {
					if selField(info, l) == nextChunk {
						okInc = false
					}
					if i < len(s.Rhs) && selField(info, s.Rhs[i]) == nextChunk {
						pre = ObjOf(info, l)
					}
				}
			case *ast.IncDecStmt:
				if selField(info, s.X) == nextChunk {
					if s.Tok != token.INC {
						okInc = false
					}
					// the copy must have been taken before (dominating) this increment
					cfg.EachNode(func(r2 NodeRef) {
						if as, ok := r2.Node().(*ast.AssignStmt); ok && len(as.Rhs) == 1 && selField(info, as.Rhs[0]) == nextChunk && cfg.Dominates(r2, r) && r2 != r {
							okPre = true
						}
					})
				}
			}
		})
		c.Check(okInc, "cursor/nextChunk-monotone", nx.Pos(), "nextChunk is only incremented", "nextChunk is assigned or decremented: a chunk index can be handed out twice")
		c.Check(okPre && pre != nil, "cursor/pre-increment", nx.Pos(), "the index handed out is copied before the increment", "the index handed out is not the pre-increment value of nextChunk: a chunk is skipped or dispatched twice")
		// who else writes nextChunk
		for _, f := range p.FuncsIn("internal/transfer") {
			if f == nx {
				continue
			}
			fi := f.Info()
			InspectNoLits(f.Body, func(n ast.Node) bool {
				switch s := n.(type) {
				case *ast.AssignStmt:
					for _, l := range s.Lhs {
						if selField(fi, l) == nextChunk {
							c.Bad("cursor/who-writes/"+f.Name, s.Pos(), "nextChunk is written outside nextChunkToSend")
						}
					}
				case *ast.IncDecStmt:
					if selField(fi, s.X) == nextChunk {
						c.Bad("cursor/who-writes/"+f.Name, s.Pos(), "nextChunk is written outside nextChunkToSend")
					}
				}
				return true
			})
		}
		// inFlight++ exactly on ok=true returns
		inc := &PassSpec{Vias: []Via{{Stmt: func(g *FuncInfo, n ast.Node) (string, bool) {
			if s, ok := n.(*ast.IncDecStmt); ok && selField(g.Info(), s.X) == inFlight && s.Tok == token.INC {
				return "taken", true
			}
			return "", false
		}}}}
		k := 0
		for _, b := range cfg.Blocks {
			ret, isRet := IsReturnExit(b)
			if !isRet || len(ret.Results) != 3 {
				continue
			}
			k++
			ref := NodeRef{b, len(b.Nodes) - 1}
			isTrue := types.ExprString(ret.Results[2]) == "true"
			has := inc.Passed(nx, ref, "taken")
			if isTrue {
				c.Check(has, fmt.Sprintf("cursor/inFlight/return#%d", k), ret.Pos(), "ok=true return passes inFlight++", "a chunk is handed out without counting it in flight: FileEnd can be sent while it is still being written")
			} else {
				// must not be reachable from an increment
				reach := false
				cfg.EachNode(func(r2 NodeRef) {
					if s, ok := r2.Node().(*ast.IncDecStmt); ok && selField(info, s.X) == inFlight && cfg.Reaches(r2, ref) {
						// loops: the `continue` path after skipping does not increment; only flag when the increment dominates
						if cfg.Dominates(r2, ref) {
							reach = true
						}
					}
				})
				c.Check(!reach, fmt.Sprintf("cursor/inFlight/return#%d", k), ret.Pos(), "ok=false return does not count a chunk in flight", "inFlight is incremented on a path that hands out no chunk: the file never reaches inFlight == 0 and FileEnd is never sent")
			}
		}
		// resendPending cleared on the path that returns the re-send index
		clr := &PassSpec{Vias: []Via{{Stmt: func(g *FuncInfo, n ast.Node) (string, bool) {
			if as, ok := n.(*ast.AssignStmt); ok && len(as.Lhs) == 1 && selField(g.Info(), as.Lhs[0]) == resendPending && types.ExprString(as.Rhs[0]) == "false" {
				return "resend-cleared", true
			}
			return "", false
		}}, {Cond: func(g *FuncInfo, e ast.Expr) (string, bool, bool) {
			if selField(g.Info(), e) == resendPending {
				return "resend-branch", true, true
			}
			return "", false, false
		}}}}
		clr.Kill = nil
		j := 0
		for _, b := range cfg.Blocks {
			ret, isRet := IsReturnExit(b)
			if !isRet || len(ret.Results) != 3 {
				continue
			}
			ref := NodeRef{b, len(b.Nodes) - 1}
			if clr.Passed(nx, ref, "resend-branch") && types.ExprString(ret.Results[2]) == "true" {
				// resend-branch survives only inside the if body (must-analysis): these are the resend returns
				j++
				c.Check(clr.Passed(nx, ref, "resend-cleared"), fmt.Sprintf("cursor/resend-once#%d", j), ret.Pos(), "the re-send is handed out once (flag cleared on that path)", "the verified chunk's re-send is handed out without clearing resendPending: it is sent again and again")
			}
		}
	} else {
		c.MissingAnchor("transfer.(*sendFileState).nextChunkToSend")
	}
	// inFlight decremented only in markChunkDone
	for _, f := range p.FuncsIn("internal/transfer") {
		fi := f.Info()
		InspectNoLits(f.Body, func(n ast.Node) bool {
			if s, ok := n.(*ast.IncDecStmt); ok && selField(fi, s.X) == inFlight && s.Tok == token.DEC {
				c.Check(f.Name == "transfer.(*sendFileState).markChunkDone", "cursor/inFlight-dec/"+f.Name, s.Pos(), "inFlight is decremented only when a handed-out chunk was finished", "inFlight is decremented outside markChunkDone")
			}
			return true
		})
	}
	// ---- scheduler
	if nx := p.Func("scheduler.(*HybridScheduler).Next"); nx != nil {
		info := nx.Info()
		cfg := nx.CFG()
		started := &PassSpec{}
		started.Vias = []Via{
			{Stmt: func(g *FuncInfo, n ast.Node) (string, bool) { // meta.StartedAt = now
				if as, ok := n.(*ast.AssignStmt); ok && len(as.Lhs) == 1 {
					if sel, ok := ast.Unparen(as.Lhs[0]).(*ast.SelectorExpr); ok && sel.Sel.Name == "StartedAt" {
						return "started", true
					}
				}
				return "", false
			}},
			{Cond: func(g *FuncInfo, e ast.Expr) (string, bool, bool) { // already started
				if call, ok := ast.Unparen(e).(*ast.CallExpr); ok && calleeIs(g.Info(), call, "time", "Time.IsZero") && strings.Contains(types.ExprString(call), "StartedAt") {
					return "started", false, true
				}
				return "", false, false
			}},
			{Stmt: func(g *FuncInfo, n ast.Node) (string, bool) { // s.files[K] = meta
				if as, ok := n.(*ast.AssignStmt); ok && len(as.Lhs) == 1 {
					if ix, ok := ast.Unparen(as.Lhs[0]).(*ast.IndexExpr); ok && strings.HasSuffix(types.ExprString(ix.X), ".files") {
						return "stored:" + types.ExprString(ix.Index), true
					}
				}
				return "", false
			}},
		}
		started.KillMatch = func(g *FuncInfo, n ast.Node, id string) bool {
			// a new meta value is loaded: the earlier "started" no longer describes it
			if id != "started" {
				return false
			}
			if as, ok := n.(*ast.AssignStmt); ok && len(as.Rhs) == 1 {
				if ix, ok := ast.Unparen(as.Rhs[0]).(*ast.IndexExpr); ok && strings.HasSuffix(types.ExprString(ix.X), ".files") {
					return true
				}
			}
			return false
		}
		k := 0
		for _, b := range cfg.Blocks {
			ret, isRet := IsReturnExit(b)
			if !isRet || len(ret.Results) != 2 || types.ExprString(ret.Results[1]) != "true" {
				continue
			}
			k++
			ref := NodeRef{b, len(b.Nodes) - 1}
			keyExpr := types.ExprString(ret.Results[0])
			c.Check(started.Passed(nx, ref, "started") && started.Passed(nx, ref, "stored:"+keyExpr), fmt.Sprintf("scheduler/next#%d/marks-started", k), ret.Pos(),
				"the returned key is stored back with a non-zero StartedAt", "Next returns "+keyExpr+" without storing a non-zero StartedAt for it: the same file is handed out again and begun twice")
		}
		if k == 0 {
			c.Unknown("scheduler/next", nx.Pos(), "no (key, true) return found in Next")
		}
		_ = info
		// pending filters skip started files
		classes := map[string]bool{}
		for _, name := range []string{"scheduler.(*HybridScheduler).pendingByClass", "scheduler.(*HybridScheduler).pendingWeighted"} {
			f := p.Func(name)
			if f == nil {
				c.MissingAnchor(name)
				continue
			}
			fi := f.Info()
			skip := &PassSpec{Vias: []Via{{Cond: func(g *FuncInfo, e ast.Expr) (string, bool, bool) {
				if call, ok := ast.Unparen(e).(*ast.CallExpr); ok && calleeIs(g.Info(), call, "time", "Time.IsZero") && strings.Contains(types.ExprString(call), "StartedAt") {
					return "not-started", true, true
				}
				return "", false, false
			}}}}
			j := 0
			f.CFG().EachNode(func(r NodeRef) {
				if as, ok := r.Node().(*ast.AssignStmt); ok && len(as.Rhs) == 1 {
					if call, ok := ast.Unparen(as.Rhs[0]).(*ast.CallExpr); ok {
						if id, ok := ast.Unparen(call.Fun).(*ast.Ident); ok && id.Name == "append" {
							j++
							c.Check(skip.Passed(f, r, "not-started"), fmt.Sprintf("scheduler/%s/skips-started#%d", strings.TrimPrefix(name, "scheduler.(*HybridScheduler)."), j), as.Pos(),
								"only files with a zero StartedAt are offered", "a started file is offered again by the pending filter")
						}
					}
				}
			})
			// classes compared in this filter
			ast.Inspect(f.Body, func(n ast.Node) bool {
				if be, ok := n.(*ast.BinaryExpr); ok && be.Op == token.EQL {
					for _, side := range []ast.Expr{be.X, be.Y} {
						if cn, ok := ObjOf(fi, side).(*types.Const); ok && strings.HasPrefix(cn.Name(), "class") {
							classes[cn.Name()] = true
						}
					}
				}
				return true
			})
		}
		// class passed to pendingByClass in Next
		ast.Inspect(nx.Body, func(n ast.Node) bool {
			if call, ok := n.(*ast.CallExpr); ok {
				if fi := p.CalleeInfo(nx.Info(), call); fi != nil && fi.Name == "scheduler.(*HybridScheduler).pendingByClass" && len(call.Args) == 2 {
					if cn, ok := ObjOf(nx.Info(), call.Args[1]).(*types.Const); ok {
						classes[cn.Name()] = true
					}
				}
			}
			return true
		})
		delete(classes, "class") // parameter named class is not a constant; defensive
		// classes effectiveClass / classForRemaining can return
		returned := map[string]bool{}
		for _, name := range []string{"scheduler.(*HybridScheduler).classForRemaining", "scheduler.(*HybridScheduler).effectiveClass"} {
			f := p.Func(name)
			if f == nil {
				c.MissingAnchor(name)
				continue
			}
			ast.Inspect(f.Body, func(n ast.Node) bool {
				if ret, ok := n.(*ast.ReturnStmt); ok && len(ret.Results) == 1 {
					if cn, ok := ObjOf(f.Info(), ret.Results[0]).(*types.Const); ok {
						returned[cn.Name()] = true
					}
				}
				return true
			})
		}
		var miss []string
		for r := range returned {
			if !classes[r] {
				miss = append(miss, r)
			}
		}
		sort.Strings(miss)
		c.Check(len(miss) == 0 && len(returned) >= 2, "scheduler/class-exhaustive", nx.Pos(), fmt.Sprintf("every class effectiveClass can return (%v) is offered by a pending filter", keysOf(returned)),
			"files of class "+strings.Join(miss, ", ")+" are never offered by Next: such a file is never begun and the transfer never finishes")
	} else {
		c.MissingAnchor("scheduler.(*HybridScheduler).Next")
	}
}
