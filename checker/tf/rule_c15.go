package tf

import (
	"fmt"
	"go/ast"
	"go/token"
	"go/types"
	"strings"
)

func init() {
	Register(&Rule{
		Name:  "R-ALLOC",
		Props: []string{"C15"},
		Min:   12,
		Doc: "bounded-allocation: in the receive/decoding code of internal/transfer and the dumb receiver, every make([]T, n) / make(chan T, n) / bufpool.New(n) / chunkPoolFor(n) whose size derives from an integer read off a stream " +
			"is sized by a value of at most 16 bits, or by len() of bytes already held, or is dominated by a comparison that rejects n above a bound; byte fields with 32-bit length prefixes are read through an incremental reader " +
			"(io.LimitReader + io.ReadAll) so that memory follows the bytes received; the sidecar constructors, which allocate ceil(size / chunk size) bits, are sinks too when both values come off the stream (accepted past a dominating upper bound on the chunk count computed from the same two values; live code only)",
		Run: runAlloc,
	})
	Register(&Rule{
		Name:  "R-PANIC-GUARD",
		Props: []string{"C15"},
		Min:   12,
		Doc: "no panic on hostile input: every bufpool.New(n) (panics for n <= 0) and every integer division / modulo by a non-constant value in the receive-side code is dominated by a guard that excludes zero for that very expression; " +
			"every unchecked type assertion on a decoded control message sits under the case / equality test of the type constant for which readControlMessage returns exactly that type; " +
			"slice expressions buf[:n] with a wire-derived n are dominated by n <= len(buf)",
		Run: runPanicGuard,
	})
}

func wireKinds(c *Ctx) *KindEnv {
	p := c.P
	seeds := map[types.Object]string{}
	// fields of wire records
	for _, tn := range []string{"FileBegin", "FileEnd", "FileDone", "FileResumeInfo", "ResumeRequest", "Credit", "CreditBatch", "DataStreams"} {
		t, _ := p.LookupObj("internal/transfer", tn).(*types.TypeName)
		if t == nil {
			c.MissingAnchor("transfer." + tn)
			continue
		}
		st := t.Type().Underlying().(*types.Struct)
		for i := 0; i < st.NumFields(); i++ {
			if isIntType(st.Field(i).Type()) {
				seeds[st.Field(i)] = "wire"
			}
		}
	}
	fseeds := map[*types.Func]string{}
	for _, fn := range []string{"readUint16Control", "readUint32Control", "readUint64Control"} {
		if f := p.transferFunc(fn); f != nil {
			fseeds[f] = "wire"
		}
	}
	k := p.InferKinds([]string{"internal/transfer", "internal/app"}, seeds, fseeds)
	// binary.Read(r, order, &x) and binary.BigEndian.UintN(...) results
	for _, rel := range []string{"internal/transfer", "internal/app"} {
		pk := p.Pkg(rel)
		if pk == nil {
			continue
		}
		info := pk.TypesInfo
		for _, file := range pk.Syntax {
			ast.Inspect(file, func(n ast.Node) bool {
				switch v := n.(type) {
				case *ast.CallExpr:
					if calleeIs(info, v, "encoding/binary", "Read") && len(v.Args) == 3 {
						if u, ok := ast.Unparen(v.Args[2]).(*ast.UnaryExpr); ok && u.Op == token.AND {
							if o := ObjOf(info, u.X); o != nil && k.kind[o] == "" {
								k.kind[o] = "wire"
							}
						}
					}
				case *ast.AssignStmt:
					if len(v.Lhs) == 1 && len(v.Rhs) == 1 {
						if call, ok := ast.Unparen(v.Rhs[0]).(*ast.CallExpr); ok {
							if sel, ok := ast.Unparen(call.Fun).(*ast.SelectorExpr); ok && strings.HasPrefix(sel.Sel.Name, "Uint") && isBigEndian(info, sel.X) {
								if o := ObjOf(info, v.Lhs[0]); o != nil && k.kind[o] == "" {
									k.kind[o] = "wire"
								}
							}
						}
					}
				}
				return true
			})
		}
	}
	// second propagation round with the extra seeds
	seeds2 := map[types.Object]string{}
	for o, kind := range k.kind {
		if kind == "wire" {
			seeds2[o] = "wire"
		}
	}
	return p.InferKinds([]string{"internal/transfer", "internal/app"}, seeds2, fseeds)
}

func typeBitsOf(t types.Type) int {
	b, ok := t.Underlying().(*types.Basic)
	if !ok {
		return 64
	}
	switch b.Kind() {
	case types.Uint8, types.Int8, types.Bool:
		return 8
	case types.Uint16, types.Int16:
		return 16
	case types.Uint32, types.Int32:
		return 32
	}
	return 64
}

// smallOrLocal: every identifier leaf of the size expression resolves (through single-definition locals) to a constant, len(...),
// or a value whose own type is at most 16 bits; non-wire leaves are the program's own quantities.
func sizeIsSmall(f *FuncInfo, k *KindEnv, e ast.Expr, depth int) (bool, string) {
	info := f.Info()
	e = ast.Unparen(e)
	if tv, ok := info.Types[e]; ok && tv.Value != nil {
		return true, ""
	}
	st := StripConv(info, e)
	if st != e {
		if t := info.TypeOf(st); t != nil && typeBitsOf(t) <= 16 && isIntType(t) {
			return true, ""
		}
		return sizeIsSmall(f, k, st, depth)
	}
	switch v := e.(type) {
	case *ast.CallExpr:
		if id, ok := ast.Unparen(v.Fun).(*ast.Ident); ok && (id.Name == "len" || id.Name == "cap" || id.Name == "min") {
			if id.Name == "min" {
				for _, a := range v.Args {
					if ok, _ := sizeIsSmall(f, k, a, depth); ok {
						return true, ""
					}
				}
				return false, types.ExprString(e)
			}
			return true, ""
		}
		return false, types.ExprString(e)
	case *ast.BinaryExpr:
		l, lw := sizeIsSmall(f, k, v.X, depth)
		r, rw := sizeIsSmall(f, k, v.Y, depth)
		if l && r {
			return true, ""
		}
		if !l {
			return false, lw
		}
		return false, rw
	case *ast.Ident, *ast.SelectorExpr:
		if t := info.TypeOf(e); t != nil && isIntType(t) && typeBitsOf(t) <= 16 {
			return true, ""
		}
		if k.Of(info, e) != "wire" {
			return true, "" // not derived from the stream: the program's own quantity
		}
		if id, ok := e.(*ast.Ident); ok && depth > 0 {
			o := ObjOf(info, id)
			if v, ok := o.(*types.Var); ok && f.Prog.isParam(v) {
				// a parameter labelled wire got that from an argument: its assignments inside the function do not replace what came in
				return false, types.ExprString(e)
			}
			var defs []ast.Expr
			for g := f; g != nil; g = g.Parent {
				InspectNoLits(g.Body, func(nd ast.Node) bool {
					if as, ok := nd.(*ast.AssignStmt); ok && len(as.Lhs) == len(as.Rhs) && (as.Tok == token.ASSIGN || as.Tok == token.DEFINE) {
						for i, l := range as.Lhs {
							if ObjOf(g.Info(), l) == o {
								defs = append(defs, as.Rhs[i])
							}
						}
					}
					return true
				})
				if len(defs) > 0 {
					all := true
					for _, d := range defs {
						if ok, _ := sizeIsSmall(g, k, d, depth-1); !ok {
							all = false
						}
					}
					if all {
						return true, ""
					}
					break
				}
			}
		}
		return false, types.ExprString(e)
	}
	return false, types.ExprString(e)
}

func boundSpec() *PassSpec {
	sp := &PassSpec{Name: "bounded"}
	sp.Vias = []Via{{Cond: func(f *FuncInfo, e ast.Expr) (string, bool, bool) {
		be, ok := ast.Unparen(e).(*ast.BinaryExpr)
		if !ok {
			return "", false, false
		}
		info := f.Info()
		x := types.ExprString(StripConv(info, be.X))
		y := types.ExprString(StripConv(info, be.Y))
		switch be.Op {
		case token.GTR, token.GEQ: // X > bound  (false edge: X <= bound)
			return "bounded:" + x, false, true
		case token.LSS, token.LEQ: // bound < X ; or X <= bound (true edge)
			_ = y
			return "bounded:" + x, true, true
		}
		return "", false, false
	}}, {Cond: func(f *FuncInfo, e ast.Expr) (string, bool, bool) {
		// swapped operand order: bound < X false / bound >= X true ... : `int(n) > len(buf)` is handled above (X=n)
		be, ok := ast.Unparen(e).(*ast.BinaryExpr)
		if !ok {
			return "", false, false
		}
		info := f.Info()
		y := types.ExprString(StripConv(info, be.Y))
		switch be.Op {
		case token.LSS, token.LEQ: // bound < Y false edge: Y <= bound
			return "bounded:" + y, false, true
		}
		return "", false, false
	}}, {Cond: func(f *FuncInfo, e ast.Expr) (string, bool, bool) {
		// non-zero facts: X == 0 (false edge), X > 0 / X != 0 (true edge)
		be, ok := ast.Unparen(e).(*ast.BinaryExpr)
		if !ok {
			return "", false, false
		}
		info := f.Info()
		if z, ok := constInt(info, be.Y); ok && z == 0 {
			x := types.ExprString(StripConv(info, be.X))
			switch be.Op {
			case token.EQL, token.LEQ:
				return "nonzero:" + x, false, true
			case token.GTR, token.NEQ:
				return "nonzero:" + x, true, true
			}
		}
		return "", false, false
	}}}
	sp.KillMatch = func(f *FuncInfo, n ast.Node, id string) bool {
		expr := id[strings.Index(id, ":")+1:]
		root := expr
		if i := strings.IndexAny(root, ".[("); i >= 0 {
			root = root[:i]
		}
		for _, o := range AssignedObjs(f.Info(), n) {
			if o.Name() == root {
				return true
			}
		}
		return false
	}
	return sp
}

func recvSideTransferOrDumb(f *FuncInfo) bool {
	root := f.Root().Name
	if strings.HasPrefix(root, "app.recvDumb") {
		return true
	}
	if f.Pkg.PkgPath != RepoPkg("internal/transfer") {
		return false
	}
	if strings.HasSuffix(f.Prog.Fset.Position(f.Pos()).Filename, "/mock.go") {
		return false // in-memory test transport
	}
	if strings.HasPrefix(root, "transfer.(*mock") || strings.HasPrefix(root, "transfer.NewMock") || strings.HasPrefix(root, "transfer.newMock") {
		return false
	}
	// the sender also decodes records (acks, resume reports): readers are shared; only pure sender-side data paths are excluded
	for _, pre := range []string{"transfer.SendFile", "transfer.sendFile", "transfer.sendDir", "transfer.SendManifest(", "transfer.writeChunkFrame"} {
		if strings.HasPrefix(root+"(", pre) || strings.HasPrefix(root, strings.TrimSuffix(pre, "(")) && pre != "transfer.SendManifest(" {
			return false
		}
	}
	if root == "transfer.SendManifest" || root == "transfer.LoadSidecar" || root == "transfer.BitmapFromBytes" || strings.HasPrefix(root, "transfer.(*Bitmap)") || root == "transfer.NewBitmap" {
		return false // legacy sender; sidecar files are not protocol streams (C06)
	}
	return true
}

func runAlloc(c *Ctx) {
	p := c.P
	k := wireKinds(c)
	bs := boundSpec()
	for _, f := range p.Funcs() {
		if !recvSideTransferOrDumb(f) {
			continue
		}
		info := f.Info()
		n := 0
		f.CFG().Calls(func(r NodeRef, call *ast.CallExpr) {
			var size ast.Expr
			what := ""
			if id, ok := ast.Unparen(call.Fun).(*ast.Ident); ok && id.Name == "make" {
				if _, isB := info.Uses[id].(*types.Builtin); isB && len(call.Args) >= 2 {
					size = call.Args[len(call.Args)-1]
					what = "make(" + types.ExprString(call.Args[0]) + ")"
					if _, isMap := info.TypeOf(call.Args[0]).Underlying().(*types.Map); isMap {
						return
					}
				}
			}
			inSidecarOrBitmap := strings.HasSuffix(f.Prog.Fset.Position(f.Pos()).Filename, "/sidecar.go") || strings.HasSuffix(f.Prog.Fset.Position(f.Pos()).Filename, "/bitmap.go")
			if g := p.CalleeInfo(info, call); g != nil && (g.Name == "bufpool.New" || g.Name == "transfer.chunkPoolFor" || g.Name == "transfer.NewBitmap" && !inSidecarOrBitmap) && len(call.Args) == 1 {
				size = call.Args[0] // NewBitmap(n) allocates n/8 bytes (round 10: the index bitmap of a file without resume metadata)
				what = g.Name
			}
			// resume metadata: a bitmap of ceil(fileSize / chunkSize) bits is allocated (and written to disk) by these calls
			if g := p.CalleeInfo(info, call); g != nil && size == nil {
				si, ci := -1, -1
				switch g.Name {
				case "transfer.CreateSidecar", "transfer.LoadOrCreateSidecar":
					si, ci = 2, 3
				case "transfer.LoadOrCreateSidecarWithFallback":
					si, ci = 3, 4
				}
				if si >= 0 && len(call.Args) > ci {
					wire := func(e ast.Expr) bool {
						hit := false
						ast.Inspect(e, func(m ast.Node) bool {
							if x, ok := m.(ast.Expr); ok {
								switch x.(type) {
								case *ast.Ident, *ast.SelectorExpr:
									if k.Of(info, x) == "wire" {
										hit = true
									}
								}
							}
							return true
						})
						return hit
					}
					live := p.LiveFuncs()
					inSidecarFile := strings.HasSuffix(f.Prog.Fset.Position(f.Pos()).Filename, "/sidecar.go")
					if wire(call.Args[si]) && wire(call.Args[ci]) && (live[f] || live[f.Root()]) && !inSidecarFile {
						n++
						key := fmt.Sprintf("alloc/%s#%d/%s", f.Name, n, g.Name)
						c.Stat("allocations", 1)
						// a dominating upper bound on a chunk-count variable computed from the same size and chunk size
						sz, cs := types.ExprString(StripConv(info, call.Args[si])), types.ExprString(StripConv(info, call.Args[ci]))
						bounded := false
						for g := f; g != nil && !bounded; g = g.Parent {
							InspectNoLits(g.Body, func(m ast.Node) bool {
								as, ok := m.(*ast.AssignStmt)
								if !ok || len(as.Lhs) != 1 || len(as.Rhs) != 1 {
									return true
								}
								var q *ast.BinaryExpr
								ast.Inspect(as.Rhs[0], func(x ast.Node) bool {
									if be, ok := x.(*ast.BinaryExpr); ok && be.Op == token.QUO && q == nil {
										q = be
									}
									return q == nil
								})
								if q == nil || types.ExprString(StripConv(g.Info(), q.Y)) != cs || !strings.Contains(types.ExprString(q.X), sz) {
									return true
								}
								if o := ObjOf(g.Info(), as.Lhs[0]); o != nil && bs.Passed(f, r, "bounded:"+o.Name()) {
									bounded = true
								}
								return true
							})
						}
						if bounded {
							c.OK(key, call.Pos(), "the chunk count computed from the same size and chunk size has a dominating upper bound: the bitmap is bounded")
						} else {
							c.Bad(key, call.Pos(), fmt.Sprintf("%s allocates (and writes to disk) a bitmap of %s / %s bits, both read off the stream, with no lower bound on the chunk size: a FileBegin of a few bytes announcing 256 MiB in chunks of 1 byte makes the receiver reserve 128 MiB", g.Name, types.ExprString(call.Args[si]), types.ExprString(call.Args[ci])))
						}
						return
					}
				}
			}
			if size == nil {
				return
			}
			n++
			key := fmt.Sprintf("alloc/%s#%d/%s", f.Name, n, what)
			c.Stat("allocations", 1)
			small, leaf := sizeIsSmall(f, k, size, 3)
			if small {
				c.OKTrivial(key, call.Pos(), "size "+types.ExprString(size)+" is constant, at most 16 bits wide, len() of held bytes, or not derived from the stream")
				return
			}
			sx := types.ExprString(StripConv(info, size))
			if bs.Passed(f, r, "bounded:"+sx) || bs.Passed(f, r, "bounded:"+leaf) {
				c.OK(key, call.Pos(), "size "+types.ExprString(size)+" is dominated by a comparison that rejects values above a bound")
				return
			}
			c.Bad(key, call.Pos(), fmt.Sprintf("%s is sized by %s, which derives from a 32/64-bit integer read off the stream (%s) with no dominating upper bound: a few header bytes make the endpoint reserve memory out of proportion to what it received", what, types.ExprString(size), leaf))
		})
	}
}

func runPanicGuard(c *Ctx) {
	p := c.P
	k := wireKinds(c)
	bs := boundSpec()
	// type table of readControlMessage: const name -> message type string
	msgType := map[string]string{}
	if rcm := p.Func("transfer.readControlMessage"); rcm != nil {
		info := rcm.Info()
		ast.Inspect(rcm.Body, func(n ast.Node) bool {
			cc, ok := n.(*ast.CaseClause)
			if !ok {
				return true
			}
			var reader *FuncInfo
			ast.Inspect(cc, func(m ast.Node) bool {
				if call, ok := m.(*ast.CallExpr); ok {
					if g := p.CalleeInfo(info, call); g != nil && strings.HasPrefix(g.Name, "transfer.read") && g.Type.Results != nil && len(g.Type.Results.List) > 0 {
						reader = g
					}
				}
				return true
			})
			for _, e := range cc.List {
				if cn, ok := ObjOf(info, e).(*types.Const); ok && reader != nil {
					msgType[cn.Name()] = reader.Info().TypeOf(reader.Type.Results.List[0].Type).String()
				}
			}
			return true
		})
	} else {
		c.MissingAnchor("transfer.readControlMessage")
	}
	for _, f := range p.Funcs() {
		if !recvSideTransferOrDumb(f) {
			continue
		}
		info := f.Info()
		cfg := f.CFG()
		n := 0
		// bufpool.New(n): n != 0
		cfg.Calls(func(r NodeRef, call *ast.CallExpr) {
			g := p.CalleeInfo(info, call)
			if g == nil || g.Name != "bufpool.New" || len(call.Args) != 1 {
				return
			}
			n++
			key := fmt.Sprintf("bufpool-new/%s#%d", f.Name, n)
			if tv := info.Types[call.Args[0]]; tv.Value != nil {
				c.OKTrivial(key, call.Pos(), "constant size")
				return
			}
			sx := types.ExprString(StripConv(info, call.Args[0]))
			if k.Of(info, call.Args[0]) != "wire" {
				c.OKTrivial(key, call.Pos(), "size "+sx+" does not derive from the stream")
				return
			}
			c.Check(bs.Passed(f, r, "nonzero:"+sx), key, call.Pos(), "bufpool.New("+sx+") is reached only with "+sx+" != 0",
				"bufpool.New panics for a size <= 0 and "+sx+" comes off the stream without a dominating zero test: a FileBegin with chunk size 0 (or a data frame for an empty file) crashes the process",
				"facts here: "+strings.Join(bs.PassedList(f, r), ", "))
		})
		// divisions by non-constant values
		cfg.EachNode(func(r NodeRef) {
			InspectNoLits(r.Node(), func(m ast.Node) bool {
				if _, ok := m.(*ast.FuncLit); ok {
					return false
				}
				be, ok := m.(*ast.BinaryExpr)
				if !ok || (be.Op != token.QUO && be.Op != token.REM) {
					return true
				}
				if tv := info.Types[be.Y]; tv.Value != nil {
					return true
				}
				if t := info.TypeOf(be.Y); t == nil || !isIntType(t) {
					return true
				}
				if k.Of(info, be.Y) != "wire" {
					return true
				}
				n++
				sx := types.ExprString(StripConv(info, be.Y))
				c.Check(bs.Passed(f, r, "nonzero:"+sx), fmt.Sprintf("division/%s#%d", f.Name, n), be.Pos(), "division by "+sx+" only with "+sx+" != 0",
					"integer division by "+sx+", which comes off the stream, without a dominating zero test: a zero value panics (integer divide by zero)")
				return true
			})
		})
		// unchecked type assertions on decoded control messages
		cfg.EachNode(func(r NodeRef) {
			InspectNoLits(r.Node(), func(m ast.Node) bool {
				if _, ok := m.(*ast.FuncLit); ok {
					return false
				}
				ta, ok := m.(*ast.TypeAssertExpr)
				if !ok || ta.Type == nil {
					return true
				}
				tstr := info.TypeOf(ta.Type).String()
				known := false
				for _, v := range msgType {
					if v == tstr {
						known = true
					}
				}
				if !known {
					return true
				}
				// comma-ok form is safe
				if as, ok := r.Node().(*ast.AssignStmt); ok && len(as.Lhs) == 2 && len(as.Rhs) == 1 && ast.Unparen(as.Rhs[0]) == ast.Expr(ta) {
					return true
				}
				n++
				key := fmt.Sprintf("assert/%s#%d/%s", f.Name, n, tstr[strings.LastIndex(tstr, ".")+1:])
				// enclosing case constants / equality tests
				okPair := false
				var consts []string
				ast.Inspect(f.Body, func(q ast.Node) bool {
					switch s := q.(type) {
					case *ast.CaseClause:
						if s.Pos() <= ta.Pos() && ta.End() <= s.End() {
							for _, e := range s.List {
								if cn, ok := ObjOf(info, e).(*types.Const); ok {
									consts = append(consts, cn.Name())
								}
							}
						}
					case *ast.IfStmt:
						if s.Body.Pos() <= ta.Pos() && ta.End() <= s.Body.End() {
							for _, a := range Implied(s.Cond, true) {
								if b2, ok := a.E.(*ast.BinaryExpr); ok && b2.Op == token.EQL && a.Val {
									if cn, ok := ObjOf(info, b2.Y).(*types.Const); ok {
										consts = append(consts, cn.Name())
									}
								}
							}
						}
					}
					return true
				})
				for _, cn := range consts {
					if msgType[cn] == tstr {
						okPair = true
					}
				}
				// every enclosing constant must map to this type (a case listing two constants of different types is wrong)
				for _, cn := range consts {
					if mt, has := msgType[cn]; has && mt != tstr {
						okPair = false
					}
				}
				c.Check(okPair, key, ta.Pos(), "assertion to "+tstr+" only under the type constant readControlMessage pairs with it",
					fmt.Sprintf("unchecked type assertion to %s is not under the case of the matching record type (enclosing constants: %v): a different record type panics the decoder loop", tstr, consts))
				return true
			})
		})
		// buf[:n] with wire n: n <= len(buf)
		cfg.EachNode(func(r NodeRef) {
			InspectNoLits(r.Node(), func(m ast.Node) bool {
				if _, ok := m.(*ast.FuncLit); ok {
					return false
				}
				se, ok := m.(*ast.SliceExpr)
				if !ok || se.High == nil || se.Low != nil {
					return true
				}
				if tv := info.Types[se.High]; tv.Value != nil {
					return true
				}
				if k.Of(info, se.High) != "wire" {
					return true
				}
				if _, isSlice := info.TypeOf(se.X).Underlying().(*types.Slice); !isSlice {
					return true
				}
				// only lengths that are decoded from the stream right here (single definition by a big-endian decode / control read):
				// derived values (min idioms, struct fields filled after a check elsewhere) are not judged by this sub-rule
				direct := false
				if o := ObjOf(info, StripConv(info, se.High)); o != nil {
					ndef := 0
					InspectNoLits(f.Body, func(q ast.Node) bool {
						if as, ok := q.(*ast.AssignStmt); ok && len(as.Lhs) == len(as.Rhs) {
							for i, l := range as.Lhs {
								if ObjOf(info, l) == o {
									ndef++
									if call, ok := ast.Unparen(as.Rhs[i]).(*ast.CallExpr); ok {
										if sel, ok := ast.Unparen(call.Fun).(*ast.SelectorExpr); ok && strings.HasPrefix(sel.Sel.Name, "Uint") && isBigEndian(info, sel.X) {
											direct = true
										}
									}
								}
							}
						}
						return true
					})
					if ndef != 1 {
						direct = false
					}
				}
				if !direct {
					return true
				}
				n++
				hx := types.ExprString(StripConv(info, se.High))
				c.Check(bs.Passed(f, r, "bounded:"+hx), fmt.Sprintf("slice-bound/%s#%d", f.Name, n), se.Pos(), types.ExprString(se)+" only with "+hx+" bounded",
					"slice expression "+types.ExprString(se)+" with a length that comes off the stream and no dominating bound: an oversized length panics (slice bounds out of range)")
				return true
			})
		})
	}
}

func init() {
	Register(&Rule{
		Name:  "R-SPAWN-BOUND",
		Props: []string{"C15"},
		Min:   1,
		Doc: "goroutines follow the program's own limits, not a number the peer wrote: in the receive-side code every loop that starts goroutines (a go statement in its body) and whose trip count derives from an integer read off a stream " +
			"is reached only past a comparison that rejects counts above a bound (the 16-bit exemption of R-ALLOC does not apply: 65535 parked goroutines are > 130 MiB of stacks for a 3-byte record, F31); " +
			"channel capacities computed from the same count are covered by the same comparison",
		Run: runSpawnBound,
	})
}

func runSpawnBound(c *Ctx) {
	p := c.P
	k := wireKinds(c)
	bs := boundSpec()
	nWire := 0
	for _, f := range p.Funcs() {
		if !recvSideTransferOrDumb(f) {
			continue
		}
		info := f.Info()
		cfg := f.CFG()
		n := 0
		InspectNoLits(f.Body, func(m ast.Node) bool {
			var body *ast.BlockStmt
			var limit ast.Expr
			var at token.Pos
			switch s := m.(type) {
			case *ast.ForStmt:
				be, ok := ast.Unparen(s.Cond).(*ast.BinaryExpr)
				if !ok {
					return true
				}
				switch be.Op {
				case token.LSS, token.LEQ:
					limit = be.Y
				case token.GTR, token.GEQ:
					limit = be.X
				default:
					return true
				}
				body, at = s.Body, s.Cond.Pos()
			case *ast.RangeStmt:
				if t := info.TypeOf(s.X); t == nil || !isIntType(t) {
					return true
				}
				limit, body, at = s.X, s.Body, s.X.Pos()
			default:
				return true
			}
			spawns := false
			InspectNoLits(body, func(x ast.Node) bool {
				if _, ok := x.(*ast.GoStmt); ok {
					spawns = true
				}
				return true
			})
			if !spawns {
				return true
			}
			// wire-derived?
			wire := false
			ast.Inspect(limit, func(x ast.Node) bool {
				if e, ok := x.(ast.Expr); ok {
					switch e.(type) {
					case *ast.Ident, *ast.SelectorExpr:
						if k.Of(info, e) == "wire" {
							wire = true
						}
					}
				}
				return true
			})
			if !wire {
				return true
			}
			n++
			nWire++
			key := fmt.Sprintf("spawn/%s#%d", f.Name, n)
			ref := cfg.Find(at)
			if !ref.Valid() {
				c.Unknown(key, at, "cannot locate the loop head in the control-flow graph")
				return true
			}
			lx := types.ExprString(StripConv(info, limit))
			c.Check(bs.Passed(f, ref, "bounded:"+lx), key, at, "the number of goroutines ("+lx+") is past a comparison that rejects counts above a bound",
				"a loop starts one goroutine per "+lx+", a count the peer wrote on the stream, with no dominating upper bound: a 3-byte DataStreams record starts 65535 goroutines (and channels of a multiple of that size) - memory out of proportion to the bytes received")
			return true
		})
	}
	if nWire == 0 {
		c.Bad("spawn/none", token.NoPos, "found no goroutine-starting loop with a stream-derived trip count (the data-stream readers of RecvManifestMultiStream are started per announced stream)")
	}
}
