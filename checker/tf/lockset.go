package tf

import (
	"go/ast"
	"go/types"
	"strings"
)

// Lockset: which mutexes are certainly held at each node. Facts are "W:<mutex expr>" and "R:<mutex expr>".
// defer X.Unlock() keeps the lock to the function's end; goroutines and deferred closures inherit nothing;
// synchronously called closures and (with Interproc) declared functions inherit the intersection of their call sites.

func mutexOp(info *types.Info, call *ast.CallExpr) (mu string, op string, ok bool) {
	sel, isSel := ast.Unparen(call.Fun).(*ast.SelectorExpr)
	if !isSel {
		return "", "", false
	}
	for _, t := range []string{"Mutex", "RWMutex"} {
		for _, m := range []string{"Lock", "Unlock", "RLock", "RUnlock"} {
			if calleeIs(info, call, "sync", t+"."+m) {
				return types.ExprString(sel.X), m, true
			}
		}
	}
	return "", "", false
}

func NewLockSpec() *PassSpec {
	s := &PassSpec{Name: "lockset", SkipDefer: true, NoInheritAsync: true, Interproc: true}
	s.Vias = []Via{{Immediate: true, Call: func(f *FuncInfo, call *ast.CallExpr) (string, bool) {
		mu, op, ok := mutexOp(f.Info(), call)
		if !ok {
			return "", false
		}
		switch op {
		case "Lock":
			return "W:" + mu, true
		case "RLock":
			return "R:" + mu, true
		}
		return "", false
	}}}
	s.KillMatch = func(f *FuncInfo, n ast.Node, id string) bool {
		if _, isDefer := n.(*ast.DeferStmt); isDefer {
			return false
		}
		kill := false
		InspectNoLits(n, func(m ast.Node) bool {
			if _, ok := m.(*ast.FuncLit); ok {
				return false
			}
			if call, ok := m.(*ast.CallExpr); ok {
				if mu, op, ok := mutexOp(f.Info(), call); ok {
					if (op == "Unlock" && id == "W:"+mu) || (op == "RUnlock" && id == "R:"+mu) {
						kill = true
					}
				}
			}
			return true
		})
		return kill
	}
	return s
}

// Held reports whether mutex mu is held (in any mode / in write mode) before node ref.
func Held(s *PassSpec, f *FuncInfo, ref NodeRef, mu string) (any, write bool) {
	w := s.Passed(f, ref, "W:"+mu)
	r := s.Passed(f, ref, "R:"+mu)
	return w || r, w
}

// HeldAny lists held mutex expressions before ref.
func HeldAny(s *PassSpec, f *FuncInfo, ref NodeRef) []string {
	var out []string
	for _, id := range s.PassedList(f, ref) {
		if strings.HasPrefix(id, "W:") || strings.HasPrefix(id, "R:") {
			out = append(out, id)
		}
	}
	return out
}
