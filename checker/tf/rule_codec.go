package tf

import (
	"os"
	"fmt"
	"go/ast"
	"go/constant"
	"go/token"
	"go/types"
	"sort"
	"strings"
)

// R-CODEC: encoder / decoder symmetry of the control protocol, by symbolic
// execution of the straight-line writer and reader bodies into a sequence of
// wire primitives that carry message fields.

func init() {
	Register(&Rule{
		Name:  "R-CODEC",
		Props: []string{"C18", "C15"},
		Min:   10,
		Doc: "for every control record type the wire-primitive sequence (width | length-prefixed bytes | repeat | conditional section, " +
			"each bound to the struct field it carries) extracted from writeT equals the sequence extracted from readT; the type byte " +
			"written by writeT is the case of readControlMessage that dispatches to readT and is the constant returned with it; every " +
			"controlType* constant has exactly one reader case and at least one writer; the default case returns an error; the fixed-width " +
			"primitives read/write exactly their declared width big-endian",
		Run: runCodec,
	})
}

type codecTok struct {
	kind  string // "u" | "bytes" | "cond" | "repeat"
	bits  int
	sym   string
	lenOf string // for bytes: symbol of the length (reader: R<k>, writer: len(...)) or "fixed:<sym>"
	cond  string
	body  []codecTok
}

func (t codecTok) String() string {
	switch t.kind {
	case "u":
		return fmt.Sprintf("u%d:%s", t.bits, t.sym)
	case "bytes":
		return fmt.Sprintf("bytes[%s]:%s", t.lenOf, t.sym)
	case "cond":
		return fmt.Sprintf("cond[%s]{%s}", t.cond, tokString(t.body))
	case "repeat":
		return fmt.Sprintf("repeat[%s]{%s}", t.cond, tokString(t.body))
	}
	return "?"
}
func tokString(ts []codecTok) string {
	var s []string
	for _, t := range ts {
		s = append(s, t.String())
	}
	return strings.Join(s, ", ")
}

type codecExec struct {
	p       *Program
	f       *FuncInfo
	info    *types.Info
	writer  bool
	env     map[types.Object]string
	msgObjs map[types.Object]bool // message parameter (writer) / message local (reader)
	stream  types.Object
	nread   int
	binds   map[string][]string // reader: R/B symbol -> bound meanings
	sizes   map[string]string   // reader: B<k> or slice symbol -> size symbol
	bounds  []string            // "R1 <= const:maxRelPathLength"
	boundsResolved []string     // the same after resolve(): "reject if (len(F.RelPath) > const:maxRelPathLength)"
	problems []string
	definite []string // idioms that are decided: the frame is broken whatever the rest looks like
	earlyZeroReturn []string // reader: symbols X with `if X == 0 { return ok }`
	retSym  string
	depth   int
	loopCounts []string
}

func (x *codecExec) problem(pos token.Pos, format string, a ...any) {
	x.problems = append(x.problems, x.p.Pos(pos)+": "+fmt.Sprintf(format, a...))
}

// transferFunc returns the *types.Func named name in internal/transfer.
func (p *Program) transferFunc(name string) *types.Func {
	f, _ := p.LookupObj("internal/transfer", name).(*types.Func)
	return f
}

func (x *codecExec) calleeName(call *ast.CallExpr) (pkg, name string) {
	fn := Callee(x.info, call)
	if fn == nil || fn.Pkg() == nil {
		return "", ""
	}
	if sig, ok := fn.Type().(*types.Signature); ok && sig.Recv() != nil {
		return fn.Pkg().Path(), recvTypeName(sig.Recv().Type()) + "." + fn.Name()
	}
	return fn.Pkg().Path(), fn.Name()
}

func (x *codecExec) isStreamArg(e ast.Expr) bool {
	return ObjOf(x.info, e) == x.stream && x.stream != nil
}

// eval computes the symbolic value of an expression.
func (x *codecExec) eval(e ast.Expr) string {
	e = ast.Unparen(e)
	if ce, ok := e.(*ast.CallExpr); ok && len(ce.Args) == 1 {
		if id, ok := ast.Unparen(ce.Fun).(*ast.Ident); ok && id.Name == "len" {
			if aid, ok := ast.Unparen(ce.Args[0]).(*ast.Ident); ok {
				if cn, ok := x.info.Uses[aid].(*types.Const); ok {
					return "len(const:" + cn.Name() + ")"
				}
			}
		}
	}
	if tv, ok := x.info.Types[e]; ok && tv.Value != nil {
		if id, isID := e.(*ast.Ident); isID {
			if c, isC := x.info.Uses[id].(*types.Const); isC {
				return "const:" + c.Name()
			}
		}
		if tv.Value.Kind() == constant.Int || tv.Value.Kind() == constant.String {
			return "lit:" + tv.Value.ExactString()
		}
	}
	switch v := e.(type) {
	case *ast.Ident:
		o := ObjOf(x.info, v)
		if o == nil {
			return "?" + v.Name
		}
		if x.msgObjs[o] {
			return "F"
		}
		if s, ok := x.env[o]; ok {
			return s
		}
		if c, ok := o.(*types.Const); ok {
			return "const:" + c.Name()
		}
		return "?" + v.Name
	case *ast.SelectorExpr:
		base := x.eval(v.X)
		if strings.HasPrefix(base, "F") || strings.HasPrefix(base, "slice(") || strings.HasPrefix(base, "elem(") {
			return base + "." + v.Sel.Name
		}
		return "?" + types.ExprString(e)
	case *ast.IndexExpr:
		base := x.eval(v.X)
		if strings.HasPrefix(base, "slice(") || strings.HasPrefix(base, "F.") {
			return "elem(" + base + ")"
		}
		if strings.HasPrefix(base, "B") { // byte buffer read from the wire
			if x.eval(v.Index) == "lit:0" {
				return base + "[0]"
			}
		}
		return "?" + types.ExprString(e)
	case *ast.StarExpr:
		return x.eval(v.X)
	case *ast.UnaryExpr:
		if v.Op == token.AND {
			return x.eval(v.X)
		}
	case *ast.CallExpr:
		if tv, ok := x.info.Types[v.Fun]; ok && tv.IsType() && len(v.Args) == 1 {
			// conversion: transparent for the symbolic value (the width is taken from the primitive)
			return x.eval(v.Args[0])
		}
		if id, ok := ast.Unparen(v.Fun).(*ast.Ident); ok {
			if b, ok := x.info.Uses[id].(*types.Builtin); ok {
				switch b.Name() {
				case "len":
					return "len(" + x.eval(v.Args[0]) + ")"
				case "make":
					if len(v.Args) >= 2 {
						return "make(" + x.eval(v.Args[1]) + ")"
					}
				}
			}
		}
		if pkg, name := x.calleeName(v); pkg == "encoding/json" && name == "Marshal" && len(v.Args) == 1 {
			return "json(" + x.eval(v.Args[0]) + ")"
		}
	case *ast.BinaryExpr:
		l, r := x.eval(v.X), x.eval(v.Y)
		return "(" + l + " " + v.Op.String() + " " + r + ")"
	}
	return "?" + types.ExprString(e)
}

func typeBits(t types.Type) int {
	if p, ok := t.(*types.Pointer); ok {
		t = p.Elem()
	}
	b, ok := t.Underlying().(*types.Basic)
	if !ok {
		return 0
	}
	switch b.Kind() {
	case types.Uint8, types.Int8, types.Bool:
		return 8
	case types.Uint16, types.Int16:
		return 16
	case types.Uint32, types.Int32:
		return 32
	case types.Uint64, types.Int64:
		return 64
	}
	return 0
}

func isBigEndian(info *types.Info, e ast.Expr) bool {
	sel, ok := ast.Unparen(e).(*ast.SelectorExpr)
	if !ok {
		return false
	}
	o := info.Uses[sel.Sel]
	return o != nil && o.Pkg() != nil && o.Pkg().Path() == "encoding/binary" && o.Name() == "BigEndian"
}

// ioCall interprets one call as a wire primitive. ok=false: not an IO call.
func (x *codecExec) ioCall(call *ast.CallExpr, assignLHS []ast.Expr) (toks []codecTok, ok bool) {
	pkg, name := x.calleeName(call)
	tpkg := RepoPkg("internal/transfer")
	widthOf := map[string]int{"16": 16, "32": 32, "64": 64}
	switch {
	case pkg == tpkg && strings.HasPrefix(name, "writeUint") && strings.HasSuffix(name, "Control"):
		bits := widthOf[strings.TrimSuffix(strings.TrimPrefix(name, "writeUint"), "Control")]
		if !x.isStreamArg(call.Args[0]) {
			x.problem(call.Pos(), "write on something other than the record's stream")
		}
		return []codecTok{{kind: "u", bits: bits, sym: x.eval(call.Args[1])}}, true
	case pkg == tpkg && strings.HasPrefix(name, "readUint") && strings.HasSuffix(name, "Control"):
		bits := widthOf[strings.TrimSuffix(strings.TrimPrefix(name, "readUint"), "Control")]
		if !x.isStreamArg(call.Args[0]) {
			x.problem(call.Pos(), "read on something other than the record's stream")
		}
		x.nread++
		sym := fmt.Sprintf("R%d", x.nread)
		if len(assignLHS) > 0 {
			if o := ObjOf(x.info, assignLHS[0]); o != nil {
				x.env[o] = sym
			}
		}
		return []codecTok{{kind: "u", bits: bits, sym: sym}}, true
	case pkg == tpkg && name == "writeFullControl", pkg == tpkg && name == "Stream.Write", pkg == "io" && name == "Writer.Write":
		argi := 1
		if name != "writeFullControl" {
			argi = 0
			sel, _ := ast.Unparen(call.Fun).(*ast.SelectorExpr)
			if sel == nil || !x.isStreamArg(sel.X) {
				return nil, false
			}
		} else if !x.isStreamArg(call.Args[0]) {
			x.problem(call.Pos(), "write on something other than the record's stream")
		}
		arg := ast.Unparen(call.Args[argi])
		if cl, ok := arg.(*ast.CompositeLit); ok { // []byte{b}
			var out []codecTok
			for _, el := range cl.Elts {
				out = append(out, codecTok{kind: "u", bits: 8, sym: x.eval(el)})
			}
			return out, true
		}
		sym := x.eval(arg)
		// a slice of a fixed array (buf[:]) is not used by record writers; treat unknown
		lenOf := "len(" + sym + ")"
		if strings.HasPrefix(sym, "const:") {
			lenOf = "fixed:" + sym
		}
		return []codecTok{{kind: "bytes", sym: sym, lenOf: lenOf}}, true
	case pkg == tpkg && name == "readBytesControl" && len(call.Args) >= 2:
		if !x.isStreamArg(call.Args[0]) {
			x.problem(call.Pos(), "read on something other than the record's stream")
		}
		x.nread++
		sym := fmt.Sprintf("B%d", x.nread)
		size := x.eval(call.Args[1])
		x.sizes[sym] = size
		if len(assignLHS) > 0 {
			if o := ObjOf(x.info, assignLHS[0]); o != nil {
				x.env[o] = sym
			}
		}
		return []codecTok{{kind: "bytes", sym: sym, lenOf: size}}, true
	case pkg == tpkg && name == "readFullControl":
		if !x.isStreamArg(call.Args[0]) {
			x.problem(call.Pos(), "read on something other than the record's stream")
		}
		dst := call.Args[1]
		cur := x.eval(dst)
		x.nread++
		sym := fmt.Sprintf("B%d", x.nread)
		size := "?"
		if strings.HasPrefix(cur, "make(") {
			size = strings.TrimSuffix(strings.TrimPrefix(cur, "make("), ")")
		} else if strings.HasPrefix(cur, "F.") {
			// reading directly into a message field previously made with a size
			if s, ok := x.sizes[cur]; ok {
				size = s
			}
		}
		x.sizes[sym] = size
		if o := ObjOf(x.info, dst); o != nil {
			x.env[o] = sym
		} else if strings.HasPrefix(cur, "F.") {
			x.binds[sym] = append(x.binds[sym], cur)
		}
		if size == "lit:1" {
			return []codecTok{{kind: "u", bits: 8, sym: sym + "[0]"}}, true
		}
		lenOf := size
		if strings.HasPrefix(size, "len(const:") {
			lenOf = "fixed:" + strings.TrimSuffix(strings.TrimPrefix(size, "len("), ")")
		}
		return []codecTok{{kind: "bytes", sym: sym, lenOf: lenOf}}, true
	case pkg == "encoding/binary" && (name == "Write" || name == "Read") && len(call.Args) == 3:
		if !x.isStreamArg(call.Args[0]) {
			x.problem(call.Pos(), "binary.%s on something other than the record's stream", name)
		}
		if !isBigEndian(x.info, call.Args[1]) {
			x.problem(call.Pos(), "binary.%s is not big-endian", name)
		}
		tv := x.info.Types[call.Args[2]]
		bits := typeBits(tv.Type)
		if bits == 0 {
			x.problem(call.Pos(), "binary.%s of a non-fixed-width value %s", name, types.ExprString(call.Args[2]))
		}
		if name == "Write" {
			return []codecTok{{kind: "u", bits: bits, sym: x.eval(call.Args[2])}}, true
		}
		// Read into &target
		target := ast.Unparen(call.Args[2])
		if u, ok := target.(*ast.UnaryExpr); ok && u.Op == token.AND {
			target = ast.Unparen(u.X)
		}
		tsym := x.eval(target)
		if o := ObjOf(x.info, target); o != nil && !x.msgObjs[o] {
			x.nread++
			sym := fmt.Sprintf("R%d", x.nread)
			x.env[o] = sym
			return []codecTok{{kind: "u", bits: bits, sym: sym}}, true
		}
		return []codecTok{{kind: "u", bits: bits, sym: tsym}}, true
	}
	return nil, false
}

// helperRead inlines a repository helper that reads from the stream and returns a value.
func (x *codecExec) helperRead(call *ast.CallExpr, assignLHS []ast.Expr) ([]codecTok, bool) {
	fi := x.p.CalleeInfo(x.info, call)
	if fi == nil || fi.Decl == nil || x.depth > 2 {
		return nil, false
	}
	// must take the stream as an argument
	si := -1
	for i, a := range call.Args {
		if x.isStreamArg(a) {
			si = i
		}
	}
	if si < 0 {
		return nil, false
	}
	sub := &codecExec{p: x.p, f: fi, info: fi.Info(), writer: x.writer, env: map[types.Object]string{}, msgObjs: map[types.Object]bool{},
		binds: x.binds, sizes: x.sizes, nread: x.nread, depth: x.depth + 1}
	params := fi.Type.Params.List
	k := 0
	for _, fld := range params {
		for _, nm := range fld.Names {
			o := fi.Info().Defs[nm]
			if k == si {
				sub.stream = o
			} else if k < len(call.Args) {
				sub.env[o] = x.eval(call.Args[k])
			}
			k++
		}
	}
	toks := sub.block(fi.Body.List)
	x.nread = sub.nread
	x.bounds = append(x.bounds, sub.bounds...)
	x.problems = append(x.problems, sub.problems...)
	x.definite = append(x.definite, sub.definite...)
	if len(assignLHS) > 0 && sub.retSym != "" {
		if o := ObjOf(x.info, assignLHS[0]); o != nil {
			x.env[o] = sub.retSym
		}
	}
	return toks, true
}

func isErrNilCond(info *types.Info, e ast.Expr) bool {
	o, nilOnTrue, ok := NilTest(info, e)
	return ok && !nilOnTrue && isErrorType(o.Type())
}

func hasIO(x *codecExec, n ast.Node) bool {
	found := false
	ast.Inspect(n, func(m ast.Node) bool {
		if c, ok := m.(*ast.CallExpr); ok {
			pkg, name := x.calleeName(c)
			if pkg == RepoPkg("internal/transfer") && (strings.Contains(name, "Control") || name == "Stream.Write" || name == "Stream.Read") {
				found = true
			}
			if pkg == "encoding/binary" && (name == "Read" || name == "Write") {
				found = true
			}
			if pkg == "io" {
				found = true
			}
		}
		return !found
	})
	return found
}

func (x *codecExec) call(call *ast.CallExpr, lhs []ast.Expr) []codecTok {
	if toks, ok := x.ioCall(call, lhs); ok {
		return toks
	}
	if toks, ok := x.helperRead(call, lhs); ok {
		return toks
	}
	return nil
}

func (x *codecExec) assign(lhs ast.Expr, rhs ast.Expr) {
	l := ast.Unparen(lhs)
	if call, ok := ast.Unparen(rhs).(*ast.CallExpr); ok && len(call.Args) == 2 {
		if id, ok := ast.Unparen(call.Fun).(*ast.Ident); ok && id.Name == "append" && ObjOf(x.info, l) != nil && ObjOf(x.info, l) == ObjOf(x.info, call.Args[0]) {
			el := x.eval(call.Args[1])
			if strings.HasPrefix(el, "elem(slice(") && strings.HasSuffix(el, "))") && len(x.loopCounts) > 0 {
				x.env[ObjOf(x.info, l)] = strings.TrimSuffix(strings.TrimPrefix(el, "elem("), ")")
				return
			}
		}
	}
	if o := ObjOf(x.info, l); o != nil && !x.msgObjs[o] {
		v := x.eval(rhs)
		if strings.HasPrefix(v, "make(") {
			if _, isSlice := x.info.TypeOf(rhs).Underlying().(*types.Slice); isSlice {
				if el, ok := x.info.TypeOf(rhs).Underlying().(*types.Slice).Elem().Underlying().(*types.Basic); !ok || el.Kind() != types.Uint8 {
					// slice of records: slice(sizeSym)#id
					x.nread++
					v = fmt.Sprintf("slice(%d)", x.nread)
					x.sizes[v] = strings.TrimSuffix(strings.TrimPrefix(x.eval(rhs), "make("), ")")
				}
			}
		}
		x.env[o] = v
		return
	}
	// store to message field
	dst := x.eval(l)
	if !strings.HasPrefix(dst, "F") {
		return
	}
	if x.writer {
		x.problem(lhs.Pos(), "writer mutates the message (%s)", types.ExprString(lhs))
		return
	}
	v := x.eval(rhs)
	if strings.HasPrefix(v, "make(") {
		x.sizes[dst] = strings.TrimSuffix(strings.TrimPrefix(v, "make("), ")")
		return
	}
	if v == "lit:nil" || types.ExprString(rhs) == "nil" {
		return
	}
	// boolean decode forms of a 0/1 byte
	for _, form := range []string{" == lit:1)", " != lit:0)", " > lit:0)"} {
		if strings.HasPrefix(v, "(") && strings.HasSuffix(v, form) {
			inner := strings.TrimSuffix(strings.TrimPrefix(v, "("), form)
			x.binds[inner] = append(x.binds[inner], "b01("+dst+")")
			return
		}
	}
	x.binds[v] = append(x.binds[v], dst)
}

func (x *codecExec) block(stmts []ast.Stmt) []codecTok {
	var out []codecTok
	for _, st := range stmts {
		out = append(out, x.stmt(st)...)
	}
	return out
}

func (x *codecExec) stmt(st ast.Stmt) []codecTok {
	switch s := st.(type) {
	case *ast.DeclStmt:
		gd, _ := s.Decl.(*ast.GenDecl)
		if gd == nil || gd.Tok != token.VAR {
			return nil
		}
		for _, sp := range gd.Specs {
			vs := sp.(*ast.ValueSpec)
			for i, nm := range vs.Names {
				o := x.info.Defs[nm]
				if !x.writer && x.isMessageType(o.Type()) && len(vs.Values) == 0 {
					if x.isResultType(o.Type()) && len(x.loopCounts) == 0 {
						x.msgObjs[o] = true
					} else {
						// a record element filled inside a loop and appended to a slice
						x.nread++
						x.env[o] = fmt.Sprintf("elem(slice(%d))", x.nread)
						if len(x.loopCounts) > 0 {
							x.sizes[fmt.Sprintf("slice(%d)", x.nread)] = x.loopCounts[len(x.loopCounts)-1]
						}
					}
					continue
				}
				if i < len(vs.Values) {
					x.assign(nm, vs.Values[i])
				}
			}
		}
		return nil
	case *ast.AssignStmt:
		if len(s.Rhs) == 1 {
			if c, ok := ast.Unparen(s.Rhs[0]).(*ast.CallExpr); ok {
				if toks := x.call(c, s.Lhs); toks != nil {
					return toks
				}
				if hasIO(x, c) {
					x.problem(c.Pos(), "unrecognised IO call %s", types.ExprString(c.Fun))
				}
			}
		}
		if len(s.Lhs) == len(s.Rhs) {
			for i := range s.Lhs {
				x.assign(s.Lhs[i], s.Rhs[i])
			}
		} else if len(s.Rhs) == 1 && len(s.Lhs) >= 1 {
			x.assign(s.Lhs[0], s.Rhs[0]) // v, err := f(...) : symbolic value to the first result
		}
		return nil
	case *ast.ExprStmt:
		if c, ok := ast.Unparen(s.X).(*ast.CallExpr); ok {
			if toks := x.call(c, nil); toks != nil {
				x.problem(c.Pos(), "IO call with ignored error")
				return toks
			}
		}
		return nil
	case *ast.ReturnStmt:
		// success return: last result is nil (error) — record the returned value symbol
		if n := len(s.Results); n >= 1 {
			if types.ExprString(s.Results[n-1]) == "nil" && n >= 2 {
				x.retSym = x.eval(s.Results[n-2])
			}
		}
		return nil
	case *ast.IfStmt:
		var out []codecTok
		if s.Init != nil {
			out = append(out, x.stmt(s.Init)...)
		}
		if isErrNilCond(x.info, s.Cond) {
			// `if err != nil { return ... }` error exit — not part of the frame
			if s.Else != nil {
				x.problem(s.Pos(), "error test with else branch")
			}
			if hasIO(x, s.Body) {
				x.problem(s.Pos(), "IO inside an error branch")
			}
			return out
		}
		condSym := x.eval(s.Cond)
		bodyHasIO := hasIO(x, s.Body)
		if !bodyHasIO {
			endsInReturn := false
			if n := len(s.Body.List); n > 0 {
				if r, ok := s.Body.List[n-1].(*ast.ReturnStmt); ok {
					endsInReturn = true
					if k := len(r.Results); k > 0 && types.ExprString(r.Results[k-1]) == "nil" {
						// success return without reading further: `if count == 0 { return ok }`
						x.earlyZeroReturn = append(x.earlyZeroReturn, condSym)
						for _, b := range s.Body.List {
							if a, ok := b.(*ast.AssignStmt); ok && len(a.Lhs) == len(a.Rhs) {
								for i := range a.Lhs {
									x.assign(a.Lhs[i], a.Rhs[i])
								}
							}
						}
						return out
					}
				}
			}
			if endsInReturn {
				// validation that returns an error: a bound on a wire value
				x.bounds = append(x.bounds, "reject if "+condSym)
				return out
			}
			// pure computation, e.g. `if msg.OK { okByte = 1 }`
			if x.writer && len(s.Body.List) == 1 && s.Else == nil {
				if a, ok := s.Body.List[0].(*ast.AssignStmt); ok && len(a.Lhs) == 1 && len(a.Rhs) == 1 {
					if o := ObjOf(x.info, a.Lhs[0]); o != nil {
						if x.env[o] == "lit:0" && x.eval(a.Rhs[0]) == "lit:1" && strings.HasPrefix(condSym, "F.") {
							x.env[o] = "b01(" + condSym + ")"
							return out
						}
					}
				}
			}
			// clamp of a text to the width of its length prefix: `if len(v) > K { v = v[:K] }` - the value is cut before both its
			// length and its bytes are written, so prefix and payload stay paired (a domain restriction of the writer)
			if x.writer && len(s.Body.List) == 1 && s.Else == nil {
				if a, ok := s.Body.List[0].(*ast.AssignStmt); ok && len(a.Lhs) == 1 && len(a.Rhs) == 1 {
					if se, ok := ast.Unparen(a.Rhs[0]).(*ast.SliceExpr); ok && se.Low == nil && se.High != nil && ObjOf(x.info, se.X) != nil && ObjOf(x.info, se.X) == ObjOf(x.info, a.Lhs[0]) {
						if be, ok := ast.Unparen(s.Cond).(*ast.BinaryExpr); ok && be.Op == token.GTR && types.ExprString(be.Y) == types.ExprString(se.High) {
							if call, ok := ast.Unparen(be.X).(*ast.CallExpr); ok && len(call.Args) == 1 && ObjOf(x.info, call.Args[0]) == ObjOf(x.info, a.Lhs[0]) {
								if id, ok := ast.Unparen(call.Fun).(*ast.Ident); ok && id.Name == "len" {
									// only when nothing has looked at the text yet: a cut after its length was taken (or written)
									// separates prefix and payload
									vo := ObjOf(x.info, a.Lhs[0])
									usedBefore := false
									ast.Inspect(x.f.Body, func(m ast.Node) bool {
										if u, ok := m.(*ast.Ident); ok && x.info.Uses[u] == vo && u.Pos() < s.Pos() {
											usedBefore = true
										}
										return true
									})
									if !usedBefore {
										x.bounds = append(x.bounds, "clamp if "+condSym)
										return out
									}
								}
							}
						}
					}
				}
			}
			// reader: a length read off the stream is overwritten before the bytes it announces are read (`if n > K { n = K }`),
			// and the value that was read is kept nowhere: the rest of the announced bytes cannot be skipped any more
			if !x.writer && len(s.Body.List) == 1 && s.Else == nil {
				if a, ok := s.Body.List[0].(*ast.AssignStmt); ok && a.Tok == token.ASSIGN && len(a.Lhs) == 1 && len(a.Rhs) == 1 {
					if o := ObjOf(x.info, a.Lhs[0]); o != nil && strings.HasPrefix(x.env[o], "R") {
						kept := false
						ast.Inspect(x.f.Body, func(m ast.Node) bool {
							if as, ok := m.(*ast.AssignStmt); ok && as.Pos() < s.Pos() {
								for i, r := range as.Rhs {
									mentions := false
									ast.Inspect(r, func(y ast.Node) bool {
										if id, ok := y.(*ast.Ident); ok && x.info.Uses[id] == o {
											mentions = true
										}
										return true
									})
									if mentions && i < len(as.Lhs) && ObjOf(x.info, as.Lhs[i]) != o {
										kept = true
									}
								}
							}
							return true
						})
						usedLater := false
						ast.Inspect(x.f.Body, func(m ast.Node) bool {
							if id, ok := m.(*ast.Ident); ok && x.info.Uses[id] == o && id.Pos() > s.End() {
								usedLater = true
							}
							return true
						})
						if !kept && usedLater {
							x.definite = append(x.definite, x.p.Pos(s.Pos())+": the length read off the stream ("+types.ExprString(a.Lhs[0])+") is replaced by "+types.ExprString(a.Rhs[0])+" before the bytes it announces are read, and the value that was read is kept nowhere: "+
								"the rest of the announced bytes stays on the stream and is decoded as the next record")
							return out
						}
					}
				}
			}
			x.problem(s.Pos(), "unrecognised conditional computation on %s", condSym)
			return out
		}
		if s.Else != nil {
			x.problem(s.Pos(), "conditional wire section with else branch")
		}
		body := x.block(s.Body.List)
		out = append(out, codecTok{kind: "cond", cond: condSym, body: body})
		return out
	case *ast.RangeStmt:
		if !x.writer {
			x.problem(s.Pos(), "range loop in a reader")
		}
		over := x.eval(s.X)
		if s.Value != nil {
			if o := ObjOf(x.info, s.Value); o != nil {
				x.env[o] = "elem(" + over + ")"
			}
		}
		if x.writer {
			// an element can be skipped while the count in front of the section is the length of the whole list
			var skip *ast.BranchStmt
			ast.Inspect(s.Body, func(m ast.Node) bool {
				switch y := m.(type) {
				case *ast.FuncLit, *ast.ForStmt, *ast.RangeStmt:
					return false
				case *ast.BranchStmt:
					if y.Tok == token.CONTINUE && y.Label == nil {
						skip = y
					}
				}
				return true
			})
			if skip != nil {
				lenWritten := false
				ast.Inspect(x.f.Body, func(m ast.Node) bool {
					if call, ok := m.(*ast.CallExpr); ok && call.Pos() < s.Pos() && len(call.Args) == 1 {
						if id, ok := ast.Unparen(call.Fun).(*ast.Ident); ok && id.Name == "len" && types.ExprString(call.Args[0]) == types.ExprString(s.X) {
							lenWritten = true
						}
					}
					return true
				})
				if lenWritten {
					x.definite = append(x.definite, x.p.Pos(skip.Pos())+": an element of "+types.ExprString(s.X)+" can be skipped (continue) while the count written in front of the section is len("+types.ExprString(s.X)+"): "+
						"the reader takes the bytes that follow the shortened section for the missing elements")
				}
			}
		}
		body := x.block(s.Body.List)
		return []codecTok{{kind: "repeat", cond: "len(" + over + ")", body: body}}
	case *ast.ForStmt:
		// for i := T(0); i < N; i++ { ... }
		count := "?"
		if be, ok := s.Cond.(*ast.BinaryExpr); ok && be.Op == token.LSS {
			count = x.eval(be.Y)
		}
		if s.Init != nil {
			if a, ok := s.Init.(*ast.AssignStmt); ok && len(a.Lhs) == 1 {
				if o := ObjOf(x.info, a.Lhs[0]); o != nil {
					x.env[o] = "idx"
					if x.eval(a.Rhs[0]) != "lit:0" {
						count = "?"
					}
				}
			}
		}
		if _, ok := s.Post.(*ast.IncDecStmt); !ok {
			count = "?"
		}
		x.loopCounts = append(x.loopCounts, count)
		body := x.block(s.Body.List)
		x.loopCounts = x.loopCounts[:len(x.loopCounts)-1]
		return []codecTok{{kind: "repeat", cond: count, body: body}}
	case *ast.BlockStmt:
		return x.block(s.List)
	default:
		if hasIO(x, st) {
			x.problem(st.Pos(), "unrecognised statement form containing IO")
		}
	}
	return nil
}

func (x *codecExec) isResultType(t types.Type) bool {
	if x.f.Type.Results == nil || len(x.f.Type.Results.List) == 0 {
		return true
	}
	rt := x.info.TypeOf(x.f.Type.Results.List[0].Type)
	return rt != nil && types.Identical(rt, t)
}

func (x *codecExec) isMessageType(t types.Type) bool {
	n, ok := t.(*types.Named)
	if !ok {
		return false
	}
	_, isStruct := n.Underlying().(*types.Struct)
	return isStruct
}

// resolve rewrites reader tokens (R<k>/B<k>) into field meanings.
func (x *codecExec) resolve(toks []codecTok) []codecTok {
	meaning := map[string]string{}
	// direct bindings
	for sym, ms := range x.binds {
		uniq := map[string]bool{}
		for _, m := range ms {
			uniq[m] = true
		}
		if len(uniq) == 1 {
			for m := range uniq {
				meaning[sym] = m
			}
		} else if len(uniq) > 1 {
			var l []string
			for m := range uniq {
				l = append(l, m)
			}
			sort.Strings(l)
			x.problems = append(x.problems, fmt.Sprintf("wire value %s is decoded into several fields: %v", sym, l))
		}
	}
	// slice(k) bound to F.Entries => elem(slice(k)).X means elem(F.Entries).X ; size(slice) ≡ len(F.Entries)
	subst := func(s string) string {
		for sym, m := range meaning {
			if strings.HasPrefix(sym, "slice(") {
				s = strings.ReplaceAll(s, sym, m)
			}
		}
		return s
	}
	lenMeaning := map[string]string{}
	for sym, size := range x.sizes {
		m, ok := meaning[sym]
		if !ok {
			if strings.HasPrefix(sym, "F.") {
				m = sym
			} else {
				continue
			}
		}
		if strings.HasPrefix(size, "R") {
			lenMeaning[size] = "len(" + m + ")"
		}
	}
	final := func(s string) string {
		s = subst(s)
		if m, ok := meaning[s]; ok {
			return m
		}
		if strings.HasSuffix(s, "[0]") {
			if m, ok := meaning[strings.TrimSuffix(s, "[0]")]; ok {
				return m
			}
		}
		if m, ok := lenMeaning[s]; ok {
			if m2, both := meaning[s]; both && m2 != m {
				x.problems = append(x.problems, fmt.Sprintf("wire value %s is both a length (%s) and a field (%s)", s, m, m2))
			}
			return m
		}
		return s
	}
	var walk func(ts []codecTok) []codecTok
	walk = func(ts []codecTok) []codecTok {
		var out []codecTok
		for _, t := range ts {
			switch t.kind {
			case "u":
				t.sym = final(t.sym)
			case "bytes":
				t.sym = final(t.sym)
				if !strings.HasPrefix(t.lenOf, "fixed:") {
					t.lenOf = final(t.lenOf)
				}
			case "cond", "repeat":
				c := t.cond
				for k := range lenMeaning {
					c = replaceSym(c, k, lenMeaning[k])
				}
				for k, m := range meaning {
					c = replaceSym(c, k, m)
				}
				t.cond = c
				t.body = walk(t.body)
			}
			out = append(out, t)
		}
		return out
	}
	out := walk(toks)
	// bounds on wire values, in terms of the fields they decode into
	x.boundsResolved = nil
	for _, b := range x.bounds {
		for k := range lenMeaning {
			b = replaceSym(b, k, lenMeaning[k])
		}
		for k, m := range meaning {
			b = replaceSym(b, k, m)
		}
		x.boundsResolved = append(x.boundsResolved, b)
	}
	// early zero returns must be about a count that only governs trailing repeat/cond sections
	for _, c := range x.earlyZeroReturn {
		cc := c
		for k := range lenMeaning {
			cc = replaceSym(cc, k, lenMeaning[k])
		}
		ok := false
		if strings.HasPrefix(cc, "(len(") && strings.HasSuffix(cc, " == lit:0)") {
			cnt := strings.TrimSuffix(strings.TrimPrefix(cc, "("), " == lit:0)")
			// every token after the count's own token must be repeat[cnt]
			seen := false
			ok = true
			for _, t := range out {
				if t.kind == "u" && t.sym == cnt {
					seen = true
					continue
				}
				if seen && !(t.kind == "repeat" && t.cond == cnt) {
					ok = false
				}
			}
			if !seen {
				ok = false
			}
		}
		if !ok {
			x.problems = append(x.problems, "early success return on "+cc+" skips wire data")
		}
	}
	return out
}

func replaceSym(s, sym, with string) string {
	// replace whole-symbol occurrences (R1 must not match R12)
	var b strings.Builder
	for i := 0; i < len(s); {
		if strings.HasPrefix(s[i:], sym) {
			j := i + len(sym)
			if j >= len(s) || !(s[j] >= '0' && s[j] <= '9') {
				if i == 0 || !(s[i-1] >= 'A' && s[i-1] <= 'Z' || s[i-1] >= 'a' && s[i-1] <= 'z') {
					b.WriteString(with)
					i = j
					continue
				}
			}
		}
		b.WriteByte(s[i])
		i++
	}
	return b.String()
}

// normalise: cond[(len(X) > 0)]{bytes[len(X)]:X} ≡ bytes[len(X)]:X ; elem(F.E) spelled uniformly.
func normToks(ts []codecTok) []string {
	var out []string
	for _, t := range ts {
		switch t.kind {
		case "cond":
			if len(t.body) == 1 && t.body[0].kind == "bytes" {
				b := t.body[0]
				if t.cond == "("+b.lenOf+" > lit:0)" || t.cond == "("+b.lenOf+" != lit:0)" {
					out = append(out, b.String())
					continue
				}
			}
			out = append(out, fmt.Sprintf("cond[%s]{%s}", t.cond, strings.Join(normToks(t.body), ", ")))
		case "repeat":
			out = append(out, fmt.Sprintf("repeat[%s]{%s}", t.cond, strings.Join(normToks(t.body), ", ")))
		default:
			out = append(out, t.String())
		}
	}
	return out
}

func newCodecExec(p *Program, f *FuncInfo, writer bool) *codecExec {
	x := &codecExec{p: p, f: f, info: f.Info(), writer: writer, env: map[types.Object]string{}, msgObjs: map[types.Object]bool{},
		binds: map[string][]string{}, sizes: map[string]string{}}
	k := 0
	for _, fld := range f.Type.Params.List {
		for _, nm := range fld.Names {
			o := f.Info().Defs[nm]
			if k == 0 {
				x.stream = o
			} else if writer {
				x.msgObjs[o] = true
			}
			k++
		}
	}
	return x
}

func runCodec(c *Ctx) {
	p := c.P
	tpk := p.Pkg("internal/transfer")
	if tpk == nil {
		c.MissingAnchor("package internal/transfer")
		return
	}
	rcm := p.Func("transfer.readControlMessage")
	if rcm == nil {
		c.MissingAnchor("transfer.readControlMessage")
		return
	}
	// 1. type table of readControlMessage: case const -> reader func, returned const
	type caseInfo struct {
		reader   *FuncInfo
		retConst string
		pos      token.Pos
	}
	cases := map[string]*caseInfo{}
	hasDefaultErr := false
	var sw *ast.SwitchStmt
	ast.Inspect(rcm.Body, func(n ast.Node) bool {
		if s, ok := n.(*ast.SwitchStmt); ok && sw == nil {
			sw = s
		}
		return true
	})
	if sw == nil {
		c.Unknown("type-table", rcm.Pos(), "readControlMessage has no switch over the type byte")
		return
	}
	info := rcm.Info()
	for _, cl := range sw.Body.List {
		cc := cl.(*ast.CaseClause)
		var ret *ast.ReturnStmt
		var readerCall *ast.CallExpr
		for _, st := range cc.Body {
			ast.Inspect(st, func(n ast.Node) bool {
				switch v := n.(type) {
				case *ast.ReturnStmt:
					ret = v
				case *ast.CallExpr:
					if fi := p.CalleeInfo(info, v); fi != nil && strings.HasPrefix(fi.Name, "transfer.read") {
						readerCall = v
					}
				}
				return true
			})
		}
		if cc.List == nil {
			if ret != nil && len(ret.Results) == 3 && types.ExprString(ret.Results[2]) != "nil" {
				hasDefaultErr = true
			}
			continue
		}
		for _, e := range cc.List {
			cn, _ := ObjOf(info, e).(*types.Const)
			if cn == nil {
				c.Unknown("type-table/case", e.Pos(), "case expression is not a constant")
				continue
			}
			ci := &caseInfo{pos: cc.Pos()}
			if readerCall != nil {
				ci.reader = p.CalleeInfo(info, readerCall)
			}
			if ret != nil && len(ret.Results) >= 1 {
				if rc, ok := ObjOf(info, ret.Results[0]).(*types.Const); ok {
					ci.retConst = rc.Name()
				}
			}
			if _, dup := cases[cn.Name()]; dup {
				c.Bad("type-table/"+cn.Name(), cc.Pos(), "type constant handled by two cases")
			}
			cases[cn.Name()] = ci
		}
	}
	c.Check(hasDefaultErr, "type-table/default", sw.Pos(), "unknown type bytes reach a default case that returns a non-nil error", "readControlMessage has no default case returning an error: unknown record types are silently accepted")

	// 2. all controlType* constants, distinct values
	vals := map[string]string{}
	var constNames []string
	for _, name := range tpk.Types.Scope().Names() {
		if cn, ok := tpk.Types.Scope().Lookup(name).(*types.Const); ok && strings.HasPrefix(name, "controlType") {
			constNames = append(constNames, name)
			v := cn.Val().ExactString()
			if other, dup := vals[v]; dup {
				c.Bad("type-table/distinct/"+name, cn.Pos(), fmt.Sprintf("type constants %s and %s have the same value %s", name, other, v))
			}
			vals[v] = name
		}
	}
	sort.Strings(constNames)

	// 3. writers: functions in internal/transfer named write* whose first wire primitive is a controlType constant
	type wr struct {
		f    *FuncInfo
		toks []codecTok
		x    *codecExec
	}
	writers := map[string][]*wr{}
	for _, f := range p.FuncsIn("internal/transfer") {
		if f.Decl == nil || f.Obj == nil || !strings.HasPrefix(f.Obj.Name(), "write") || f.Type.Params.NumFields() < 1 {
			continue
		}
		if !isStreamType(f.Info().TypeOf(f.Type.Params.List[0].Type)) {
			continue
		}
		switch f.Obj.Name() {
		case "writeFullControl", "writeUint16Control", "writeUint32Control", "writeUint64Control", "writeControlHeader":
			continue
		}
		x := newCodecExec(p, f, true)
		toks := x.block(f.Body.List)
		if len(toks) == 0 || toks[0].kind != "u" || toks[0].bits != 8 || !strings.HasPrefix(toks[0].sym, "const:controlType") {
			continue
		}
		cn := strings.TrimPrefix(toks[0].sym, "const:")
		writers[cn] = append(writers[cn], &wr{f, toks, x})
	}

	for _, cn := range constNames {
		ci := cases[cn]
		if ci == nil {
			c.Bad("record/"+cn, tpk.Types.Scope().Lookup(cn).Pos(), "type constant has no case in readControlMessage: a record the encoder can emit is not decodable")
			continue
		}
		if ci.retConst != cn {
			c.Bad("record/"+cn+"/returned-type", ci.pos, fmt.Sprintf("case %s returns type constant %q", cn, ci.retConst))
		}
		ws := writers[cn]
		if len(ws) == 0 {
			c.Bad("record/"+cn, ci.pos, "no writer emits this record type (reader-only record)")
			continue
		}
		if len(ws) > 1 {
			c.Bad("record/"+cn, ws[1].f.Pos(), "two writers emit the same type byte")
		}
		w := ws[0]
		wn := normToks(w.toks[1:])
		var rn []string
		var rprob []string
		var rxDbg *codecExec
		if ci.reader != nil {
			rx := newCodecExec(p, ci.reader, false)
			rxDbg = rx
			rt := rx.block(ci.reader.Body.List)
			rt = rx.resolve(rt)
			rn = normToks(rt)
			rprob = rx.problems
			c.Stat("codec_functions", 2)
		} else {
			c.Stat("codec_functions", 1)
		}
		key := "record/" + cn
		problems := append(append([]string{}, w.x.problems...), rprob...)
		definite := append([]string{}, w.x.definite...)
		if rxDbg != nil {
			definite = append(definite, rxDbg.definite...)
		}
		if len(definite) > 0 {
			c.Bad(key, w.f.Pos(), "writer and reader of the record cannot agree: "+strings.Join(definite, "; "))
			continue
		}
		if len(problems) > 0 {
			c.add(key, w.f.Pos(), Undecided, false, "codec body uses an idiom the rule does not recognise: "+strings.Join(problems, "; "), nil)
			continue
		}
		ws_, rs_ := strings.Join(wn, ", "), strings.Join(rn, ", ")
		if os.Getenv("TFDEBUG") == "bounds" {
			var rb []string
			if rxDbg != nil {
				rb = rxDbg.bounds
			}
			fmt.Fprintf(os.Stderr, "BOUNDS %s\n  writer %v\n  reader %v\n  toks %s\n", cn, w.x.bounds, rb, ws_)
		}
		if ws_ == rs_ && rxDbg != nil {
			// domain agreement: a value the writer emits must not be refused by the reader. Every reader-side rejection of a
			// decoded value is either enforced by the writer too or is a confirmed protocol limit.
			wb := map[string]bool{}
			for _, b := range w.x.bounds {
				wb[b] = true
			}
			var extra []string
			for _, b := range rxDbg.boundsResolved {
				if !wb[b] && codecProtocolLimits[cn+": "+b] == "" {
					extra = append(extra, b)
				}
			}
			if len(extra) > 0 {
				c.Bad(key+"/domain", ci.reader.Pos(), fmt.Sprintf("reader %s refuses values that writer %s emits: %s - a record inside the length field's range does not round-trip, and the rest of the stream is lost",
					ci.reader.Name, w.f.Name, strings.Join(extra, "; ")))
			} else {
				c.OK(key+"/domain", ci.reader.Pos(), fmt.Sprintf("reader-side rejections (%d) are writer-enforced or confirmed protocol limits", len(rxDbg.boundsResolved)))
			}
		}
		if ws_ == rs_ {
			c.OK(key, w.f.Pos(), fmt.Sprintf("writer %s and reader agree: [%s]", w.f.Name, ws_))
		} else {
			rname := "(none)"
			if ci.reader != nil {
				rname = ci.reader.Name
			}
			c.Bad(key, w.f.Pos(), fmt.Sprintf("writer %s and reader %s disagree on the wire layout", w.f.Name, rname), "writer: ["+ws_+"]", "reader: ["+rs_+"]")
		}
	}
	for cn, ws := range writers {
		if cases[cn] == nil && vals != nil {
			found := false
			for _, n := range constNames {
				if n == cn {
					found = true
				}
			}
			if !found {
				c.Bad("record/"+cn, ws[0].f.Pos(), "writer emits a type constant that is not a controlType constant")
			}
		}
	}

	// 4. the control header
	wh, rh := p.Func("transfer.writeControlHeader"), p.Func("transfer.readControlHeader")
	if wh == nil || rh == nil {
		c.MissingAnchor("transfer.writeControlHeader / readControlHeader")
	} else {
		wx := newCodecExec(p, wh, true)
		wt := normToks(wx.block(wh.Body.List))
		rx := newCodecExec(p, rh, false)
		rt := rx.block(rh.Body.List)
		// reader: magic compare + json.Unmarshal(buf, &m)
		ast.Inspect(rh.Body, func(n ast.Node) bool {
			switch v := n.(type) {
			case *ast.CallExpr:
				if pkg, name := rx.calleeName(v); pkg == "encoding/json" && name == "Unmarshal" && len(v.Args) == 2 {
					src := rx.eval(v.Args[0])
					dst := rx.eval(v.Args[1])
					rx.binds[src] = append(rx.binds[src], "json("+dst+")")
				}
			case *ast.IfStmt:
				if be, ok := v.Cond.(*ast.BinaryExpr); ok && be.Op == token.NEQ {
					l, r := rx.eval(be.X), rx.eval(be.Y)
					if strings.HasPrefix(l, "B") && strings.HasPrefix(r, "const:") {
						rx.binds[l] = append(rx.binds[l], r)
					}
				}
			}
			return true
		})
		rtn := normToks(rx.resolve(rt))
		c.Stat("codec_functions", 2)
		problems := append(append([]string{}, wx.problems...), rx.problems...)
		ws_, rs_ := strings.Join(wt, ", "), strings.Join(rtn, ", ")
		// a streaming decoder over the stream (json.NewDecoder(..).Decode) stops at the end of the value, not at the end of the
		// announced length: what the writer put behind the value (an Encoder's newline) stays unread - decided, not an unknown idiom
		streaming := token.NoPos
		ast.Inspect(rh.Body, func(m ast.Node) bool {
			if call, ok := m.(*ast.CallExpr); ok {
				if pkg, name := rx.calleeName(call); pkg == "encoding/json" && name == "NewDecoder" {
					streaming = call.Pos()
				}
			}
			return true
		})
		switch {
		case streaming != token.NoPos:
			c.Bad("record/header", rh.Pos(), "readControlHeader decodes the manifest with a streaming json.Decoder at "+p.Pos(streaming)+": the decoder stops behind the closing brace, not behind the announced length - "+
				"bytes the writer counted into the length (the newline a json.Encoder appends) stay on the stream when they arrive in a later read, and the next record's type byte is read from them")
		case len(problems) > 0:
			c.Unknown("record/header", wh.Pos(), "header codec uses an unrecognised idiom: "+strings.Join(problems, "; "))
		case ws_ == rs_:
			c.OK("record/header", wh.Pos(), "writeControlHeader and readControlHeader agree: ["+ws_+"]")
		default:
			c.Bad("record/header", wh.Pos(), "header writer and reader disagree", "writer: ["+ws_+"]", "reader: ["+rs_+"]")
		}
	}

	// 5. fixed-width primitives are what their names say
	for _, bits := range []int{16, 32, 64} {
		for _, dir := range []string{"read", "write"} {
			name := fmt.Sprintf("%sUint%dControl", dir, bits)
			f := p.Func("transfer." + name)
			if f == nil {
				c.MissingAnchor("transfer." + name)
				continue
			}
			okArr, okConv, okIO := false, false, false
			ast.Inspect(f.Body, func(n ast.Node) bool {
				switch v := n.(type) {
				case *ast.ValueSpec:
					if at, ok := f.Info().TypeOf(v.Type).(*types.Array); ok && int(at.Len())*8 == bits {
						okArr = true
					}
				case *ast.CallExpr:
					if sel, ok := v.Fun.(*ast.SelectorExpr); ok {
						want := fmt.Sprintf("Uint%d", bits)
						if dir == "write" {
							want = "Put" + want
						}
						if sel.Sel.Name == want && isBigEndian(f.Info(), sel.X) {
							okConv = true
						}
					}
					if fi := p.CalleeInfo(f.Info(), v); fi != nil && fi.Name == "transfer."+dir+"FullControl" {
						okIO = true
					}
				}
				return true
			})
			c.Check(okArr && okConv && okIO, "primitive/"+name, f.Pos(), fmt.Sprintf("%d-byte big-endian buffer moved with %sFullControl", bits/8, dir),
				fmt.Sprintf("primitive %s does not move exactly %d big-endian bytes (array=%v conv=%v io=%v)", name, bits/8, okArr, okConv, okIO))
		}
	}
	// readFullControl must use io.ReadFull; writeFullControl must loop until len(buf)
	if f := p.Func("transfer.readFullControl"); f != nil {
		ok := false
		ast.Inspect(f.Body, func(n ast.Node) bool {
			if call, isC := n.(*ast.CallExpr); isC {
				if fn := Callee(f.Info(), call); fn != nil && fn.Pkg() != nil && fn.Pkg().Path() == "io" && fn.Name() == "ReadFull" {
					ok = true
				}
			}
			return true
		})
		c.Check(ok, "primitive/readFullControl", f.Pos(), "reads exactly len(buf) bytes via io.ReadFull", "readFullControl does not use io.ReadFull: a short read would desynchronise the frame")
	} else {
		c.MissingAnchor("transfer.readFullControl")
	}
	if f := p.Func("transfer.readBytesControl"); f != nil {
		lim, cmp := false, false
		ast.Inspect(f.Body, func(n ast.Node) bool {
			switch v := n.(type) {
			case *ast.CallExpr:
				if calleeIs(f.Info(), v, "io", "ReadAll") && len(v.Args) == 1 {
					in, ok := ast.Unparen(v.Args[0]).(*ast.CallExpr)
					// a buffering reader over the limited reader cannot take more than the record either (round 5)
					for ok && len(in.Args) >= 1 {
						fn := Callee(f.Info(), in)
						if fn == nil || fn.Pkg() == nil || fn.Pkg().Path() != "bufio" || !strings.HasPrefix(fn.Name(), "NewReader") {
							break
						}
						in, ok = ast.Unparen(in.Args[0]).(*ast.CallExpr)
					}
					if ok && calleeIs(f.Info(), in, "io", "LimitReader") {
						lim = true
					}
				}
			case *ast.BinaryExpr:
				if v.Op == token.NEQ && strings.Contains(types.ExprString(v.X), "len(") {
					cmp = true
				}
			}
			return true
		})
		c.Check(lim && cmp, "primitive/readBytesControl", f.Pos(), "reads through io.LimitReader and rejects a short read", "readBytesControl does not read exactly n bytes (LimitReader + length check)")
	}
	if f := p.Func("transfer.writeFullControl"); f != nil {
		loop := false
		ast.Inspect(f.Body, func(n ast.Node) bool {
			if fs, isF := n.(*ast.ForStmt); isF && fs.Cond != nil {
				if strings.Contains(types.ExprString(fs.Cond), "len(") {
					loop = true
				}
			}
			return true
		})
		c.Check(loop, "primitive/writeFullControl", f.Pos(), "loops until all of buf is written", "writeFullControl does not loop over short writes")
	} else {
		c.MissingAnchor("transfer.writeFullControl")
	}
}

func isStreamType(t types.Type) bool {
	n, ok := t.(*types.Named)
	return ok && n.Obj().Name() == "Stream" && n.Obj().Pkg() != nil && n.Obj().Pkg().Path() == RepoPkg("internal/transfer")
}

// codecProtocolLimits: reader-side limits that are part of the protocol (confirmed by reading), keyed "record: bound".
var codecProtocolLimits = map[string]string{
	"controlTypeFileBegin: reject if (len(F.RelPath) > const:maxRelPathLength)": "documented path length limit (maxRelPathLength); validateRelPath applies the same limit to every manifest path on both sides",
}
