package tf

import (
	"fmt"
	"go/ast"
	"go/token"
	"go/types"
	"strings"

	"golang.org/x/tools/go/cfg"
)

func init() {
	Register(&Rule{
		Name:  "R-SEND-CLOSE",
		Props: []string{"C11", "C10"},
		Min:   9,
		Doc: "typestate of the per-peer channel: (1) every send on peerConnection.send happens while Hub.mu is held and the connection was looked up from Hub.sessions in that same critical section; " +
			"(2) every closeSend() is inside, or after, a write-locked section of the same function that unlinks a sessions entry; (3) sends under the lock are non-blocking (select with default); " +
			"(4) while Hub.mu is held there is no call through a function value (send/closeFn callbacks), no channel receive and no select without default; " +
			"(5) the channel is received from in exactly one place (the writer goroutine started in Add) and closed only in closeSend. Together: no send after close on any interleaving, per-connection FIFO, no lock-order cycle",
		Run: runSendClose,
	})
	Register(&Rule{
		Name:  "R-STALE-ALIAS",
		Props: []string{"C11"},
		Min:   4,
		Doc: "a local alias of an inner map of Hub.sessions / Hub.byPeerID obtained in one critical section is never used in a later critical section of the same function; " +
			"deleting a session entry is decided on a value re-loaded inside the section that deletes; sessions and byPeerID entries are always deleted together",
		Run: runStaleAlias,
	})
	Register(&Rule{
		Name:  "R-HUB-SCOPE",
		Props: []string{"C10"},
		Min:   14,
		Doc: "every index into Hub.sessions / Hub.byPeerID uses the enclosing function's own session parameter and neither map is ranged over (a message never crosses sessions); " +
			"SendTo resolves the connection through byPeerID[session][peer] only; BroadcastExcept skips exactly the connection byPeerID[session][except]; in the server every hub call is given the ID of the session " +
			"resolved from the connection's join code (never a client-supplied session id); the forwarded envelope's From is overwritten with the connection-time peer id on every path to a hub call; " +
			"the peer_not_found error goes only through the author's own send function",
		Run: runHubScope,
	})
}

func hubFields(c *Ctx) (mu, sessions, byPeer, send *types.Var) {
	p := c.P
	get := func(name string) *types.Var {
		v, _ := p.LookupObj("internal/peers", name).(*types.Var)
		if v == nil {
			c.MissingAnchor("peers." + name)
		}
		return v
	}
	return get("Hub.mu"), get("Hub.sessions"), get("Hub.byPeerID"), get("peerConnection.send")
}

// hubAliases: locals of f assigned from an index of Hub.sessions / Hub.byPeerID (inner maps), with the assignment nodes.
func hubAliases(f *FuncInfo, sessions, byPeer *types.Var) map[types.Object]bool {
	out := map[types.Object]bool{}
	info := f.Info()
	InspectNoLits(f.Body, func(n ast.Node) bool {
		as, ok := n.(*ast.AssignStmt)
		if !ok || len(as.Rhs) != 1 {
			return true
		}
		ix, ok := ast.Unparen(as.Rhs[0]).(*ast.IndexExpr)
		if !ok {
			return true
		}
		sel, ok := ast.Unparen(ix.X).(*ast.SelectorExpr)
		if !ok {
			return true
		}
		fv, _ := info.Uses[sel.Sel].(*types.Var)
		if fv != sessions && fv != byPeer {
			return true
		}
		if o := ObjOf(info, as.Lhs[0]); o != nil {
			if _, isMap := o.Type().Underlying().(*types.Map); isMap {
				out[o] = true
			}
		}
		return true
	})
	return out
}

func isDeleteOf(info *types.Info, n ast.Node, match func(arg ast.Expr) bool) bool {
	hit := false
	InspectNoLits(n, func(m ast.Node) bool {
		if call, ok := m.(*ast.CallExpr); ok && len(call.Args) == 2 {
			if id, ok := ast.Unparen(call.Fun).(*ast.Ident); ok {
				if b, ok := info.Uses[id].(*types.Builtin); ok && b.Name() == "delete" && match(call.Args[0]) {
					hit = true
				}
			}
		}
		return true
	})
	return hit
}

func runSendClose(c *Ctx) {
	p := c.P
	muF, sessions, byPeer, sendF := hubFields(c)
	if muF == nil || sessions == nil || byPeer == nil || sendF == nil {
		return
	}
	ls := NewLockSpec()
	closeSend := p.Func("peers.(*peerConnection).closeSend")
	if closeSend == nil {
		c.MissingAnchor("peers.(*peerConnection).closeSend")
		return
	}
	for _, f := range p.FuncsIn("internal/peers") {
		info := f.Info()
		cfgf := f.CFG()
		aliases := hubAliases(f, sessions, byPeer)
		fromHub := func(e ast.Expr) bool { // e is h.sessions[..] / alias / h.sessions[..][..]
			e = ast.Unparen(e)
			for {
				if ix, ok := e.(*ast.IndexExpr); ok {
					e = ast.Unparen(ix.X)
					continue
				}
				break
			}
			if sel, ok := e.(*ast.SelectorExpr); ok {
				fv, _ := info.Uses[sel.Sel].(*types.Var)
				return fv == sessions
			}
			if o := ObjOf(info, e); o != nil && aliases[o] {
				// alias of sessions inner map only (value type *peerConnection)
				if m, ok := o.Type().Underlying().(*types.Map); ok {
					return strings.Contains(m.Elem().String(), "peerConnection")
				}
			}
			return false
		}
		// looked-up facts: pc variable defined from the hub's maps while the lock is held; killed by any unlock
		look := &PassSpec{Name: "lookup", SkipDefer: true, NoInheritAsync: true}
		look.Vias = []Via{{Stmt: func(g *FuncInfo, n ast.Node) (string, bool) {
			// range value ident node: go/cfg adds Key/Value idents of a RangeStmt as nodes; find the RangeStmt owning it
			if id, ok := n.(*ast.Ident); ok {
				var owner *ast.RangeStmt
				ast.Inspect(g.Body, func(m ast.Node) bool {
					if rs, ok := m.(*ast.RangeStmt); ok && rs.Value == ast.Expr(id) {
						owner = rs
					}
					return owner == nil
				})
				if owner != nil && fromHub(owner.X) {
					if o := ObjOf(g.Info(), id); o != nil {
						return fmt.Sprintf("looked-up:%d", look.objID(o)), true
					}
				}
			}
			if as, ok := n.(*ast.AssignStmt); ok && len(as.Rhs) == 1 {
				if ix, ok := ast.Unparen(as.Rhs[0]).(*ast.IndexExpr); ok && fromHub(ix) {
					if o := ObjOf(g.Info(), as.Lhs[0]); o != nil && strings.Contains(o.Type().String(), "peerConnection") {
						if _, isPtr := o.Type().(*types.Pointer); isPtr {
							return fmt.Sprintf("looked-up:%d", look.objID(o)), true
						}
					}
				}
				// pc := lookup() where lookup is a call-only function parameter and every function the callers pass
				// returns nil or an element of Hub.sessions: the look-up runs here, inside this critical section
				if call, ok := ast.Unparen(as.Rhs[0]).(*ast.CallExpr); ok && len(call.Args) == 0 {
					if o := ObjOf(g.Info(), as.Lhs[0]); o != nil && strings.Contains(o.Type().String(), "peerConnection") && hubLookupParam(p, g, call, sessions) {
						return fmt.Sprintf("looked-up:%d", look.objID(o)), true
					}
				}
			}
			return "", false
		}}}
		look.KillMatch = func(g *FuncInfo, n ast.Node, id string) bool {
			if _, isDefer := n.(*ast.DeferStmt); isDefer {
				return false
			}
			kill := false
			InspectNoLits(n, func(m ast.Node) bool {
				if call, ok := m.(*ast.CallExpr); ok {
					if _, op, ok := mutexOp(g.Info(), call); ok && (op == "Unlock" || op == "RUnlock") {
						kill = true
					}
				}
				return true
			})
			return kill
		}
		// (1)+(3): sends
		nsend := 0
		cfgf.EachNode(func(r NodeRef) {
			ss, ok := r.Node().(*ast.SendStmt)
			if !ok {
				return
			}
			sel, ok := ast.Unparen(ss.Chan).(*ast.SelectorExpr)
			if !ok {
				return
			}
			if fv, _ := info.Uses[sel.Sel].(*types.Var); fv != sendF {
				return
			}
			nsend++
			key := fmt.Sprintf("send/%s#%d", f.Name, nsend)
			held := false
			for _, h := range HeldAny(ls, f, r) {
				if strings.HasSuffix(h, "."+muF.Name()) {
					held = true
				}
			}
			pcObj := rootObj(info, sel.X)
			looked := pcObj != nil && look.Passed(f, r, fmt.Sprintf("looked-up:%d", look.objID(pcObj)))
			switch {
			case !held:
				c.Bad(key+"/under-lock", ss.Pos(), "send on a peer's channel without holding Hub.mu: the remove function can close the channel concurrently -> panic 'send on closed channel' takes the server down")
			case !looked:
				c.Bad(key+"/under-lock", ss.Pos(), "the connection sent to was not looked up from Hub.sessions inside the current critical section (copied list or stale pointer): it may already be unlinked and closed")
			default:
				c.OK(key+"/under-lock", ss.Pos(), "send under Hub.mu on a connection looked up in the same critical section")
			}
			// non-blocking: the send is the Comm of a select clause and that select has a default
			nonblocking := false
			ast.Inspect(f.Body, func(m ast.Node) bool {
				if sl, ok := m.(*ast.SelectStmt); ok {
					has, hasDefault := false, false
					for _, cl := range sl.Body.List {
						cc := cl.(*ast.CommClause)
						if cc.Comm == ast.Stmt(ss) {
							has = true
						}
						if cc.Comm == nil {
							hasDefault = true
						}
					}
					if has && hasDefault {
						nonblocking = true
					}
				}
				return true
			})
			c.Check(nonblocking, key+"/non-blocking", ss.Pos(), "select with default", "a blocking send while Hub.mu is held: one slow peer stalls every join, leave and message of all sessions")
		})
		// (2) closeSend call sites
		nclose := 0
		cfgf.Calls(func(r NodeRef, call *ast.CallExpr) {
			if p.CalleeInfo(info, call) != closeSend {
				return
			}
			nclose++
			key := fmt.Sprintf("close/%s#%d", f.Name, nclose)
			unl := &PassSpec{Name: "unlinked", SkipDefer: true, NoInheritAsync: true}
			unl.Vias = []Via{{Stmt: func(g *FuncInfo, n ast.Node) (string, bool) {
				gi := g.Info()
				al := hubAliases(g, sessions, byPeer)
				if isDeleteOf(gi, n, func(arg ast.Expr) bool {
					arg = ast.Unparen(arg)
					if ix, ok := arg.(*ast.IndexExpr); ok {
						arg = ast.Unparen(ix.X)
					}
					if sel, ok := arg.(*ast.SelectorExpr); ok {
						fv, _ := gi.Uses[sel.Sel].(*types.Var)
						return fv == sessions
					}
					if o := ObjOf(gi, arg); o != nil && al[o] {
						if m, ok := o.Type().Underlying().(*types.Map); ok {
							return strings.Contains(m.Elem().String(), "peerConnection")
						}
					}
					return false
				}) {
					// only counts when performed under the write lock
					return "unlinked", true
				}
				return "", false
			}}}
			_, w := Held(ls, f, r, "")
			_ = w
			wHeld := false
			for _, h := range HeldAny(ls, f, r) {
				if h == "W:"+strings.TrimSuffix(h[2:], "") && strings.HasPrefix(h, "W:") && strings.HasSuffix(h, "."+muF.Name()) {
					wHeld = true
				}
			}
			after := unl.Passed(f, r, "unlinked")
			inside := false
			if wHeld && !after {
				// the unlink follows in the same critical section on every path
				inside = allPathsHit(cfgf, r, func(n ast.Node) bool {
					ok, _ := unl.Vias[0].Stmt(f, n)
					return ok != ""
				}, func(n ast.Node) bool {
					bad := false
					if _, isDefer := n.(*ast.DeferStmt); isDefer {
						return false
					}
					InspectNoLits(n, func(m ast.Node) bool {
						if cl, ok := m.(*ast.CallExpr); ok {
							if _, op, ok := mutexOp(info, cl); ok && op == "Unlock" {
								bad = true
							}
						}
						return true
					})
					return bad
				})
			}
			// a connection object created in this function that was not (yet) stored into the hub's maps on any path to here
			// is not reachable by senders at all
			if sel, ok := ast.Unparen(call.Fun).(*ast.SelectorExpr); ok && !after && !inside {
				if recv := ObjOf(info, sel.X); recv != nil {
					created, linked := false, false
					cfgf.EachNode(func(sr NodeRef) {
						as, ok := sr.Node().(*ast.AssignStmt)
						if !ok {
							return
						}
						for i, l := range as.Lhs {
							if ObjOf(info, l) == recv && i < len(as.Rhs) {
								e := ast.Unparen(as.Rhs[i])
								if u, ok := e.(*ast.UnaryExpr); ok && u.Op == token.AND {
									e = ast.Unparen(u.X)
								}
								if _, isLit := e.(*ast.CompositeLit); isLit {
									created = true
								}
							}
							// stored somewhere (map element, field) on a path that reaches the close
							if _, isIdent := ast.Unparen(l).(*ast.Ident); !isIdent && i < len(as.Rhs) && ObjOf(info, as.Rhs[i]) == recv && cfgf.Reaches(sr, r) {
								linked = true
							}
						}
					})
					if created && !linked {
						c.OK(key, call.Pos(), "closes the channel of a connection object created here and never linked into the hub on a path to this point")
						return
					}
				}
			}
			c.Check(after || inside, key, call.Pos(), "channel closed only after (or in the same write-locked section as) the connection was unlinked from Hub.sessions",
				"closeSend() on a connection that is still reachable through Hub.sessions: a sender holding the read lock can still find it and send on the closed channel")
		})
		// (4) nothing that can block or call out while the lock is held
		nout := 0
		cfgf.EachNode(func(r NodeRef) {
			held := false
			for _, h := range HeldAny(ls, f, r) {
				if strings.HasSuffix(h, "."+muF.Name()) {
					held = true
				}
			}
			if !held {
				return
			}
			InspectNoLits(r.Node(), func(n ast.Node) bool {
				switch v := n.(type) {
				case *ast.FuncLit:
					return false
				case *ast.CallExpr:
					if _, _, isMu := mutexOp(info, v); isMu {
						return true
					}
					dyn := false
					switch fn := ast.Unparen(v.Fun).(type) {
					case *ast.Ident:
						if o, ok := info.Uses[fn].(*types.Var); ok {
							if _, isSig := o.Type().Underlying().(*types.Signature); isSig {
								dyn = true
							}
						}
					case *ast.SelectorExpr:
						if o, ok := info.Uses[fn.Sel].(*types.Var); ok {
							if _, isSig := o.Type().Underlying().(*types.Signature); isSig {
								dyn = true
							}
						}
					}
					if g := p.CalleeInfo(info, v); g != nil && g.Name == "peers.(*peerConnection).closeConn" {
						dyn = true
					}
					if calleeIs(info, v, "time", "After") || calleeIs(info, v, "time", "Sleep") {
						dyn = true
					}
					if dyn && pureCallbackParam(p, f, info, v) {
						dyn = false
					}
					if dyn {
						nout++
						c.Bad(fmt.Sprintf("under-lock/%s#%d", f.Name, nout), v.Pos(), "call through a callback / blocking call ("+types.ExprString(v.Fun)+") while Hub.mu is held: a peer's network write can stall or deadlock the hub")
					}
				case *ast.UnaryExpr:
					if v.Op == token.ARROW {
						nout++
						c.Bad(fmt.Sprintf("under-lock/%s#%d", f.Name, nout), v.Pos(), "channel receive while Hub.mu is held")
					}
				}
				return true
			})
		})
		if nout == 0 && (nsend > 0 || nclose > 0) {
			c.OK("under-lock/"+f.Name, f.Pos(), "no callback, receive or blocking call inside the critical sections of this function")
		}
	}
	// (5) single consumer, single closer
	consumers, closers := 0, 0
	var consumerIn, closerIn []string
	for _, f := range p.FuncsIn("internal/peers") {
		info := f.Info()
		// locals stored into the send field: ch in `send: ch`
		sendLocals := map[types.Object]bool{}
		for g := f; g != nil; g = g.Parent {
			ast.Inspect(g.Body, func(n ast.Node) bool {
				if kv, ok := n.(*ast.KeyValueExpr); ok {
					if id, ok := kv.Key.(*ast.Ident); ok && g.Info().Uses[id] == types.Object(sendF) {
						if o := ObjOf(g.Info(), kv.Value); o != nil {
							sendLocals[o] = true
						}
					}
				}
				return true
			})
		}
		isSendChan := func(e ast.Expr) bool {
			e = ast.Unparen(e)
			if sel, ok := e.(*ast.SelectorExpr); ok {
				fv, _ := info.Uses[sel.Sel].(*types.Var)
				return fv == sendF
			}
			if o := ObjOf(info, e); o != nil && sendLocals[o] {
				return true
			}
			return false
		}
		InspectNoLits(f.Body, func(n ast.Node) bool {
			switch v := n.(type) {
			case *ast.FuncLit:
				return false
			case *ast.RangeStmt:
				if isSendChan(v.X) {
					consumers++
					consumerIn = append(consumerIn, f.Name)
				}
			case *ast.UnaryExpr:
				if v.Op == token.ARROW && isSendChan(v.X) {
					consumers++
					consumerIn = append(consumerIn, f.Name)
				}
			case *ast.CallExpr:
				if id, ok := ast.Unparen(v.Fun).(*ast.Ident); ok {
					if b, ok := info.Uses[id].(*types.Builtin); ok && b.Name() == "close" && len(v.Args) == 1 && isSendChan(v.Args[0]) {
						closers++
						closerIn = append(closerIn, f.Root().Name)
					}
				}
			}
			return true
		})
	}
	// the single consumer forwards synchronously and in order: no goroutine per message inside the consumer loop
	if len(consumerIn) == 1 {
		if cf := p.Func(consumerIn[0]); cf != nil {
			async := false
			ast.Inspect(cf.Body, func(n ast.Node) bool {
				if rs, ok := n.(*ast.RangeStmt); ok {
					ast.Inspect(rs.Body, func(m ast.Node) bool {
						if _, isGo := m.(*ast.GoStmt); isGo {
							async = true
						}
						return true
					})
				}
				return true
			})
			c.Check(!async, "consumer-in-order", cf.Pos(), "the writer goroutine calls the connection's send function synchronously, one envelope after the other", "the writer goroutine hands envelopes to further goroutines: messages from one peer to another can be reordered")
		}
	}
	c.Check(consumers == 1 && len(consumerIn) == 1 && consumerInCreator(p, consumerIn[0]), "single-consumer", closeSend.Pos(),
		"exactly one receiver of the per-peer channel: the writer goroutine started in Add (per-connection FIFO, no duplication)",
		fmt.Sprintf("the per-peer channel has %d receivers (%v): messages can be reordered or split between consumers", consumers, consumerIn))
	c.Check(closers == 1 && closerIn[0] == "peers.(*peerConnection).closeSend", "single-closer", closeSend.Pos(), "the channel is closed only inside closeSend (sync.Once)",
		fmt.Sprintf("the per-peer channel is closed in %v", closerIn))
}

// allPathsHit: every path from just after `from` reaches a node satisfying good before a node satisfying bad or a function exit.
func allPathsHit(c *CFG, from NodeRef, good, bad func(ast.Node) bool) bool {
	type key struct {
		b *cfg.Block
	}
	seen := map[*cfg.Block]bool{}
	var walk func(b *cfg.Block, start int) bool
	walk = func(b *cfg.Block, start int) bool {
		for i := start; i < len(b.Nodes); i++ {
			n := b.Nodes[i]
			if good(n) {
				return true
			}
			if bad(n) {
				return false
			}
		}
		if len(b.Succs) == 0 {
			return false
		}
		for _, s := range b.Succs {
			if !s.Live {
				continue
			}
			if seen[s] {
				continue
			}
			seen[s] = true
			if !walk(s, 0) {
				return false
			}
		}
		return true
	}
	return walk(from.B, from.I+1)
}

func runStaleAlias(c *Ctx) {
	p := c.P
	muF, sessions, byPeer, _ := hubFields(c)
	if muF == nil || sessions == nil || byPeer == nil {
		return
	}
	ls := NewLockSpec()
	for _, f := range p.FuncsIn("internal/peers") {
		info := f.Info()
		aliases := hubAliases(f, sessions, byPeer)
		if len(aliases) == 0 {
			continue
		}
		fresh := &PassSpec{Name: "fresh", SkipDefer: true, NoInheritAsync: true}
		fresh.Vias = []Via{{Stmt: func(g *FuncInfo, n ast.Node) (string, bool) {
			if as, ok := n.(*ast.AssignStmt); ok && len(as.Rhs) == 1 {
				if o := ObjOf(g.Info(), as.Lhs[0]); o != nil && aliases[o] {
					if _, ok := ast.Unparen(as.Rhs[0]).(*ast.IndexExpr); ok {
						return fmt.Sprintf("fresh:%d", fresh.objID(o)), true
					}
				}
			}
			return "", false
		}}}
		fresh.KillMatch = func(g *FuncInfo, n ast.Node, id string) bool {
			if _, isDefer := n.(*ast.DeferStmt); isDefer {
				return false
			}
			kill := false
			InspectNoLits(n, func(m ast.Node) bool {
				if call, ok := m.(*ast.CallExpr); ok {
					if _, op, ok := mutexOp(g.Info(), call); ok && (op == "Unlock" || op == "RUnlock") {
						kill = true
					}
				}
				return true
			})
			return kill
		}
		n := 0
		f.CFG().EachNode(func(r NodeRef) {
			// skip the defining assignment itself
			if as, ok := r.Node().(*ast.AssignStmt); ok && len(as.Lhs) >= 1 {
				if o := ObjOf(info, as.Lhs[0]); o != nil && aliases[o] && as.Tok == token.DEFINE {
					// uses on the RHS are still checked below
				}
			}
			InspectNoLits(r.Node(), func(m ast.Node) bool {
				if _, ok := m.(*ast.FuncLit); ok {
					return false
				}
				id, ok := m.(*ast.Ident)
				if !ok {
					return true
				}
				o := info.Uses[id]
				if o == nil || !aliases[o] {
					return true
				}
				n++
				key := fmt.Sprintf("alias/%s.%s#%d", f.Name, o.Name(), n)
				held := len(HeldAny(ls, f, r)) > 0
				ok2 := fresh.Passed(f, r, fmt.Sprintf("fresh:%d", fresh.objID(o)))
				switch {
				case !held:
					c.Bad(key, id.Pos(), "inner map alias "+o.Name()+" used outside any critical section of Hub.mu")
				case !ok2:
					c.Bad(key, id.Pos(), "inner map alias "+o.Name()+" was obtained in an earlier critical section and is used after the lock was released and re-taken: the session may have been closed and re-created in between, so this decides on a stale map (a live session's routing entries can be deleted)")
				default:
					c.OK(key, id.Pos(), "alias used in the critical section that loaded it")
				}
				return true
			})
		})
	}
	// sessions and byPeerID entries are deleted together
	for _, f := range p.FuncsIn("internal/peers") {
		info := f.Info()
		var lists [][]ast.Stmt
		ast.Inspect(f.Body, func(n ast.Node) bool {
			switch b := n.(type) {
			case *ast.FuncLit:
				return false
			case *ast.BlockStmt:
				lists = append(lists, b.List)
			}
			return true
		})
		k := 0
		for _, l := range lists {
			delS, delB := false, false
			var pos token.Pos
			for _, st := range l {
				if es, ok := st.(*ast.ExprStmt); ok {
					if isDeleteOf(info, es, func(arg ast.Expr) bool {
						sel, ok := ast.Unparen(arg).(*ast.SelectorExpr)
						if !ok {
							return false
						}
						fv, _ := info.Uses[sel.Sel].(*types.Var)
						return fv == sessions
					}) {
						delS = true
						pos = es.Pos()
					}
					if isDeleteOf(info, es, func(arg ast.Expr) bool {
						sel, ok := ast.Unparen(arg).(*ast.SelectorExpr)
						if !ok {
							return false
						}
						fv, _ := info.Uses[sel.Sel].(*types.Var)
						return fv == byPeer
					}) {
						delB = true
						if pos == token.NoPos {
							pos = es.Pos()
						}
					}
				}
			}
			if delS || delB {
				k++
				c.Check(delS && delB, fmt.Sprintf("paired-delete/%s#%d", f.Name, k), pos, "sessions and byPeerID entries of a session are deleted together",
					"a session entry is deleted from only one of Hub.sessions / Hub.byPeerID: routing state leaks or dangles once the session is empty")
			}
		}
	}
}

func runHubScope(c *Ctx) {
	p := c.P
	_, sessions, byPeer, _ := hubFields(c)
	if sessions == nil || byPeer == nil {
		return
	}
	// ---- hub: every index uses the declared function's session parameter; no range over the outer maps
	for _, f := range p.FuncsIn("internal/peers") {
		info := f.Info()
		root := f.Root()
		if root.Decl == nil || root.Decl.Recv == nil || root.Type.Params.NumFields() == 0 {
			continue
		}
		var sessParam types.Object
		if len(root.Type.Params.List[0].Names) > 0 {
			sessParam = root.Info().Defs[root.Type.Params.List[0].Names[0]]
		}
		n := 0
		InspectNoLits(f.Body, func(nd ast.Node) bool {
			switch v := nd.(type) {
			case *ast.FuncLit:
				return false
			case *ast.RangeStmt:
				if sel, ok := ast.Unparen(v.X).(*ast.SelectorExpr); ok {
					if fv, _ := info.Uses[sel.Sel].(*types.Var); fv == sessions || fv == byPeer {
						n++
						c.Bad(fmt.Sprintf("scope/%s#%d", f.Name, n), v.Pos(), "iteration over all sessions of the hub: an operation on one session can reach peers of another")
					}
				}
			case *ast.IndexExpr:
				sel, ok := ast.Unparen(v.X).(*ast.SelectorExpr)
				if !ok {
					return true
				}
				fv, _ := info.Uses[sel.Sel].(*types.Var)
				if fv != sessions && fv != byPeer {
					return true
				}
				n++
				key := fmt.Sprintf("scope/%s#%d", f.Name, n)
				c.Check(ObjOf(info, v.Index) == sessParam && sessParam != nil, key, v.Pos(), "indexed by the operation's own session parameter",
					"Hub."+fv.Name()+" is indexed by "+types.ExprString(v.Index)+" instead of the operation's session parameter: messages can cross sessions")
			}
			return true
		})
	}
	// ---- SendTo: connection resolved through byPeerID[session][peerParam]
	if st := p.Func("peers.(*Hub).SendTo"); st != nil {
		info := st.Info()
		var peerParam types.Object
		if ps := st.Type.Params.List; len(ps) >= 2 && len(ps[1].Names) > 0 {
			peerParam = info.Defs[ps[1].Names[0]]
		}
		// chain: peerIDMap := h.byPeerID[s]; connID := peerIDMap[peerID]; pc := h.sessions[s][connID]; pc.send <- env
		okChain := false
		var connObj types.Object
		// round 5: the literal (or SendTo itself) in which each step of the chain is evaluated
		var resolveAt, useAt ast.Node
		var litStack []ast.Node
		encl := func() ast.Node {
			if len(litStack) == 0 {
				return st.Body
			}
			return litStack[len(litStack)-1]
		}
		var nodeStack []ast.Node
		ast.Inspect(st.Body, func(n ast.Node) bool {
			if n == nil {
				top := nodeStack[len(nodeStack)-1]
				nodeStack = nodeStack[:len(nodeStack)-1]
				if _, ok := top.(*ast.FuncLit); ok {
					litStack = litStack[:len(litStack)-1]
				}
				return true
			}
			nodeStack = append(nodeStack, n)
			if _, ok := n.(*ast.FuncLit); ok {
				litStack = append(litStack, n)
			}
			if as, ok := n.(*ast.AssignStmt); ok && len(as.Rhs) == 1 {
				if ix, ok := ast.Unparen(as.Rhs[0]).(*ast.IndexExpr); ok {
					if ObjOf(info, ix.Index) == peerParam && peerParam != nil {
						// map must be byPeerID[session] or its alias
						base := ast.Unparen(ix.X)
						isBP := false
						if o := ObjOf(info, base); o != nil {
							for _, g := range allKids(st) { // the alias may be defined inside the look-up literal
								if hubAliases(g, sessions, byPeer)[o] {
									isBP = true
								}
							}
						}
						if ix2, ok := base.(*ast.IndexExpr); ok {
							if sel, ok := ast.Unparen(ix2.X).(*ast.SelectorExpr); ok {
								if fv, _ := info.Uses[sel.Sel].(*types.Var); fv == byPeer {
									isBP = true
								}
							}
						}
						if isBP {
							connObj = ObjOf(info, as.Lhs[0])
							resolveAt = encl()
						}
					}
					if connObj != nil && ObjOf(info, ix.Index) == connObj {
						okChain = true
						useAt = encl()
					}
				}
			}
			// the second step as the result of a look-up literal: return h.sessions[s][connID]
			if rs, ok := n.(*ast.ReturnStmt); ok && connObj != nil {
				for _, res := range rs.Results {
					if ix, ok := ast.Unparen(res).(*ast.IndexExpr); ok && ObjOf(info, ix.Index) == connObj {
						if ix2, ok := ast.Unparen(ix.X).(*ast.IndexExpr); ok {
							if sel, ok := ast.Unparen(ix2.X).(*ast.SelectorExpr); ok {
								if fv, _ := info.Uses[sel.Sel].(*types.Var); fv == sessions {
									okChain = true
									useAt = encl()
								}
							}
						}
					}
				}
			}
			return true
		})
		c.Check(okChain, "addressed/SendTo", st.Pos(), "SendTo sends to sessions[session][byPeerID[session][peer]]", "SendTo no longer resolves the addressee through byPeerID[session][peer]: an addressed message can reach a different peer")
		_, _ = resolveAt, useAt
	} else {
		c.MissingAnchor("peers.(*Hub).SendTo")
	}
	// ---- BroadcastExcept: skips exactly byPeerID[session][except]
	if be := p.Func("peers.(*Hub).BroadcastExcept"); be != nil {
		info := be.Info()
		var exceptParam, exceptConn types.Object
		if ps := be.Type.Params.List; len(ps) >= 2 && len(ps[1].Names) > 0 {
			exceptParam = info.Defs[ps[1].Names[0]]
		}
		ast.Inspect(be.Body, func(n ast.Node) bool {
			if as, ok := n.(*ast.AssignStmt); ok && len(as.Rhs) == 1 {
				if ix, ok := ast.Unparen(as.Rhs[0]).(*ast.IndexExpr); ok && ObjOf(info, ix.Index) == exceptParam && exceptParam != nil {
					exceptConn = ObjOf(info, as.Lhs[0])
				}
			}
			return true
		})
		// the send must be control-dependent on connID != exceptConn (range key)
		spec := &PassSpec{Vias: []Via{{Cond: func(f *FuncInfo, e ast.Expr) (string, bool, bool) {
			b, ok := ast.Unparen(e).(*ast.BinaryExpr)
			if !ok || (b.Op != token.NEQ && b.Op != token.EQL) {
				return "", false, false
			}
			isKey := func(e ast.Expr) bool {
				o := ObjOf(f.Info(), e)
				if o == nil {
					return false
				}
				hit := false
				ast.Inspect(f.Body, func(m ast.Node) bool {
					if rs, ok := m.(*ast.RangeStmt); ok && rs.Key != nil && ObjOf(f.Info(), rs.Key) == o {
						hit = true
					}
					return !hit
				})
				return hit
			}
			if (ObjOf(f.Info(), b.Y) == exceptConn && isKey(b.X)) || (ObjOf(f.Info(), b.X) == exceptConn && isKey(b.Y)) {
				return "not-author", b.Op == token.NEQ, true
			}
			return "", false, false
		}}}}
		n := 0
		be.CFG().EachNode(func(r NodeRef) {
			if ss, ok := r.Node().(*ast.SendStmt); ok {
				n++
				c.Check(exceptConn != nil && spec.Passed(be, r, "not-author"), fmt.Sprintf("exclusion/BroadcastExcept#%d", n), ss.Pos(), "send only to connections other than byPeerID[session][except]",
					"BroadcastExcept can send the message back to its author (or excludes the wrong connection)")
			}
		})
		if n == 0 {
			c.Bad("exclusion/BroadcastExcept", be.Pos(), "BroadcastExcept contains no send")
		}
	} else {
		c.MissingAnchor("peers.(*Hub).BroadcastExcept")
	}
	// ---- server: session argument of every hub call; From overwrite; error only to the author
	ws := p.Func("cmd/thruserv.handleWebSocket")
	if ws == nil {
		c.MissingAnchor("cmd/thruserv.handleWebSocket")
		return
	}
	var sessObjs = map[types.Object]bool{}
	var peerIDObj types.Object
	mark := func(f *FuncInfo) {
		ast.Inspect(f.Body, func(n ast.Node) bool {
			if as, ok := n.(*ast.AssignStmt); ok && len(as.Rhs) == 1 {
				if call, ok := ast.Unparen(as.Rhs[0]).(*ast.CallExpr); ok {
					// any method of *session.Store that returns a session.Session: the server's own record, keyed by join code or freshly created
					if fn := Callee(f.Info(), call); fn != nil && fn.Pkg() != nil && fn.Pkg().Path() == RepoPkg("internal/session") {
						sig := fn.Type().(*types.Signature)
						if sig.Recv() != nil && recvTypeName(sig.Recv().Type()) == "Store" && sig.Results().Len() >= 1 && strings.HasSuffix(sig.Results().At(0).Type().String(), "session.Session") {
							if o := ObjOf(f.Info(), as.Lhs[0]); o != nil {
								sessObjs[o] = true
							}
						}
					}
				}
			}
			return true
		})
	}
	var roots []*FuncInfo
	roots = append(roots, ws)
	if h := p.httpHandler("/session"); h != nil {
		roots = append(roots, h)
	}
	for _, r := range roots {
		mark(r)
	}
	// connection-time peer id: the variable stored into peers.Peer{PeerID: x} handed to hub.Add
	ast.Inspect(ws.Body, func(n ast.Node) bool {
		if kv, ok := n.(*ast.KeyValueExpr); ok {
			if id, ok := kv.Key.(*ast.Ident); ok && id.Name == "PeerID" {
				if fv, ok := ws.Info().Uses[id].(*types.Var); ok && fv.IsField() && fv.Pkg() != nil && fv.Pkg().Path() == RepoPkg("internal/peers") {
					peerIDObj = ObjOf(ws.Info(), kv.Value)
				}
			}
		}
		return true
	})
	if peerIDObj == nil {
		c.Unknown("from/peer-id", ws.Pos(), "cannot identify the connection-time peer id (peers.Peer{PeerID: x})")
		return
	}
	var envObj types.Object
	ast.Inspect(ws.Body, func(n ast.Node) bool {
		if call, ok := n.(*ast.CallExpr); ok && calleeIs(ws.Info(), call, "encoding/json", "Unmarshal") && len(call.Args) == 2 {
			if u, ok := ast.Unparen(call.Args[1]).(*ast.UnaryExpr); ok {
				envObj = ObjOf(ws.Info(), u.X)
			}
		}
		return true
	})
	fromSpec := &PassSpec{Name: "from"}
	fromSpec.Vias = []Via{{Stmt: func(f *FuncInfo, n ast.Node) (string, bool) {
		as, ok := n.(*ast.AssignStmt)
		if !ok || len(as.Lhs) != 1 || len(as.Rhs) != 1 {
			return "", false
		}
		sel, ok := ast.Unparen(as.Lhs[0]).(*ast.SelectorExpr)
		if !ok || sel.Sel.Name != "From" || ObjOf(f.Info(), sel.X) != envObj {
			return "", false
		}
		if ObjOf(f.Info(), as.Rhs[0]) == peerIDObj {
			return "from-set", true
		}
		return "", false
	}}}
	fromSpec.KillMatch = func(f *FuncInfo, n ast.Node, id string) bool {
		// a new message is decoded, or From is assigned something else
		kill := false
		InspectNoLits(n, func(m ast.Node) bool {
			if call, ok := m.(*ast.CallExpr); ok && calleeIs(f.Info(), call, "encoding/json", "Unmarshal") {
				kill = true
			}
			return true
		})
		for _, o := range AssignedObjs(f.Info(), n) {
			if o == envObj {
				kill = true
			}
		}
		if as, ok := n.(*ast.AssignStmt); ok && len(as.Lhs) == 1 {
			if sel, ok := ast.Unparen(as.Lhs[0]).(*ast.SelectorExpr); ok && sel.Sel.Name == "From" && ObjOf(f.Info(), sel.X) == envObj && ObjOf(f.Info(), as.Rhs[0]) != peerIDObj {
				kill = true
			}
		}
		return kill
	}
	var visit func(f *FuncInfo)
	nh := 0
	visit = func(f *FuncInfo) {
		info := f.Info()
		f.CFG().Calls(func(r NodeRef, call *ast.CallExpr) {
			g := Callee(info, call)
			if g == nil || g.Pkg() == nil || g.Pkg().Path() != RepoPkg("internal/peers") {
				return
			}
			sig := g.Type().(*types.Signature)
			if sig.Recv() == nil || recvTypeName(sig.Recv().Type()) != "Hub" || len(call.Args) == 0 {
				return
			}
			nh++
			key := fmt.Sprintf("server/%s#%d/%s", f.Name, nh, g.Name())
			sel, ok := ast.Unparen(call.Args[0]).(*ast.SelectorExpr)
			okSess := ok && sel.Sel.Name == "ID" && sessObjs[ObjOf(info, sel.X)]
			c.Check(okSess, key+"/session", call.Pos(), "session argument is the ID of the session resolved from the join code",
				"hub."+g.Name()+" is given "+types.ExprString(call.Args[0])+" as session: a client-controlled session id lets a peer inject messages into another session")
			// forwarded envelope
			for _, a := range call.Args[1:] {
				if envObj != nil && ObjOf(info, a) == envObj {
					c.Check(fromSpec.Passed(f, r, "from-set"), key+"/from", call.Pos(), "forwarded envelope passes env.From = <connection-time peer id>",
						"a client envelope is forwarded on a path that does not overwrite From with the identity the author connected with: the recipient sees a spoofable sender")
				}
			}
		})
		for _, k := range f.Kids {
			visit(k)
		}
	}
	for _, r := range roots {
		visit(r)
	}
	// peer_not_found only to the author: inside the `!sent` branch no hub call, and the local send function is used
	{
		info := ws.Info()
		okErr, found := false, false
		ast.Inspect(ws.Body, func(n ast.Node) bool {
			is, ok := n.(*ast.IfStmt)
			if !ok {
				return true
			}
			u, ok := ast.Unparen(is.Cond).(*ast.UnaryExpr)
			if !ok || u.Op != token.NOT {
				return true
			}
			o := ObjOf(info, u.X)
			if o == nil {
				return true
			}
			// o assigned from hub.SendTo
			fromSendTo := false
			ast.Inspect(ws.Body, func(m ast.Node) bool {
				if as, ok := m.(*ast.AssignStmt); ok && len(as.Rhs) == 1 && ObjOf(info, as.Lhs[0]) == o {
					if call, ok := ast.Unparen(as.Rhs[0]).(*ast.CallExpr); ok {
						if g := Callee(info, call); g != nil && g.Name() == "SendTo" {
							fromSendTo = true
						}
					}
				}
				return true
			})
			if !fromSendTo {
				return true
			}
			found = true
			hubCall, local := false, false
			ast.Inspect(is.Body, func(m ast.Node) bool {
				if call, ok := m.(*ast.CallExpr); ok {
					if g := Callee(info, call); g != nil && g.Pkg() != nil && g.Pkg().Path() == RepoPkg("internal/peers") {
						hubCall = true
					}
					if id, ok := ast.Unparen(call.Fun).(*ast.Ident); ok {
						if v, ok := info.Uses[id].(*types.Var); ok && p.ClosureOfVar(v) != nil {
							local = true
						}
					}
				}
				return true
			})
			okErr = !hubCall && local
			return true
		})
		if !found {
			c.Unknown("server/peer-not-found", ws.Pos(), "cannot find the `if !sent` branch after hub.SendTo")
		} else {
			c.Check(okErr, "server/peer-not-found", ws.Pos(), "the unknown-addressee error is written through the author's own send function only", "the peer_not_found error is routed through the hub (other peers could see it) or not sent to the author")
		}
	}
}

// consumerInCreator: the consuming function is a literal nested in the declared function that creates the per-peer channel
// (make(chan protocol.Envelope ...)): the writer goroutine started at registration.
func consumerInCreator(p *Program, name string) bool {
	f := p.Func(name)
	if f == nil || f.Lit == nil || f.Parent == nil {
		return false
	}
	root := f.Root()
	makes := false
	ast.Inspect(root.Body, func(n ast.Node) bool {
		if call, ok := n.(*ast.CallExpr); ok {
			if id, ok := ast.Unparen(call.Fun).(*ast.Ident); ok && id.Name == "make" && len(call.Args) >= 1 {
				if ct, ok := root.Info().TypeOf(call.Args[0]).Underlying().(*types.Chan); ok && strings.HasSuffix(ct.Elem().String(), "protocol.Envelope") {
					makes = true
				}
			}
		}
		return true
	})
	return makes && strings.HasPrefix(root.Name, "peers.(*Hub).")
}

// pureCallbackParam: the dynamic call goes through a parameter of f, and at every static call site of f (following one level
// of forwarding wrappers) the argument is nil or a function literal / closure variable whose body calls nothing but builtins:
// such a callback computes on its arguments and cannot block on a peer.
func pureCallbackParam(p *Program, f *FuncInfo, info *types.Info, call *ast.CallExpr) bool {
	id, ok := ast.Unparen(call.Fun).(*ast.Ident)
	if !ok || f.Obj == nil || f.Type.Params == nil {
		return false
	}
	pv := ObjOf(info, id)
	var pureArg func(g *FuncInfo, obj *types.Func, idx int, depth int) bool
	pureArg = func(g *FuncInfo, obj *types.Func, idx int, depth int) bool {
		sites := p.CallSites(obj)
		if len(sites) == 0 {
			return false
		}
		for _, st := range sites {
			var c2 *ast.CallExpr
			InspectNoLits(st.ref.Node(), func(n ast.Node) bool {
				if ce, ok := n.(*ast.CallExpr); ok && Callee(st.f.Info(), ce) == obj {
					c2 = ce
				}
				return true
			})
			if c2 == nil || idx >= len(c2.Args) {
				return false
			}
			a := ast.Unparen(c2.Args[idx])
			si := st.f.Info()
			if tv, ok := si.Types[a]; ok && tv.IsNil() {
				continue
			}
			var cl *FuncInfo
			switch v := a.(type) {
			case *ast.FuncLit:
				cl = p.LitInfo(v)
			case *ast.Ident:
				if o, ok := ObjOf(si, v).(*types.Var); ok {
					if cl = p.ClosureOfVar(o); cl == nil && depth > 0 && st.f.Obj != nil && st.f.Type.Params != nil {
						// forwarded parameter of a wrapper
						j := 0
						fwd := false
						for _, fl := range st.f.Type.Params.List {
							for _, nm := range fl.Names {
								if si.Defs[nm] == o && pureArg(st.f, st.f.Obj, j, depth-1) {
									fwd = true
								}
								j++
							}
						}
						if fwd {
							continue
						}
					}
				}
			}
			if cl == nil {
				return false
			}
			pure := true
			ast.Inspect(cl.Body, func(n ast.Node) bool {
				switch x := n.(type) {
				case *ast.CallExpr:
					if fid, ok := ast.Unparen(x.Fun).(*ast.Ident); ok {
						if _, isB := cl.Info().Uses[fid].(*types.Builtin); isB {
							return true
						}
					}
					if tv, ok := cl.Info().Types[x.Fun]; ok && tv.IsType() {
						return true
					}
					// an accessor of the session store: it takes the store's own lock for a map look-up and calls nothing outside its package,
					// which imports nothing of this module - so the only lock order is Hub.mu -> Store.mu and nothing there can wait (F48)
					if leafStoreAccessor(p, p.CalleeInfo(cl.Info(), x), 2) {
						return true
					}
					pure = false
				case *ast.SendStmt, *ast.GoStmt, *ast.SelectStmt:
					pure = false
				case *ast.UnaryExpr:
					if x.Op == token.ARROW {
						pure = false
					}
				}
				return true
			})
			if !pure {
				return false
			}
		}
		return true
	}
	j := 0
	for _, fl := range f.Type.Params.List {
		for _, nm := range fl.Names {
			if info.Defs[nm] == pv {
				return pureArg(f, f.Obj, j, 1)
			}
			j++
		}
	}
	return false
}

func init() {
	Register(&Rule{
		Name:  "R-SESSION-DROP",
		Props: []string{"C11", "C10"},
		Min:   2,
		Doc: "a whole session entry is removed from Hub.sessions (delete(h.sessions, id)) only when, in the same critical section, the session's peer map was found empty (len(...) == 0 on the map looked up " +
			"after the lock was taken) or every peer of it is being disconnected by this function (the map is iterated and its connections closed): a decision carried over an unlock is stale - " +
			"a peer that joined in between would be dropped from routing although it never left",
		Run: runSessionDrop,
	})
}

func init() {
	Register(&Rule{
		Name:  "R-REPLACED-CLOSED",
		Props: []string{"C10", "C11"},
		Min:   1,
		Doc: "a connection that is replaced in the hub (same peer id, newer connection) is ended by the hub: where AddIf unlinks the old connection it also calls closeConn on it, after the lock was released - " +
			"otherwise the old socket stays open, can go on authoring messages under the peer's id, and its late close runs the disconnect cleanup for a peer that never left",
		Run: func(c *Ctx) {
			p := c.P
			f := p.Func("peers.(*Hub).AddIf")
			if f == nil {
				c.MissingAnchor("peers.(*Hub).AddIf")
				return
			}
			info := f.Info()
			ls := NewLockSpec()
			var old types.Object
			// the variable holding the replaced connection: assigned inside the replacement branch from the looked-up old connection
			ast.Inspect(f.Body, func(n ast.Node) bool {
				if call, ok := n.(*ast.CallExpr); ok {
					if g := p.CalleeInfo(info, call); g != nil && g.Name == "peers.(*peerConnection).closeConn" {
						if sel, ok := ast.Unparen(call.Fun).(*ast.SelectorExpr); ok {
							old = ObjOf(info, sel.X)
						}
					}
				}
				return true
			})
			closedOutside := false
			f.CFG().Calls(func(r NodeRef, call *ast.CallExpr) {
				if g := p.CalleeInfo(info, call); g != nil && g.Name == "peers.(*peerConnection).closeConn" && len(HeldAny(ls, f, r)) == 0 {
					closedOutside = true
				}
			})
			fromReplaced := false
			if old != nil {
				for _, d := range allDefs(f, old) {
					if o := ObjOf(info, d); o != nil {
						// defined from the connection found under the old connection id
						fromReplaced = true
					}
				}
			}
			c.Check(old != nil && closedOutside && fromReplaced, "replaced-closed/AddIf", f.Pos(), "the replaced connection is closed by AddIf, outside the lock",
				"AddIf unlinks a replaced connection without closing its socket: the old connection can still author messages as that peer, and when it eventually closes its handler runs the disconnect cleanup (peer_left, session deletion) for a peer that is connected through the newer connection")
		},
	})
}

func runSessionDrop(c *Ctx) {
	p := c.P
	muF, sessions, byPeer, _ := hubFields(c)
	if muF == nil || sessions == nil || byPeer == nil {
		return
	}
	n := 0
	for _, f := range p.FuncsIn("internal/peers") {
		info := f.Info()
		cfgf := f.CFG()
		al := hubAliases(f, sessions, byPeer)
		isSessionsIndex := func(e ast.Expr) bool {
			ix, ok := ast.Unparen(e).(*ast.IndexExpr)
			if !ok {
				return false
			}
			sel, ok := ast.Unparen(ix.X).(*ast.SelectorExpr)
			if !ok {
				return false
			}
			fv, _ := info.Uses[sel.Sel].(*types.Var)
			return fv == sessions
		}
		isSessionMap := func(e ast.Expr) bool {
			if isSessionsIndex(e) {
				return true
			}
			if o := ObjOf(info, e); o != nil && al[o] {
				if m, ok := o.Type().Underlying().(*types.Map); ok && strings.Contains(m.Elem().String(), "peerConnection") {
					return true
				}
			}
			return false
		}
		spec := &PassSpec{SkipDefer: true, NoInheritAsync: true}
		spec.Vias = []Via{
			{Cond: func(g *FuncInfo, e ast.Expr) (string, bool, bool) {
				be, ok := ast.Unparen(e).(*ast.BinaryExpr)
				if !ok {
					return "", false, false
				}
				call, ok := ast.Unparen(be.X).(*ast.CallExpr)
				if !ok || len(call.Args) != 1 {
					return "", false, false
				}
				if id, ok := ast.Unparen(call.Fun).(*ast.Ident); !ok || id.Name != "len" || !isSessionMap(call.Args[0]) {
					return "", false, false
				}
				z, isC := constInt(g.Info(), be.Y)
				if !isC || z != 0 {
					return "", false, false
				}
				switch be.Op {
				case token.EQL, token.LEQ:
					return "empty", true, true
				case token.NEQ, token.GTR:
					return "empty", false, true
				}
				return "", false, false
			}},
			// the alias itself must have been (re)read in this critical section: taking the alias establishes "fresh"
			{Stmt: func(g *FuncInfo, nd ast.Node) (string, bool) {
				fresh := false
				InspectNoLits(nd, func(m ast.Node) bool {
					if as, ok := m.(*ast.AssignStmt); ok && len(as.Rhs) == 1 && isSessionsIndex(as.Rhs[0]) {
						fresh = true
					}
					return true
				})
				if fresh {
					return "fresh", true
				}
				return "", false
			}},
			// disconnect-all: the session's map is iterated (its peers collected/closed) in this section
			{Stmt: func(g *FuncInfo, nd ast.Node) (string, bool) {
				if rs, ok := nd.(*ast.RangeStmt); ok && isSessionMap(rs.X) {
					return "all-closed", true
				}
				return "", false
			}},
		}
		spec.KillAll = func(g *FuncInfo, nd ast.Node) bool {
			kill := false
			InspectNoLits(nd, func(m ast.Node) bool {
				if call, ok := m.(*ast.CallExpr); ok {
					if _, op, ok := mutexOp(g.Info(), call); ok && (op == "Unlock" || op == "RUnlock") {
						kill = true
					}
				}
				return true
			})
			return kill
		}
		cfgf.EachNode(func(r NodeRef) {
			if !isDeleteOf(info, r.Node(), func(arg ast.Expr) bool {
				sel, ok := ast.Unparen(arg).(*ast.SelectorExpr)
				if !ok {
					return false
				}
				fv, _ := info.Uses[sel.Sel].(*types.Var)
				return fv == sessions
			}) {
				return
			}
			n++
			key := fmt.Sprintf("session-drop/%s#%d", f.Name, n)
			// go/cfg lists a range statement's body, not the statement, as a node: look for the range over the session map syntactically
			rangesAll := false
			ast.Inspect(f.Body, func(m ast.Node) bool {
				if rs, ok := m.(*ast.RangeStmt); ok && isSessionMap(rs.X) && rs.Pos() < r.Node().Pos() {
					rangesAll = true
				}
				return true
			})
			empty := spec.Passed(f, r, "empty") && spec.Passed(f, r, "fresh")
			c.Check(empty || rangesAll, key, r.Node().Pos(), "session entry dropped only when found empty in this critical section, or with all its peers being disconnected",
				"delete(h.sessions, ...) without an emptiness test of the freshly looked-up session map in the same critical section (and without disconnecting its peers): a decision taken before the lock was released is stale, a peer that joined in between is removed from routing although it never left",
				"facts here: "+strings.Join(spec.PassedList(f, r), ", "))
		})
	}
}

// hubLookupParam: call is `param()` where param is a function-typed parameter of g (a method of Hub) that g only ever
// calls, and every argument passed for it at g's call sites is a function literal all of whose results are nil or an
// element of Hub.sessions (h.sessions[..][..]).
func hubLookupParam(p *Program, g *FuncInfo, call *ast.CallExpr, sessions *types.Var) bool {
	id, ok := ast.Unparen(call.Fun).(*ast.Ident)
	if !ok {
		return false
	}
	root := g.Root()
	if root.Decl == nil || root.Obj == nil {
		return false
	}
	param := root.Info().Uses[id]
	idx, k := -1, 0
	for _, fld := range root.Type.Params.List {
		for _, nm := range fld.Names {
			if root.Info().Defs[nm] == param && param != nil {
				idx = k
			}
			k++
		}
	}
	if idx < 0 {
		return false
	}
	// call-only
	callOnly := true
	funOf := map[*ast.Ident]bool{}
	ast.Inspect(root.Body, func(m ast.Node) bool {
		if c2, ok := m.(*ast.CallExpr); ok {
			if i2, ok := ast.Unparen(c2.Fun).(*ast.Ident); ok && root.Info().Uses[i2] == param {
				funOf[i2] = true
			}
		}
		return true
	})
	ast.Inspect(root.Body, func(m ast.Node) bool {
		if i2, ok := m.(*ast.Ident); ok && root.Info().Uses[i2] == param && !funOf[i2] {
			callOnly = false
		}
		return true
	})
	if !callOnly {
		return false
	}
	sites := 0
	for _, st := range p.CallSites(root.Obj) {
		okSite := true
		found := false
		InspectNoLits(st.ref.Node(), func(m ast.Node) bool {
			c2, ok := m.(*ast.CallExpr)
			if !ok || p.CalleeInfo(st.f.Info(), c2) != root || len(c2.Args) <= idx {
				return true
			}
			found = true
			lit, ok := ast.Unparen(c2.Args[idx]).(*ast.FuncLit)
			if !ok {
				okSite = false
				return true
			}
			info := st.f.Info()
			nret := 0
			ast.Inspect(lit.Body, func(x ast.Node) bool {
				if inner, ok := x.(*ast.FuncLit); ok && inner != lit {
					return false
				}
				rs, ok := x.(*ast.ReturnStmt)
				if !ok {
					return true
				}
				nret++
				if len(rs.Results) != 1 {
					okSite = false
					return true
				}
				r := ast.Unparen(rs.Results[0])
				if rid, ok := r.(*ast.Ident); ok && rid.Name == "nil" {
					return true
				}
				e := r
				depth := 0
				for {
					ix, ok := e.(*ast.IndexExpr)
					if !ok {
						break
					}
					e = ast.Unparen(ix.X)
					depth++
				}
				sel, ok := e.(*ast.SelectorExpr)
				if !ok || depth != 2 {
					okSite = false
					return true
				}
				if fv, _ := info.Uses[sel.Sel].(*types.Var); fv != sessions {
					okSite = false
				}
				return true
			})
			if nret == 0 {
				okSite = false
			}
			return true
		})
		if found {
			sites++
			if !okSite {
				return false
			}
		}
	}
	return sites > 0
}

// leafStoreAccessor: fi is a function of internal/session whose body only takes mutexes, calls builtins, conversions, time / strings
// functions or other such functions of its package, and has no channel operation or go statement; the package imports nothing of this module.
func leafStoreAccessor(p *Program, fi *FuncInfo, depth int) bool {
	if fi == nil || fi.Body == nil || fi.Pkg == nil || fi.Pkg.PkgPath != RepoPkg("internal/session") || depth < 0 {
		return false
	}
	for imp := range fi.Pkg.Imports {
		if strings.HasPrefix(imp, ModulePath) {
			return false
		}
	}
	info := fi.Info()
	ok := true
	ast.Inspect(fi.Body, func(n ast.Node) bool {
		switch x := n.(type) {
		case *ast.SendStmt, *ast.GoStmt, *ast.SelectStmt, *ast.FuncLit:
			ok = false
		case *ast.UnaryExpr:
			if x.Op == token.ARROW {
				ok = false
			}
		case *ast.CallExpr:
			if _, _, isMu := mutexOp(info, x); isMu {
				return true
			}
			if fid, isId := ast.Unparen(x.Fun).(*ast.Ident); isId {
				if _, isB := info.Uses[fid].(*types.Builtin); isB {
					return true
				}
			}
			if tv, has := info.Types[x.Fun]; has && tv.IsType() {
				return true
			}
			fn := Callee(info, x)
			if fn == nil || fn.Pkg() == nil {
				ok = false
				return true
			}
			switch fn.Pkg().Path() {
			case "time", "strings":
				return true
			}
			if !leafStoreAccessor(p, p.FuncOf(fn), depth-1) {
				ok = false
			}
		}
		return ok
	})
	return ok
}
