package tf

import (
	"golang.org/x/tools/go/cfg"
	"fmt"
	"go/ast"
	"go/token"
	"go/types"
	"strings"
)

func init() {
	Register(&Rule{
		Name:  "R-SLOTS",
		Props: []string{"C12"},
		Min:   12,
		Doc: "host scheduler: (who-inserts) SnapshotSender.active is inserted into only by maybeStartTransfers; (FIFO) every assignment to the queue is append-at-tail behind the already-queued scan, " +
			"pop-head after reading queue[0], or an order-preserving filter of the queue itself; (release) every exit of runTransfer after the transfer function returned passes the own-slot test and the re-dispatch, " +
			"and the slot delete and the status writes are control-dependent on active[peer] == <the slot this goroutine was started with>; handlePeerLeft cancels and deletes the slot, filters the queue and re-dispatches on all paths; " +
			"(pairing) Status=Transferring is assigned only in the critical section that pops the queue and inserts the slot, Status=Queued only together with enqueueLocked; idle cleanup never deletes a Transferring receiver",
		Run: runSlots,
	})
}

func runSlots(c *Ctx) {
	p := c.P
	get := func(n string) *types.Var {
		v, _ := p.LookupObj("internal/app", n).(*types.Var)
		if v == nil {
			c.MissingAnchor("app." + n)
		}
		return v
	}
	active, queue, receivers := get("SnapshotSender.active"), get("SnapshotSender.queue"), get("SnapshotSender.receivers")
	statusF := get("ReceiverState.Status")
	if active == nil || queue == nil || receivers == nil || statusF == nil {
		return
	}
	isField := func(info *types.Info, e ast.Expr, f *types.Var) bool {
		sel, ok := ast.Unparen(e).(*ast.SelectorExpr)
		if !ok {
			return false
		}
		fv, _ := info.Uses[sel.Sel].(*types.Var)
		return fv == f
	}
	// ---- who inserts into active
	for _, f := range p.FuncsIn("internal/app") {
		info := f.Info()
		n := 0
		InspectNoLits(f.Body, func(nd ast.Node) bool {
			if _, ok := nd.(*ast.FuncLit); ok {
				return false
			}
			as, ok := nd.(*ast.AssignStmt)
			if !ok {
				return true
			}
			for _, l := range as.Lhs {
				if ix, ok := ast.Unparen(l).(*ast.IndexExpr); ok && isField(info, ix.X, active) {
					n++
					c.Check(f.Name == "app.(*SnapshotSender).maybeStartTransfers", fmt.Sprintf("who-inserts/%s#%d", f.Name, n), as.Pos(), "slot inserted by the admission function",
						"a transfer slot is inserted outside maybeStartTransfers: the max-receivers test is bypassed")
				}
			}
			return true
		})
	}
	// ---- FIFO queue assignments
	for _, f := range p.FuncsIn("internal/app") {
		info := f.Info()
		n := 0
		f.CFG().EachNode(func(r NodeRef) {
			as, ok := r.Node().(*ast.AssignStmt)
			if !ok || len(as.Lhs) != 1 || len(as.Rhs) != 1 || !isField(info, as.Lhs[0], queue) {
				return
			}
			n++
			key := fmt.Sprintf("fifo/%s#%d", f.Name, n)
			rhs := ast.Unparen(as.Rhs[0])
			switch v := rhs.(type) {
			case *ast.CallExpr:
				if id, ok := ast.Unparen(v.Fun).(*ast.Ident); ok && id.Name == "append" && len(v.Args) == 2 && !v.Ellipsis.IsValid() && isField(info, v.Args[0], queue) {
					// behind the already-queued scan
					scan := false
					ast.Inspect(f.Body, func(m ast.Node) bool {
						if rs, ok := m.(*ast.RangeStmt); ok && isField(info, rs.X, queue) {
							ast.Inspect(rs.Body, func(k ast.Node) bool {
								if _, ok := k.(*ast.ReturnStmt); ok {
									scan = true
								}
								return true
							})
						}
						return true
					})
					c.Check(scan, key, as.Pos(), "append at the tail behind the already-queued scan", "a receiver is appended to the queue without the already-queued scan: repeated accepts queue a receiver twice")
					return
				}
			case *ast.SliceExpr:
				if isField(info, v.X, queue) && v.High == nil && v.Low != nil {
					if z, ok := constInt(info, v.Low); ok && z == 1 {
						// dominated by a read of queue[0]
						head := false
						f.CFG().EachNode(func(hr NodeRef) {
							ast.Inspect(hr.Node(), func(m ast.Node) bool {
								if ix, ok := m.(*ast.IndexExpr); ok && isField(info, ix.X, queue) {
									if z, ok := constInt(info, ix.Index); ok && z == 0 && f.CFG().Dominates(hr, r) {
										head = true
									}
								}
								return true
							})
						})
						c.Check(head, key, as.Pos(), "pop of the head after reading queue[0]", "the queue is shortened from the front without taking queue[0]: a waiting receiver is dropped")
						return
					}
				}
			case *ast.Ident:
				o := ObjOf(info, v)
				okFilter := o != nil
				inits, appends := 0, 0
				ast.Inspect(f.Body, func(m ast.Node) bool {
					a2, ok := m.(*ast.AssignStmt)
					if !ok || len(a2.Lhs) != 1 || ObjOf(info, a2.Lhs[0]) != o {
						return true
					}
					r2 := ast.Unparen(a2.Rhs[0])
					if se, ok := r2.(*ast.SliceExpr); ok && isField(info, se.X, queue) && se.Low == nil {
						inits++
						return true
					}
					if call, ok := r2.(*ast.CallExpr); ok {
						if id, ok := ast.Unparen(call.Fun).(*ast.Ident); ok && id.Name == "make" {
							inits++
							return true
						}
						if id, ok := ast.Unparen(call.Fun).(*ast.Ident); ok && id.Name == "append" && len(call.Args) == 2 && ObjOf(info, call.Args[0]) == o {
							// appended element is the value variable of an enclosing range over the queue
							inRange := false
							ast.Inspect(f.Body, func(k ast.Node) bool {
								if rs, ok := k.(*ast.RangeStmt); ok && isField(info, rs.X, queue) && rs.Value != nil && ObjOf(info, rs.Value) == ObjOf(info, call.Args[1]) &&
									rs.Body.Pos() <= a2.Pos() && a2.End() <= rs.Body.End() {
									inRange = true
								}
								return true
							})
							if inRange {
								appends++
								return true
							}
						}
					}
					okFilter = false
					return true
				})
				c.Check(okFilter && inits == 1 && appends == 1, key, as.Pos(), "order-preserving filter of the queue", "the queue is replaced by a slice that is not an in-order filter of itself: arrival order is not preserved")
				return
			}
			c.Bad(key, as.Pos(), "queue assigned from "+types.ExprString(as.Rhs[0])+": not append-at-tail, pop-head or an in-order filter, so receivers are not served in the order they accepted")
		})
	}
	// ---- release in runTransfer
	if rt := p.Func("app.(*SnapshotSender).runTransfer"); rt != nil {
		info := rt.Info()
		var slotParam types.Object
		for _, fld := range rt.Type.Params.List {
			for _, nm := range fld.Names {
				if o := info.Defs[nm]; o != nil && strings.Contains(o.Type().String(), "transferSlot") {
					slotParam = o
				}
			}
		}
		ownTest := func(info *types.Info, e ast.Expr) (bool, bool) { // matches active[..] == slot ; returns (ok, trueMeansOwn)
			be, ok := ast.Unparen(e).(*ast.BinaryExpr)
			if !ok || (be.Op != token.EQL && be.Op != token.NEQ) || slotParam == nil {
				return false, false
			}
			for _, pr := range [][2]ast.Expr{{be.X, be.Y}, {be.Y, be.X}} {
				if ix, ok := ast.Unparen(pr[0]).(*ast.IndexExpr); ok && isField(info, ix.X, active) && ObjOf(info, pr[1]) == slotParam {
					return true, be.Op == token.EQL
				}
			}
			return false, false
		}
		// (F66) a transfer that finished while its receiver was leaving: the slot was released by handlePeerLeft (`slot.left`) and nobody
		// holds a slot for that peer now (`active[peer] == nil`) - no running transfer can be disturbed by the status written then
		releasedAndVacant := func(f *FuncInfo, e ast.Expr) bool {
			fi := f.Info()
			exprs := []ast.Expr{e}
			if v, ok := ObjOf(fi, e).(*types.Var); ok && !v.IsField() {
				if own := owningFunc(f, v); own != nil {
					if ds := allDefs(own, v); len(ds) == 1 {
						exprs = []ast.Expr{ds[0]}
					}
				}
			}
			for _, x := range exprs {
				vacant, left, stillFailed := false, false, false
				for _, a := range Implied(x, true) {
					if !a.Val {
						continue
					}
					// the books still say what the leave wrote: the receiver has not been queued or started again since
					if be, ok := ast.Unparen(a.E).(*ast.BinaryExpr); ok && be.Op == token.EQL && isField(fi, be.X, statusF) {
						if o := ObjOf(fi, be.Y); o != nil && strings.HasSuffix(o.Name(), "StatusFailed") {
							stillFailed = true
						}
					}
					if be, ok := ast.Unparen(a.E).(*ast.BinaryExpr); ok && be.Op == token.EQL {
						if ix, ok := ast.Unparen(be.X).(*ast.IndexExpr); ok && isField(fi, ix.X, active) {
							if id, ok := ast.Unparen(be.Y).(*ast.Ident); ok && id.Name == "nil" {
								vacant = true
							}
						}
					}
					if sel, ok := ast.Unparen(a.E).(*ast.SelectorExpr); ok && sel.Sel.Name == "left" && slotParam != nil && ObjOf(fi, sel.X) == slotParam {
						left = true
					}
				}
				if vacant && left && stillFailed {
					return true
				}
			}
			return false
		}
		spec := &PassSpec{Name: "release"}
		spec.Vias = []Via{
			{Cond: func(f *FuncInfo, e ast.Expr) (string, bool, bool) {
				if ok, pv := ownTest(f.Info(), e); ok {
					return "own", pv, true
				}
				// a conjunction one of whose conjuncts is `active[peer] == slot || <released and vacant>`
				var conj func(x ast.Expr) bool
				conj = func(x ast.Expr) bool {
					be, ok := ast.Unparen(x).(*ast.BinaryExpr)
					if !ok {
						return false
					}
					switch be.Op {
					case token.LAND:
						return conj(be.X) || conj(be.Y)
					case token.LOR:
						okL, pvL := ownTest(f.Info(), be.X)
						okR, pvR := ownTest(f.Info(), be.Y)
						return (okL && pvL && releasedAndVacant(f, be.Y)) || (okR && pvR && releasedAndVacant(f, be.X))
					}
					return false
				}
				if conj(e) {
					return "own", true, true
				}
				return "", false, false
			}},
			{Stmt: func(f *FuncInfo, n ast.Node) (string, bool) { // the test itself was evaluated (either outcome)
				if e, ok := n.(ast.Expr); ok {
					hit := false
					ast.Inspect(e, func(m ast.Node) bool {
						if x, ok := m.(ast.Expr); ok {
							if ok2, _ := ownTest(f.Info(), x); ok2 {
								hit = true
							}
						}
						return true
					})
					if hit {
						return "own-tested", true
					}
				}
				return "", false
			}},
			{Immediate: true, Call: func(f *FuncInfo, call *ast.CallExpr) (string, bool) {
				if g := p.CalleeInfo(f.Info(), call); g != nil && g.Name == "app.(*SnapshotSender).maybeStartTransfers" {
					return "redispatched", true
				}
				return "", false
			}},
		}
		// "own" must not survive a release of the lock
		spec.KillMatch = func(f *FuncInfo, n ast.Node, id string) bool {
			if id != "own" {
				return false
			}
			if _, isDefer := n.(*ast.DeferStmt); isDefer {
				return false
			}
			kill := false
			InspectNoLits(n, func(m ast.Node) bool {
				if call, ok := m.(*ast.CallExpr); ok {
					if _, op, ok := mutexOp(f.Info(), call); ok && op == "Unlock" {
						kill = true
					}
				}
				return true
			})
			return kill
		}
		if slotParam == nil {
			c.Bad("release/runTransfer/own-slot", rt.Pos(), "runTransfer does not know which slot it was started with (no *transferSlot parameter): it cannot tell its own slot from a newer one of the same peer id, so a late return frees the newer transfer's slot and overwrites its status")
		}
		nd, ns := 0, 0
		rt.CFG().EachNode(func(r NodeRef) {
			if isDeleteOf(info, r.Node(), func(arg ast.Expr) bool { return isField(info, arg, active) }) {
				if _, isExpr := r.Node().(*ast.ExprStmt); isExpr {
					nd++
					c.Check(spec.Passed(rt, r, "own"), fmt.Sprintf("release/runTransfer/delete#%d", nd), r.Node().Pos(), "slot deleted only while active[peer] is this goroutine's slot (same critical section)",
						"runTransfer deletes active[peer] without testing that the entry is the slot it was started with: after leave + re-accept the late return of the cancelled transfer frees the new transfer's slot (more than max-receivers run at once)")
				}
			}
			if as, ok := r.Node().(*ast.AssignStmt); ok && len(as.Lhs) == 1 && isField(info, as.Lhs[0], statusF) {
				ns++
				c.Check(spec.Passed(rt, r, "own"), fmt.Sprintf("release/runTransfer/status#%d", ns), as.Pos(), "status written only by the transfer that owns the slot",
					"runTransfer overwrites the receiver's status without owning its slot: a running receiver is shown as FAILED/DONE by a stale goroutine")
			}
		})
		if nd == 0 {
			c.Bad("release/runTransfer/delete", rt.Pos(), "runTransfer never releases its slot")
		}
		// the owner settles the receiver's status before it gives the slot up: whatever the transfer returned (round 8)
		{
			g := rt.CFG()
			nset := 0
			ast.Inspect(rt.Body, func(m ast.Node) bool {
				is, ok := m.(*ast.IfStmt)
				if !ok {
					return true
				}
				if _, isLit := m.(*ast.FuncLit); isLit {
					return false
				}
				// the ownership test that guards status writes
				mentionsActive := false
				condExprs := []ast.Expr{is.Cond}
				ast.Inspect(is.Cond, func(x ast.Node) bool {
					if id, ok := x.(*ast.Ident); ok {
						condExprs = append(condExprs, resolveExprsAll(rt, id)...) // a local bool that holds the test
					}
					return true
				})
				for _, ce := range condExprs {
					ast.Inspect(ce, func(x ast.Node) bool {
						if ix, ok := x.(*ast.IndexExpr); ok && isField(info, ix.X, active) {
							mentionsActive = true
						}
						return true
					})
				}
				writes := false
				ast.Inspect(is.Body, func(x ast.Node) bool {
					if as, ok := x.(*ast.AssignStmt); ok && len(as.Lhs) == 1 && isField(info, as.Lhs[0], statusF) {
						writes = true
					}
					return true
				})
				if !mentionsActive || !writes {
					return true
				}
				var then *cfg.Block
				for _, b := range g.Blocks {
					if b.Stmt == ast.Stmt(is) && b.Kind == cfg.KindIfThen {
						then = b
					}
				}
				if then == nil {
					return true
				}
				nset++
				good := func(nd ast.Node) bool {
					as, ok := nd.(*ast.AssignStmt)
					return ok && len(as.Lhs) == 1 && isField(info, as.Lhs[0], statusF)
				}
				stop := func(b *cfg.Block) bool { return b.Stmt == ast.Stmt(is) && b.Kind == cfg.KindIfDone }
				// a receiver that is not in the books any more has no status to settle
				noState := func(cond ast.Expr, val bool) bool {
					for _, a := range Implied(cond, val) {
						if o, nilOnTrue, ok := NilTest(info, a.E); ok && nilOnTrue == a.Val {
							if t := o.Type(); t != nil && strings.Contains(t.String(), "ReceiverState") {
								return true
							}
						}
					}
					return false
				}
				c.Check(regionAllPathsHitEdge(g, then, good, noState, stop, false), fmt.Sprintf("release/runTransfer/settled#%d", nset), is.Pos(), "the owner of the slot writes a final status on every path, whatever the transfer returned",
					"runTransfer releases its slot on a path that leaves the receiver's status as it was (TRANSFERRING): the slot is free and the next receiver starts, but the books show a transfer that nobody runs - "+
						"an error class that is skipped (a wrapped context.Canceled is what a transfer that failed by itself returns, its own contexts are cancelled by the goroutine that failed first) is a transfer that ended without being recorded as failed")
				return false
			})
			if nset == 0 {
				c.Bad("release/runTransfer/settled", rt.Pos(), "runTransfer has no branch that writes the receiver's final status under its ownership test")
			}
		}
		ne := 0
		for _, b := range rt.CFG().Blocks {
			ret, ok := IsReturnExit(b)
			if !ok {
				continue
			}
			ne++
			ref := NodeRef{b, len(b.Nodes) - 1}
			c.Check(spec.Passed(rt, ref, "own-tested"), fmt.Sprintf("release/runTransfer/exit#%d/slot", ne), ret.Pos(), "every exit passes the slot release test", "runTransfer can return without reaching the slot release: the slot leaks and the next queued receiver never starts")
			c.Check(spec.Passed(rt, ref, "redispatched"), fmt.Sprintf("release/runTransfer/exit#%d/redispatch", ne), ret.Pos(), "every exit passes maybeStartTransfers", "runTransfer can return without calling maybeStartTransfers: a queued receiver is not started when the slot frees")
		}
	} else {
		c.MissingAnchor("app.(*SnapshotSender).runTransfer")
	}
	// ---- handlePeerLeft
	if pl := p.Func("app.(*SnapshotSender).handlePeerLeft"); pl != nil {
		info := pl.Info()
		spec := &PassSpec{Vias: []Via{
			{Stmt: func(f *FuncInfo, n ast.Node) (string, bool) {
				if isDeleteOf(f.Info(), n, func(arg ast.Expr) bool { return isField(f.Info(), arg, active) }) {
					return "slot-cleared", true
				}
				return "", false
			}},
			{Cond: func(f *FuncInfo, e ast.Expr) (string, bool, bool) { // no slot to clear
				if o, nilOnTrue, ok := NilTest(f.Info(), e); ok && strings.Contains(o.Type().String(), "transferSlot") {
					return "slot-cleared", nilOnTrue, true
				}
				return "", false, false
			}},
			{Stmt: func(f *FuncInfo, n ast.Node) (string, bool) {
				if as, ok := n.(*ast.AssignStmt); ok && len(as.Lhs) == 1 && isField(f.Info(), as.Lhs[0], queue) {
					return "queue-filtered", true
				}
				return "", false
			}},
			{Immediate: true, Call: func(f *FuncInfo, call *ast.CallExpr) (string, bool) {
				if g := p.CalleeInfo(f.Info(), call); g != nil && g.Name == "app.(*SnapshotSender).maybeStartTransfers" {
					return "redispatched", true
				}
				return "", false
			}},
			{Immediate: true, Call: func(f *FuncInfo, call *ast.CallExpr) (string, bool) {
				if sel, ok := ast.Unparen(call.Fun).(*ast.SelectorExpr); ok && sel.Sel.Name == "cancel" {
					return "cancelled", true
				}
				return "", false
			}},
			{Cond: func(f *FuncInfo, e ast.Expr) (string, bool, bool) { // `slot.cancel != nil` false: nothing to cancel
				be, ok := ast.Unparen(e).(*ast.BinaryExpr)
				if !ok || (be.Op != token.NEQ && be.Op != token.EQL) {
					return "", false, false
				}
				if sel, ok := ast.Unparen(be.X).(*ast.SelectorExpr); ok && sel.Sel.Name == "cancel" && types.ExprString(be.Y) == "nil" {
					return "cancelled", be.Op == token.EQL, true
				}
				return "", false, false
			}},
		}}
		ne := 0
		for _, b := range pl.CFG().Blocks {
			ret, ok := IsReturnExit(b)
			if !ok {
				continue
			}
			ne++
			ref := NodeRef{b, len(b.Nodes) - 1}
			for _, w := range []string{"slot-cleared", "queue-filtered", "redispatched"} {
				c.Check(spec.Passed(pl, ref, w), fmt.Sprintf("peer-left/exit#%d/%s", ne, w), ret.Pos(), "handlePeerLeft passes "+w+" on every path", "handlePeerLeft can return without "+w+": a departed receiver keeps its slot or queue position, or the freed slot is not handed on")
			}
		}
		// the delete is preceded by the cancel in its branch
		pl.CFG().EachNode(func(r NodeRef) {
			if isDeleteOf(info, r.Node(), func(arg ast.Expr) bool { return isField(info, arg, active) }) {
				c.Check(spec.Passed(pl, r, "cancelled"), "peer-left/cancel-before-delete", r.Node().Pos(), "the running transfer is cancelled before its slot is freed", "the slot of a departed receiver is freed without cancelling its transfer: the transfer keeps running outside the limit")
			}
		})
	} else {
		c.MissingAnchor("app.(*SnapshotSender).handlePeerLeft")
	}
	// ---- status / membership pairing
	statusConst := func(info *types.Info, e ast.Expr) string {
		if cn, ok := ObjOf(info, e).(*types.Const); ok {
			return cn.Name()
		}
		return ""
	}
	ls := NewLockSpec()
	for _, f := range p.FuncsIn("internal/app") {
		info := f.Info()
		n := 0
		f.CFG().EachNode(func(r NodeRef) {
			as, ok := r.Node().(*ast.AssignStmt)
			if !ok || len(as.Lhs) != 1 || len(as.Rhs) != 1 || !isField(info, as.Lhs[0], statusF) {
				return
			}
			switch statusConst(info, as.Rhs[0]) {
			case "ReceiverStatusTransferring":
				n++
				key := fmt.Sprintf("pairing/%s#%d/transferring", f.Name, n)
				// same critical section contains the slot insertion (after) and the queue pop (before)
				popped := &PassSpec{SkipDefer: true, Vias: []Via{{Stmt: func(g *FuncInfo, nd ast.Node) (string, bool) {
					if a2, ok := nd.(*ast.AssignStmt); ok && len(a2.Lhs) == 1 && isField(g.Info(), a2.Lhs[0], queue) {
						return "popped", true
					}
					return "", false
				}}}}
				popped.KillMatch = func(g *FuncInfo, nd ast.Node, id string) bool {
					kill := false
					if _, isDefer := nd.(*ast.DeferStmt); isDefer {
						return false
					}
					InspectNoLits(nd, func(m ast.Node) bool {
						if call, ok := m.(*ast.CallExpr); ok {
							if _, op, ok := mutexOp(g.Info(), call); ok && op == "Unlock" {
								kill = true
							}
						}
						return true
					})
					return kill
				}
				inserted := allPathsHit(f.CFG(), r, func(nd ast.Node) bool {
					a2, ok := nd.(*ast.AssignStmt)
					if !ok {
						return false
					}
					for _, l := range a2.Lhs {
						if ix, ok := ast.Unparen(l).(*ast.IndexExpr); ok && isField(info, ix.X, active) {
							return true
						}
					}
					return false
				}, func(nd ast.Node) bool {
					bad := false
					InspectNoLits(nd, func(m ast.Node) bool {
						if call, ok := m.(*ast.CallExpr); ok {
							if _, op, ok := mutexOp(info, call); ok && op == "Unlock" {
								bad = true
							}
						}
						return true
					})
					return bad
				})
				held, _ := Held(ls, f, r, "s.mu")
				c.Check(held && popped.Passed(f, r, "popped") && inserted, key, as.Pos(), "Transferring is set in the critical section that pops the queue and inserts the slot",
					"a receiver is marked Transferring outside the critical section that removes it from the queue and inserts its slot: it can be queued and transferring at once")
			case "ReceiverStatusQueued":
				n++
				key := fmt.Sprintf("pairing/%s#%d/queued", f.Name, n)
				enq := allPathsHit(f.CFG(), r, func(nd ast.Node) bool {
					hit := false
					InspectNoLits(nd, func(m ast.Node) bool {
						if call, ok := m.(*ast.CallExpr); ok {
							if g := p.CalleeInfo(info, call); g != nil && g.Name == "app.(*SnapshotSender).enqueueLocked" {
								hit = true
							}
						}
						return true
					})
					return hit
				}, func(nd ast.Node) bool {
					bad := false
					InspectNoLits(nd, func(m ast.Node) bool {
						if call, ok := m.(*ast.CallExpr); ok {
							if _, op, ok := mutexOp(info, call); ok && op == "Unlock" {
								bad = true
							}
						}
						return true
					})
					return bad
				})
				c.Check(enq, key, as.Pos(), "Queued is set together with enqueueLocked in one critical section", "a receiver is marked Queued without being enqueued in the same critical section")
			}
		})
	}
	// ---- cleanup never deletes a transferring receiver
	if cl := p.Func("app.(*SnapshotSender).cleanup"); cl != nil {
		info := cl.Info()
		spec := &PassSpec{Vias: []Via{{Cond: func(f *FuncInfo, e ast.Expr) (string, bool, bool) {
			be, ok := ast.Unparen(e).(*ast.BinaryExpr)
			if !ok || (be.Op != token.EQL && be.Op != token.NEQ) {
				return "", false, false
			}
			if statusConst(f.Info(), be.Y) == "ReceiverStatusTransferring" && isField(f.Info(), be.X, statusF) {
				return "not-transferring", be.Op == token.NEQ, true
			}
			return "", false, false
		}}}}
		n := 0
		cl.CFG().EachNode(func(r NodeRef) {
			if isDeleteOf(info, r.Node(), func(arg ast.Expr) bool { return isField(info, arg, receivers) }) {
				n++
				c.Check(spec.Passed(cl, r, "not-transferring"), fmt.Sprintf("cleanup/delete#%d", n), r.Node().Pos(), "idle cleanup skips Transferring receivers", "idle cleanup can delete a receiver whose transfer is running: its slot is orphaned")
			}
		})
	} else {
		c.MissingAnchor("app.(*SnapshotSender).cleanup")
	}
}
