package tf

// Rules added after the first round of seeded changes (see DESIGN.md section 8): each encodes a structural
// necessary condition that the seed broke and that no earlier rule looked at.

import (
	"fmt"
	"go/ast"
	"go/constant"
	"go/token"
	"go/types"
	"sort"
	"strings"
)

func init() {
	Register(&Rule{
		Name:  "R-REMAINING",
		Props: []string{"C01", "C04"},
		Min:   4,
		Doc: "the receiver's per-file remaining counter counts the unset bits of the completion bitmap: it is initialised to the chunk total, set on resume to total minus CountSet() of the loaded bitmap (clamped), " +
			"and decremented only where a bit was newly set (MarkCompleteIfUnset returned true, or the chunk was not yet in the in-memory index set of a file without sidecar) or no bitmap of either kind exists (F42); a sidecar is attached to a file's state only on paths that also set the counter (attach-adjusts, F34); any other source (e.g. the highest complete index, which ignores holes) finalises a file with chunks missing",
		Run: runRemaining,
	})
	Register(&Rule{
		Name:  "R-FULL-READ",
		Props: []string{"C02", "C01"},
		Min:   1,
		Doc: "a chunk frame is written only after the source read returned exactly the planned chunk length: the data-frame write is reachable only through the n == len edge of the read that filled its buffer " +
			"(the receiver accepts any length up to the chunk size and its file is pre-sized, so a short read of a shrunken source would otherwise be acknowledged with a zero tail)",
		Run: runFullRead,
	})
	Register(&Rule{
		Name:  "R-ANNOUNCE",
		Props: []string{"C03"},
		Min:   2,
		Doc: "the receiver treats a data-stream count of 0 as 'not announced yet' (it loops while the count is 0); therefore every DataStreams record a sender writes carries a count that is provably >= 1 " +
			"(clamped by a dominating test, or a positive constant), for every tree including one without regular files",
		Run: runAnnounce,
	})
	Register(&Rule{
		Name:  "R-VERIFY-EXEMPT",
		Props: []string{"C06", "C01", "C05", "C17"},
		Min:   1,
		Doc: "the sender's comparison of its own hash with the receiver's last-verified hash is skipped only for the enumerated reasons: verification switched off by the ResumeVerify option, no hash algorithm, " +
			"the receiver reporting no hash, nothing to verify (index out of range / no bitmap). A condition derived from any other option or state in front of the verification is a new way to trust a damaged file",
		Run: runVerifyExempt,
	})
	Register(&Rule{
		Name:  "R-WALK-RETURNS",
		Props: []string{"C13"},
		Min:   4,
		Doc: "the WalkDir callbacks of Scan/ScanPaths return nil or a real error; fs.SkipDir / fs.SkipAll are returned for no entry (for a non-directory SkipDir silently drops the rest of the containing directory)",
		Run: runWalkReturns,
	})
	Register(&Rule{
		Name:  "R-BUCKET",
		Props: []string{"C14"},
		Min:   3,
		Doc: "token bucket accounting: in Allow, the refill adds (now - last) * rate and on every path from the refill to a return the time stamp last is set to that same now (otherwise a rejected call is credited again for the same interval), " +
			"the level is capped at burst after the refill, and a token is granted only past the test tokens >= 1 and paid for with tokens -= 1",
		Run: runBucket,
	})
}

// allDefs returns every expression assigned to local o inside f (not descending into nested literals).
func allDefs(f *FuncInfo, o types.Object) []ast.Expr {
	info := f.Info()
	var defs []ast.Expr
	ast.Inspect(f.Body, func(nd ast.Node) bool {
		switch s := nd.(type) {
		case *ast.AssignStmt:
			if len(s.Lhs) == len(s.Rhs) {
				for i, l := range s.Lhs {
					if ObjOf(info, l) == o {
						defs = append(defs, s.Rhs[i])
					}
				}
			} else if len(s.Rhs) == 1 {
				for _, l := range s.Lhs {
					if ObjOf(info, l) == o {
						defs = append(defs, s.Rhs[0])
					}
				}
			}
		case *ast.ValueSpec:
			for i, nm := range s.Names {
				if info.Defs[nm] == o && i < len(s.Values) {
					defs = append(defs, s.Values[i])
				}
			}
		}
		return true
	})
	return defs
}

// owningFunc finds the FuncInfo (f or an ancestor) in whose body local o is declared.
func owningFunc(f *FuncInfo, o types.Object) *FuncInfo {
	for g := f; g != nil; g = g.Parent {
		if g.Body != nil && g.Body.Pos() <= o.Pos() && o.Pos() <= g.Body.End() {
			inKid := false
			for _, k := range g.Kids {
				if k.Body != nil && k.Body.Pos() <= o.Pos() && o.Pos() <= k.Body.End() {
					inKid = true
				}
			}
			if !inKid {
				return g
			}
		}
		if g.Type != nil && g.Type.Pos() <= o.Pos() && o.Pos() <= g.Type.End() {
			return g
		}
	}
	return nil
}

func runRemaining(c *Ctx) {
	p := c.P
	tn, _ := p.LookupObj("internal/transfer", "recvFileStateMux").(*types.TypeName)
	if tn == nil {
		c.MissingAnchor("transfer.recvFileStateMux")
		return
	}
	st, _ := tn.Type().Underlying().(*types.Struct)
	var fld *types.Var
	for i := 0; st != nil && i < st.NumFields(); i++ {
		if st.Field(i).Name() == "remaining" {
			fld = st.Field(i)
		}
	}
	if fld == nil {
		c.MissingAnchor("transfer.recvFileStateMux.remaining")
		return
	}
	hasSeenField := false
	for i := 0; st != nil && i < st.NumFields(); i++ {
		if st.Field(i).Name() == "seen" {
			hasSeenField = true
		}
	}
	k := geomKinds(c)
	isField := func(info *types.Info, e ast.Expr) bool {
		sel, ok := ast.Unparen(e).(*ast.SelectorExpr)
		return ok && info.Uses[sel.Sel] == fld
	}
	isCountSet := func(info *types.Info, e ast.Expr) bool {
		call, ok := StripConv(info, e).(*ast.CallExpr)
		return ok && calleeIs(info, call, RepoPkg("internal/transfer"), "Bitmap.CountSet")
	}
	fresh := &PassSpec{Vias: []Via{{Cond: func(g *FuncInfo, e ast.Expr) (string, bool, bool) {
		if call, ok := ast.Unparen(e).(*ast.CallExpr); ok {
			if fi := p.CalleeInfo(g.Info(), call); fi != nil && fi.Name == "transfer.(*Sidecar).MarkCompleteIfUnset" {
				return "fresh-bit", true, true
			}
		}
		if o, nilOnTrue, ok := nilTestSel(g.Info(), e, "sidecar"); ok && o != nil {
			return "no-sidecar", nilOnTrue, true
		}
		if o, nilOnTrue, ok := nilTestSel(g.Info(), e, "seen"); ok && o != nil {
			return "no-seen", nilOnTrue, true
		}
		// !x.seen.Get(idx): the chunk was not counted yet (the in-memory index set of a file without sidecar); the engine offers
		// the atom (the call) with the polarity, or the whole negation
		seenGet := func(z ast.Expr) bool {
			call, ok := ast.Unparen(z).(*ast.CallExpr)
			if !ok {
				return false
			}
			if fi := p.CalleeInfo(g.Info(), call); fi == nil || fi.Name != "transfer.(*Bitmap).Get" {
				return false
			}
			if sel, ok := ast.Unparen(call.Fun).(*ast.SelectorExpr); ok {
				if s2, ok := ast.Unparen(sel.X).(*ast.SelectorExpr); ok && s2.Sel.Name == "seen" {
					return true
				}
			}
			return false
		}
		if seenGet(e) {
			return "fresh-bit", false, true
		}
		if u, ok := ast.Unparen(e).(*ast.UnaryExpr); ok && u.Op == token.NOT && seenGet(u.X) {
			return "fresh-bit", true, true
		}
		return "", false, false
	}}}}
	n := map[string]int{}
	for _, f := range p.FuncsIn("internal/transfer") {
		info := f.Info()
		cfg := f.CFG()
		cfg.EachNode(func(r NodeRef) {
			InspectNoLits(r.Node(), func(nd ast.Node) bool {
				switch s := nd.(type) {
				case *ast.CompositeLit:
					if t := info.TypeOf(s); t == nil || !types.Identical(t, tn.Type()) {
						return true
					}
					for _, el := range s.Elts {
						kv, ok := el.(*ast.KeyValueExpr)
						if !ok || info.Uses[kv.Key.(*ast.Ident)] != fld {
							continue
						}
						n[f.Name]++
						c.Check(k.Of(info, kv.Value) == "count", fmt.Sprintf("remaining/init/%s#%d", f.Name, n[f.Name]), kv.Pos(), "initialised to the file's chunk total",
							"the remaining-chunk counter is initialised to "+types.ExprString(kv.Value)+", which is not the file's chunk total")
					}
				case *ast.AssignStmt:
					for i, l := range s.Lhs {
						if !isField(info, l) || len(s.Lhs) != len(s.Rhs) {
							continue
						}
						n[f.Name]++
						key := fmt.Sprintf("remaining/set/%s#%d", f.Name, n[f.Name])
						rhs := StripConv(info, s.Rhs[i])
						if s.Tok != token.ASSIGN {
							c.Bad(key, s.Pos(), "the remaining-chunk counter is adjusted by "+s.Tok.String()+" "+types.ExprString(rhs)+": only a decrement by one per newly set bit keeps it equal to the number of unset bits")
							continue
						}
						if k.Of(info, rhs) == "count" {
							if _, isBin := rhs.(*ast.BinaryExpr); !isBin {
								c.OK(key, s.Pos(), "reset to the chunk total")
								continue
							}
						}
						be, ok := rhs.(*ast.BinaryExpr)
						if !ok || be.Op != token.SUB || k.Of(info, be.X) != "count" {
							c.Bad(key, s.Pos(), "the remaining-chunk counter is set to "+types.ExprString(rhs)+", which is neither the chunk total nor total - CountSet(bitmap)")
							continue
						}
						// the subtrahend: every definition is CountSet() of a bitmap or a clamp to the total
						good, sawCount := true, false
						var why string
						ys := []ast.Expr{be.Y}
						if o, isLocal := ObjOf(info, StripConv(info, be.Y)).(*types.Var); isLocal && !o.IsField() {
							if g := owningFunc(f, o); g != nil {
								ys = allDefs(g, o)
							}
						}
						for _, y := range ys {
							switch {
							case isCountSet(info, y):
								sawCount = true
							case k.Of(info, StripConv(info, y)) == "count":
							default:
								good = false
								why = types.ExprString(y)
							}
						}
						c.Check(good && sawCount, key, s.Pos(), "set to total - CountSet(bitmap) (clamped to the total)",
							"on resume the remaining-chunk counter is computed from "+why+" instead of the number of set bits of the loaded bitmap: a bitmap with a hole below its highest bit finalises the file while chunks are still missing")
					}
				case *ast.IncDecStmt:
					if !isField(info, s.X) {
						return true
					}
					n[f.Name]++
					key := fmt.Sprintf("remaining/dec/%s#%d", f.Name, n[f.Name])
					if s.Tok != token.DEC {
						c.Bad(key, s.Pos(), "the remaining-chunk counter is incremented")
						return true
					}
					okDec := fresh.Passed(f, r, "fresh-bit") || (fresh.Passed(f, r, "no-sidecar") && (fresh.Passed(f, r, "no-seen") || !hasSeenField))
				c.Check(okDec, key, s.Pos(), "decremented only for a newly set bit (or without any bitmap)",
						"the remaining-chunk counter is decremented on a path where the chunk's bit was not newly set: a duplicate chunk is counted twice and the file is finalised with another chunk missing")
				}
				return true
			})
		})
	}
	// (attach-adjusts, F34) a sidecar becomes the file's bitmap only together with the adjusted counter: from every assignment of a
	// non-nil value to recvFileStateMux.sidecar every path reaches an assignment of .remaining (or the guard of one)
	var scFld *types.Var
	for i := 0; st != nil && i < st.NumFields(); i++ {
		if st.Field(i).Name() == "sidecar" {
			scFld = st.Field(i)
		}
	}
	if scFld == nil {
		c.MissingAnchor("transfer.recvFileStateMux.sidecar")
		return
	}
	na := 0
	for _, f := range p.FuncsIn("internal/transfer") {
		info := f.Info()
		cfg := f.CFG()
		k2 := 0
		cfg.EachNode(func(r NodeRef) {
			as, ok := r.Node().(*ast.AssignStmt)
			if !ok || len(as.Lhs) != len(as.Rhs) {
				return
			}
			for i, l := range as.Lhs {
				sel, ok := ast.Unparen(l).(*ast.SelectorExpr)
				if !ok || info.Uses[sel.Sel] != scFld {
					continue
				}
				if id, ok := ast.Unparen(as.Rhs[i]).(*ast.Ident); ok && id.Name == "nil" {
					continue
				}
				na++
				k2++
				base := types.ExprString(sel.X)
				setsRemaining := func(n ast.Node) bool {
					hit := false
					InspectNoLits(n, func(m ast.Node) bool {
						if a2, ok := m.(*ast.AssignStmt); ok {
							for _, l2 := range a2.Lhs {
								if s2, ok := ast.Unparen(l2).(*ast.SelectorExpr); ok && info.Uses[s2.Sel] == fld && types.ExprString(s2.X) == base {
									hit = true
								}
							}
						}
						return true
					})
					return hit
				}
				adjusted := allPathsHit(cfg, r, func(n ast.Node) bool {
					if setsRemaining(n) {
						return true
					}
					// the guard `if total >= skipped { x.remaining = total - skipped }`
					if cond, ok := n.(ast.Expr); ok {
						guarded := false
						ast.Inspect(f.Body, func(x ast.Node) bool {
							if is, ok := x.(*ast.IfStmt); ok && is.Cond == cond {
								// only the clamp's own comparison of two integers, nothing conjoined to it
								be, isCmp := ast.Unparen(is.Cond).(*ast.BinaryExpr)
								if !isCmp || !(be.Op == token.GEQ || be.Op == token.LEQ || be.Op == token.GTR || be.Op == token.LSS) ||
									!isIntType(info.TypeOf(be.X)) || !isIntType(info.TypeOf(be.Y)) {
									return true
								}
								for _, bst := range is.Body.List {
									if setsRemaining(bst) {
										guarded = true
									}
								}
							}
							return true
						})
						return guarded
					}
					return false
				}, func(ast.Node) bool { return false })
				c.Check(adjusted, fmt.Sprintf("remaining/attach-adjusts/%s#%d", f.Name, k2), as.Pos(), "the sidecar is attached together with the adjusted remaining count",
					"a loaded sidecar becomes the file's bitmap ("+types.ExprString(l)+" = "+types.ExprString(as.Rhs[i])+") on a path that does not take the chunks it marks off "+base+".remaining: those chunks are not counted when they arrive again (their bit is already set), the counter never reaches zero, no FileDone is sent and both sides wait for ever")
			}
		})
	}
	if na == 0 {
		c.Bad("remaining/attach-adjusts/none", token.NoPos, "found no assignment to recvFileStateMux.sidecar")
	}
}

func runFullRead(c *Ctx) {
	p := c.P
	wcf := p.Func("transfer.writeChunkFrame")
	if wcf == nil {
		c.MissingAnchor("transfer.writeChunkFrame")
		return
	}
	isRead := func(info *types.Info, call *ast.CallExpr) (buf ast.Expr, ok bool) {
		if fi := p.CalleeInfo(info, call); fi != nil && fi.Name == "transfer.readAtWithPool" && len(call.Args) == 4 {
			return call.Args[3], true
		}
		if (calleeIs(info, call, "os", "File.ReadAt") || calleeIs(info, call, "os", "File.Read")) && len(call.Args) >= 1 {
			return call.Args[0], true
		}
		return nil, false
	}
	nsite := 0
	for _, f := range p.FuncsIn("internal/transfer") {
		info := f.Info()
		cfg := f.CFG()
		cfg.Calls(func(r NodeRef, call *ast.CallExpr) {
			if fi := p.CalleeInfo(info, call); fi != wcf || len(call.Args) < 7 {
				return
			}
			nsite++
			key := fmt.Sprintf("full-read/%s#%d", f.Name, nsite)
			bufObj := rootObj(info, call.Args[6])
			if bufObj == nil {
				c.Unknown(key, call.Pos(), "cannot identify the buffer passed to writeChunkFrame")
				return
			}
			// reads that fill this buffer, in this function, dominating the write
			type rd struct {
				n    types.Object
				want ast.Expr
			}
			var reads []rd
			alias := ""
			cfg.EachNode(func(rr NodeRef) {
				as, ok := rr.Node().(*ast.AssignStmt)
				if !ok || len(as.Rhs) != 1 || len(as.Lhs) != 2 {
					return
				}
				rc, ok := ast.Unparen(as.Rhs[0]).(*ast.CallExpr)
				if !ok {
					return
				}
				b, ok := isRead(info, rc)
				if !ok || !cfg.Dominates(rr, r) {
					return
				}
				// the same storage: the buffer itself, or a local that holds a cut of it (chunk := buf[:chunkLen]) on either side
				baseOf := func(o types.Object) types.Object {
					if v, ok := o.(*types.Var); ok && !v.IsField() {
						if own := owningFunc(f, v); own != nil {
							if ds := allDefs(own, v); len(ds) == 1 {
								if sl, ok := ast.Unparen(ds[0]).(*ast.SliceExpr); ok {
									if ro := rootObj(own.Info(), sl.X); ro != nil {
										return ro
									}
								}
							}
						}
					}
					return o
				}
				if ro := rootObj(info, b); ro == nil || baseOf(ro) != baseOf(bufObj) {
					return
				}
				var want ast.Expr
				if sl, ok := ast.Unparen(b).(*ast.SliceExpr); ok && sl.High != nil && sl.Low == nil {
					want = sl.High
				}
				// the buffer is a local that holds the cut: chunk := buf[:chunkLen]; the read fills len(chunk) = chunkLen bytes
				if id, ok := ast.Unparen(b).(*ast.Ident); ok && want == nil {
					for _, d := range resolveExprsAll(f, id) {
						if sl, ok := ast.Unparen(d).(*ast.SliceExpr); ok && sl.High != nil && sl.Low == nil {
							want = sl.High
							alias = id.Name
						}
					}
				}
				reads = append(reads, rd{ObjOf(info, as.Lhs[0]), want})
			})
			if len(reads) != 1 || reads[0].want == nil || reads[0].n == nil {
				c.Unknown(key, call.Pos(), fmt.Sprintf("expected exactly one dominating read into %s[:len] (found %d)", bufObj.Name(), len(reads)))
				return
			}
			rdn, want := reads[0].n, types.ExprString(StripConv(info, reads[0].want))
			spec := &PassSpec{Vias: []Via{{Cond: func(g *FuncInfo, e ast.Expr) (string, bool, bool) {
				be, ok := ast.Unparen(e).(*ast.BinaryExpr)
				if !ok {
					return "", false, false
				}
				op := be.Op
				x, y := StripConv(g.Info(), be.X), StripConv(g.Info(), be.Y)
				if ObjOf(g.Info(), y) == rdn {
					x, y = y, x
					switch op { // mirror
					case token.LSS:
						op = token.GTR
					case token.GTR:
						op = token.LSS
					case token.LEQ:
						op = token.GEQ
					case token.GEQ:
						op = token.LEQ
					}
				}
				if ObjOf(g.Info(), x) != rdn || (types.ExprString(y) != want && !(alias != "" && types.ExprString(y) == "len("+alias+")")) {
					return "", false, false
				}
				// the read fills buf[:want], so n <= want always: n >= want is n == want
				switch op {
				case token.EQL, token.GEQ:
					return "full", true, true
				case token.NEQ, token.LSS:
					return "full", false, true
				}
				return "", false, false
			}}}}
			spec.Kill = func(g *FuncInfo, nd ast.Node) []string {
				for _, o := range AssignedObjs(g.Info(), nd) {
					if o == rdn {
						return []string{"full"}
					}
				}
				return nil
			}
			full := spec.Passed(f, r, "full")
			if !full && len(call.Args) >= 7 && receiverRefusesOtherLengths(p) {
				// the frame carries exactly the bytes that were read (length n, payload buf[:n], CRC over buf[:n]): a short read
				// makes a short frame, and the receiver refuses a frame whose length is not the one its index takes in the file
				lenIsN := ObjOf(info, StripConv(info, call.Args[4])) == rdn
				cutIsN := func(e ast.Expr) bool {
					for _, d := range resolveExprs(f, e, 2) {
						hit := false
						ast.Inspect(d, func(k ast.Node) bool {
							if sl, ok := k.(*ast.SliceExpr); ok && sl.Low == nil && sl.High != nil && ObjOf(info, StripConv(info, sl.High)) == rdn {
								if ro := rootObj(info, sl.X); ro != nil && ro == bufObj {
									hit = true
								}
							}
							return true
						})
						if hit {
							return true
						}
					}
					return false
				}
				if lenIsN && cutIsN(call.Args[6]) && cutIsN(call.Args[5]) {
					c.OK(key, call.Pos(), "the frame carries exactly the bytes read ("+rdn.Name()+", "+bufObj.Name()+"[:"+rdn.Name()+"]) and the receiver refuses a frame of another length than its place takes")
					return
				}
			}
			c.Check(full, key, call.Pos(), "the frame is written only past "+rdn.Name()+" == "+want,
				"a chunk frame is written although the read that filled its buffer may have returned fewer than "+want+" bytes (no "+rdn.Name()+" == "+want+" test on every path), and the frame is not built from exactly the bytes read "+
					"(length "+rdn.Name()+", payload and CRC over "+bufObj.Name()+"[:"+rdn.Name()+"]): when the source file shrank after the scan, stale bytes of the buffer go out at full length with a matching CRC, and both sides report success with a wrong tail")
		})
	}
}

func runAnnounce(c *Ctx) {
	p := c.P
	recv := p.Func("transfer.RecvManifestMultiStream")
	if recv == nil {
		c.MissingAnchor("transfer.RecvManifestMultiStream")
		return
	}
	// is 0 the receiver's "not announced" sentinel?
	sentinel := false
	var sentinelPos token.Pos
	{
		info := recv.Info()
		ast.Inspect(recv.Body, func(n ast.Node) bool {
			fs, ok := n.(*ast.ForStmt)
			if !ok || fs.Cond == nil {
				return true
			}
			be, ok := ast.Unparen(fs.Cond).(*ast.BinaryExpr)
			if !ok || be.Op != token.EQL {
				return true
			}
			if z, isC := constInt(info, be.Y); !isC || z != 0 {
				return true
			}
			o := ObjOf(info, be.X)
			if o == nil {
				return true
			}
			// assigned from a DataStreams.Count inside the loop
			ast.Inspect(fs.Body, func(m ast.Node) bool {
				as, ok := m.(*ast.AssignStmt)
				if !ok || len(as.Lhs) != 1 || len(as.Rhs) != 1 || ObjOf(info, as.Lhs[0]) != o {
					return true
				}
				if sel, ok := StripConv(info, as.Rhs[0]).(*ast.SelectorExpr); ok && sel.Sel.Name == "Count" {
					if t := info.TypeOf(sel.X); t != nil && strings.HasSuffix(t.String(), "transfer.DataStreams") {
						sentinel = true
						sentinelPos = fs.Pos()
					}
				}
				return true
			})
			return true
		})
	}
	if !sentinel {
		c.OKTrivial("announce/receiver-sentinel", recv.Pos(), "the receiver does not wait for a non-zero data-stream count: a zero announcement is not mistaken for 'none yet'")
		return
	}
	c.OK("announce/receiver-sentinel", sentinelPos, "receiver waits while the announced count is 0: senders must never announce 0")
	pos := &PassSpec{}
	localVar := func(info *types.Info, e ast.Expr) *types.Var {
		o, _ := ObjOf(info, StripConv(info, e)).(*types.Var)
		if o == nil || o.IsField() {
			return nil
		}
		return o
	}
	id := func(o types.Object) string { return fmt.Sprintf("pos:%s@%d", o.Name(), pos.objID(o)) }
	pos.Vias = []Via{
		{Cond: func(g *FuncInfo, e ast.Expr) (string, bool, bool) {
			be, ok := ast.Unparen(e).(*ast.BinaryExpr)
			if !ok {
				return "", false, false
			}
			o := localVar(g.Info(), be.X)
			z, isC := constInt(g.Info(), be.Y)
			if o == nil || !isC {
				return "", false, false
			}
			switch {
			case be.Op == token.LSS && z == 1, be.Op == token.LEQ && z == 0, be.Op == token.EQL && z == 0 && isUnsigned(o.Type()):
				return id(o), false, true
			case be.Op == token.GEQ && z >= 1, be.Op == token.GTR && z >= 0, be.Op == token.NEQ && z == 0 && isUnsigned(o.Type()):
				return id(o), true, true
			}
			return "", false, false
		}},
		{StmtIn: func(g *FuncInfo, n ast.Node, has func(string) bool) []string {
			as, ok := n.(*ast.AssignStmt)
			if !ok || len(as.Lhs) != len(as.Rhs) || (as.Tok != token.ASSIGN && as.Tok != token.DEFINE) {
				return nil
			}
			var out []string
			for i, l := range as.Lhs {
				o := localVar(g.Info(), l)
				if o == nil {
					continue
				}
				if z, isC := constInt(g.Info(), as.Rhs[i]); isC && z >= 1 {
					out = append(out, id(o))
				} else if src := localVar(g.Info(), as.Rhs[i]); src != nil && has(id(src)) {
					out = append(out, id(o))
				}
			}
			return out
		}},
	}
	pos.Kill = func(g *FuncInfo, n ast.Node) []string {
		var out []string
		for _, o := range AssignedObjs(g.Info(), n) {
			out = append(out, id(o))
		}
		return out
	}
	wds := p.Func("transfer.writeDataStreams")
	if wds == nil {
		c.MissingAnchor("transfer.writeDataStreams")
		return
	}
	k := 0
	for _, f := range p.FuncsIn("internal/transfer") {
		info := f.Info()
		f.CFG().Calls(func(r NodeRef, call *ast.CallExpr) {
			if p.CalleeInfo(info, call) != wds || len(call.Args) != 2 {
				return
			}
			k++
			key := fmt.Sprintf("announce/%s#%d/count>=1", f.Name, k)
			var cnt ast.Expr
			if cl, ok := ast.Unparen(call.Args[1]).(*ast.CompositeLit); ok {
				for _, el := range cl.Elts {
					if kv, ok := el.(*ast.KeyValueExpr); ok && types.ExprString(kv.Key) == "Count" {
						cnt = kv.Value
					}
				}
			}
			if cnt == nil {
				c.Unknown(key, call.Pos(), "cannot see the Count written to the DataStreams record")
				return
			}
			if z, isC := constInt(info, cnt); isC {
				c.Check(z >= 1, key, call.Pos(), "constant count >= 1", "a constant data-stream count of 0 is announced")
				return
			}
			o := localVar(info, cnt)
			if o == nil {
				c.Unknown(key, call.Pos(), "announced count "+types.ExprString(cnt)+" is not a local variable or constant")
				return
			}
			// the planned number of streams is positive too: a count that is >= 1 only because `< 1` is *rejected* just in front
			// of the announcement would turn a transfer with nothing to open (a tree without regular files) into an error
			InspectNoLits(f.Body, func(m ast.Node) bool {
				fs, ok := m.(*ast.ForStmt)
				if !ok || fs.Cond == nil {
					return true
				}
				opens := false
				InspectNoLits(fs.Body, func(x ast.Node) bool {
					if c2, ok := x.(*ast.CallExpr); ok {
						if sel, ok := ast.Unparen(c2.Fun).(*ast.SelectorExpr); ok && sel.Sel.Name == "OpenStream" {
							opens = true
						}
					}
					return true
				})
				be, isB := ast.Unparen(fs.Cond).(*ast.BinaryExpr)
				if !opens || !isB || be.Op != token.LSS {
					return true
				}
				bo := localVar(info, be.Y)
				ref := f.CFG().Find(fs.Cond.Pos())
				if bo == nil || !ref.Valid() {
					c.Unknown(fmt.Sprintf("announce/%s#%d/planned>=1", f.Name, k), fs.Cond.Pos(), "cannot identify the bound of the loop that opens the data streams")
					return true
				}
				c.Check(pos.Passed(f, ref, id(bo)), fmt.Sprintf("announce/%s#%d/planned>=1", f.Name, k), fs.Cond.Pos(), "at least one data stream is planned on every path (clamped, not rejected)",
					"the loop that opens the data streams can run zero times ("+bo.Name()+" is not proven >= 1 at the loop): nothing is opened, and the transfer of a tree without regular files ends in an error (or announces 0 streams, on which the receiver waits) instead of succeeding")
				return true
			})
			c.Check(pos.Passed(f, r, id(o)), key, call.Pos(), "the announced count "+o.Name()+" is >= 1 on every path to the announcement",
				"the sender can announce DataStreams{Count: 0} ("+o.Name()+" is not proven >= 1 on every path): the receiver loops while the announced count is 0, so for that transfer (e.g. a tree without regular files) it never proceeds and hangs after the sender has finished")
		})
	}
}

func isUnsigned(t types.Type) bool {
	b, ok := t.Underlying().(*types.Basic)
	return ok && b.Info()&types.IsUnsigned != 0
}

// exemptLeaves classifies what a guard atom in front of the verification depends on, following local definitions (also of
// captured variables, in the enclosing functions) and call arguments. Recognised sources: a transfer.Options field (named),
// a field of the receiver's FileResumeInfo, a chunk total of the send state, constants. Anything else is reported by name.
func exemptLeaves(f *FuncInfo, e ast.Expr, depth int, out map[string]bool, seen map[types.Object]bool) {
	if depth == 0 || e == nil {
		out["?:too deep"] = true
		return
	}
	info := f.Info()
	ast.Inspect(e, func(n ast.Node) bool {
		switch x := n.(type) {
		case *ast.FuncLit:
			out["?:function literal"] = true
			return false
		case *ast.CallExpr:
			// len(info.F): only the presence of the field is consulted, not its content
			if id, ok := ast.Unparen(x.Fun).(*ast.Ident); ok && id.Name == "len" && len(x.Args) == 1 {
				if _, isB := info.Uses[id].(*types.Builtin); isB {
					if sel, ok := ast.Unparen(x.Args[0]).(*ast.SelectorExpr); ok {
						if v, ok := info.Uses[sel.Sel].(*types.Var); ok && v.IsField() {
							if t := info.TypeOf(sel.X); t != nil && strings.HasSuffix(strings.TrimPrefix(t.String(), "*"), "transfer.FileResumeInfo") {
								out["infolen:"+v.Name()] = true
								return false
							}
						}
					}
				}
			}
		case *ast.SelectorExpr:
			if v, ok := info.Uses[x.Sel].(*types.Var); ok && v.IsField() {
				t := info.TypeOf(x.X)
				ts := ""
				if t != nil {
					ts = strings.TrimPrefix(t.String(), "*")
				}
				switch {
				case strings.HasSuffix(ts, "transfer.Options"):
					out["opt:"+v.Name()] = true
				case strings.HasSuffix(ts, "transfer.FileResumeInfo"):
					out["info:"+v.Name()] = true
				case strings.HasSuffix(ts, "transfer.sendFileState") && v.Name() == "totalChunks":
					out["total"] = true
				default:
					out["state:"+ts[strings.LastIndex(ts, "/")+1:]+"."+v.Name()] = true
				}
				return false
			}
		case *ast.Ident:
			switch o := info.Uses[x].(type) {
			case *types.Var:
				if o.IsField() || o.Pkg() == nil {
					return true
				}
				if o.Parent() == o.Pkg().Scope() {
					out["state:package variable "+o.Name()] = true
					return true
				}
				if seen[o] {
					return true
				}
				seen[o] = true
				g := owningFunc(f, o)
				var ds []ast.Expr
				if g != nil {
					ds = allDefs(g, o)
				}
				if len(ds) == 0 {
					out["state:"+o.Name()] = true // parameter or range variable
					return true
				}
				for _, d := range ds {
					exemptLeaves(g, d, depth-1, out, seen)
				}
			}
		}
		return true
	})
}

func runVerifyExempt(c *Ctx) {
	p := c.P
	send := p.Func("transfer.SendManifestMultiStream")
	if send == nil {
		c.MissingAnchor("transfer.SendManifestMultiStream")
		return
	}
	allowed := map[string]bool{"ResumeVerify": true, "HashAlg": true}
	var all []*FuncInfo
	var collect func(f *FuncInfo)
	collect = func(f *FuncInfo) {
		all = append(all, f)
		for _, k := range f.Kids {
			collect(k)
		}
	}
	collect(send)
	nsite := 0
	for _, f := range all {
		info := f.Info()
		ast.Inspect(f.Body, func(n ast.Node) bool {
			if lit, ok := n.(*ast.FuncLit); ok && lit != f.Lit {
				return false
			}
			call, ok := n.(*ast.CallExpr)
			if !ok {
				return true
			}
			if fi := p.CalleeInfo(info, call); fi == nil || fi.Name != "transfer.hashFileChunk" {
				return true
			}
			nsite++
			// walk outwards: f, its parents, up to (not including) the function that receives the resume info
			// (the closure with a FileResumeInfo parameter) - conditions further out decide whether resume is used at all
			type guard struct {
				g    *FuncInfo
				cond ast.Expr
				val  bool
			}
			var guards []guard
			inner := ast.Node(call)
			for g := f; g != nil; g = g.Parent {
				ast.Inspect(g.Body, func(m ast.Node) bool {
					is, ok := m.(*ast.IfStmt)
					if !ok {
						return true
					}
					if is.Body.Pos() <= inner.Pos() && inner.End() <= is.Body.End() {
						guards = append(guards, guard{g, is.Cond, true})
					} else if is.Else != nil && is.Else.Pos() <= inner.Pos() && inner.End() <= is.Else.End() {
						guards = append(guards, guard{g, is.Cond, false})
					}
					return true
				})
				takesInfo := false
				if g.Type != nil && g.Type.Params != nil {
					for _, fl := range g.Type.Params.List {
						if t := g.Info().TypeOf(fl.Type); t != nil && strings.HasSuffix(t.String(), "transfer.FileResumeInfo") {
							takesInfo = true
						}
					}
				}
				if takesInfo || g.Lit == nil {
					break
				}
				inner = g.Lit
			}
			var bad []string
			natoms := 0
			for _, gd := range guards {
				// expand a bare identifier condition through its single definition
				conds := []ast.Expr{gd.cond}
				if o, ok := ObjOf(gd.g.Info(), gd.cond).(*types.Var); ok && !o.IsField() {
					if own := owningFunc(gd.g, o); own != nil {
						if ds := allDefs(own, o); len(ds) == 1 {
							conds = []ast.Expr{ds[0]}
						}
					}
				}
				for _, cd := range conds {
					atoms := Implied(cd, gd.val)
					if len(atoms) == 0 {
						atoms = []Atom{{cd, gd.val}}
					}
					for _, a := range atoms {
						natoms++
						if tv, ok := gd.g.Info().Types[a.E]; ok && tv.Value != nil {
							bad = append(bad, "constant condition "+types.ExprString(a.E))
							continue
						}
						leaves := map[string]bool{}
						exemptLeaves(gd.g, a.E, 8, leaves, map[types.Object]bool{})
						for l := range leaves {
							switch {
							case l == "total", l == "info:LastVerifiedChunk", l == "info:LastVerifiedHash", l == "info:TotalChunks", l == "infolen:Bitmap":
							case strings.HasPrefix(l, "info:"):
								// round 5: what else the receiver reports (its bitmap, its totals) says which chunks it claims to hold - exactly the claim the verification exists to test
								bad = append(bad, fmt.Sprintf("%s (derives from the receiver's report field %s: the claim under test cannot exempt itself)", types.ExprString(a.E), strings.TrimPrefix(l, "info:")))
							case strings.HasPrefix(l, "opt:"):
								if !allowed[strings.TrimPrefix(l, "opt:")] {
									bad = append(bad, fmt.Sprintf("%s (derives from Options.%s)", types.ExprString(a.E), strings.TrimPrefix(l, "opt:")))
								}
							default:
								bad = append(bad, fmt.Sprintf("%s (depends on %s)", types.ExprString(a.E), l[strings.Index(l, ":")+1:]))
							}
						}
					}
				}
			}
			sort.Strings(bad)
			c.Stat("verify_guard_atoms", natoms)
			c.Check(len(bad) == 0 && natoms > 0, fmt.Sprintf("verify-exempt/%s#%d", f.Name, nsite), call.Pos(),
				fmt.Sprintf("%d guard atoms in front of the verification hash; options consulted: only ResumeVerify / HashAlg", natoms),
				"the sender's verification of the receiver's last complete chunk is skipped under a condition that is not one of the enumerated exemptions: "+strings.Join(bad, "; ")+
					" - a damaged chunk that the receiver reports complete is then trusted and never re-sent, and both sides report success")
			_ = info
			return true
		})
	}
	if nsite == 0 {
		c.Bad("verify-exempt/none", send.Pos(), "the sender no longer hashes the receiver's last complete chunk (no hashFileChunk call under SendManifestMultiStream)")
	}
	// the verification result is compared with the hash the receiver sent
	c.Stat("verify_sites", nsite)
}

func runWalkReturns(c *Ctx) {
	p := c.P
	n := 0
	for _, f := range p.FuncsIn("pkg/manifest") {
		if f.Lit == nil || f.Parent == nil {
			continue
		}
		// is this literal the callback argument of filepath.WalkDir / filepath.Walk?
		isCb := false
		pinfo := f.Parent.Info()
		ast.Inspect(f.Parent.Body, func(m ast.Node) bool {
			call, ok := m.(*ast.CallExpr)
			if !ok {
				return true
			}
			if fn := Callee(pinfo, call); fn != nil && fn.Pkg() != nil && fn.Pkg().Path() == "path/filepath" && (fn.Name() == "WalkDir" || fn.Name() == "Walk") {
				for _, a := range call.Args {
					if ast.Unparen(a) == ast.Expr(f.Lit) {
						isCb = true
					}
				}
			}
			return true
		})
		if !isCb {
			continue
		}
		info := f.Info()
		// SkipDir is legitimate for a directory that could not be read (the walk error is recorded): the entry is known to be a directory
		var dirEntry types.Object
		if f.Type.Params != nil && len(f.Type.Params.List) >= 2 {
			for _, fl := range f.Type.Params.List {
				if t := info.TypeOf(fl.Type); t != nil && (strings.HasSuffix(t.String(), "fs.DirEntry") || strings.HasSuffix(t.String(), "fs.FileInfo")) && len(fl.Names) == 1 {
					dirEntry = info.Defs[fl.Names[0]]
				}
			}
		}
		isDir := &PassSpec{Vias: []Via{{Cond: func(g *FuncInfo, e ast.Expr) (string, bool, bool) {
			if call, ok := ast.Unparen(e).(*ast.CallExpr); ok {
				if sel, ok := ast.Unparen(call.Fun).(*ast.SelectorExpr); ok && sel.Sel.Name == "IsDir" && dirEntry != nil && ObjOf(g.Info(), sel.X) == dirEntry {
					return "is-dir", true, true
				}
			}
			return "", false, false
		}}}}
		cfg := f.CFG()
		InspectNoLits(f.Body, func(m ast.Node) bool {
			ret, ok := m.(*ast.ReturnStmt)
			if !ok || len(ret.Results) != 1 {
				return true
			}
			n++
			if r := cfg.Find(ret.Pos()); r.Valid() && isDir.Passed(f, r, "is-dir") {
				c.OK(fmt.Sprintf("walk-return/%s#%d", f.Name, n), ret.Pos(), "return for an entry known to be a directory")
				return true
			}
			skip := ""
			ast.Inspect(ret.Results[0], func(x ast.Node) bool {
				if id, ok := x.(*ast.Ident); ok {
					if v, ok := info.Uses[id].(*types.Var); ok && v.Pkg() != nil && (v.Pkg().Path() == "io/fs" || v.Pkg().Path() == "path/filepath") && (v.Name() == "SkipDir" || v.Name() == "SkipAll") {
						skip = v.Pkg().Name() + "." + v.Name()
					}
				}
				return true
			})
			c.Check(skip == "", fmt.Sprintf("walk-return/%s#%d", f.Name, n), ret.Pos(), "returns nil or an error",
				"the walk callback returns "+skip+" for an entry that is not known to be a directory: for a non-directory entry that silently skips the rest of the containing directory (for a directory, its whole subtree), so files that exist are missing from the manifest and from the totals, and no error is reported")
			return true
		})
	}
}

func runBucket(c *Ctx) {
	p := c.P
	f := p.Func("cmd/thruserv.(*tokenBucket).Allow")
	if f == nil {
		c.MissingAnchor("cmd/thruserv.(*tokenBucket).Allow")
		return
	}
	info := f.Info()
	cfg := f.CFG()
	fieldOf := func(e ast.Expr, name string) bool {
		sel, ok := ast.Unparen(e).(*ast.SelectorExpr)
		if !ok {
			return false
		}
		v, _ := info.Uses[sel.Sel].(*types.Var)
		return v != nil && v.IsField() && v.Name() == name
	}
	mentionsField := func(e ast.Expr, name string) bool {
		hit := false
		ast.Inspect(e, func(n ast.Node) bool {
			if x, ok := n.(ast.Expr); ok && fieldOf(x, name) {
				hit = true
			}
			return true
		})
		return hit
	}
	// the refill: an assignment to tokens whose value (through single local definitions) mentions last and rate
	var refill NodeRef
	var nowObj types.Object
	cfg.EachNode(func(r NodeRef) {
		as, ok := r.Node().(*ast.AssignStmt)
		if !ok || len(as.Lhs) != 1 || !fieldOf(as.Lhs[0], "tokens") || as.Tok != token.ADD_ASSIGN {
			return
		}
		exprs := resolveExprs(f, as.Rhs[0], 3)
		usesLast, usesRate := false, false
		for _, e := range exprs {
			if mentionsField(e, "last") {
				usesLast = true
				// now.Sub(b.last): the receiver of Sub
				ast.Inspect(e, func(n ast.Node) bool {
					if call, ok := n.(*ast.CallExpr); ok && calleeIs(info, call, "time", "Time.Sub") && len(call.Args) == 1 && fieldOf(call.Args[0], "last") {
						if sel, ok := ast.Unparen(call.Fun).(*ast.SelectorExpr); ok {
							nowObj = ObjOf(info, sel.X)
						}
					}
					return true
				})
			}
			if mentionsField(e, "rate") {
				usesRate = true
			}
		}
		if usesLast && usesRate {
			refill = r
		}
	})
	if !refill.Valid() || nowObj == nil {
		c.Unknown("bucket/refill", f.Pos(), "cannot find the refill `tokens += now.Sub(last) * rate` in tokenBucket.Allow")
		return
	}
	c.OK("bucket/refill", refill.Node().Pos(), "refill adds (now - last) * rate")
	// (1) last = now on every path from the refill to a return. `elapsed := now.Sub(b.last)` may precede `b.last = now`, so
	// the stamp may also sit between the elapsed computation and the refill: accept a stamp that dominates the refill and
	// follows the read of last, or one that is hit on every path after it.
	isStamp := func(n ast.Node) bool {
		as, ok := n.(*ast.AssignStmt)
		return ok && len(as.Lhs) == 1 && len(as.Rhs) == 1 && fieldOf(as.Lhs[0], "last") && ObjOf(info, as.Rhs[0]) == nowObj
	}
	stamped := false
	cfg.EachNode(func(r NodeRef) {
		if isStamp(r.Node()) && cfg.Dominates(r, refill) {
			stamped = true
		}
	})
	if !stamped {
		stamped = allPathsHit(cfg, refill, isStamp, func(ast.Node) bool { return false })
	}
	c.Check(stamped, "bucket/stamp-every-call", refill.Node().Pos(), "last = now on every path that refilled",
		"tokenBucket.Allow credits (now - last) * rate but does not set last = now on every path to its return (e.g. only when a token is granted): each rejected call is credited the whole interval since the last grant again, so a client that keeps asking is admitted far above burst + rate * t")
	// (2) cap after refill
	capped := allPathsHit(cfg, refill, func(n ast.Node) bool {
		if e, ok := n.(ast.Expr); ok {
			if be, ok := ast.Unparen(e).(*ast.BinaryExpr); ok && (be.Op == token.GTR || be.Op == token.GEQ) && fieldOf(be.X, "tokens") && fieldOf(be.Y, "burst") {
				return true
			}
		}
		return false
	}, func(ast.Node) bool { return false })
	capAssign := false
	cfg.EachNode(func(r NodeRef) {
		if as, ok := r.Node().(*ast.AssignStmt); ok && len(as.Lhs) == 1 && fieldOf(as.Lhs[0], "tokens") && as.Tok == token.ASSIGN && fieldOf(as.Rhs[0], "burst") {
			capAssign = true
		}
	})
	c.Check(capped && capAssign, "bucket/cap", refill.Node().Pos(), "level compared with burst after every refill and cut to it", "the bucket level is not capped at burst after the refill: an idle client accumulates an unbounded burst")
	// (3) grant only past tokens >= 1, paid with tokens -= 1
	grant := &PassSpec{Vias: []Via{
		{Cond: func(g *FuncInfo, e ast.Expr) (string, bool, bool) {
			be, ok := ast.Unparen(e).(*ast.BinaryExpr)
			if !ok || !fieldOf(be.X, "tokens") {
				return "", false, false
			}
			tv := info.Types[be.Y]
			if tv.Value == nil {
				return "", false, false
			}
			one := constant.Compare(tv.Value, token.EQL, constant.MakeInt64(1))
			switch {
			case be.Op == token.LSS && one:
				return "has-token", false, true
			case be.Op == token.GEQ && one:
				return "has-token", true, true
			}
			return "", false, false
		}},
		{Stmt: func(g *FuncInfo, n ast.Node) (string, bool) {
			switch s := n.(type) {
			case *ast.AssignStmt:
				if len(s.Lhs) == 1 && fieldOf(s.Lhs[0], "tokens") && s.Tok == token.SUB_ASSIGN {
					if tv := info.Types[s.Rhs[0]]; tv.Value != nil && constant.Compare(tv.Value, token.EQL, constant.MakeInt64(1)) {
						return "paid", true
					}
				}
			case *ast.IncDecStmt:
				if fieldOf(s.X, "tokens") && s.Tok == token.DEC {
					return "paid", true
				}
			}
			return "", false
		}},
	}}
	k := 0
	for _, b := range cfg.Blocks {
		ret, ok := IsReturnExit(b)
		if !ok || len(ret.Results) != 1 {
			continue
		}
		if tv := info.Types[ret.Results[0]]; tv.Value == nil || !constant.BoolVal(tv.Value) {
			if tv.Value == nil {
				c.Unknown(fmt.Sprintf("bucket/return#%d", k+1), ret.Pos(), "Allow returns a non-constant")
			}
			continue
		}
		k++
		ref := NodeRef{b, len(b.Nodes) - 1}
		c.Check(grant.Passed(f, ref, "has-token") && grant.Passed(f, ref, "paid"), fmt.Sprintf("bucket/grant#%d", k), ret.Pos(), "true is returned only past tokens >= 1 and tokens -= 1",
			"tokenBucket.Allow grants a request on a path that did not test tokens >= 1 or did not pay the token: the configured rate is exceeded")
		// round 5: a grant in front of the refill takes a stored token without stamping the clock: the time during which the bucket
		// was full is credited again at the next refill, so burst tokens are followed at once by another burst
		c.Check(cfg.Dominates(refill, ref), fmt.Sprintf("bucket/grant-after-refill#%d", k), ret.Pos(), "the grant follows the refill (and its time stamp)",
			"tokenBucket.Allow grants a request on a path that does not pass the refill and its time stamp (a fast path while tokens are left): the idle time before the burst is still on the clock when the bucket runs empty, "+
				"the next call is credited all of it and a second full burst is admitted at once - more than burst + rate * t")
	}
	if k == 0 {
		c.Bad("bucket/grant", f.Pos(), "tokenBucket.Allow has no `return true`")
	}
}

// receiverRefusesOtherLengths: the multiplexed receiver's data reader returns an error for a frame whose length is not
// chunkSizeForIndex(size, chunk size, index) - the condition R-TILE/len==tile decides for C19; looked up here so that
// R-FULL-READ's second form does not rest on another rule's verdict.
func receiverRefusesOtherLengths(p *Program) bool {
	recv := p.Func("transfer.RecvManifestMultiStream")
	if recv == nil {
		return false
	}
	found := false
	for _, f := range allKids(recv) {
		info := f.Info()
		ast.Inspect(f.Body, func(m ast.Node) bool {
			is, ok := m.(*ast.IfStmt)
			if !ok {
				return true
			}
			be, ok := ast.Unparen(is.Cond).(*ast.BinaryExpr)
			if !ok || be.Op != token.NEQ {
				return true
			}
			isTile := func(e ast.Expr) bool {
				for _, d := range resolveExprs(f, e, 1) {
					if call, ok := ast.Unparen(d).(*ast.CallExpr); ok {
						if g := p.CalleeInfo(info, call); g != nil && g.Name == "transfer.chunkSizeForIndex" {
							return true
						}
					}
				}
				// `if want := chunkSizeForIndex(..); chunkLen != want`
				if as, ok := is.Init.(*ast.AssignStmt); ok && len(as.Lhs) == 1 && len(as.Rhs) == 1 && ObjOf(info, as.Lhs[0]) != nil && ObjOf(info, as.Lhs[0]) == ObjOf(info, e) {
					if call, ok := ast.Unparen(as.Rhs[0]).(*ast.CallExpr); ok {
						if g := p.CalleeInfo(info, call); g != nil && g.Name == "transfer.chunkSizeForIndex" {
							return true
						}
					}
				}
				return false
			}
			if !isTile(be.X) && !isTile(be.Y) {
				return true
			}
			ast.Inspect(is.Body, func(k ast.Node) bool {
				if _, ok := k.(*ast.ReturnStmt); ok {
					found = true
				}
				return true
			})
			return true
		})
	}
	return found
}
