package tf

import (
	"fmt"
	"go/ast"
	"go/token"
	"go/types"
	"sort"
	"strings"
)

// Rules for C13: the manifest describes exactly what will be read, once, deterministically.

func init() {
	Register(&Rule{
		Name:  "R-MANIFEST-ITEMS",
		Props: []string{"C13"},
		Min:   5,
		Doc: "for every append to Manifest.Items in pkg/manifest: (KIND) an item taken from WalkDir's lstat information is appended only on paths where the entry " +
			"was tested to be a directory or a regular file (items built from a link-following os.Stat are exempt); (COUNT) a file item is paired with FileCount+1 and " +
			"TotalBytes+size of the same size, a directory item with FolderCount+1 and size 0, never the other counters; (SLASH) the RelPath stored is a filepath.ToSlash or filepath.Base result",
		Run: runManifestItems,
	})
	Register(&Rule{
		Name:  "R-MANIFEST-ORDER",
		Props: []string{"C13", "C05", "C06"},
		Min:   6,
		Doc: "every return of a scanned manifest passes sort.Slice(Items, less-by-RelPath) with no append after it, then the ID assignment Items[i].ID = computeID(Items[i]) for all items; " +
			"ScanPaths additionally passes a duplicate-RelPath test that leads to an error; computeID depends only on its argument",
		Run: runManifestOrder,
	})
	Register(&Rule{
		Name:  "R-SIBLING-PREFIX",
		Props: []string{"C13", "C01"},
		Min:   4,
		Doc: "ScanPaths (pkg/manifest) and buildPathResolver (internal/app) agree on the special base names, the collision predicate, the ordinal expression and format, " +
			"and the key construction prefix+baseName; the resolver keys on the first '/'-segment",
		Run: runSiblingPrefix,
	})
}

func isManifestItemsAppend(info *types.Info, n ast.Node) (call *ast.CallExpr, itemExpr ast.Expr, ok bool) {
	as, isAs := n.(*ast.AssignStmt)
	if !isAs || len(as.Rhs) != 1 || len(as.Lhs) != 1 {
		return nil, nil, false
	}
	c, isC := ast.Unparen(as.Rhs[0]).(*ast.CallExpr)
	if !isC || len(c.Args) != 2 {
		return nil, nil, false
	}
	id, isID := ast.Unparen(c.Fun).(*ast.Ident)
	if !isID {
		return nil, nil, false
	}
	if b, isB := info.Uses[id].(*types.Builtin); !isB || b.Name() != "append" {
		return nil, nil, false
	}
	sel, isSel := ast.Unparen(c.Args[0]).(*ast.SelectorExpr)
	if !isSel || sel.Sel.Name != "Items" {
		return nil, nil, false
	}
	fv, _ := info.Uses[sel.Sel].(*types.Var)
	if fv == nil || !fv.IsField() || fv.Pkg() == nil || fv.Pkg().Path() != RepoPkg("pkg/manifest") {
		return nil, nil, false
	}
	return c, c.Args[1], true
}

// itemLiteral finds the FileItem composite literal that defines the appended value.
func itemLiteral(f *FuncInfo, e ast.Expr) *ast.CompositeLit {
	if cl, ok := ast.Unparen(e).(*ast.CompositeLit); ok {
		return cl
	}
	o := ObjOf(f.Info(), e)
	if o == nil {
		return nil
	}
	var found *ast.CompositeLit
	n := 0
	InspectNoLits(f.Body, func(nd ast.Node) bool {
		if as, ok := nd.(*ast.AssignStmt); ok {
			for i, l := range as.Lhs {
				if ObjOf(f.Info(), l) == o && i < len(as.Rhs) {
					n++
					if cl, ok := ast.Unparen(as.Rhs[i]).(*ast.CompositeLit); ok {
						found = cl
					}
				}
			}
		}
		return true
	})
	if n != 1 {
		return nil
	}
	return found
}

func litField(cl *ast.CompositeLit, name string) ast.Expr {
	for _, el := range cl.Elts {
		if kv, ok := el.(*ast.KeyValueExpr); ok {
			if id, ok := kv.Key.(*ast.Ident); ok && id.Name == name {
				return kv.Value
			}
		}
	}
	return nil
}

// effects of a statement list on the manifest counters: map counter -> addend expression string
func counterEffects(info *types.Info, stmts []ast.Stmt, out map[string]string) {
	for _, st := range stmts {
		switch s := st.(type) {
		case *ast.IncDecStmt:
			if sel, ok := ast.Unparen(s.X).(*ast.SelectorExpr); ok && s.Tok == token.INC {
				out[sel.Sel.Name] = "1"
			}
		case *ast.AssignStmt:
			if len(s.Lhs) == 1 && len(s.Rhs) == 1 {
				if sel, ok := ast.Unparen(s.Lhs[0]).(*ast.SelectorExpr); ok {
					switch s.Tok {
					case token.ADD_ASSIGN, token.ASSIGN:
						out[sel.Sel.Name] = types.ExprString(s.Rhs[0])
					}
				}
			}
		}
	}
}

func runManifestItems(c *Ctx) {
	p := c.P
	kindSpec := &PassSpec{Name: "kind", Vias: []Via{{Cond: func(f *FuncInfo, e ast.Expr) (string, bool, bool) {
		info := f.Info()
		isRegular := func(x ast.Expr) bool {
			call, ok := ast.Unparen(x).(*ast.CallExpr)
			if !ok {
				return false
			}
			return calleeIs(info, call, "io/fs", "FileMode.IsRegular")
		}
		isDirCall := func(x ast.Expr) bool {
			call, ok := ast.Unparen(x).(*ast.CallExpr)
			if !ok {
				return false
			}
			return calleeIs(info, call, "io/fs", "DirEntry.IsDir") || calleeIs(info, call, "io/fs", "FileInfo.IsDir") || calleeIs(info, call, "io/fs", "FileMode.IsDir")
		}
		e = ast.Unparen(e)
		// the fact is keyed by the variable whose kind was tested (d, info): a closure must not inherit the test its
		// enclosing function made on another value of the same name
		rootOf := func(x ast.Expr) string {
			for {
				switch v := ast.Unparen(x).(type) {
				case *ast.CallExpr:
					x = v.Fun
					continue
				case *ast.SelectorExpr:
					x = v.X
					continue
				case *ast.Ident:
					if o := ObjOf(info, v); o != nil {
						return fmt.Sprintf("%d", o.Pos())
					}
				}
				return "?"
			}
		}
		if isRegular(e) {
			return "kind-ok:" + rootOf(e), true, true
		}
		// mode&ModeType == 0
		if be, ok := e.(*ast.BinaryExpr); ok && be.Op == token.EQL {
			if and, ok := ast.Unparen(be.X).(*ast.BinaryExpr); ok && and.Op == token.AND && strings.Contains(types.ExprString(and.Y), "ModeType") {
				if z, ok := constInt(info, be.Y); ok && z == 0 {
					return "kind-ok:" + rootOf(and.X), true, true
				}
			}
		}
		// !IsDir && !IsRegular  (false => dir or regular) ; IsDir || IsRegular (true)
		if be, ok := e.(*ast.BinaryExpr); ok {
			strip := func(x ast.Expr) (ast.Expr, bool) {
				if u, ok := ast.Unparen(x).(*ast.UnaryExpr); ok && u.Op == token.NOT {
					return u.X, true
				}
				return x, false
			}
			l, ln := strip(be.X)
			r, rn := strip(be.Y)
			pair := (isDirCall(l) && isRegular(r)) || (isRegular(l) && isDirCall(r))
			if pair && be.Op == token.LAND && ln && rn {
				return "kind-ok:" + rootOf(l), false, true
			}
			if pair && be.Op == token.LOR && !ln && !rn {
				return "kind-ok:" + rootOf(l), true, true
			}
		}
		return "", false, false
	}}}}

	for _, f := range p.FuncsIn("pkg/manifest") {
		info := f.Info()
		cfg := f.CFG()
		idx := 0
		cfg.EachNode(func(r NodeRef) {
			call, itemExpr, ok := isManifestItemsAppend(info, r.Node())
			if !ok {
				return
			}
			idx++
			base := fmt.Sprintf("%s#%d", f.Name, idx)
			cl := itemLiteral(f, itemExpr)
			if cl == nil {
				c.Unknown("item/"+base, call.Pos(), "appended item is not a FileItem literal (or a variable defined once from one)")
				return
			}
			sizeE, isDirE, relE := litField(cl, "Size"), litField(cl, "IsDir"), litField(cl, "RelPath")
			if isDirE == nil || relE == nil {
				c.Unknown("item/"+base, cl.Pos(), "FileItem literal without IsDir/RelPath")
				return
			}
			// ---- KIND: where does Size/IsDir information come from? os.Stat (follows links) or DirEntry.Info (lstat)
			fromLstat := false
			var kindVars []string
			ast.Inspect(cl, func(n ast.Node) bool {
				if id, ok := n.(*ast.Ident); ok {
					if o := info.Uses[id]; o != nil {
						if named, ok := types.Unalias(o.Type()).(*types.Named); ok && (named.Obj().Name() == "DirEntry" || named.Obj().Name() == "FileInfo") {
							kindVars = append(kindVars, fmt.Sprintf("%d", o.Pos()))
							// a FileInfo obtained from a DirEntry: a test on the entry counts as well
							if own := owningFunc(f, o); own != nil {
								for _, d := range allDefs(own, o) {
									ast.Inspect(d, func(m ast.Node) bool {
										if i2, ok := m.(*ast.Ident); ok {
											if o2 := own.Info().Uses[i2]; o2 != nil {
												if n2, ok := types.Unalias(o2.Type()).(*types.Named); ok && n2.Obj().Name() == "DirEntry" {
													kindVars = append(kindVars, fmt.Sprintf("%d", o2.Pos()))
												}
											}
										}
										return true
									})
								}
							}
						}
						if named, ok := types.Unalias(o.Type()).(*types.Named); ok && named.Obj().Name() == "DirEntry" {
							fromLstat = true
						}
						// a FileInfo: lstat information if any of its definitions is os.Lstat(...) or DirEntry.Info()
						if named, ok := types.Unalias(o.Type()).(*types.Named); ok && named.Obj().Name() == "FileInfo" {
							if own := owningFunc(f, o); own != nil {
								for _, d := range allDefs(own, o) {
									if dc, ok := ast.Unparen(d).(*ast.CallExpr); ok && (calleeIs(own.Info(), dc, "os", "Lstat") || calleeIs(own.Info(), dc, "io/fs", "DirEntry.Info")) {
										fromLstat = true
									}
								}
							}
						}
					}
				}
				return true
			})
			isDirConst := types.ExprString(isDirE)
			if fromLstat {
				kindOK := false
				for _, kv := range kindVars {
					if kindSpec.Passed(f, r, "kind-ok:"+kv) {
						kindOK = true
					}
				}
				c.Check(kindOK, "kind/"+base, call.Pos(), "walk entry appended only after a directory-or-regular-file test",
					"an entry described by lstat information (WalkDir entry, DirEntry.Info or os.Lstat) is appended without a regular-file/directory test: a symlink or device appears with a size that is not its readable content")
			} else {
				c.OKTrivial("kind/"+base, call.Pos(), "item built from os.Stat information (follows links): size equals readable content")
			}
			// ---- COUNT
			var after []ast.Stmt
			var list []ast.Stmt
			findList(f.Body, r.Node(), &list)
			for i, st := range list {
				if st == r.Node() {
					after = list[i+1:]
				}
			}
			fileEff, dirEff := map[string]string{}, map[string]string{}
			both := map[string]string{}
			counterEffects(info, after, both)
			for k, v := range both {
				fileEff[k], dirEff[k] = v, v
			}
			for _, st := range after {
				if is, ok := st.(*ast.IfStmt); ok && types.ExprString(is.Cond) == isDirConst {
					counterEffects(info, is.Body.List, dirEff)
					if eb, ok := is.Else.(*ast.BlockStmt); ok {
						counterEffects(info, eb.List, fileEff)
					}
				}
			}
			sizeStr := ""
			if sizeE != nil {
				sizeStr = types.ExprString(sizeE)
			}
			// a local `size := X` (possibly zeroed for directories) counts as X
			sizeAlias := sizeStr
			if o := ObjOf(info, sizeE); o != nil {
				InspectNoLits(f.Body, func(nd ast.Node) bool {
					if as, ok := nd.(*ast.AssignStmt); ok && as.Tok == token.DEFINE && len(as.Lhs) == 1 && ObjOf(info, as.Lhs[0]) == o {
						sizeAlias = types.ExprString(as.Rhs[0])
					}
					return true
				})
			}
			checkFile := func() (bool, string) {
				if fileEff["FileCount"] != "1" {
					return false, "file item without FileCount+1"
				}
				if tb := fileEff["TotalBytes"]; tb == "" || (tb != sizeStr && tb != sizeAlias) {
					return false, fmt.Sprintf("file item of size %s paired with TotalBytes += %q", sizeStr, tb)
				}
				if _, bad := fileEff["FolderCount"]; bad {
					return false, "file item also counted as folder"
				}
				return true, ""
			}
			checkDir := func() (bool, string) {
				if dirEff["FolderCount"] != "1" {
					return false, "directory item without FolderCount+1"
				}
				if isDirConst == "true" {
					if _, bad := dirEff["FileCount"]; bad {
						return false, "directory item also counted as file"
					}
					if _, bad := dirEff["TotalBytes"]; bad {
						return false, "directory item adds to TotalBytes"
					}
					if z, ok := constInt(info, sizeE); !ok || z != 0 {
						return false, "directory item with non-zero size expression " + sizeStr
					}
				} else {
					// dynamic: the size variable must be zeroed under the same condition
					zeroed := false
					InspectNoLits(f.Body, func(nd ast.Node) bool {
						if is, ok := nd.(*ast.IfStmt); ok && types.ExprString(is.Cond) == isDirConst {
							for _, st := range is.Body.List {
								if as, ok := st.(*ast.AssignStmt); ok && len(as.Lhs) == 1 && types.ExprString(as.Lhs[0]) == sizeStr {
									if z, ok := constInt(info, as.Rhs[0]); ok && z == 0 {
										zeroed = true
									}
								}
							}
						}
						return true
					})
					if !zeroed {
						return false, "directory entries keep a non-zero size (" + sizeStr + " is not zeroed under " + isDirConst + ")"
					}
					if _, bad := dirEff["FileCount"]; bad {
						return false, "directory entries are also counted as files"
					}
					if tb, has := dirEff["TotalBytes"]; has && tb != sizeStr {
						return false, "directory entries add " + tb + " to TotalBytes"
					}
				}
				return true, ""
			}
			var okc bool
			var why string
			switch isDirConst {
			case "false":
				okc, why = checkFile()
			case "true":
				okc, why = checkDir()
			default:
				okc, why = checkFile()
				if okc {
					okc, why = checkDir()
				}
			}
			c.Check(okc, "count/"+base, call.Pos(), "counters and totals are updated consistently with the appended item", "manifest counters disagree with the appended item: "+why)
			// ---- SLASH
			slashOK := false
			if isSlashedExpr(p, f, relE, 0) {
				slashOK = true
			} else if o := ObjOf(info, relE); o != nil {
				sp := &PassSpec{Vias: []Via{{Stmt: func(g *FuncInfo, n ast.Node) (string, bool) {
					if as, ok := n.(*ast.AssignStmt); ok && len(as.Lhs) >= 1 && len(as.Rhs) == 1 && ObjOf(g.Info(), as.Lhs[0]) == o {
						if isSlashedExpr(p, g, as.Rhs[0], 0) {
							return "slashed", true
						}
					}
					return "", false
				}}},
					Kill: func(g *FuncInfo, n ast.Node) []string {
						for _, ao := range AssignedObjs(g.Info(), n) {
							if ao == o {
								if as, ok := n.(*ast.AssignStmt); ok && len(as.Rhs) == 1 {
									if isSlashedExpr(p, g, as.Rhs[0], 0) {
										return nil
									}
								}
								return []string{"slashed"}
							}
						}
						return nil
					}}
				// facts before the literal's node
				lr := cfg.Find(cl.Pos())
				slashOK = lr.Valid() && sp.Passed(f, lr, "slashed")
			}
			c.Check(slashOK, "slash/"+base, relE.Pos(), "RelPath is a ToSlash/Base result", "RelPath "+types.ExprString(relE)+" is stored without filepath.ToSlash: backslash-separated paths on Windows")
		})
	}
}

// findList locates the statement list that directly contains stmt.
func findList(root ast.Node, stmt ast.Node, out *[]ast.Stmt) {
	ast.Inspect(root, func(n ast.Node) bool {
		var list []ast.Stmt
		switch b := n.(type) {
		case *ast.BlockStmt:
			list = b.List
		case *ast.CaseClause:
			list = b.Body
		case *ast.CommClause:
			list = b.Body
		}
		for _, s := range list {
			if s == stmt {
				*out = list
				return false
			}
		}
		return true
	})
}

func runManifestOrder(c *Ctx) {
	p := c.P
	computeID := p.Func("manifest.computeID")
	if computeID == nil {
		c.MissingAnchor("manifest.computeID")
		return
	}
	for _, name := range []string{"manifest.Scan", "manifest.ScanPaths"} {
		f := p.Func(name)
		if f == nil {
			c.MissingAnchor(name)
			continue
		}
		info := f.Info()
		cfg := f.CFG()
		// qualifying range statements: for i := range M.Items { M.Items[i].ID = computeID(M.Items[i]) }
		idRangeX := map[ast.Node]bool{}
		isIDAssign := func(n ast.Node) bool {
			as, ok := n.(*ast.AssignStmt)
			if !ok || len(as.Lhs) != 1 || len(as.Rhs) != 1 {
				return false
			}
			sel, ok := ast.Unparen(as.Lhs[0]).(*ast.SelectorExpr)
			if !ok || sel.Sel.Name != "ID" {
				return false
			}
			call, ok := ast.Unparen(as.Rhs[0]).(*ast.CallExpr)
			if !ok || p.CalleeInfo(info, call) != computeID || len(call.Args) != 1 {
				return false
			}
			return types.ExprString(call.Args[0]) == types.ExprString(sel.X)
		}
		ast.Inspect(f.Body, func(n ast.Node) bool {
			if rs, ok := n.(*ast.RangeStmt); ok && strings.HasSuffix(types.ExprString(rs.X), ".Items") && rs.Value == nil {
				for _, st := range rs.Body.List {
					if isIDAssign(st) {
						idRangeX[rs.X] = true
					}
				}
			}
			return true
		})
		spec := &PassSpec{Name: "order"}
		spec.Vias = []Via{
			{Immediate: true, Call: func(g *FuncInfo, call *ast.CallExpr) (string, bool) {
				if !calleeIs(g.Info(), call, "sort", "Slice") || len(call.Args) != 2 || !strings.HasSuffix(types.ExprString(call.Args[0]), ".Items") {
					return "", false
				}
				lit, ok := ast.Unparen(call.Args[1]).(*ast.FuncLit)
				if !ok || len(lit.Body.List) != 1 {
					return "", false
				}
				ret, ok := lit.Body.List[0].(*ast.ReturnStmt)
				if !ok || len(ret.Results) != 1 {
					return "", false
				}
				be, ok := ast.Unparen(ret.Results[0]).(*ast.BinaryExpr)
				if !ok || be.Op != token.LSS {
					return "", false
				}
				if !strings.HasSuffix(types.ExprString(be.X), "].RelPath") || !strings.HasSuffix(types.ExprString(be.Y), "].RelPath") {
					return "", false
				}
				return "sorted", true
			}},
			{Stmt: func(g *FuncInfo, n ast.Node) (string, bool) {
				if idRangeX[n] {
					return "ids", true
				}
				if isIDAssign(n) {
					// direct assignment outside a loop: only valid for the single-item case Items[0]
					return "ids", true
				}
				return "", false
			}},
			// duplicate test: cond `X.RelPath == Y.RelPath` false edge... the loop exits normally only when no duplicate was found;
			// we record that the test exists on the path by its loop-head: the condition node itself evaluated false at least...
			{Cond: func(g *FuncInfo, e ast.Expr) (string, bool, bool) {
				be, ok := ast.Unparen(e).(*ast.BinaryExpr)
				if !ok || be.Op != token.EQL {
					return "", false, false
				}
				l, r := types.ExprString(be.X), types.ExprString(be.Y)
				if strings.HasSuffix(l, "].RelPath") && strings.HasSuffix(r, "].RelPath") && l != r {
					return "dup-tested", false, true
				}
				return "", false, false
			}},
		}
		spec.Kill = func(g *FuncInfo, n ast.Node) []string {
			if _, _, ok := isManifestItemsAppend(g.Info(), n); ok {
				return []string{"sorted", "ids"}
			}
			return nil
		}
		// duplicate test structure (ScanPaths): a for loop over 1..len(Items) whose body tests adjacent RelPaths and returns an error
		dupLoopOK := false
		var dupLoop *ast.ForStmt
		ast.Inspect(f.Body, func(n ast.Node) bool {
			fs, ok := n.(*ast.ForStmt)
			if !ok || fs.Cond == nil {
				return true
			}
			cb, ok := fs.Cond.(*ast.BinaryExpr)
			if !ok || cb.Op != token.LSS || !strings.HasSuffix(types.ExprString(cb.Y), ".Items)") {
				return true
			}
			for _, st := range fs.Body.List {
				is, ok := st.(*ast.IfStmt)
				if !ok {
					continue
				}
				be, ok := ast.Unparen(is.Cond).(*ast.BinaryExpr)
				if !ok || be.Op != token.EQL {
					continue
				}
				l, r := types.ExprString(be.X), types.ExprString(be.Y)
				if !(strings.HasSuffix(l, "].RelPath") && strings.HasSuffix(r, "].RelPath") && l != r) {
					continue
				}
				// adjacent indices i and i-1 (or i+1)
				adj := strings.Contains(l+r, "-1]") || strings.Contains(l+r, "- 1]") || strings.Contains(l+r, "+1]") || strings.Contains(l+r, "+ 1]")
				// body returns a non-nil error
				retErr := false
				for _, b := range is.Body.List {
					if ret, ok := b.(*ast.ReturnStmt); ok && len(ret.Results) == 2 && types.ExprString(ret.Results[1]) != "nil" {
						retErr = true
					}
				}
				if adj && retErr {
					dupLoopOK = true
					dupLoop = fs
				}
			}
			return true
		})
		// also accept a seen-set: map lookup keyed by RelPath with an error return
		if !dupLoopOK {
			ast.Inspect(f.Body, func(n ast.Node) bool {
				is, ok := n.(*ast.IfStmt)
				if !ok || is.Init == nil {
					return true
				}
				as, ok := is.Init.(*ast.AssignStmt)
				if !ok || len(as.Rhs) != 1 {
					return true
				}
				ix, ok := ast.Unparen(as.Rhs[0]).(*ast.IndexExpr)
				if !ok || !strings.HasSuffix(types.ExprString(ix.Index), "RelPath") {
					return true
				}
				for _, b := range is.Body.List {
					if ret, ok := b.(*ast.ReturnStmt); ok && len(ret.Results) == 2 && types.ExprString(ret.Results[1]) != "nil" {
						dupLoopOK = true
					}
				}
				return true
			})
		}
		nret := 0
		for _, b := range cfg.Blocks {
			ret, ok := IsReturnExit(b)
			if !ok || len(ret.Results) != 2 {
				continue
			}
			if o := ObjOf(info, ret.Results[0]); o == nil || !strings.HasSuffix(o.Type().String(), "manifest.Manifest") {
				continue // returns Manifest{} (error paths)
			}
			nret++
			ref := NodeRef{b, len(b.Nodes) - 1}
			key := fmt.Sprintf("return/%s#%d", f.Name, nret)
			sorted := spec.Passed(f, ref, "sorted")
			ids := spec.Passed(f, ref, "ids")
			c.Check(sorted, key+"/sorted", ret.Pos(), "return passes sort.Slice by RelPath with no later append", "a scanned manifest is returned on a path that does not pass sort.Slice(Items, by RelPath) after the last append: ordering depends on walk/argument order")
			c.Check(ids, key+"/ids", ret.Pos(), "return passes the computeID assignment for all items", "a scanned manifest is returned on a path that does not assign item IDs after the last append")
			if name == "manifest.ScanPaths" {
				okDup := dupLoopOK
				if okDup && dupLoop != nil {
					// the loop must be after the sort and before the return: its condition node is dominated by sorted, and dominates the return
					lr := cfg.Find(dupLoop.Cond.Pos())
					okDup = lr.Valid() && spec.Passed(f, lr, "sorted") && cfg.Dominates(lr, ref)
				}
				c.Check(okDup, key+"/distinct", ret.Pos(), "return is dominated by a duplicate-RelPath test (adjacent compare after sort, error on equality)",
					"ScanPaths returns a manifest without a dominating duplicate-RelPath test: the ordinal prefix (1_a) can collide with a literal name and list one path twice")
			}
		}
		if nret == 0 {
			c.Unknown("return/"+f.Name, f.Pos(), "no return of the scanned manifest found")
		}
	}
	// computeID purity: uses only its parameter, locals, and fmt/fnv/hex/binary
	{
		info := computeID.Info()
		pure := true
		var bad []string
		allowed := map[string]bool{"fmt": true, "hash/fnv": true, "encoding/hex": true, "encoding/binary": true, "hash": true, "io": true}
		ast.Inspect(computeID.Body, func(n ast.Node) bool {
			id, ok := n.(*ast.Ident)
			if !ok {
				return true
			}
			o := info.Uses[id]
			if o == nil {
				return true
			}
			switch v := o.(type) {
			case *types.Var:
				if v.IsField() {
					return true
				}
				if v.Pkg() != nil && v.Parent() == v.Pkg().Scope() && !allowed[v.Pkg().Path()] {
					pure = false
					bad = append(bad, "package variable "+v.Pkg().Path()+"."+v.Name())
				}
			case *types.Func:
				if v.Pkg() != nil && !allowed[v.Pkg().Path()] {
					pure = false
					bad = append(bad, v.FullName())
				}
			}
			return true
		})
		// all four identity fields feed the hash
		used := map[string]bool{}
		ast.Inspect(computeID.Body, func(n ast.Node) bool {
			if sel, ok := n.(*ast.SelectorExpr); ok {
				if fv, ok := info.Uses[sel.Sel].(*types.Var); ok && fv.IsField() {
					used[fv.Name()] = true
				}
			}
			return true
		})
		c.Check(pure, "computeID/pure", computeID.Pos(), "computeID reads only its argument", "computeID depends on something other than the item: "+strings.Join(bad, ", "))
		c.Check(used["RelPath"] && used["Size"] && used["ModTime"] && used["IsDir"], "computeID/fields", computeID.Pos(), "ID covers RelPath, Size, ModTime, IsDir",
			fmt.Sprintf("computeID no longer covers all identity fields (uses %v)", keysOf(used)))
	}
}

func keysOf(m map[string]bool) []string {
	var out []string
	for k := range m {
		out = append(out, k)
	}
	sort.Strings(out)
	return out
}

// ---------------------------------------------------------------------------

type prefixShape struct {
	special   []string // "."=>"current"
	collision []string // ">1"
	formats   []string // "%d_" : arg shape
	keys      []string // "prefix+baseName"
	loops     []string
}

func extractPrefixShape(f *FuncInfo) prefixShape {
	var s prefixShape
	info := f.Info()
	mapVars := map[types.Object]bool{}
	var walk func(n ast.Node)
	walk = func(root ast.Node) {
		ast.Inspect(root, func(n ast.Node) bool {
			switch v := n.(type) {
			case *ast.IfStmt:
				// if X == "C" { X = "R" } [else { X = "R2" }]
				if be, ok := ast.Unparen(v.Cond).(*ast.BinaryExpr); ok && be.Op == token.EQL {
					if cs, ok := constString(info, be.Y); ok && len(v.Body.List) == 1 {
						if as, ok := v.Body.List[0].(*ast.AssignStmt); ok && len(as.Rhs) == 1 && types.ExprString(as.Lhs[0]) == types.ExprString(be.X) {
							if rs, ok := constString(info, as.Rhs[0]); ok {
								s.special = append(s.special, fmt.Sprintf("%q=>%q", cs, rs))
								if eb, ok := v.Else.(*ast.BlockStmt); ok && len(eb.List) == 1 {
									if as2, ok := eb.List[0].(*ast.AssignStmt); ok && len(as2.Rhs) == 1 {
										if rs2, ok := constString(info, as2.Rhs[0]); ok {
											s.special = append(s.special, fmt.Sprintf("else=>%q", rs2))
										}
									}
								}
							}
						}
					}
				}
				// outer guard: if X == "." || X == "/"
				if be, ok := ast.Unparen(v.Cond).(*ast.BinaryExpr); ok && be.Op == token.LOR {
					var cs []string
					for _, side := range []ast.Expr{be.X, be.Y} {
						if b2, ok := ast.Unparen(side).(*ast.BinaryExpr); ok && b2.Op == token.EQL {
							if c0, ok := constString(info, b2.Y); ok {
								cs = append(cs, c0)
							}
						}
					}
					if len(cs) == 2 {
						s.special = append(s.special, fmt.Sprintf("guard(%q||%q)", cs[0], cs[1]))
					}
				}
				// collision: if M[k] > 1
				if be, ok := ast.Unparen(v.Cond).(*ast.BinaryExpr); ok {
					if ix, ok := ast.Unparen(be.X).(*ast.IndexExpr); ok {
						if _, isMap := info.TypeOf(ix.X).Underlying().(*types.Map); isMap {
							if z, ok := constInt(info, be.Y); ok {
								s.collision = append(s.collision, fmt.Sprintf("count%s%d", be.Op, z))
								if o := ObjOf(info, ix.X); o != nil {
									mapVars[o] = true
								}
							}
						}
					}
				}
			case *ast.CallExpr:
				if calleeIs(info, v, "fmt", "Sprintf") && len(v.Args) == 2 {
					if fs, ok := constString(info, v.Args[0]); ok && strings.Contains(fs, "%d") {
						shape := "?"
						if be, ok := ast.Unparen(v.Args[1]).(*ast.BinaryExpr); ok {
							if z, ok := constInt(info, be.Y); ok {
								shape = fmt.Sprintf("n%s%d", be.Op, z)
							}
						} else if _, ok := ast.Unparen(v.Args[1]).(*ast.Ident); ok {
							shape = "n"
						}
						s.formats = append(s.formats, fmt.Sprintf("%q(%s)", fs, shape))
					}
				}
			case *ast.ForStmt:
				// for j := 0; j < i; j++   (count of earlier equal names)
				if be, ok := v.Cond.(*ast.BinaryExpr); ok {
					if _, isIdent := ast.Unparen(be.Y).(*ast.Ident); isIdent {
						init := ""
						if as, ok := v.Init.(*ast.AssignStmt); ok && len(as.Rhs) == 1 {
							init = types.ExprString(as.Rhs[0])
						}
						s.loops = append(s.loops, fmt.Sprintf("from%s%sindex", init, be.Op))
					}
				}
			}
			return true
		})
	}
	walk(f.Body)
	// keys: expressions `prefix + baseName` (two string idents added), in file/dir rel paths or target keys
	ast.Inspect(f.Body, func(n ast.Node) bool {
		if be, ok := n.(*ast.BinaryExpr); ok && be.Op == token.ADD {
			lx, lok := ast.Unparen(be.X).(*ast.Ident)
			ry, rok := ast.Unparen(be.Y).(*ast.Ident)
			if lok && rok && isStringType(info.TypeOf(lx)) && isStringType(info.TypeOf(ry)) {
				s.keys = append(s.keys, "prefix+base")
			}
		}
		return true
	})
	dedup := func(x []string) []string {
		sort.Strings(x)
		return uniq(x)
	}
	s.special, s.collision, s.formats, s.keys, s.loops = dedup(s.special), dedup(s.collision), dedup(s.formats), dedup(s.keys), dedup(s.loops)
	return s
}

func isStringType(t types.Type) bool {
	if t == nil {
		return false
	}
	b, ok := t.Underlying().(*types.Basic)
	return ok && b.Kind() == types.String
}

func runSiblingPrefix(c *Ctx) {
	p := c.P
	sp := p.Func("manifest.ScanPaths")
	br := p.Func("app.buildPathResolver")
	if sp == nil || br == nil {
		c.MissingAnchor("manifest.ScanPaths / app.buildPathResolver")
		return
	}
	a, b := extractPrefixShape(sp), extractPrefixShape(br)
	cmp := func(key string, x, y []string, what string) {
		xs, ys := strings.Join(x, " "), strings.Join(y, " ")
		c.Check(xs == ys && xs != "", "prefix/"+key, br.Pos(), "scanner and resolver agree on "+what+": "+xs,
			"scanner and resolver disagree on "+what+": files listed in the manifest no longer resolve back to their source", "ScanPaths: "+xs, "buildPathResolver: "+ys)
	}
	cmp("special-names", a.special, b.special, "the special base names")
	cmp("collision-predicate", a.collision, b.collision, "the collision predicate")
	cmp("ordinal-format", a.formats, b.formats, "the ordinal prefix format")
	cmp("earlier-count-loop", a.loops, b.loops, "the loop counting earlier equal names")
	c.Check(len(a.keys) > 0 && len(b.keys) > 0, "prefix/key-construction", br.Pos(), "both build prefix+baseName", "one side does not build prefix+baseName")
	// the resolver keys on the first '/'-segment
	okSplit := false
	for _, k := range br.Kids {
		ast.Inspect(k.Body, func(n ast.Node) bool {
			if call, ok := n.(*ast.CallExpr); ok && calleeIs(k.Info(), call, "strings", "SplitN") && len(call.Args) == 3 {
				sep, ok1 := constString(k.Info(), call.Args[1])
				cnt, ok2 := constInt(k.Info(), call.Args[2])
				if ok1 && ok2 && sep == "/" && cnt == 2 {
					okSplit = true
				}
			}
			return true
		})
	}
	c.Check(okSplit, "prefix/first-segment", br.Pos(), "resolver keys on strings.SplitN(relPath, \"/\", 2)[0]", "resolver no longer keys on the first '/'-segment of the relative path")
	// base names are taken from the absolute path everywhere: Base(".") is ".", Base("x/..") is "..", so a count over the raw
	// argument disagrees with keys built from the absolute one
	for _, f := range []*FuncInfo{sp, br} {
		info := f.Info()
		k := 0
		ast.Inspect(f.Body, func(n ast.Node) bool {
			call, ok := n.(*ast.CallExpr)
			if !ok || !calleeIs(info, call, "path/filepath", "Base") || len(call.Args) != 1 {
				return true
			}
			k++
			abs := isAbsDerived(f, call.Args[0], 3)
			c.Check(abs, fmt.Sprintf("prefix/base-of-abs/%s#%d", f.Name, k), call.Pos(), "the base name is taken from the absolute path",
				f.Name+" takes filepath.Base of "+types.ExprString(call.Args[0])+", which is not the result of filepath.Abs: for arguments like `.`, `..` or `x/..` the base name differs from the one the other passes (and the other function) compute from the absolute path, so the collision count and the keys disagree - the manifest lists `1_proj/..` and the resolver finds nothing, the sender then reads a path relative to its working directory")
			return true
		})
	}
}

// isAbsDerived: e is the result of filepath.Abs - a local all of whose definitions are Abs calls, an element of (or the range
// value over) a slice to which only such values are appended.
func isAbsDerived(f *FuncInfo, e ast.Expr, depth int) bool {
	if depth == 0 {
		return false
	}
	info := f.Info()
	e = ast.Unparen(e)
	if call, ok := e.(*ast.CallExpr); ok {
		return calleeIs(info, call, "path/filepath", "Abs")
	}
	absSlice := func(o types.Object) bool {
		if o == nil {
			return false
		}
		if _, ok := o.Type().Underlying().(*types.Slice); !ok {
			return false
		}
		n, okAll := 0, true
		ast.Inspect(f.Root().Body, func(m ast.Node) bool {
			as, ok := m.(*ast.AssignStmt)
			if !ok || len(as.Lhs) != 1 || len(as.Rhs) != 1 || ObjOf(info, as.Lhs[0]) != o {
				return true
			}
			call, ok := ast.Unparen(as.Rhs[0]).(*ast.CallExpr)
			if !ok {
				okAll = false
				return true
			}
			id, ok := ast.Unparen(call.Fun).(*ast.Ident)
			switch {
			case ok && id.Name == "make":
			case ok && id.Name == "append" && len(call.Args) >= 2 && ObjOf(info, call.Args[0]) == o:
				for _, a := range call.Args[1:] {
					n++
					if !isAbsDerived(f, a, depth-1) {
						okAll = false
					}
				}
			default:
				okAll = false
			}
			return true
		})
		return n > 0 && okAll
	}
	if ix, ok := e.(*ast.IndexExpr); ok {
		return absSlice(ObjOf(info, ix.X))
	}
	o := ObjOf(info, e)
	if o == nil {
		return false
	}
	// range value over an abs slice
	isRange := false
	ast.Inspect(f.Root().Body, func(m ast.Node) bool {
		if rs, ok := m.(*ast.RangeStmt); ok && rs.Value != nil && ObjOf(info, rs.Value) == o && absSlice(ObjOf(info, rs.X)) {
			isRange = true
		}
		return true
	})
	if isRange {
		return true
	}
	own := owningFunc(f, o)
	if own == nil {
		return false
	}
	defs := allDefs(own, o)
	if len(defs) == 0 {
		return false
	}
	for _, d := range defs {
		if !isAbsDerived(own, d, depth-1) {
			return false
		}
	}
	return true
}

// isSlashedExpr: e is filepath.ToSlash(..) / filepath.Base(..), a function of package strings applied to such a value, or a call
// of a repository function all of whose returns are (a helper that normalises a name for the wire).
func isSlashedExpr(p *Program, f *FuncInfo, e ast.Expr, depth int) bool {
	call, ok := ast.Unparen(e).(*ast.CallExpr)
	if !ok || depth > 2 {
		return false
	}
	info := f.Info()
	if calleeIs(info, call, "path/filepath", "ToSlash") || calleeIs(info, call, "path/filepath", "Base") {
		return true
	}
	if fn := Callee(info, call); fn != nil && fn.Pkg() != nil && fn.Pkg().Path() == "strings" && len(call.Args) >= 1 {
		return isSlashedExpr(p, f, call.Args[0], depth+1)
	}
	if h := p.CalleeInfo(info, call); h != nil && h.Body != nil {
		n, all := 0, true
		InspectNoLits(h.Body, func(m ast.Node) bool {
			if rs, ok := m.(*ast.ReturnStmt); ok && len(rs.Results) >= 1 {
				n++
				if !isSlashedExpr(p, h, rs.Results[0], depth+1) {
					all = false
				}
			}
			return true
		})
		return n > 0 && all
	}
	return false
}
