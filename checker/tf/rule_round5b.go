package tf

// Rules that hold the repairs of the fourth triage list (F46-F57, DESIGN 8.11) in place, and the constructs of the findings that were recorded instead of repaired.

import (
	"golang.org/x/tools/go/cfg"
	"fmt"
	"go/ast"
	"go/constant"
	"go/token"
	"go/types"
	"strings"
)

func init() {
	Register(&Rule{
		Name:  "R-UNKNOWN-FORCES",
		Props: []string{"C06", "C17", "C04"},
		Min:   1,
		Doc: "a highest complete chunk the receiver could not hash is sent again (F46): in the sender's applyResumeInfo, under the condition that the reported hash is resumeHashUnknown, the variable that becomes resumePlan.forceSendFrom is lowered to the reported chunk " +
			"(`if F > V { F = V }`), and nothing raises it again before the plan is built - the comparison is switched off for such a report, so the force-send range is the only thing that repairs that chunk",
		Run: runUnknownForces,
	})
	Register(&Rule{
		Name:  "R-SIDECAR-COUNT",
		Props: []string{"C06", "C19"},
		Min:   1,
		Doc: "resume metadata agrees with itself (F47): LoadSidecar returns a sidecar only past the comparison of the stored chunk count with chunkTotal(stored file size, stored chunk size) - with a lower count the receiver refuses to mark the chunks above it and the file never completes, " +
			"with a higher one the bitmap sent to the sender does not match the count beside it",
		Run: runSidecarCount,
	})
	Register(&Rule{
		Name:  "R-ADMIT-LIVE",
		Props: []string{"C14", "C11"},
		Min:   2,
		Doc: "a join code admits nobody after its session ended (F48): (admit-live) the admission test handleWebSocket hands to Hub.AddIf - evaluated together with the insertion - admits only past a fresh look-up of the join code in the store whose session is the one resolved before the upgrade; " +
			"(delete-first) where a session is ended by the server, the store entry is deleted before the hub session is closed, so that a join is either refused by that look-up or in the hub when it is closed",
		Run: runAdmitLive,
	})
	Register(&Rule{
		Name:  "R-ONE-HOST",
		Props: []string{"C14"},
		Min:   1,
		Doc: "a session has one host (F49): the admission test refuses a peer with role sender while another connection with that role is in the session (a reconnect under the same peer id replaces the old connection and is not among the current peers) - " +
			"a guest that calls itself a sender is outside the receivers-per-host limit and keeps the code admitting peers after the host left",
		Run: runOneHost,
	})
	Register(&Rule{
		Name:  "R-MIN-STREAMS",
		Props: []string{"C03"},
		Min:   1,
		Doc: "the smallest limit of incoming streams the QUIC tuning accepts leaves room for the control stream and one data stream (F50): the lower clamp of clampQuicMaxStreams is a constant >= 2",
		Run: runMinStreams,
	})
	Register(&Rule{
		Name:  "R-HEADER-SYMMETRIC",
		Props: []string{"C18"},
		Min:   1,
		Doc: "what the reader of the control header refuses the writer does not write (F51): every validator readControlHeader applies to the decoded manifest (a repository function taking the manifest and returning an error) is applied by writeControlHeader to its manifest before the first byte is written",
		Run: runHeaderSymmetric,
	})
	Register(&Rule{
		Name:  "R-URL-NORMALISE",
		Props: []string{"C16"},
		Min:   2,
		Doc: "the two client functions that turn --server-url into a request agree on the URLs they accept (F52): clienthttp.CreateSession and app.buildWebSocketURL both put http:// in front of a URL without that prefix before it is parsed",
		Run: runURLNormalise,
	})
	Register(&Rule{
		Name:  "R-PLAN-BEFORE-VERDICT",
		Props: []string{"C17"},
		Min:   1,
		Doc: "the resume plan is in force before the verification can end (F53): in applyResumeInfo the assignment of the plan to the file's state dominates the go statement that hashes the verified chunk - installed afterwards, a fast verdict is followed by hand-outs without the plan (present chunks sent, the failed chunk twice)",
		Run: runPlanBeforeVerdict,
	})
	Register(&Rule{
		Name:  "R-LEGACY-TILE",
		Props: []string{"C05", "C19"},
		Min:   1,
		Doc: "the single-stream receiver holds the sender to the tiling (F54): in receiveFileChunksWindowed a frame is handed to the writer (and from there marked complete) only past the rejection of a length other than chunkSizeForIndex(size, chunk size, index), and, when an index bitmap is kept (no resume metadata), of an index already seen",
		Run: runLegacyTile,
	})
	Register(&Rule{
		Name:  "R-REGISTRY-BALANCED",
		Props: []string{"C05"},
		Min:   1,
		Doc: "what a receive registers for the process-wide flush leaves the registry with it (F55): every live function under which globalSidecarFlushRegistry.add is called defers a clean-up that calls remove - a sidecar of an aborted transfer left registered is flushed by the next signal over the fresh metadata of a later transfer of the same file",
		Run: runRegistryBalanced,
	})
	Register(&Rule{
		Name:  "R-OPEN-FILES-BOUNDED",
		Props: []string{"C15"},
		Min:   2,
		Doc: "the memory a peer can reserve by beginning files is bounded in total (F57): in handleFileBegin the per-file reservations (index bitmap, resume metadata) are dominated by the rejection of a FileBegin while as many files are open as there are data streams, " +
			"and in finalizeFile a file stops counting as open before its acknowledgement is queued (the sender begins the next file on seeing it)",
		Run: runOpenFilesBounded,
	})
	Register(&Rule{
		Name:  "R-NAME-RESERVED",
		Props: []string{"C03"},
		Min:   2,
		Doc: "every legal file name can be received: (reserved) the receiver's resume-metadata directory does not take a name inside the output tree that a manifest item may carry; (backslash) the path validation does not give a byte that is an ordinary name character on the sending system (backslash) the meaning of a separator",
		Run: runNameReserved,
	})
	Register(&Rule{
		Name:  "R-RESUME-GRACE",
		Props: []string{"C04"},
		Min:   1,
		Doc: "finished work is not sent again: the sender hands out chunks of a file only when the receiver's resume report is in or the configured resume timeout has passed - a fixed grace period after which the file is released without a plan sends, on a path slower than that period, everything the report would have skipped",
		Run: runResumeGrace,
	})
}

// ---------------------------------------------------------------------------

func planVars(f *FuncInfo, field string) map[types.Object]bool {
	out := map[types.Object]bool{}
	for h := f; h != nil; h = h.Parent {
		ast.Inspect(h.Body, func(m ast.Node) bool {
			if kv, ok := m.(*ast.KeyValueExpr); ok {
				if k, ok := kv.Key.(*ast.Ident); ok && k.Name == field {
					if o := ObjOf(h.Info(), kv.Value); o != nil {
						out[o] = true
					}
				}
			}
			return true
		})
	}
	return out
}

func runUnknownForces(c *Ctx) {
	p := c.P
	send := p.Func("transfer.SendManifestMultiStream")
	if send == nil {
		c.MissingAnchor("transfer.SendManifestMultiStream")
		return
	}
	unknownConst := p.LookupObj("internal/transfer", "resumeHashUnknown")
	n := 0
	for _, f := range allKids(send) {
		info := f.Info()
		// hu: local defined as `<info>.LastVerifiedHash == resumeHashUnknown`
		var hu types.Object
		var vobj types.Object // local defined from <info>.LastVerifiedChunk
		InspectNoLits(f.Body, func(m ast.Node) bool {
			as, ok := m.(*ast.AssignStmt)
			if !ok || len(as.Lhs) != 1 || len(as.Rhs) != 1 {
				return true
			}
			switch r := ast.Unparen(as.Rhs[0]).(type) {
			case *ast.BinaryExpr:
				if r.Op == token.EQL {
					if sel, ok := ast.Unparen(r.X).(*ast.SelectorExpr); ok && sel.Sel.Name == "LastVerifiedHash" && ObjOf(info, r.Y) == unknownConst && unknownConst != nil {
						hu = ObjOf(info, as.Lhs[0])
					}
				}
			case *ast.SelectorExpr:
				if r.Sel.Name == "LastVerifiedChunk" && as.Tok == token.DEFINE {
					vobj = ObjOf(info, as.Lhs[0])
				}
			}
			return true
		})
		if hu == nil {
			continue
		}
		n++
		key := fmt.Sprintf("unknown-forces/%s#%d", f.Name, n)
		fvars := planVars(f, "forceSendFrom")
		if vobj == nil || len(fvars) == 0 {
			c.Unknown(key, f.Pos(), "cannot identify the reported chunk / the force-send variable beside the hash-unknown test")
			continue
		}
		// the lowering: if ... F > V ... { F = V } inside a branch whose conditions imply hu
		var lower *ast.AssignStmt
		extraCond := ""
		var stack []ast.Node
		ast.Inspect(f.Body, func(m ast.Node) bool {
			if m == nil {
				stack = stack[:len(stack)-1]
				return true
			}
			stack = append(stack, m)
			if lit, ok := m.(*ast.FuncLit); ok && lit != f.Lit {
				stack = stack[:len(stack)-1]
				return false
			}
			as, ok := m.(*ast.AssignStmt)
			if !ok || as.Tok != token.ASSIGN || len(as.Lhs) != 1 || len(as.Rhs) != 1 || !fvars[ObjOf(info, as.Lhs[0])] || ObjOf(info, as.Rhs[0]) != vobj {
				return true
			}
			underHU, guarded := false, false
			for _, s := range stack {
				is, ok := s.(*ast.IfStmt)
				if !ok || !(is.Body.Pos() <= as.Pos() && as.End() <= is.Body.End()) {
					continue
				}
				for _, a := range Implied(is.Cond, true) {
					if a.Val && ObjOf(info, a.E) == hu {
						underHU = true
					}
					// another boolean beside the hash-unknown test narrows the case in which the chunk is sent again
					if o := ObjOf(info, a.E); o != nil && o != hu {
						if b, ok := o.Type().Underlying().(*types.Basic); ok && b.Kind() == types.Bool {
							extraCond = o.Name()
						}
					}
					if be, ok := ast.Unparen(a.E).(*ast.BinaryExpr); ok && a.Val {
						if (be.Op == token.GTR && fvars[ObjOf(info, be.X)] && ObjOf(info, be.Y) == vobj) || (be.Op == token.LSS && ObjOf(info, be.X) == vobj && fvars[ObjOf(info, be.Y)]) {
							guarded = true
						}
					}
				}
			}
			if underHU && guarded {
				lower = as
			}
			return true
		})
		if lower == nil {
			c.Bad(key, f.Pos(), "when the receiver reports its highest complete chunk with the hash unknown, the comparison is switched off but the force-send index is not lowered to that chunk (`if F > V { F = V }` under the hash-unknown condition): "+
				"unless that chunk happens to be the file's last one it is skipped on the strength of the bitmap alone - a chunk torn by a power loss stays torn and both sides report success")
			continue
		}
		if extraCond != "" {
			c.Bad(key, lower.Pos(), "the lowering of the force-send index for a report with an unknown hash also depends on `"+extraCond+"`: where that does not hold (a file whose every chunk is marked) the chunk the receiver could not hash - and has withdrawn its claim on - "+
				"is neither compared nor sent again; FileEnd announces no frame for it, the receiver waits for it or keeps a torn chunk")
			continue
		}
		// nothing raises F between the lowering and the plan literal
		raised := ""
		InspectNoLits(f.Body, func(m ast.Node) bool {
			as, ok := m.(*ast.AssignStmt)
			if !ok || as.Pos() <= lower.End() || len(as.Lhs) != 1 || !fvars[ObjOf(info, as.Lhs[0])] {
				return true
			}
			// only a clamp from above (`if F > X { F = X }`) may follow
			raised = p.Pos(as.Pos())
			return true
		})
		c.Check(raised == "", key, lower.Pos(), "under the hash-unknown condition the force-send index is lowered to the reported chunk, and nothing changes it afterwards",
			"the force-send index is assigned again at "+raised+" after it was lowered to the unverifiable chunk: cannot show that the chunk is still inside the force-send range when the plan is built")
	}
	if n == 0 {
		c.Bad("unknown-forces/none", send.Pos(), "the sender no longer distinguishes a report with an unknown hash (no `LastVerifiedHash == resumeHashUnknown`)")
	}
}

// ---------------------------------------------------------------------------

func runSidecarCount(c *Ctx) {
	p := c.P
	f := p.Func("transfer.LoadSidecar")
	if f == nil {
		c.MissingAnchor("transfer.LoadSidecar")
		return
	}
	info := f.Info()
	cfg := f.CFG()
	n := 0
	for _, b := range cfg.Blocks {
		ret, ok := IsReturnExit(b)
		if !ok || !b.Live || len(ret.Results) != 2 {
			continue
		}
		// the success return: &Sidecar{...}
		var lit *ast.CompositeLit
		if u, ok := ast.Unparen(ret.Results[0]).(*ast.UnaryExpr); ok && u.Op == token.AND {
			lit, _ = ast.Unparen(u.X).(*ast.CompositeLit)
		}
		if lit == nil {
			continue
		}
		fld := map[string]ast.Expr{}
		for _, el := range lit.Elts {
			if kv, ok := el.(*ast.KeyValueExpr); ok {
				if k, ok := kv.Key.(*ast.Ident); ok {
					fld[k.Name] = kv.Value
				}
			}
		}
		tc, fs, cs := ObjOf(info, fld["TotalChunks"]), ObjOf(info, StripConv(info, fld["FileSize"])), ObjOf(info, StripConv(info, fld["ChunkSize"]))
		n++
		key := fmt.Sprintf("sidecar-count/return#%d", n)
		if tc == nil || fs == nil || cs == nil {
			c.Unknown(key, ret.Pos(), "cannot identify the count / sizes stored into the returned Sidecar")
			continue
		}
		spec := &PassSpec{Name: "sidecar-count", Vias: []Via{{Cond: func(g *FuncInfo, e ast.Expr) (string, bool, bool) {
			be, ok := ast.Unparen(e).(*ast.BinaryExpr)
			if !ok || (be.Op != token.NEQ && be.Op != token.EQL) {
				return "", false, false
			}
			x, y := be.X, be.Y
			if ObjOf(info, StripConv(info, x)) != tc {
				x, y = y, x
			}
			if ObjOf(info, StripConv(info, x)) != tc {
				return "", false, false
			}
			for _, d := range append([]ast.Expr{y}, resolveExprs(g, y, 1)...) {
				call, ok := ast.Unparen(StripConv(info, d)).(*ast.CallExpr)
				if !ok || len(call.Args) != 2 {
					continue
				}
				if h := p.CalleeInfo(info, call); h == nil || h.Name != "transfer.chunkTotal" {
					continue
				}
				if ObjOf(info, StripConv(info, call.Args[0])) != fs || ObjOf(info, StripConv(info, call.Args[1])) != cs {
					continue
				}
				return "count-agrees", be.Op == token.EQL, true
			}
			return "", false, false
		}}}}
		ref := NodeRef{b, len(b.Nodes) - 1}
		c.Check(spec.Passed(f, ref, "count-agrees"), key, ret.Pos(), "a sidecar is returned only when its stored count equals chunkTotal(stored size, stored chunk size)",
			"LoadSidecar returns metadata whose chunk count was never compared with ceil(file size / chunk size): with a stored count that is too low MarkCompleteIfUnset refuses every chunk above it, the receiver's remaining count never reaches 0 and both sides wait for ever; "+
				"with one that is too high the bitmap in the resume report does not have the length that goes with the count beside it")
	}
	if n == 0 {
		c.Bad("sidecar-count/none", f.Pos(), "LoadSidecar has no return of a &Sidecar{...} literal")
	}
}

// ---------------------------------------------------------------------------

func runAdmitLive(c *Ctx) {
	p := c.P
	hw := p.Func("cmd/thruserv.handleWebSocket")
	if hw == nil {
		c.MissingAnchor("cmd/thruserv.handleWebSocket")
		return
	}
	info := hw.Info()
	// the closure handed to Hub.AddIf
	var admit *FuncInfo
	InspectNoLits(hw.Body, func(m ast.Node) bool {
		call, ok := m.(*ast.CallExpr)
		if !ok {
			return true
		}
		if g := p.CalleeInfo(info, call); g != nil && g.Name == "peers.(*Hub).AddIf" && len(call.Args) >= 5 {
			switch a := ast.Unparen(call.Args[4]).(type) {
			case *ast.FuncLit:
				admit = p.LitInfo(a)
			case *ast.Ident:
				if v, ok := info.Uses[a].(*types.Var); ok {
					admit = p.ClosureOfVar(v)
				}
			}
		}
		return true
	})
	if admit == nil {
		c.Bad("admit-live/none", hw.Pos(), "handleWebSocket does not hand an admission test to Hub.AddIf")
		return
	}
	// the session resolved before the upgrade: first result of store.GetByJoinCode in handleWebSocket's own body
	isLookup := func(i *types.Info, call *ast.CallExpr) bool {
		fn := Callee(i, call)
		return fn != nil && fn.Pkg() != nil && fn.Pkg().Path() == RepoPkg("internal/session") && (fn.Name() == "GetByJoinCode" || fn.Name() == "Get")
	}
	var sessObj types.Object
	InspectNoLits(hw.Body, func(m ast.Node) bool {
		if as, ok := m.(*ast.AssignStmt); ok && len(as.Lhs) == 2 && len(as.Rhs) == 1 && sessObj == nil {
			if call, ok := ast.Unparen(as.Rhs[0]).(*ast.CallExpr); ok && isLookup(info, call) {
				sessObj = ObjOf(info, as.Lhs[0])
			}
		}
		return true
	})
	ainfo := admit.Info()
	var curObj, liveObj types.Object
	InspectNoLits(admit.Body, func(m ast.Node) bool {
		if as, ok := m.(*ast.AssignStmt); ok && len(as.Lhs) == 2 && len(as.Rhs) == 1 {
			if call, ok := ast.Unparen(as.Rhs[0]).(*ast.CallExpr); ok && isLookup(ainfo, call) {
				curObj, liveObj = ObjOf(ainfo, as.Lhs[0]), ObjOf(ainfo, as.Lhs[1])
			}
		}
		return true
	})
	spec := &PassSpec{Name: "admit-live", Vias: []Via{{Cond: func(g *FuncInfo, e ast.Expr) (string, bool, bool) {
		if liveObj != nil && ObjOf(ainfo, e) == liveObj {
			return "live", true, true
		}
		be, ok := ast.Unparen(e).(*ast.BinaryExpr)
		if !ok || (be.Op != token.EQL && be.Op != token.NEQ) {
			return "", false, false
		}
		idOf := func(x ast.Expr) types.Object {
			if sel, ok := ast.Unparen(x).(*ast.SelectorExpr); ok && sel.Sel.Name == "ID" {
				return ObjOf(ainfo, sel.X)
			}
			return nil
		}
		a, b := idOf(be.X), idOf(be.Y)
		if a != nil && b != nil && ((a == curObj && b == sessObj) || (a == sessObj && b == curObj)) && curObj != nil && sessObj != nil {
			return "same-session", be.Op == token.EQL, true
		}
		return "", false, false
	}}}}
	cfg := admit.CFG()
	k := 0
	for _, b := range cfg.Blocks {
		ret, ok := IsReturnExit(b)
		if !ok || !b.Live || len(ret.Results) != 1 {
			continue
		}
		if tv := ainfo.Types[ret.Results[0]]; tv.Value != nil && !constant.BoolVal(tv.Value) {
			continue
		}
		k++
		ref := NodeRef{b, len(b.Nodes) - 1}
		c.Check(spec.Passed(admit, ref, "live") && spec.Passed(admit, ref, "same-session"), fmt.Sprintf("admit-live/return#%d", k), ret.Pos(),
			"a peer is admitted only past a fresh look-up of the join code that yields the session resolved before the upgrade",
			"the admission test can admit a peer without having looked the join code up again (or without comparing the session it finds with the one resolved before the upgrade): a join that is in flight when the session expires or its host leaves "+
				"is inserted into a fresh hub entry for the dead session id, is not closed by the expiry, is kept alive by the pings, and can exchange messages with other late joiners under a code whose session is over")
	}
	if k == 0 {
		c.Bad("admit-live/none", admit.Pos(), "the admission test never admits")
	}
	// (delete-first) wherever a function body calls both Hub.CloseSession and Store.Delete, Delete comes first
	nd := 0
	for _, f := range p.FuncsIn("cmd/thruserv") {
		if f.Body == nil {
			continue
		}
		finfo := f.Info()
		var del, cls *ast.CallExpr
		InspectNoLits(f.Body, func(m ast.Node) bool {
			if call, ok := m.(*ast.CallExpr); ok {
				if g := p.CalleeInfo(finfo, call); g != nil {
					switch g.Name {
					case "session.(*Store).Delete":
						if del == nil {
							del = call
						}
					case "peers.(*Hub).CloseSession":
						if cls == nil {
							cls = call
						}
					}
				}
			}
			return true
		})
		if del == nil || cls == nil {
			continue
		}
		nd++
		cf := f.CFG()
		dr, cr := cf.Find(del.Pos()), cf.Find(cls.Pos())
		c.Check(dr.Valid() && cr.Valid() && cf.Dominates(dr, cr) && dr != cr, fmt.Sprintf("delete-first/%s#%d", f.Name, nd), cls.Pos(), "the store entry is deleted before the hub session is closed",
			"the hub session is closed before the session is deleted from the store: a join that passes the admission test between the two finds the session still in the store, is inserted after the close and outlives the session")
	}
	if nd == 0 {
		c.Bad("delete-first/none", hw.Pos(), "found no place where the server ends a session (Store.Delete together with Hub.CloseSession)")
	}
}

// ---------------------------------------------------------------------------

func runOneHost(c *Ctx) {
	p := c.P
	hw := p.Func("cmd/thruserv.handleWebSocket")
	if hw == nil {
		c.MissingAnchor("cmd/thruserv.handleWebSocket")
		return
	}
	info := hw.Info()
	var admit *FuncInfo
	InspectNoLits(hw.Body, func(m ast.Node) bool {
		if call, ok := m.(*ast.CallExpr); ok {
			if g := p.CalleeInfo(info, call); g != nil && g.Name == "peers.(*Hub).AddIf" && len(call.Args) >= 5 {
				switch a := ast.Unparen(call.Args[4]).(type) {
				case *ast.FuncLit:
					admit = p.LitInfo(a)
				case *ast.Ident:
					if v, ok := info.Uses[a].(*types.Var); ok {
						admit = p.ClosureOfVar(v)
					}
				}
			}
		}
		return true
	})
	if admit == nil || admit.Type.Params == nil || len(admit.Type.Params.List) == 0 {
		c.Bad("one-host/none", hw.Pos(), "handleWebSocket does not hand an admission test with the current peers to Hub.AddIf")
		return
	}
	ainfo := admit.Info()
	var curParam types.Object
	if ns := admit.Type.Params.List[0].Names; len(ns) > 0 {
		curParam = ainfo.Defs[ns[0]]
	}
	isStr := func(e ast.Expr, want string) bool {
		tv := ainfo.Types[e]
		return tv.Value != nil && tv.Value.Kind() == constant.String && constant.StringVal(tv.Value) == want
	}
	// if role == "sender" { for _, p := range current { if p.Role == "sender" { return false } } ... return }
	var block *ast.IfStmt
	InspectNoLits(admit.Body, func(m ast.Node) bool {
		is, ok := m.(*ast.IfStmt)
		if !ok || block != nil {
			return true
		}
		for _, a := range Implied(is.Cond, true) {
			if be, ok := ast.Unparen(a.E).(*ast.BinaryExpr); ok && a.Val && be.Op == token.EQL && (isStr(be.Y, "sender") || isStr(be.X, "sender")) {
				if _, isSel := ast.Unparen(be.X).(*ast.SelectorExpr); !isSel {
					block = is
				}
			}
		}
		return true
	})
	if block == nil {
		c.Bad("one-host/admit", admit.Pos(), "the admission test does not look at the sender role at all: any holder of the join code can join as a second host, outside the receivers-per-host limit, and keeps the code admitting peers after the host has left "+
			"(the session ends when the last connection with the sender role leaves)")
		return
	}
	refuses := false
	ast.Inspect(block.Body, func(m ast.Node) bool {
		rs, ok := m.(*ast.RangeStmt)
		if !ok || ObjOf(ainfo, rs.X) != curParam || curParam == nil {
			return true
		}
		elem := ObjOf(ainfo, rs.Value)
		ast.Inspect(rs.Body, func(x ast.Node) bool {
			is, ok := x.(*ast.IfStmt)
			if !ok {
				return true
			}
			match := false
			for _, a := range Implied(is.Cond, true) {
				if be, ok := ast.Unparen(a.E).(*ast.BinaryExpr); ok && a.Val && be.Op == token.EQL {
					if sel, ok := ast.Unparen(be.X).(*ast.SelectorExpr); ok && sel.Sel.Name == "Role" && ObjOf(ainfo, sel.X) == elem && isStr(be.Y, "sender") {
						match = true
					}
				}
			}
			if match {
				for _, st := range is.Body.List {
					if r, ok := st.(*ast.ReturnStmt); ok && len(r.Results) == 1 {
						if tv := ainfo.Types[r.Results[0]]; tv.Value != nil && !constant.BoolVal(tv.Value) {
							refuses = true
						}
					}
				}
			}
			return true
		})
		return true
	})
	// the branch does not fall through into the receiver test
	ends := false
	if n := len(block.Body.List); n > 0 {
		_, ends = block.Body.List[n-1].(*ast.ReturnStmt)
	}
	c.Check(refuses && ends, "one-host/admit", block.Pos(), "a peer with the sender role is refused while another connection with that role is among the current peers",
		"for a peer with the sender role the admission test does not refuse when a connection with that role is already in the session: a guest that calls itself a sender is admitted outside the receivers-per-host limit and keeps the join code alive after the host left")
}

// ---------------------------------------------------------------------------

func runMinStreams(c *Ctx) {
	p := c.P
	f := p.Func("transport.clampQuicMaxStreams")
	if f == nil {
		c.MissingAnchor("transport.clampQuicMaxStreams")
		return
	}
	info := f.Info()
	n := 0
	InspectNoLits(f.Body, func(m ast.Node) bool {
		is, ok := m.(*ast.IfStmt)
		if !ok {
			return true
		}
		be, ok := ast.Unparen(is.Cond).(*ast.BinaryExpr)
		if !ok || (be.Op != token.LSS && be.Op != token.LEQ) {
			return true
		}
		for _, st := range is.Body.List {
			r, ok := st.(*ast.ReturnStmt)
			if !ok || len(r.Results) != 1 {
				continue
			}
			tv := info.Types[r.Results[0]]
			if tv.Value == nil {
				continue
			}
			n++
			v, _ := constant.Int64Val(constant.ToInt(tv.Value))
			c.Check(v >= 2, "min-streams/lower-clamp", r.Pos(), fmt.Sprintf("the smallest accepted limit of incoming streams is %d", v),
				fmt.Sprintf("the QUIC tuning accepts a limit of %d incoming stream(s): the protocol needs the control stream and at least one data stream, so the sender waits for a data stream the receiver never allows while the receiver waits for the announcement of the data streams", v))
		}
		return true
	})
	if n == 0 {
		c.Bad("min-streams/none", f.Pos(), "clampQuicMaxStreams has no lower clamp to a constant")
	}
}

// ---------------------------------------------------------------------------

func runHeaderSymmetric(c *Ctx) {
	p := c.P
	rd, wr := p.Func("transfer.readControlHeader"), p.Func("transfer.writeControlHeader")
	if rd == nil || wr == nil {
		c.MissingAnchor("transfer.readControlHeader / transfer.writeControlHeader")
		return
	}
	isManifest := func(t types.Type) bool {
		return t != nil && strings.HasSuffix(types.Unalias(t).String(), "pkg/manifest.Manifest")
	}
	validatorsOn := func(f *FuncInfo) map[*FuncInfo]token.Pos {
		out := map[*FuncInfo]token.Pos{}
		info := f.Info()
		InspectNoLits(f.Body, func(m ast.Node) bool {
			call, ok := m.(*ast.CallExpr)
			if !ok || len(call.Args) != 1 || !isManifest(info.TypeOf(call.Args[0])) {
				return true
			}
			g := p.CalleeInfo(info, call)
			if g == nil || g.Decl == nil {
				return true
			}
			if sig, ok := g.Obj.Type().(*types.Signature); ok && sig.Results().Len() == 1 && isErrorType(sig.Results().At(0).Type()) {
				out[g] = call.Pos()
			}
			return true
		})
		return out
	}
	need, have := validatorsOn(rd), validatorsOn(wr)
	// the first write in the writer
	var firstWrite token.Pos = token.NoPos
	winfo := wr.Info()
	InspectNoLits(wr.Body, func(m ast.Node) bool {
		if call, ok := m.(*ast.CallExpr); ok && firstWrite == token.NoPos {
			if g := p.CalleeInfo(winfo, call); g != nil && strings.HasPrefix(g.Name, "transfer.write") && g != wr {
				firstWrite = call.Pos()
			}
		}
		return true
	})
	n := 0
	for g, pos := range need {
		n++
		wpos, ok := have[g]
		c.Check(ok && (firstWrite == token.NoPos || wpos < firstWrite), "header-symmetric/"+g.Name, pos, "the writer applies "+g.Name+" before it writes",
			"readControlHeader refuses a manifest through "+g.Name+" that writeControlHeader writes without that check: the encoder emits a header the peer decodes into an error (a path longer than the limit, an id or root with a separator), "+
				"the peer drops the connection and the sender learns nothing but that")
	}
	if n == 0 {
		c.Bad("header-symmetric/none", rd.Pos(), "readControlHeader applies no validator to the decoded manifest")
	}
}

// ---------------------------------------------------------------------------

func runURLNormalise(c *Ctx) {
	p := c.P
	n := 0
	for _, name := range []string{"clienthttp.CreateSession", "app.buildWebSocketURL"} {
		f := p.Func(name)
		if f == nil {
			c.MissingAnchor(name)
			continue
		}
		n++
		info := f.Info()
		found := false
		bareLit := ""
		InspectNoLits(f.Body, func(m ast.Node) bool {
			is, ok := m.(*ast.IfStmt)
			if !ok {
				return true
			}
			mentionsHTTP, bare := false, ""
			ast.Inspect(is.Cond, func(x ast.Node) bool {
				if bl, ok := x.(*ast.BasicLit); ok && bl.Kind == token.STRING && strings.HasPrefix(strings.Trim(bl.Value, "\"`"), "http") {
					mentionsHTTP = true
					// F63: the prefix that is tested is a scheme (`http://`), not the letters a host name may begin with
					if v := strings.Trim(bl.Value, "\"`"); !strings.HasSuffix(v, "://") {
						bare = v
					}
				}
				return true
			})
			if !mentionsHTTP {
				return true
			}
			// a separate test for the scheme separator in the same condition does the same job
			ast.Inspect(is.Cond, func(x ast.Node) bool {
				if bl, ok := x.(*ast.BasicLit); ok && bl.Kind == token.STRING && strings.Contains(bl.Value, "://") {
					bare = ""
				}
				return true
			})
			for _, st := range is.Body.List {
				as, ok := st.(*ast.AssignStmt)
				if !ok || len(as.Lhs) != 1 || len(as.Rhs) != 1 {
					continue
				}
				be, ok := ast.Unparen(as.Rhs[0]).(*ast.BinaryExpr)
				if !ok || be.Op != token.ADD {
					continue
				}
				if tv := info.Types[be.X]; tv.Value != nil && tv.Value.Kind() == constant.String && constant.StringVal(tv.Value) == "http://" && ObjOf(info, be.Y) == ObjOf(info, as.Lhs[0]) {
					found = true
					bareLit = bare
				}
			}
			return true
		})
		if found {
			c.Check(bareLit == "", "url-normalise/"+name+"/scheme", f.Pos(), "the prefix that is tested is a scheme with its separator",
				name+" takes a server URL that begins with `"+bareLit+"` for one that has a scheme: a host whose name starts with those letters (httpgw.internal:8080) gets no http:// in front, "+
					"session creation fails with an unsupported scheme and the websocket URL comes out as wsgw.internal:///ws")
		}
		c.Check(found, "url-normalise/"+name, f.Pos(), "a URL without the http prefix gets http:// in front",
			name+" does not put http:// in front of a server URL without a scheme, its sibling does: with --server-url localhost:8080 the session is created on the server, but the websocket URL built from the same string does not parse (or parses into scheme 'localhost'), "+
				"so the host cannot connect to the session it has just created")
	}
	c.Stat("url_builders", n)
}

// ---------------------------------------------------------------------------

func runPlanBeforeVerdict(c *Ctx) {
	p := c.P
	send := p.Func("transfer.SendManifestMultiStream")
	if send == nil {
		c.MissingAnchor("transfer.SendManifestMultiStream")
		return
	}
	n := 0
	for _, f := range allKids(send) {
		info := f.Info()
		cfg := f.CFG()
		cfg.EachNode(func(r NodeRef) {
			gs, ok := r.Node().(*ast.GoStmt)
			if !ok {
				return
			}
			lit, ok := ast.Unparen(gs.Call.Fun).(*ast.FuncLit)
			if !ok {
				return
			}
			hashes := false
			InspectNoLits(lit.Body, func(m ast.Node) bool {
				if call, ok := m.(*ast.CallExpr); ok {
					if g := p.CalleeInfo(info, call); g != nil && g.Name == "transfer.hashFileChunk" {
						hashes = true
					}
				}
				return true
			})
			if !hashes {
				return
			}
			n++
			key := fmt.Sprintf("plan-before-verdict/%s#%d", f.Name, n)
			installed := false
			cfg.EachNode(func(s NodeRef) {
				as, ok := s.Node().(*ast.AssignStmt)
				if !ok || len(as.Lhs) != 1 {
					return
				}
				if sel, ok := ast.Unparen(as.Lhs[0]).(*ast.SelectorExpr); ok && sel.Sel.Name == "plan" {
					if t := info.TypeOf(sel.X); t != nil && strings.HasSuffix(strings.TrimPrefix(t.String(), "*"), "transfer.sendFileState") && cfg.Dominates(s, r) {
						installed = true
					}
				}
			})
			c.Check(installed, key, gs.Pos(), "the plan is assigned to the file's state before the verification goroutine starts",
				"the goroutine that hashes the verified chunk is started before the resume plan is assigned to the file's state: when its verdict is in first (the report came late, the file is ready), "+
					"chunks are handed out without the plan although the report is known - present chunks are sent, and the chunk that failed verification goes out twice")
		})
	}
	if n == 0 {
		c.Bad("plan-before-verdict/none", send.Pos(), "found no verification goroutine (go func(){ ... hashFileChunk ... }) in the sender")
	}
}

// ---------------------------------------------------------------------------

func runLegacyTile(c *Ctx) {
	p := c.P
	root := p.Func("transfer.receiveFileChunksWindowed")
	if root == nil {
		c.MissingAnchor("transfer.receiveFileChunksWindowed")
		return
	}
	n := 0
	for _, f := range allKids(root) {
		info := f.Info()
		cfg := f.CFG()
		// the hand-off: a composite literal recvChunk{index: I, n: int(L), ...} assigned to a local that is sent on a channel
		var lit *ast.CompositeLit
		InspectNoLits(f.Body, func(m ast.Node) bool {
			if cl, ok := m.(*ast.CompositeLit); ok {
				if t := info.TypeOf(cl); t != nil && strings.HasSuffix(t.String(), "recvChunk") {
					lit = cl
				}
			}
			return true
		})
		if lit == nil {
			continue
		}
		var idxObj, lenObj types.Object
		for _, el := range lit.Elts {
			if kv, ok := el.(*ast.KeyValueExpr); ok {
				if k, ok := kv.Key.(*ast.Ident); ok {
					switch k.Name {
					case "index":
						idxObj = ObjOf(info, StripConv(info, kv.Value))
					case "n":
						lenObj = ObjOf(info, StripConv(info, kv.Value))
					}
				}
			}
		}
		n++
		key := fmt.Sprintf("legacy-tile/%s#%d", f.Name, n)
		if idxObj == nil || lenObj == nil {
			c.Unknown(key, lit.Pos(), "cannot identify the index / length of the chunk handed to the writer")
			continue
		}
		spec := &PassSpec{Name: "legacy-tile", Vias: []Via{{Cond: func(g *FuncInfo, e ast.Expr) (string, bool, bool) {
			gi := g.Info()
			switch x := ast.Unparen(e).(type) {
			case *ast.BinaryExpr:
				if x.Op == token.NEQ || x.Op == token.EQL {
					a, b := x.X, x.Y
					// seen != nil
					if id, ok := ast.Unparen(b).(*ast.Ident); ok && id.Name == "nil" {
						if t := gi.TypeOf(a); t != nil && strings.HasSuffix(t.String(), "transfer.Bitmap") {
							return "unique", x.Op == token.EQL, true
						}
					}
					if ObjOf(gi, StripConv(gi, a)) != lenObj {
						a, b = b, a
					}
					if ObjOf(gi, StripConv(gi, a)) == lenObj {
						for _, d := range append([]ast.Expr{b}, resolveExprs(g, b, 1)...) {
							if call, ok := ast.Unparen(d).(*ast.CallExpr); ok && len(call.Args) == 3 {
								if h := p.CalleeInfo(gi, call); h != nil && h.Name == "transfer.chunkSizeForIndex" && ObjOf(gi, StripConv(gi, call.Args[2])) == idxObj {
									return "len==tile", x.Op == token.EQL, true
								}
							}
						}
					}
				}
			case *ast.CallExpr:
				if sel, ok := ast.Unparen(x.Fun).(*ast.SelectorExpr); ok && sel.Sel.Name == "Get" && len(x.Args) == 1 && ObjOf(gi, StripConv(gi, x.Args[0])) == idxObj {
					if t := gi.TypeOf(sel.X); t != nil && strings.HasSuffix(t.String(), "transfer.Bitmap") {
						return "unique", false, true
					}
				}
			}
			return "", false, false
		}}}}
		spec.KillMatch = func(g *FuncInfo, nd ast.Node, id string) bool {
			for _, o := range AssignedObjs(g.Info(), nd) {
				if o == idxObj || o == lenObj {
					return true
				}
			}
			return false
		}
		ref := cfg.Find(lit.Pos())
		if !ref.Valid() {
			c.Unknown(key, lit.Pos(), "the hand-off is not a node of the function's flow graph")
			continue
		}
		c.Check(spec.Passed(f, ref, "len==tile"), key+"/len==tile", lit.Pos(), "a frame reaches the writer only with the length its index gives it",
			"the single-stream receiver hands a frame to the writer without having rejected a length other than chunkSizeForIndex(size, chunk size, index): a 10-byte frame for a 64-byte chunk is written and marked complete in the resume metadata (54 bytes never written), "+
				"and a full-size frame at the last index of a file with a short last chunk extends the file")
		c.Check(spec.Passed(f, ref, "unique"), key+"/unique", lit.Pos(), "without resume metadata no index is accepted twice",
			"the single-stream receiver accepts the same chunk index twice when no resume metadata is attached, where the sum of the lengths is its only test for completeness: two copies of chunk 0 of a two-chunk file add up to the file size and the file is acknowledged with its second half never written")
	}
	if n == 0 {
		c.Bad("legacy-tile/none", root.Pos(), "found no hand-off of a received chunk to the writer in receiveFileChunksWindowed")
	}
}

// ---------------------------------------------------------------------------

func runRegistryBalanced(c *Ctx) {
	p := c.P
	live := p.LiveFuncs()
	reg := p.LookupObj("internal/transfer", "globalSidecarFlushRegistry")
	if reg == nil {
		c.MissingAnchor("transfer.globalSidecarFlushRegistry")
		return
	}
	callsOn := func(f *FuncInfo, method string, lits bool) bool {
		hit := false
		walk := InspectNoLits
		if lits {
			walk = func(n ast.Node, fn func(ast.Node) bool) { ast.Inspect(n, func(m ast.Node) bool { return m == nil || fn(m) }) }
		}
		walk(f.Body, func(m ast.Node) bool {
			if call, ok := m.(*ast.CallExpr); ok {
				if sel, ok := ast.Unparen(call.Fun).(*ast.SelectorExpr); ok && sel.Sel.Name == method && ObjOf(f.Info(), sel.X) == reg {
					hit = true
				}
			}
			return true
		})
		return hit
	}
	roots := map[*FuncInfo]bool{}
	for _, f := range p.FuncsIn("internal/transfer") {
		if f.Body == nil || !(live[f] || live[f.Root()]) {
			continue
		}
		if callsOn(f, "add", false) {
			roots[f.Root()] = true
		}
	}
	n := 0
	for root := range roots {
		n++
		info := root.Info()
		cleaned := false
		InspectNoLits(root.Body, func(m ast.Node) bool {
			ds, ok := m.(*ast.DeferStmt)
			if !ok {
				return true
			}
			if lit, ok := ast.Unparen(ds.Call.Fun).(*ast.FuncLit); ok {
				if li := p.LitInfo(lit); li != nil && callsOn(li, "remove", true) {
					cleaned = true
				}
			}
			_ = info
			return true
		})
		// ... and takes out every one of them: in the clean-up's loop no path reaches the next iteration (or leaves the loop) without the remove (round 8)
		InspectNoLits(root.Body, func(m ast.Node) bool {
			ds, ok := m.(*ast.DeferStmt)
			if !ok {
				return true
			}
			lit, ok := ast.Unparen(ds.Call.Fun).(*ast.FuncLit)
			if !ok {
				return true
			}
			li := p.LitInfo(lit)
			if li == nil || !callsOn(li, "remove", true) {
				return true
			}
			isRemove := func(nd ast.Node) bool {
				hit := false
				InspectNoLits(nd, func(x ast.Node) bool {
					if call, ok := x.(*ast.CallExpr); ok {
						if sel, ok := ast.Unparen(call.Fun).(*ast.SelectorExpr); ok && sel.Sel.Name == "remove" && ObjOf(li.Info(), sel.X) == reg {
							hit = true
						}
					}
					return true
				})
				return hit
			}
			g := li.CFG()
			k := 0
			ast.Inspect(li.Body, func(x ast.Node) bool {
				var loop ast.Stmt
				var body *ast.BlockStmt
				switch l := x.(type) {
				case *ast.RangeStmt:
					loop, body = l, l.Body
				case *ast.ForStmt:
					loop, body = l, l.Body
				}
				if loop == nil {
					return true
				}
				has := false
				ast.Inspect(body, func(y ast.Node) bool {
					if st, ok := y.(ast.Stmt); ok && isRemove(st) {
						has = true
					}
					return true
				})
				if !has {
					return true
				}
				var start *cfg.Block
				for _, b := range g.Blocks {
					if b.Stmt == loop && (b.Kind == cfg.KindRangeBody || b.Kind == cfg.KindForBody) {
						start = b
					}
				}
				if start == nil {
					return true
				}
				k++
				stop := func(b *cfg.Block) bool {
					return b.Stmt == loop && (b.Kind == cfg.KindRangeLoop || b.Kind == cfg.KindForLoop || b.Kind == cfg.KindForPost || b.Kind == cfg.KindRangeDone || b.Kind == cfg.KindForDone)
				}
				c.Check(regionAllPathsHit(g, start, isRemove, stop, false), fmt.Sprintf("registry-balanced/%s/every#%d", root.Name, k), loop.Pos(), "every registered sidecar of the loop is taken out, whatever its last flush returned",
					"the deferred clean-up of "+root.Name+" can finish an iteration without taking the sidecar out of the flush registry (a `continue` on a failed flush, say): the object stays registered after the receive returned, dirty, naming the output's metadata path; "+
						"when the process receives the file again after the partial output was removed, the next flush of the registry (signal handler) writes the old bitmap over the fresh metadata - marks for chunks of a file of zeros")
				return false
			})
			return true
		})
		c.Check(cleaned, "registry-balanced/"+root.Name, root.Pos(), "a deferred clean-up takes what was registered out of the flush registry",
			root.Name+" registers sidecars for the process-wide flush (the signal handler) and has no deferred clean-up that removes them: after a receive that ended with an error the sidecars of its unfinished files stay registered; "+
				"when the process receives such a file again after its partial output was removed, the next flush of the registry writes the old bitmap over the fresh metadata - marks for chunks of a file of zeros")
	}
	if n == 0 {
		c.Bad("registry-balanced/none", token.NoPos, "no live function registers a sidecar with globalSidecarFlushRegistry")
	}
}

// ---------------------------------------------------------------------------

func runOpenFilesBounded(c *Ctx) {
	p := c.P
	recv := p.Func("transfer.RecvManifestMultiStream")
	if recv == nil {
		c.MissingAnchor("transfer.RecvManifestMultiStream")
		return
	}
	var hfb, fin *FuncInfo
	for _, k := range allKids(recv) {
		if strings.HasSuffix(k.Name, "$handleFileBegin") {
			hfb = k
		}
		if strings.HasSuffix(k.Name, "$finalizeFile") {
			fin = k
		}
	}
	if hfb == nil || fin == nil {
		c.MissingAnchor("RecvManifestMultiStream$handleFileBegin / $finalizeFile")
		return
	}
	rinfo := recv.Info()
	// the counter of open files: the variable handleFileBegin increments and finalizeFile decrements
	var counter types.Object
	InspectNoLits(hfb.Body, func(m ast.Node) bool {
		if s, ok := m.(*ast.IncDecStmt); ok && s.Tok == token.INC {
			counter = ObjOf(hfb.Info(), s.X)
		}
		return true
	})
	// the announced number of data streams: the variable the receiver's wait loop `for X == 0` runs on
	var streams types.Object
	InspectNoLits(recv.Body, func(m ast.Node) bool {
		if fs, ok := m.(*ast.ForStmt); ok && fs.Cond != nil && streams == nil {
			if be, ok := ast.Unparen(fs.Cond).(*ast.BinaryExpr); ok && be.Op == token.EQL {
				if tv := rinfo.Types[be.Y]; tv.Value != nil && constant.Sign(tv.Value) == 0 {
					streams = ObjOf(rinfo, be.X)
				}
			}
		}
		return true
	})
	if counter == nil || streams == nil {
		c.Unknown("open-files/bounded", hfb.Pos(), "cannot identify the counter of open files / the announced number of data streams")
		return
	}
	hinfo := hfb.Info()
	derived := map[types.Object]bool{counter: true}
	InspectNoLits(hfb.Body, func(m ast.Node) bool {
		if as, ok := m.(*ast.AssignStmt); ok && len(as.Lhs) == 1 && len(as.Rhs) == 1 && ObjOf(hinfo, as.Rhs[0]) == counter {
			if o := ObjOf(hinfo, as.Lhs[0]); o != nil {
				derived[o] = true
			}
		}
		return true
	})
	spec := &PassSpec{Name: "open-files", Vias: []Via{{Cond: func(g *FuncInfo, e ast.Expr) (string, bool, bool) {
		be, ok := ast.Unparen(e).(*ast.BinaryExpr)
		if !ok {
			return "", false, false
		}
		switch {
		case be.Op == token.GEQ && derived[ObjOf(hinfo, be.X)] && ObjOf(hinfo, be.Y) == streams:
			return "open-bounded", false, true
		case be.Op == token.LSS && derived[ObjOf(hinfo, be.X)] && ObjOf(hinfo, be.Y) == streams:
			return "open-bounded", true, true
		case be.Op == token.LEQ && ObjOf(hinfo, be.X) == streams && derived[ObjOf(hinfo, be.Y)]:
			return "open-bounded", false, true
		}
		return "", false, false
	}}}}
	n := 0
	hfb.CFG().Calls(func(r NodeRef, call *ast.CallExpr) {
		g := p.CalleeInfo(hinfo, call)
		if g == nil || !(g.Name == "transfer.NewBitmap" || strings.HasPrefix(g.Name, "transfer.LoadOrCreateSidecar") || g.Name == "transfer.CreateSidecar") {
			return
		}
		n++
		c.Check(spec.Passed(hfb, r, "open-bounded"), fmt.Sprintf("open-files/reserve#%d/%s", n, g.Name), call.Pos(), "the reservation is made only while fewer files are open than there are data streams",
			"handleFileBegin reserves per-file memory ("+g.Name+": up to 8 MiB of bitmap, plus an output file of the announced size) without a bound on the number of files begun and not finished: a peer begins file after file with 40-byte records, "+
				"8 MiB each, linear in the number of manifest entries - far out of proportion to the bytes received")
	})
	if n == 0 {
		c.Bad("open-files/none", hfb.Pos(), "handleFileBegin makes no per-file reservation (NewBitmap / sidecar)")
	}
	// (counted-before-visible, F57b) the increment of the counter dominates the registration that makes the file visible to the data-stream
	// readers (the store into the state map): a reader can finish a one-chunk file - and decrement - before handleFileBegin is through
	{
		hcfg := hfb.CFG()
		var inc, reg NodeRef
		hcfg.EachNode(func(r NodeRef) {
			switch s := r.Node().(type) {
			case *ast.IncDecStmt:
				if s.Tok == token.INC && ObjOf(hinfo, s.X) == counter && !inc.Valid() {
					inc = r
				}
			case *ast.AssignStmt:
				if len(s.Lhs) == 1 && len(s.Rhs) == 1 && !reg.Valid() {
					if ix, ok := ast.Unparen(s.Lhs[0]).(*ast.IndexExpr); ok {
						if t := hinfo.TypeOf(ix.X); t != nil && strings.Contains(t.String(), "recvFileStateMux") {
							reg = r
						}
					}
				}
			}
		})
		if !inc.Valid() || !reg.Valid() {
			c.Unknown("open-files/counted-before-visible", hfb.Pos(), "cannot find the increment of the open-file counter / the registration of the file's state in handleFileBegin")
		} else {
			// `if open < streams { counter++ }`: the guard stands for the increment
			anchor := inc
			InspectNoLits(hfb.Body, func(m ast.Node) bool {
				is, ok := m.(*ast.IfStmt)
				if ok && is.Else == nil && len(is.Body.List) == 1 && is.Body.Pos() <= inc.Node().Pos() && inc.Node().End() <= is.Body.End() {
					if g := hcfg.Find(is.Cond.Pos()); g.Valid() {
						anchor = g
					}
				}
				return true
			})
			c.Check(hcfg.Dominates(anchor, reg), "open-files/counted-before-visible", inc.Node().Pos(), "the file counts as open before its state is registered",
				"handleFileBegin registers the file's state (visible to the data-stream readers) before it counts the file as open: a reader that holds the only chunk of the file can finish it and decrement the counter - clamped at zero - before the increment, "+
					"the counter stays one too high for the rest of the transfer and the next FileBegin of a correct sender is refused")
		}
	}
	// finalizeFile: the decrement dominates the queueing of the acknowledgement
	finfo := fin.Info()
	fcfg := fin.CFG()
	var dec, ack NodeRef
	fcfg.EachNode(func(r NodeRef) {
		switch s := r.Node().(type) {
		case *ast.IncDecStmt:
			if s.Tok == token.DEC && ObjOf(finfo, s.X) == counter && !dec.Valid() {
				dec = r
			}
		}
	})
	// `if counter > 0 { counter-- }`: the guard stands for the decrement
	if dec.Valid() {
		InspectNoLits(fin.Body, func(m ast.Node) bool {
			is, ok := m.(*ast.IfStmt)
			if !ok || is.Else != nil || !(is.Body.Pos() <= dec.Node().Pos() && dec.Node().End() <= is.Body.End()) || len(is.Body.List) != 1 {
				return true
			}
			if be, ok := ast.Unparen(is.Cond).(*ast.BinaryExpr); ok && be.Op == token.GTR && ObjOf(finfo, be.X) == counter {
				if tv := finfo.Types[be.Y]; tv.Value != nil && constant.Sign(tv.Value) == 0 {
					if g := fcfg.Find(is.Cond.Pos()); g.Valid() {
						dec = g
					}
				}
			}
			return true
		})
	}
	if qn := ackQueueNode(p, fin, "done"); qn != nil {
		ack = fcfg.Find(qn.Pos())
	}
	if !dec.Valid() || !ack.Valid() {
		c.Unknown("open-files/closed-before-ack", fin.Pos(), "cannot find the decrement of the open-file counter / the queueing of FileDone in finalizeFile")
		return
	}
	c.Check(fcfg.Dominates(dec, ack), "open-files/closed-before-ack", dec.Node().Pos(), "a file stops counting as open before its acknowledgement is queued",
		"finalizeFile queues the acknowledgement of a file before it takes the file out of the count of open files: the sender begins its next file as soon as it sees the acknowledgement, "+
			"and that FileBegin can find the count still at its limit and is refused - a correct sender fails at random")
}

// ---------------------------------------------------------------------------

func runNameReserved(c *Ctx) {
	p := c.P
	sp := p.Func("transfer.SidecarPath")
	vr := p.Func("transfer.validateRelPath")
	if sp == nil || vr == nil {
		c.MissingAnchor("transfer.SidecarPath / transfer.validateRelPath")
		return
	}
	// (reserved) the metadata directory: filepath.Join(<output dir>, ..., <constant name>) where the name is a legal path segment
	info := sp.Info()
	found := false
	InspectNoLits(sp.Body, func(m ast.Node) bool {
		call, ok := m.(*ast.CallExpr)
		if !ok || !calleeIs(info, call, "path/filepath", "Join") {
			return true
		}
		for _, a := range call.Args[1:] {
			tv := info.Types[a]
			if tv.Value == nil || tv.Value.Kind() != constant.String {
				continue
			}
			name := constant.StringVal(tv.Value)
			if name != "" && name != ".." && name != "." && !strings.ContainsAny(name, "/\x00") {
				found = true
				c.Bad("reserved/transfer.SidecarPath", call.Pos(), "the resume metadata lives in the directory `"+name+"` directly under the output directory, a name a top-level manifest item may carry")
			}
		}
		return true
	})
	if !found {
		c.OK("reserved/transfer.SidecarPath", sp.Pos(), "the metadata directory does not take a legal item name inside the output tree")
	}
	// (backslash) validateRelPath gives '\\' the meaning of a separator
	vinfo := vr.Info()
	bs := token.NoPos
	ast.Inspect(vr.Body, func(m ast.Node) bool {
		if bl, ok := m.(*ast.BasicLit); ok && (bl.Kind == token.CHAR || bl.Kind == token.STRING) {
			if tv := vinfo.Types[bl]; tv.Value != nil {
				switch tv.Value.Kind() {
				case constant.Int:
					if v, ok := constant.Int64Val(tv.Value); ok && v == '\\' {
						bs = bl.Pos()
					}
				case constant.String:
					if constant.StringVal(tv.Value) == "\\" {
						bs = bl.Pos()
					}
				}
			}
		}
		return true
	})
	if bs != token.NoPos {
		c.Bad("backslash/transfer.validateRelPath", bs, "validateRelPath splits relative paths at backslashes as well as at slashes before it looks for `..` segments")
	} else {
		c.OK("backslash/transfer.validateRelPath", vr.Pos(), "only the slash separates path segments")
	}
}

// ---------------------------------------------------------------------------

func runResumeGrace(c *Ctx) {
	p := c.P
	send := p.Func("transfer.SendManifestMultiStream")
	if send == nil {
		c.MissingAnchor("transfer.SendManifestMultiStream")
		return
	}
	n := 0
	for _, f := range allKids(send) {
		info := f.Info()
		// timers made from a constant duration
		constTimers := map[types.Object]string{}
		InspectNoLits(f.Body, func(m ast.Node) bool {
			as, ok := m.(*ast.AssignStmt)
			if !ok || len(as.Lhs) != 1 || len(as.Rhs) != 1 {
				return true
			}
			call, ok := ast.Unparen(as.Rhs[0]).(*ast.CallExpr)
			if !ok || !calleeIs(info, call, "time", "NewTimer") || len(call.Args) != 1 {
				return true
			}
			if tv := info.Types[call.Args[0]]; tv.Value != nil {
				if o := ObjOf(info, as.Lhs[0]); o != nil {
					constTimers[o] = types.ExprString(call.Args[0])
				}
			}
			return true
		})
		if len(constTimers) == 0 {
			continue
		}
		InspectNoLits(f.Body, func(m ast.Node) bool {
			cc, ok := m.(*ast.CommClause)
			if !ok || cc.Comm == nil {
				return true
			}
			es, ok := cc.Comm.(*ast.ExprStmt)
			if !ok {
				return true
			}
			u, ok := ast.Unparen(es.X).(*ast.UnaryExpr)
			if !ok || u.Op != token.ARROW {
				return true
			}
			sel, ok := ast.Unparen(u.X).(*ast.SelectorExpr)
			if !ok || sel.Sel.Name != "C" {
				return true
			}
			dur, isConst := constTimers[ObjOf(info, sel.X)]
			if !isConst {
				return true
			}
			releases := false
			for _, st := range cc.Body {
				ast.Inspect(st, func(x ast.Node) bool {
					if call, ok := x.(*ast.CallExpr); ok {
						if s2, ok := ast.Unparen(call.Fun).(*ast.SelectorExpr); ok && s2.Sel.Name == "setReady" && len(call.Args) == 1 {
							if tv := info.Types[call.Args[0]]; tv.IsNil() {
								releases = true
							}
						}
					}
					return true
				})
			}
			if releases {
				n++
				c.Bad(fmt.Sprintf("grace/%s#%d", f.Name, n), cc.Pos(), "after the fixed period "+dur+" the file is released to the workers without the receiver's resume report")
			}
			return true
		})
	}
	if n == 0 {
		c.OK("grace/none", send.Pos(), "no file is released to the workers on a fixed timer before the resume report")
	}
}
