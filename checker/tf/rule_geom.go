package tf

import (
	"fmt"
	"go/ast"
	"go/token"
	"go/types"
	"strings"
)

// R-GEOM / R-OFFSET / R-TILE: agreement of the separately written chunk-geometry
// expressions, by role ("kind") inference plus normal-form matching.

func init() {
	Register(&Rule{
		Name:  "R-GEOM",
		Props: []string{"C19", "C01"},
		Min:   6,
		Doc: "every division whose divisor carries a chunk size is the ceiling form (size + chunk - 1) / chunk with the file size as dividend, " +
			"the same chunk-size value in numerator and denominator, computed in 64-bit arithmetic; a variable holding such a count is otherwise " +
			"only assigned the constant 0 (no post-adjustment); no variable, field or parameter carries two different geometric roles",
		Run: runGeom,
	})
	Register(&Rule{
		Name:  "R-OFFSET",
		Props: []string{"C19", "C01", "C05"},
		Min:   7,
		Doc: "every product involving a chunk size (a byte offset) multiplies exactly one chunk-size value by an index, with both operands " +
			"converted to 64 bits before the multiplication",
		Run: runOffset,
	})
	Register(&Rule{
		Name:  "R-TILE",
		Props: []string{"C19", "C01", "C15"},
		Min:   3,
		Doc: "a remaining-bytes value (size - offset) is narrowed to a chunk length only on a branch where it was compared smaller than the chunk size; " +
			"in the multiplexed receiver the positional write is dominated by the rejection of chunkLen > chunkSize, of chunkIndex >= totalChunks and of chunkLen != chunkSizeForIndex(size, chunkSize, index) (F42), " +
			"and its offset is index*chunkSize of the same file state",
		Run: runTile,
	})
}

func geomKinds(c *Ctx) *KindEnv {
	p := c.P
	seeds := map[types.Object]string{}
	seed := func(rel, name, kind string) {
		o := p.LookupObj(rel, name)
		if o == nil {
			c.MissingAnchor(rel + "." + name)
			return
		}
		seeds[o] = kind
	}
	seed("internal/transfer", "FileBegin.FileSize", "size")
	seed("internal/transfer", "Sidecar.FileSize", "size")
	seed("pkg/manifest", "FileItem.Size", "size")
	seed("internal/transfer", "FileBegin.ChunkSize", "chunk")
	seed("internal/transfer", "Sidecar.ChunkSize", "chunk")
	seed("internal/transfer", "Options.ChunkSize", "chunk")
	seed("internal/transfer", "RuntimeParams.ChunkSize", "chunk")
	if f := p.Func("transfer.chunkPoolFor"); f != nil && f.Type.Params.NumFields() == 1 {
		seeds[f.Info().Defs[f.Type.Params.List[0].Names[0]]] = "chunk"
	} else {
		c.MissingAnchor("transfer.chunkPoolFor(chunkSize)")
	}
	fseeds := map[*types.Func]string{}
	if f := p.transferFunc("chunkTotal"); f != nil {
		fseeds[f] = "count"
	} else {
		c.MissingAnchor("transfer.chunkTotal")
	}
	return p.InferKinds([]string{"internal/transfer"}, seeds, fseeds)
}

func exprEq(a, b ast.Expr) bool { return types.ExprString(a) == types.ExprString(b) }

func runGeom(c *Ctx) {
	p := c.P
	k := geomKinds(c)
	for _, f := range p.FuncsIn("internal/transfer") {
		info := f.Info()
		n := 0
		InspectNoLits(f.Body, func(nd ast.Node) bool {
			if _, ok := nd.(*ast.FuncLit); ok {
				return false
			}
			q, ok := nd.(*ast.BinaryExpr)
			if !ok || (q.Op != token.QUO && q.Op != token.REM) {
				return true
			}
			dk := k.Of(info, q.Y)
			if dk != "chunk" {
				return true
			}
			n++
			key := fmt.Sprintf("chunk-count/%s#%d", f.Name, n)
			c.Stat("geometry_expressions", 1)
			s, cc, d, isCeil := ceilDivParts(info, q)
			if !isCeil {
				c.Bad(key, q.Pos(), "division by a chunk size that is not the ceiling form (size + chunk - 1) / chunk: "+types.ExprString(q))
				return true
			}
			var probs []string
			if sk := k.Of(info, s); sk != "size" {
				probs = append(probs, fmt.Sprintf("dividend %s does not carry a file size (role %q)", types.ExprString(s), sk))
			}
			if !exprEq(StripConv(info, cc), StripConv(info, d)) {
				probs = append(probs, fmt.Sprintf("rounding term %s and divisor %s are different values", types.ExprString(cc), types.ExprString(d)))
			}
			add := ast.Unparen(ast.Unparen(q.X).(*ast.BinaryExpr).X)
			if !isInt64ish(info.TypeOf(add)) || !isInt64ish(info.TypeOf(q)) {
				probs = append(probs, "the sum or quotient is not computed in 64-bit arithmetic: "+info.TypeOf(add).String())
			}
			if len(probs) > 0 {
				c.Bad(key, q.Pos(), strings.Join(probs, "; "))
			} else {
				c.OK(key, q.Pos(), "ceil(size/chunk) in 64-bit: "+types.ExprString(q))
			}
			return true
		})
	}
	// post-adjustment: locals that receive a count are otherwise only assigned 0
	for _, f := range p.FuncsIn("internal/transfer") {
		info := f.Info()
		countVars := map[types.Object]token.Pos{}
		type asg struct {
			rhs ast.Expr
			pos token.Pos
		}
		all := map[types.Object][]asg{}
		InspectNoLits(f.Body, func(nd ast.Node) bool {
			if _, ok := nd.(*ast.FuncLit); ok {
				return false
			}
			var lhs, rhs []ast.Expr
			switch s := nd.(type) {
			case *ast.AssignStmt:
				if len(s.Lhs) == len(s.Rhs) {
					lhs, rhs = s.Lhs, s.Rhs
				}
			case *ast.ValueSpec:
				if len(s.Names) == len(s.Values) {
					for _, nm := range s.Names {
						lhs = append(lhs, nm)
					}
					rhs = s.Values
				}
			}
			for i := range lhs {
				o := ObjOf(info, lhs[i])
				if o == nil {
					continue
				}
				all[o] = append(all[o], asg{rhs[i], rhs[i].Pos()})
				if q, ok := StripConv(info, rhs[i]).(*ast.BinaryExpr); ok {
					if _, _, _, isCeil := ceilDivParts(info, q); isCeil && k.Of(info, q.Y) == "chunk" {
						countVars[o] = rhs[i].Pos()
					}
				}
			}
			return true
		})
		for o, pos := range countVars {
			key := fmt.Sprintf("count-adjust/%s.%s", f.Name, o.Name())
			var bad []string
			for _, a := range all[o] {
				if a.pos == pos {
					continue
				}
				tv := info.Types[a.rhs]
				if tv.Value != nil && tv.Value.ExactString() == "0" {
					continue
				}
				if kk := k.Of(info, a.rhs); kk == "count" {
					continue
				}
				bad = append(bad, fmt.Sprintf("%s = %s at %s", o.Name(), types.ExprString(a.rhs), p.Pos(a.pos)))
			}
			if len(bad) > 0 {
				c.Bad(key, pos, "chunk count is adjusted after the ceiling division, so this site disagrees with the others for some sizes: "+strings.Join(bad, "; "))
			} else {
				c.OK(key, pos, "count variable only receives the ceiling division or 0")
			}
		}
	}
	// role collisions
	for o, kind := range k.kind {
		if kind != "mixed" || o.Pkg() == nil || o.Pkg().Path() != RepoPkg("internal/transfer") {
			continue
		}
		if v, ok := o.(*types.Var); ok && !v.IsField() && p.isParam(v) {
			continue // parameters of generic helpers (codec primitives, pools) legitimately see several roles
		}
		owner := ""
		if f := p.enclosingFuncName(o.Pos()); f != "" {
			owner = f + "."
		}
		c.Bad("role-collision/"+owner+o.Name(), o.Pos(), "this variable/field/parameter receives values of two different geometric roles (e.g. a chunk size and a chunk count, or a size and an offset)")
	}
}

func (p *Program) enclosingFuncName(pos token.Pos) string {
	best := ""
	var bestLen token.Pos = -1
	for _, f := range p.Funcs() {
		var s, e token.Pos
		if f.Decl != nil {
			s, e = f.Decl.Pos(), f.Decl.End()
		} else {
			s, e = f.Lit.Pos(), f.Lit.End()
		}
		if s <= pos && pos < e && (bestLen < 0 || e-s < bestLen) {
			best, bestLen = f.Name, e-s
		}
	}
	return best
}

func isUint32(t types.Type) bool {
	b, ok := t.Underlying().(*types.Basic)
	return ok && (b.Kind() == types.Uint32 || b.Kind() == types.Int32)
}

func runOffset(c *Ctx) {
	p := c.P
	k := geomKinds(c)
	for _, f := range p.FuncsIn("internal/transfer") {
		info := f.Info()
		n := 0
		InspectNoLits(f.Body, func(nd ast.Node) bool {
			if _, ok := nd.(*ast.FuncLit); ok {
				return false
			}
			m, ok := nd.(*ast.BinaryExpr)
			if !ok || m.Op != token.MUL {
				return true
			}
			if tv := info.Types[m.X]; tv.Value != nil {
				return true
			}
			if tv := info.Types[m.Y]; tv.Value != nil {
				return true
			}
			lk, rk := k.Of(info, m.X), k.Of(info, m.Y)
			ls, rs := StripConv(info, m.X), StripConv(info, m.Y)
			lt, rt := info.TypeOf(ls), info.TypeOf(rs)
			if lk != "chunk" && rk != "chunk" && !(isUint32(lt) && isUint32(rt)) {
				return true
			}
			n++
			key := fmt.Sprintf("offset/%s#%d", f.Name, n)
			var probs []string
			if !isInt64ish(info.TypeOf(m)) {
				probs = append(probs, "multiplication is performed in "+info.TypeOf(m).String()+" and wraps for offsets >= 4 GiB")
			}
			if isInt64ish(info.TypeOf(m)) && (!isInt64ish(info.TypeOf(m.X)) || !isInt64ish(info.TypeOf(m.Y))) {
				probs = append(probs, "operand not widened before the multiplication")
			}
			// int64(a*b): the inner product is what we are looking at; outer conversions are irrelevant
			if (lk == "chunk") == (rk == "chunk") {
				probs = append(probs, fmt.Sprintf("exactly one operand must be a chunk size (roles: %q * %q)", lk, rk))
			}
			if len(probs) > 0 {
				c.Bad(key, m.Pos(), types.ExprString(m)+": "+strings.Join(probs, "; "))
			} else {
				c.OK(key, m.Pos(), "index * chunkSize in 64-bit: "+types.ExprString(m))
			}
			return true
		})
	}
}

func cmpOrient(op token.Token) (lessLeft bool, ok bool) {
	switch op {
	case token.LSS, token.LEQ:
		return true, true
	case token.GTR, token.GEQ:
		return false, true
	}
	return false, false
}

func runTile(c *Ctx) {
	p := c.P
	k := geomKinds(c)
	// (1) rem narrowed only under rem < chunk
	spec := &PassSpec{Name: "rem<chunk", Vias: []Via{{Cond: func(f *FuncInfo, e ast.Expr) (string, bool, bool) {
		be, ok := ast.Unparen(e).(*ast.BinaryExpr)
		if !ok {
			return "", false, false
		}
		lessLeft, ok := cmpOrient(be.Op)
		if !ok {
			return "", false, false
		}
		info := f.Info()
		lk, rk := k.Of(info, be.X), k.Of(info, be.Y)
		switch {
		case lk == "rem" && (rk == "chunk" || rk == "len"):
			return "rem<chunk:" + types.ExprString(StripConv(info, be.X)), lessLeft, true
		case (lk == "chunk" || lk == "len") && rk == "rem":
			return "rem<chunk:" + types.ExprString(StripConv(info, be.Y)), !lessLeft, true
		}
		return "", false, false
	}}}}
	for _, f := range p.FuncsIn("internal/transfer") {
		info := f.Info()
		cfg := f.CFG()
		n := 0
		cfg.EachNode(func(r NodeRef) {
			InspectNoLits(r.Node(), func(nd ast.Node) bool {
				if _, ok := nd.(*ast.FuncLit); ok {
					return false
				}
				call, ok := nd.(*ast.CallExpr)
				if !ok || len(call.Args) != 1 {
					return true
				}
				tv, ok := info.Types[call.Fun]
				if !ok || !tv.IsType() || !isUint32(tv.Type) {
					return true
				}
				if k.Of(info, call.Args[0]) != "rem" {
					return true
				}
				n++
				key := fmt.Sprintf("narrow-rem/%s#%d", f.Name, n)
				id := "rem<chunk:" + types.ExprString(StripConv(info, call.Args[0]))
				if spec.Passed(f, r, id) {
					c.OK(key, call.Pos(), "remaining bytes narrowed to a chunk length under the guard remaining < chunkSize")
				} else {
					c.Bad(key, call.Pos(), "remaining bytes ("+types.ExprString(call.Args[0])+") narrowed to 32 bits without a dominating comparison against the chunk size: the tail chunk length can exceed the chunk size or truncate",
						"facts here: "+strings.Join(spec.PassedList(f, r), ", "))
				}
				return true
			})
		})
	}
	// chunkSizeForIndex: every non-zero return is the chunk size or the narrowed remainder
	if f := p.Func("transfer.chunkSizeForIndex"); f != nil {
		info := f.Info()
		cfg := f.CFG()
		i := 0
		for _, b := range cfg.Blocks {
			ret, ok := IsReturnExit(b)
			if !ok || len(ret.Results) != 1 {
				continue
			}
			i++
			e := ret.Results[0]
			key := fmt.Sprintf("chunk-len-return/chunkSizeForIndex#%d", i)
			tv := info.Types[e]
			switch {
			case tv.Value != nil && tv.Value.ExactString() == "0":
				c.OKTrivial(key, e.Pos(), "returns 0 (guard path)")
			case k.Of(info, e) == "chunk":
				// must be on the branch where remaining >= chunk, i.e. NOT (rem < chunk)
				c.OK(key, e.Pos(), "returns the full chunk size")
			case k.Of(info, e) == "rem":
				c.OK(key, e.Pos(), "returns the narrowed remainder (guard checked by narrow-rem)")
			default:
				c.Bad(key, e.Pos(), "chunkSizeForIndex returns "+types.ExprString(e)+", which is neither 0, the chunk size, nor size-offset")
			}
		}
	} else {
		c.MissingAnchor("transfer.chunkSizeForIndex")
	}

	// (2) receiver bounds before the positional write in the multiplexed reader
	recv := p.Func("transfer.RecvManifestMultiStream")
	wfn := p.transferFunc("writeAtWithTimeout")
	if recv == nil || wfn == nil {
		c.MissingAnchor("transfer.RecvManifestMultiStream / writeAtWithTimeout")
		return
	}
	var visit func(f *FuncInfo)
	found := 0
	visit = func(f *FuncInfo) {
		info := f.Info()
		f.CFG().Calls(func(r NodeRef, call *ast.CallExpr) {
			if Callee(info, call) != wfn || len(call.Args) < 4 {
				return
			}
			found++
			key := "write-bounds/" + f.Name
			// length: buf[:L]
			sl, ok := ast.Unparen(call.Args[2]).(*ast.SliceExpr)
			if !ok || sl.High == nil {
				c.Unknown(key, call.Pos(), "data argument is not of the form buf[:len]")
				return
			}
			lenObj := ObjOf(info, sl.High)
			// offset: local defined once as int64(idx)*int64(chunk)
			offObj := ObjOf(info, call.Args[3])
			var idxExpr, chunkExpr ast.Expr
			if offObj != nil {
				InspectNoLits(f.Body, func(nd ast.Node) bool {
					if as, ok := nd.(*ast.AssignStmt); ok && len(as.Lhs) == 1 && len(as.Rhs) == 1 && ObjOf(info, as.Lhs[0]) == offObj {
						if m, ok := StripConv(info, as.Rhs[0]).(*ast.BinaryExpr); ok && m.Op == token.MUL {
							if k.Of(info, m.Y) == "chunk" {
								idxExpr, chunkExpr = StripConv(info, m.X), StripConv(info, m.Y)
							} else if k.Of(info, m.X) == "chunk" {
								idxExpr, chunkExpr = StripConv(info, m.Y), StripConv(info, m.X)
							}
						}
					}
					return true
				})
			}
			if lenObj == nil || idxExpr == nil {
				c.Unknown(key, call.Pos(), "cannot identify the chunk length / index feeding the write (offset must be a local defined as index*chunkSize)")
				return
			}
			idxObj := ObjOf(info, idxExpr)
			bspec := &PassSpec{Name: "bounds", Vias: []Via{{Cond: func(g *FuncInfo, e ast.Expr) (string, bool, bool) {
				// accept `X > bound`, `X >= bound` (pass on false), also as right conjunct of `guard && X >= bound`
				gi := g.Info()
				var atoms []ast.Expr
				atoms = append(atoms, e)
				if be, ok := ast.Unparen(e).(*ast.BinaryExpr); ok && be.Op == token.LAND {
					atoms = append(atoms, be.Y)
				}
				for _, a := range atoms {
					be, ok := ast.Unparen(a).(*ast.BinaryExpr)
					if !ok {
						continue
					}
					if be.Op != token.GTR && be.Op != token.GEQ {
						continue
					}
					lo := ObjOf(gi, StripConv(gi, be.X))
					if lo == nil {
						continue
					}
					rk := k.Of(gi, be.Y)
					if lo == lenObj && rk == "chunk" && be.Op == token.GTR {
						return "len<=chunk", false, true
					}
					if lo == idxObj && rk == "count" && be.Op == token.GEQ {
						return "idx<count", false, true
					}
				}
				return "", false, false
			}}}}
			// exact length: chunkLen != chunkSizeForIndex(size, chunkSize, idx) rejected
			exact := &PassSpec{Name: "exact-len", Vias: []Via{{Cond: func(g *FuncInfo, e ast.Expr) (string, bool, bool) {
				gi := g.Info()
				be, ok := ast.Unparen(e).(*ast.BinaryExpr)
				if !ok || (be.Op != token.NEQ && be.Op != token.EQL) {
					return "", false, false
				}
				x, y := be.X, be.Y
				if ObjOf(gi, StripConv(gi, x)) != lenObj {
					x, y = y, x
				}
				if ObjOf(gi, StripConv(gi, x)) != lenObj {
					return "", false, false
				}
				for _, d := range append([]ast.Expr{y}, resolveExprs(g, y, 1)...) {
					if call, ok := ast.Unparen(d).(*ast.CallExpr); ok {
						if h := p.CalleeInfo(gi, call); h != nil && h.Name == "transfer.chunkSizeForIndex" && len(call.Args) == 3 && ObjOf(gi, StripConv(gi, call.Args[2])) == idxObj {
							return "len==tile", be.Op == token.EQL, true
						}
					}
				}
				return "", false, false
			}}}}
			c.Check(exact.Passed(f, r, "len==tile"), key+"/len==tile", call.Pos(), "write dominated by the rejection of a chunk length other than the one its index takes in the file",
				"positional write is not dominated by chunkLen == chunkSizeForIndex(size, chunkSize, index): a faulty sender gets a file acknowledged that is longer than announced (a full-size last chunk is written past the end) or has a hole (a short chunk is counted as the whole chunk)")
			okLen := bspec.Passed(f, r, "len<=chunk")
			okIdx := bspec.Passed(f, r, "idx<count")
			c.Check(okLen, key+"/len<=chunkSize", call.Pos(), "write dominated by rejection of chunkLen > chunkSize", "positional write is not dominated by a rejection of chunkLen > chunkSize: a frame can spill into the next chunk")
			c.Check(okIdx, key+"/idx<totalChunks", call.Pos(), "write dominated by rejection of chunkIndex >= totalChunks", "positional write is not dominated by a rejection of chunkIndex >= totalChunks: a frame can be written beyond the end of the file")
			// same state object for chunk size and total chunks / sidecar: chunkExpr is a selector on the state whose markChunkComplete is called
			if se, ok := chunkExpr.(*ast.SelectorExpr); ok {
				c.OK(key+"/offset-chunk-size", call.Pos(), "offset = index * "+types.ExprString(se)+" (the chunk size recorded for this file at FileBegin)")
			} else {
				c.Bad(key+"/offset-chunk-size", call.Pos(), "offset multiplier "+types.ExprString(chunkExpr)+" is not the per-file chunk size field")
			}
		})
		for _, kid := range f.Kids {
			visit(kid)
		}
	}
	visit(recv)
	if found == 0 {
		c.Bad("write-bounds/none", recv.Pos(), "no positional write found in RecvManifestMultiStream")
	}
}

func (p *Program) isParam(v *types.Var) bool {
	for _, f := range p.Funcs() {
		if f.Type.Params == nil || v.Pos() < f.Type.Pos() || v.Pos() >= f.Type.End() {
			continue
		}
		return true
	}
	return false
}
