package tf

import (
	"fmt"
	"go/ast"
	"go/constant"
	"go/token"
	"go/types"
	"strings"

	"golang.org/x/tools/go/cfg"
)

// Round 8 (DESIGN 8.16): rules for the changes of the eighth seeding round that the earlier rules missed.

func init() {
	Register(&Rule{
		Name:  "R-FLUSH-SERIAL",
		Props: []string{"C05", "C04"},
		Min:   2,
		Doc: "the resume metadata of a file is written by one flush at a time: in the methods of Sidecar (and the helpers they call) every os.WriteFile / os.Rename runs with the sidecar's own mutex held in write mode (lockset; a helper inherits what all its call sites hold) - " +
			"all flushes of one sidecar (1 s ticker, finalize, deferred clean-up, signal handler) use the one temporary name <path>.tmp, and two of them interleaving can rename a torn or older image over a newer one: marks disappear or name chunks that the image being written did not have",
		Run: runFlushSerial,
	})
	Register(&Rule{
		Name:  "R-REPORT-ACCEPTED",
		Props: []string{"C04"},
		Min:   1,
		Doc: "the sender plans from any resume report an interrupted receiver can leave behind: in the handler of a resume report (the literal that reads LastVerifiedChunk) no error return depends on how many chunks the bitmap marks (CountSet), other than as an upper bound - " +
			"with several data streams a kill leaves holes below the highest complete chunk, every count from 1 to the total with any highest chunk is a valid state, and a refused report fails the retry in the same way on every further attempt",
		Run: runReportAccepted,
	})
	Register(&Rule{
		Name:  "R-REPEAT-ACCEPTED",
		Props: []string{"C04", "C06"},
		Min:   1,
		Doc: "the receiver takes a chunk again that it already has: in the data-stream reader of RecvManifestMultiStream (the literal that calls markChunkComplete) no failure (finalizeFile(.., false, ..), a non-nil error to the error channel) is controlled by a condition that consults the resume bitmap (IsComplete / Get / HighestComplete ...) - " +
			"the sender starts a file without a plan when the report is later than its grace period and re-sends verified chunks on a hash mismatch, so marked chunks do come again; they are written in place and not counted twice",
		Run: runRepeatAccepted,
	})
	Register(&Rule{
		Name:  "R-GIVEUP-NOT-SHORTER",
		Props: []string{"C09", "C08"},
		Min:   3,
		Doc: "the receiver gives up on a join only after a candidate had the time to authenticate: in snapshotReceiver.runTransfer the duration of the give-up timer armed by the first failed authentication (time.After assigned to a channel variable) is a constant not smaller than the authentication timeout of one candidate (context.WithTimeout in front of authenticateTransport); " +
			"and (units) every constant duration handed to time.After / time.NewTimer / context.WithTimeout / time.Sleep / time.NewTicker in internal/app, internal/transfer and cmd is built from a time.Duration constant - a bare number is nanoseconds (`time.After(authTimeout)` with an untyped 10 is 10 ns: the close of a connection that lost the sender's race then ends the join while the sender authenticates on the winner)",
		Run: runGiveUpNotShorter,
	})
	Register(&Rule{
		Name:  "R-OVERRATE-CLOSES",
		Props: []string{"C10", "C14"},
		Min:   1,
		Doc: "a frame the server read is routed, answered, or ends the connection - never skipped because of the message rate: in the read loop of handleWebSocket no path from the edge on which the connection's token bucket refuses (`!limiter.Allow()`) leads back to the next ReadMessage - " +
			"a skipped frame is a signaling message lost while author and recipient stay connected and nobody is told; closing the author's connection makes the loss visible (the author's socket fails, the others get peer_left)",
		Run: runOverrateCloses,
	})
	Register(&Rule{
		Name:  "R-CLOSEFN-NONBLOCKING",
		Props: []string{"C11", "C10"},
		Min:   1,
		Doc: "the function the hub calls to get rid of a connection cannot wait for that connection: the closeFn handed to Hub.AddIf / Hub.Add takes no mutex that is held across a write on the websocket without a deadline (WriteJSON / WriteMessage under writeMu) - " +
			"the hub calls it from other parties' goroutines (slow-peer cut-off inside SendTo/Broadcast, replacement inside AddIf, CloseSession) exactly when the connection is stuck, i.e. when its writer sits in that write holding the mutex; only conn.Close() releases the writer",
		Run: runCloseFnNonblocking,
	})
}

// regionAllPathsHit: every path from the start of block `from` to a block satisfying stop (or, unless exitOK, to a function exit) passes a node satisfying good.
func regionAllPathsHit(c *CFG, from *cfg.Block, good func(ast.Node) bool, stop func(*cfg.Block) bool, exitOK bool) bool {
	return regionAllPathsHitEdge(c, from, good, nil, stop, exitOK)
}

// regionAllPathsHitEdge: as regionAllPathsHit; a path is also satisfied by taking a conditional edge on which goodEdge(cond, value) holds.
func regionAllPathsHitEdge(c *CFG, from *cfg.Block, good func(ast.Node) bool, goodEdge func(cond ast.Expr, val bool) bool, stop func(*cfg.Block) bool, exitOK bool) bool {
	ok := true
	seen := map[*cfg.Block]bool{}
	var walk func(b *cfg.Block)
	walk = func(b *cfg.Block) {
		if !ok || seen[b] {
			return
		}
		seen[b] = true
		if stop(b) {
			ok = false
			return
		}
		for _, nd := range b.Nodes {
			if good(nd) {
				return
			}
		}
		live := 0
		cond, t, f, isCond := CondEdges(b)
		for _, s := range b.Succs {
			if s.Live {
				live++
				if isCond && goodEdge != nil && ((s == t && goodEdge(cond, true)) || (s == f && goodEdge(cond, false))) {
					continue
				}
				walk(s)
			}
		}
		if live == 0 && !exitOK {
			ok = false
		}
	}
	walk(from)
	return ok
}

// ---------------------------------------------------------------------------

func runFlushSerial(c *Ctx) {
	p := c.P
	ls := NewLockSpec()
	n := 0
	for _, f := range p.FuncsIn("internal/transfer") {
		root := f.Root()
		if root.Decl == nil || root.Decl.Recv == nil || len(root.Decl.Recv.List) != 1 || len(root.Decl.Recv.List[0].Names) != 1 {
			continue
		}
		if !strings.HasPrefix(root.Name, "transfer.(*Sidecar).") {
			continue
		}
		recv := root.Decl.Recv.List[0].Names[0].Name
		info := f.Info()
		k := 0
		f.CFG().Calls(func(r NodeRef, call *ast.CallExpr) {
			name, ok := osMutator(info, call)
			if !ok || (name != "WriteFile" && name != "Rename") {
				return
			}
			n++
			k++
			_, w := Held(ls, f, r, recv+".mu")
			c.Check(w, fmt.Sprintf("flush-serial/%s#%d/%s", f.Name, k, name), call.Pos(), "runs with "+recv+".mu held",
				"os."+name+" on the sidecar's files runs without "+recv+".mu held (held here: "+strings.Join(HeldAny(ls, f, r), ", ")+"): two flushes of the same sidecar (ticker, finalize, clean-up, signal handler) share the temporary name and can interleave - "+
					"one renames the file the other is still writing, or an older image lands over a newer one, and the metadata on disk no longer describes the chunks on disk")
		})
	}
	if n == 0 {
		c.Bad("flush-serial/none", token.NoPos, "found no os.WriteFile / os.Rename in the methods of Sidecar")
	}
}

// ---------------------------------------------------------------------------

// mentionsCall: e (with its single-definition locals resolved, depth levels) contains a call of a method with one of the names on a
// receiver whose type name is one of types.
func mentionsMethodCall(f *FuncInfo, e ast.Expr, depth int, typeNames, methods []string) bool {
	hit := false
	for _, d := range resolveExprs(f, e, depth) {
		ast.Inspect(d, func(m ast.Node) bool {
			call, ok := m.(*ast.CallExpr)
			if !ok {
				return true
			}
			fn := Callee(f.Info(), call)
			if fn == nil {
				return true
			}
			sig, _ := fn.Type().(*types.Signature)
			if sig == nil || sig.Recv() == nil {
				return true
			}
			if containsStr(typeNames, recvTypeName(sig.Recv().Type())) && containsStr(methods, fn.Name()) {
				hit = true
			}
			return true
		})
	}
	return hit
}

func runReportAccepted(c *Ctx) {
	p := c.P
	send := p.Func("transfer.SendManifestMultiStream")
	if send == nil {
		c.MissingAnchor("transfer.SendManifestMultiStream")
		return
	}
	n := 0
	for _, f := range allKids(send) {
		if f.Lit == nil {
			continue
		}
		info := f.Info()
		reads := false
		InspectNoLits(f.Body, func(m ast.Node) bool {
			if sel, ok := m.(*ast.SelectorExpr); ok && sel.Sel.Name == "LastVerifiedChunk" {
				if t := info.TypeOf(sel.X); t != nil && strings.HasSuffix(t.String(), "FileResumeInfo") {
					reads = true
				}
			}
			return true
		})
		if !reads || f.Type.Results == nil || len(f.Type.Results.List) != 1 {
			continue
		}
		n++
		k := 0
		InspectNoLits(f.Body, func(m ast.Node) bool {
			rs, ok := m.(*ast.ReturnStmt)
			if !ok || len(rs.Results) != 1 || types.ExprString(rs.Results[0]) == "nil" {
				return true
			}
			k++
			var bad ast.Expr
			for _, is := range enclosingIfs(f.Body, rs) {
				// every comparison of the condition
				ast.Inspect(is.Cond, func(x ast.Node) bool {
					be, ok := x.(*ast.BinaryExpr)
					if !ok {
						return true
					}
					switch be.Op {
					case token.EQL, token.NEQ, token.LSS, token.LEQ, token.GTR, token.GEQ:
					default:
						return true
					}
					cx := mentionsMethodCall(f, be.X, 3, []string{"Bitmap", "Sidecar"}, []string{"CountSet"})
					cy := mentionsMethodCall(f, be.Y, 3, []string{"Bitmap", "Sidecar"}, []string{"CountSet"})
					if !cx && !cy {
						return true
					}
					// an upper bound on the count alone (count > total) refuses nothing a receiver can produce
					upper := (cx && !cy && (be.Op == token.GTR || be.Op == token.GEQ)) || (cy && !cx && (be.Op == token.LSS || be.Op == token.LEQ))
					other := be.Y
					if cy {
						other = be.X
					}
					relatesHighest := false
					for _, d := range resolveExprs(f, other, 3) {
						ast.Inspect(d, func(y ast.Node) bool {
							if s, ok := y.(*ast.SelectorExpr); ok && s.Sel.Name == "LastVerifiedChunk" {
								relatesHighest = true
							}
							return true
						})
					}
					if !upper || relatesHighest {
						bad = be
					}
					return true
				})
			}
			c.Check(bad == nil, fmt.Sprintf("report-accepted/%s/return#%d", f.Name, k), rs.Pos(), "the refusal does not depend on how many chunks the report marks",
				"a resume report is refused depending on the number of chunks its bitmap marks (`"+exprStr(bad)+"`): with several data streams an interruption leaves holes below the highest complete chunk (a lower chunk still in flight, a higher one already marked and flushed) - "+
					"a valid report is answered with an error, nothing on the receiver's disk changes in the failed attempt, and every retry fails the same way")
			return true
		})
	}
	if n == 0 {
		c.Bad("report-accepted/none", send.Pos(), "found no handler of a resume report (a literal that reads FileResumeInfo.LastVerifiedChunk and returns an error) in SendManifestMultiStream")
	}
}

func exprStr(e ast.Expr) string {
	if e == nil {
		return ""
	}
	return types.ExprString(e)
}

func runRepeatAccepted(c *Ctx) {
	p := c.P
	recv := p.Func("transfer.RecvManifestMultiStream")
	if recv == nil {
		c.MissingAnchor("transfer.RecvManifestMultiStream")
		return
	}
	n := 0
	for _, f := range allKids(recv) {
		if f.Lit == nil {
			continue
		}
		info := f.Info()
		reader := false
		InspectNoLits(f.Body, func(m ast.Node) bool {
			if call, ok := m.(*ast.CallExpr); ok {
				if g := p.CalleeInfo(info, call); g != nil && g.Name == "transfer.(*recvFileStateMux).markChunkComplete" {
					reader = true
				}
			}
			return true
		})
		if !reader {
			continue
		}
		n++
		k := 0
		InspectNoLits(f.Body, func(m ast.Node) bool {
			fail := false
			switch s := m.(type) {
			case *ast.CallExpr:
				if id, ok := ast.Unparen(s.Fun).(*ast.Ident); ok && id.Name == "finalizeFile" && len(s.Args) >= 2 && types.ExprString(s.Args[1]) == "false" {
					fail = true
				}
			case *ast.SendStmt:
				if t := info.TypeOf(s.Value); t != nil && isErrorType(t) && types.ExprString(s.Value) != "nil" {
					fail = true
				}
			}
			if !fail {
				return true
			}
			k++
			var bad ast.Expr
			for _, is := range enclosingIfs(f.Body, m) {
				if mentionsMethodCall(f, is.Cond, 2, []string{"Sidecar", "Bitmap"}, []string{"IsComplete", "Get", "IsSet", "HighestComplete", "HighestContiguous", "CountSet"}) {
					bad = is.Cond
				}
			}
			c.Check(bad == nil, fmt.Sprintf("repeat-accepted/%s/fail#%d", f.Name, k), m.Pos(), "the failure does not depend on the chunk being marked already",
				"the data-stream reader fails the transfer depending on what the resume bitmap says about the chunk (`"+exprStr(bad)+"`): an honest sender repeats marked chunks - it starts a file without a plan when the report takes longer than its grace period, "+
					"re-sends a tail on request and after a hash mismatch - so a resumed transfer over a slow path fails at the first repeated frame, and again on every retry")
			return true
		})
	}
	if n == 0 {
		c.Bad("repeat-accepted/none", recv.Pos(), "found no data-stream reader (a literal that calls markChunkComplete) in RecvManifestMultiStream")
	}
}

// ---------------------------------------------------------------------------

// durationConst: the constant value of e in nanoseconds, and whether the expression is built from a time.Duration constant
// (time.Second ...) rather than being a bare number.
func durationConst(info *types.Info, e ast.Expr) (ns int64, typed bool, ok bool) {
	tv, has := info.Types[e]
	if !has || tv.Value == nil {
		return 0, false, false
	}
	v, exact := constant.Int64Val(constant.ToInt(tv.Value))
	if !exact {
		return 0, false, false
	}
	ast.Inspect(e, func(m ast.Node) bool {
		var o types.Object
		switch x := m.(type) {
		case *ast.Ident:
			o = info.Uses[x]
		}
		if cst, isC := o.(*types.Const); isC && cst.Type().String() == "time.Duration" {
			typed = true
		}
		// an explicit conversion time.Duration(x) says the unit is meant
		if call, isCall := m.(*ast.CallExpr); isCall {
			if t, ok := info.Types[call.Fun]; ok && t.IsType() && t.Type.String() == "time.Duration" {
				typed = true
			}
		}
		return true
	})
	return v, typed, true
}

func durationArg(info *types.Info, call *ast.CallExpr) (ast.Expr, string) {
	for _, c := range []struct {
		pkg, name string
		idx       int
	}{{"time", "After", 0}, {"time", "NewTimer", 0}, {"time", "NewTicker", 0}, {"time", "Sleep", 0}, {"time", "AfterFunc", 0}, {"time", "Tick", 0}, {"context", "WithTimeout", 1}} {
		if calleeIs(info, call, c.pkg, c.name) && len(call.Args) > c.idx {
			return call.Args[c.idx], c.pkg + "." + c.name
		}
	}
	return nil, ""
}

func runGiveUpNotShorter(c *Ctx) {
	p := c.P
	rt := p.Func("app.(*snapshotReceiver).runTransfer")
	if rt == nil {
		c.MissingAnchor("app.(*snapshotReceiver).runTransfer")
		return
	}
	// the authentication timeout of one candidate: context.WithTimeout whose context is handed to authenticateTransport
	var authT ast.Expr
	var authF *FuncInfo
	for _, f := range allKids(rt) {
		info := f.Info()
		InspectNoLits(f.Body, func(m ast.Node) bool {
			as, ok := m.(*ast.AssignStmt)
			if !ok || len(as.Rhs) != 1 || len(as.Lhs) != 2 {
				return true
			}
			call, ok := ast.Unparen(as.Rhs[0]).(*ast.CallExpr)
			if !ok || !calleeIs(info, call, "context", "WithTimeout") {
				return true
			}
			ctxObj := ObjOf(info, as.Lhs[0])
			used := false
			InspectNoLits(f.Body, func(x ast.Node) bool {
				if c2, ok := x.(*ast.CallExpr); ok {
					if g := p.CalleeInfo(info, c2); g != nil && g.Name == "app.authenticateTransport" && len(c2.Args) > 0 && ObjOf(info, c2.Args[0]) == ctxObj {
						used = true
					}
				}
				return true
			})
			if used && authT == nil {
				authT, authF = call.Args[1], f
			}
			return true
		})
	}
	if authT == nil {
		c.Unknown("giveup/auth-timeout", rt.Pos(), "cannot find the authentication timeout of a candidate (context.WithTimeout in front of authenticateTransport) in snapshotReceiver.runTransfer")
	} else {
		tns, _, tok := durationConst(authF.Info(), authT)
		n := 0
		info := rt.Info()
		InspectNoLits(rt.Body, func(m ast.Node) bool {
			as, ok := m.(*ast.AssignStmt)
			if !ok || len(as.Lhs) != 1 || len(as.Rhs) != 1 {
				return true
			}
			call, ok := ast.Unparen(as.Rhs[0]).(*ast.CallExpr)
			if !ok || !calleeIs(info, call, "time", "After") || len(call.Args) != 1 {
				return true
			}
			// armed inside a select case (the first failed authentication)
			n++
			key := fmt.Sprintf("giveup/timer#%d", n)
			gns, _, gok := durationConst(info, call.Args[0])
			switch {
			case gok && tok:
				c.Check(gns >= tns, key, call.Pos(), fmt.Sprintf("the give-up timer (%d ns) is not shorter than the authentication timeout of a candidate (%d ns)", gns, tns),
					fmt.Sprintf("the give-up timer armed by the first failed authentication runs %d ns, the authentication of a candidate may take %d ns: the failure of a connection the sender abandoned (closed as the loser of its race) "+
						"ends the join while the sender is still authenticating on the connection it kept - the peers never meet on the one connection", gns, tns))
			case types.ExprString(call.Args[0]) == types.ExprString(authT):
				c.OK(key, call.Pos(), "the give-up timer uses the expression of the authentication timeout")
			default:
				c.Unknown(key, call.Pos(), "cannot compare the give-up timer "+types.ExprString(call.Args[0])+" with the authentication timeout "+types.ExprString(authT)+" (not constants)")
			}
			return true
		})
		if n == 0 {
			c.Bad("giveup/none", rt.Pos(), "snapshotReceiver.runTransfer arms no give-up timer (time.After assigned to a variable): a failed authentication is either fatal at once or never")
		}
	}
	// units
	nu := 0
	for _, rel := range []string{"internal/app", "internal/transfer", "cmd/thruserv", "cmd/thru", "internal/peers", "internal/transferquic", "internal/ice"} {
		for _, f := range p.FuncsIn(rel) {
			if f.Body == nil || strings.HasSuffix(p.Fset.Position(f.Pos()).Filename, "_test.go") {
				continue
			}
			info := f.Info()
			k := 0
			InspectNoLits(f.Body, func(m ast.Node) bool {
				call, ok := m.(*ast.CallExpr)
				if !ok {
					return true
				}
				arg, what := durationArg(info, call)
				if arg == nil {
					return true
				}
				ns, typed, ok := durationConst(info, arg)
				if !ok {
					return true
				}
				nu++
				k++
				c.Check(typed || ns == 0, fmt.Sprintf("giveup/units/%s#%d", f.Name, k), call.Pos(), "the constant duration is built from a time.Duration constant",
					fmt.Sprintf("%s(%s) is a bare number: %d nanoseconds - a unit was lost (an untyped constant converts to time.Duration silently), and the wait it bounds is over before anything can answer", what, types.ExprString(arg), ns))
				return true
			})
		}
	}
	if nu == 0 {
		c.Bad("giveup/units/none", token.NoPos, "found no constant duration in the application packages")
	}
}

// ---------------------------------------------------------------------------

func runOverrateCloses(c *Ctx) {
	p := c.P
	hw := p.Func("cmd/thruserv.handleWebSocket")
	if hw == nil {
		c.MissingAnchor("cmd/thruserv.handleWebSocket")
		return
	}
	info := hw.Info()
	g := hw.CFG()
	isRead := func(n ast.Node) bool {
		hit := false
		InspectNoLits(n, func(m ast.Node) bool {
			if call, ok := m.(*ast.CallExpr); ok && calleeIs(info, call, "github.com/gorilla/websocket", "Conn.ReadMessage") {
				hit = true
			}
			return true
		})
		return hit
	}
	isAllow := func(e ast.Expr) bool {
		call, ok := ast.Unparen(e).(*ast.CallExpr)
		if !ok {
			return false
		}
		fn := Callee(info, call)
		return fn != nil && fn.Name() == "Allow" && fn.Pkg() != nil && strings.HasSuffix(fn.Pkg().Path(), "cmd/thruserv")
	}
	// only refusals inside the read loop: the condition block must be able to reach a ReadMessage
	n := 0
	for _, b := range g.Blocks {
		cond, t, f, ok := CondEdges(b)
		if !ok || !b.Live {
			continue
		}
		var refuse *cfg.Block
		for _, a := range Implied(cond, true) {
			if isAllow(a.E) && !a.Val {
				refuse = t
			}
		}
		for _, a := range Implied(cond, false) {
			if isAllow(a.E) && !a.Val {
				refuse = f
			}
		}
		if refuse == nil {
			continue
		}
		// is this the read loop? some ReadMessage reaches this block
		inLoop := false
		g.EachNode(func(r NodeRef) {
			if isRead(r.Node()) && g.Reaches(r, NodeRef{b, 0}) {
				inLoop = true
			}
		})
		if !inLoop {
			continue
		}
		n++
		// no path from the refusal back to a ReadMessage
		again := false
		seen := map[*cfg.Block]bool{}
		var walk func(x *cfg.Block)
		walk = func(x *cfg.Block) {
			if seen[x] || again {
				return
			}
			seen[x] = true
			for _, nd := range x.Nodes {
				if isRead(nd) {
					again = true
					return
				}
			}
			for _, s := range x.Succs {
				if s.Live {
					walk(s)
				}
			}
		}
		walk(refuse)
		c.Check(!again, fmt.Sprintf("overrate-closes/refusal#%d", n), cond.Pos(), "a frame over the message rate ends the read loop",
			"a frame over the message rate is skipped and the loop reads on: the message is never routed, author and recipient stay connected and neither is told - the recipient's stream from that author has holes, "+
				"which is a signaling message lost while the recipient keeps reading; ending the author's connection makes the loss visible to everybody")
	}
	if n == 0 {
		c.Bad("overrate-closes/none", hw.Pos(), "the read loop of handleWebSocket does not consult the per-connection message limiter")
	}
}

// ---------------------------------------------------------------------------

func runCloseFnNonblocking(c *Ctx) {
	p := c.P
	ls := NewLockSpec()
	n := 0
	for _, rel := range []string{"cmd/thruserv"} {
		for _, f := range p.FuncsIn(rel) {
			if f.Body == nil {
				continue
			}
			info := f.Info()
			InspectNoLits(f.Body, func(m ast.Node) bool {
				call, ok := m.(*ast.CallExpr)
				if !ok {
					return true
				}
				g := p.CalleeInfo(info, call)
				if g == nil || (g.Name != "peers.(*Hub).AddIf" && g.Name != "peers.(*Hub).Add") || len(call.Args) < 4 {
					return true
				}
				n++
				key := fmt.Sprintf("closefn/%s#%d", f.Name, n)
				var lit *FuncInfo
				switch a := ast.Unparen(call.Args[3]).(type) {
				case *ast.FuncLit:
					lit = p.LitInfo(a)
				case *ast.Ident:
					if v, ok := ObjOf(info, a).(*types.Var); ok {
						lit = p.ClosureOfVar(v)
					}
				}
				if lit == nil {
					c.Unknown(key, call.Pos(), "cannot resolve the close function handed to the hub ("+types.ExprString(call.Args[3])+") to a function literal")
					return true
				}
				// mutexes the close function takes (also in closures it calls)
				locks := map[string]token.Pos{}
				var collect func(fi *FuncInfo, depth int)
				collect = func(fi *FuncInfo, depth int) {
					ast.Inspect(fi.Body, func(x ast.Node) bool {
						c2, ok := x.(*ast.CallExpr)
						if !ok {
							return true
						}
						if mu, op, ok := mutexOp(fi.Info(), c2); ok && (op == "Lock" || op == "RLock") {
							locks[mu] = c2.Pos()
						}
						if depth < 2 {
							if h := p.CalleeInfo(fi.Info(), c2); h != nil && h.Body != nil && h.Lit != nil && h != fi {
								collect(h, depth+1)
							}
						}
						return true
					})
				}
				collect(lit, 0)
				// mutexes held across a write without a deadline, anywhere in the function that owns the connection
				heldOverWrite := map[string]token.Pos{}
				for _, k := range allKids(f.Root()) {
					ki := k.Info()
					k.CFG().Calls(func(r NodeRef, c2 *ast.CallExpr) {
						for _, w := range []string{"Conn.WriteJSON", "Conn.WriteMessage", "Conn.NextWriter", "Conn.WritePreparedMessage"} {
							if calleeIs(ki, c2, "github.com/gorilla/websocket", w) {
								for _, h := range HeldAny(ls, k, r) {
									heldOverWrite[strings.TrimPrefix(strings.TrimPrefix(h, "W:"), "R:")] = c2.Pos()
								}
							}
						}
					})
				}
				var bad []string
				for mu, pos := range locks {
					if wp, ok := heldOverWrite[mu]; ok {
						bad = append(bad, fmt.Sprintf("%s (taken at %s, held over the write at %s)", mu, p.Pos(pos), p.Pos(wp)))
					}
				}
				c.Check(len(bad) == 0, key, call.Pos(), fmt.Sprintf("the close function takes none of the mutexes held over a websocket write (%d such)", len(heldOverWrite)),
					"the close function handed to the hub takes "+strings.Join(bad, "; ")+": the hub calls it from other goroutines exactly when this connection is stuck - its writer then sits in that write, which has no deadline, holding the mutex; "+
						"the close function blocks in front of conn.Close(), the only thing that would release the writer, and the caller (a sender inside SendTo/Broadcast, a reconnecting peer inside AddIf, the expiry inside CloseSession) hangs for ever")
				return true
			})
		}
	}
	if n == 0 {
		c.Bad("closefn/none", token.NoPos, "found no call of Hub.AddIf / Hub.Add in cmd/thruserv")
	}
}

// ---------------------------------------------------------------------------
// Rules that hold the repairs F67-F69 (DESIGN 8.17)

func init() {
	Register(&Rule{
		Name:  "R-AUTH-KEY-PLAIN",
		Props: []string{"C08"},
		Min:   1,
		Doc: "different join codes are different keys (F67): every hmac.New(h, []byte(code)) in internal/app whose key is a string converted on the spot is reached only past the false edge of a NUL test on that string (strings.IndexByte(code, 0) >= 0, strings.Contains(code, \"\\x00\"), strings.ContainsRune(code, 0)) " +
			"and of a length test len(code) > K with K at most the block size of the hash (64) - HMAC pads a short key with zero bytes and replaces a long one by its hash, so without the two tests `X` and `X\\x00`, or a long code and its SHA-256, pass the transport authentication with each other",
		Run: runAuthKeyPlain,
	})
	Register(&Rule{
		Name:  "R-ABANDONED-BUF",
		Props: []string{"C01", "C02", "C03"},
		Min:   6,
		Doc: "a buffer whose read or write was abandoned is not handed to anybody else (F68): (helper) a function of internal/transfer that hands a []byte parameter to another goroutine (a go literal, or a job sent on a channel) which reads into it or writes it to a file, " +
			"and that can return on its context's end before that goroutine is done, returns the error type that bufferAbandoned recognises on that path; (caller) where such a helper is called on a buffer taken from a pool, the error branch (and a deferred clean-up) does not Put the buffer directly - " +
			"it goes through a function that tests bufferAbandoned first. The chunk pools and the read pool are process-wide and a host serves several receivers at once: a buffer returned while the abandoned read still runs is overwritten with another file's bytes under the next transfer's hands, before its CRC is computed",
		Run: runAbandonedBuf,
	})
	Register(&Rule{
		Name:  "R-PATHS-DISTINCT",
		Props: []string{"C17", "C03"},
		Min:   2,
		Doc: "no manifest with a path listed twice is sent or accepted (F69): the item loop of validateManifest tests membership of the item's RelPath in a set, returns an error when it is there, and inserts it on every path that goes on to the next item - " +
			"sender and receiver keep their per-file state by path while the scheduler keeps a key per item: with a repeated path one item is never begun and the sender waits for its acknowledgement for ever",
		Run: runPathsDistinct,
	})
}

func runAuthKeyPlain(c *Ctx) {
	p := c.P
	n := 0
	isZeroByte := func(info *types.Info, e ast.Expr) bool {
		tv, ok := info.Types[e]
		if !ok || tv.Value == nil {
			return false
		}
		switch tv.Value.Kind() {
		case constant.Int:
			v, ok := constant.Int64Val(tv.Value)
			return ok && v == 0
		case constant.String:
			return constant.StringVal(tv.Value) == "\x00"
		}
		return false
	}
	for _, f := range p.FuncsIn("internal/app") {
		if f.Body == nil || strings.HasSuffix(p.Fset.Position(f.Pos()).Filename, "_test.go") {
			continue
		}
		info := f.Info()
		spec := &PassSpec{Name: "plain-key", Vias: []Via{
			{Cond: func(g *FuncInfo, e ast.Expr) (string, bool, bool) { // NUL test: true means "has a NUL"
				e = ast.Unparen(e)
				var call *ast.CallExpr
				if be, ok := e.(*ast.BinaryExpr); ok {
					// strings.IndexByte(x, 0) >= 0 / != -1 / > -1
					cl, ok := ast.Unparen(be.X).(*ast.CallExpr)
					if !ok {
						return "", false, false
					}
					v, isC := constInt(g.Info(), be.Y)
					if !isC {
						return "", false, false
					}
					if !((be.Op == token.GEQ && v == 0) || (be.Op == token.NEQ && v == -1) || (be.Op == token.GTR && v == -1)) {
						return "", false, false
					}
					call = cl
					fn := Callee(g.Info(), call)
					if fn == nil || fn.Pkg() == nil || fn.Pkg().Path() != "strings" || !(fn.Name() == "IndexByte" || fn.Name() == "IndexRune" || fn.Name() == "Index") {
						return "", false, false
					}
				} else if cl, ok := e.(*ast.CallExpr); ok {
					call = cl
					fn := Callee(g.Info(), call)
					if fn == nil || fn.Pkg() == nil || fn.Pkg().Path() != "strings" || !(fn.Name() == "Contains" || fn.Name() == "ContainsRune" || fn.Name() == "ContainsAny") {
						return "", false, false
					}
				} else {
					return "", false, false
				}
				if len(call.Args) != 2 || !isZeroByte(g.Info(), call.Args[1]) {
					return "", false, false
				}
				return "no-nul:" + types.ExprString(ast.Unparen(call.Args[0])), false, true
			}},
			{Cond: func(g *FuncInfo, e ast.Expr) (string, bool, bool) { // len(x) > K, K <= 64
				be, ok := ast.Unparen(e).(*ast.BinaryExpr)
				if !ok || (be.Op != token.GTR && be.Op != token.GEQ) {
					return "", false, false
				}
				call, ok := ast.Unparen(be.X).(*ast.CallExpr)
				if !ok || len(call.Args) != 1 {
					return "", false, false
				}
				if id, ok := ast.Unparen(call.Fun).(*ast.Ident); !ok || id.Name != "len" {
					return "", false, false
				}
				k, ok := constInt(g.Info(), be.Y)
				if !ok || k > 64+int64(map[bool]int{true: 1, false: 0}[be.Op == token.GEQ]) {
					return "", false, false
				}
				return "short:" + types.ExprString(ast.Unparen(call.Args[0])), false, true
			}},
		}}
		spec.Vias = append(spec.Vias, validatorVias(p, &PassSpec{Name: "plain-key-inner", Vias: spec.Vias}, []string{"no-nul:", "short:"})...)
		k := 0
		f.CFG().Calls(func(r NodeRef, call *ast.CallExpr) {
			if !calleeIs(info, call, "crypto/hmac", "New") || len(call.Args) != 2 {
				return
			}
			conv, ok := ast.Unparen(call.Args[1]).(*ast.CallExpr)
			if !ok || len(conv.Args) != 1 {
				return
			}
			if tv, ok := info.Types[conv.Fun]; !ok || !tv.IsType() {
				return
			}
			if t := info.TypeOf(conv.Args[0]); t == nil || !isStringType(t) {
				return
			}
			n++
			k++
			x := types.ExprString(ast.Unparen(conv.Args[0]))
			okNul, okLen := spec.Passed(f, r, "no-nul:"+x), spec.Passed(f, r, "short:"+x)
			c.Check(okNul && okLen, fmt.Sprintf("auth-key-plain/%s#%d", f.Name, k), call.Pos(), "the string used as HMAC key has no NUL byte and is at most one block long",
				fmt.Sprintf("%s is used as the HMAC key as it is (NUL test passed: %v, length test passed: %v): HMAC pads a key shorter than its block with zero bytes and replaces a longer one by its hash, "+
					"so `X` and `X\\x00`, or a code of more than 64 bytes and its SHA-256, are one key - two peers with different join codes pass the transport authentication with each other", x, okNul, okLen))
		})
	}
	if n == 0 {
		c.Bad("auth-key-plain/none", token.NoPos, "found no hmac.New keyed by a string in internal/app")
	}
}

// abandonableHelpers: functions of internal/transfer that hand a []byte parameter to another goroutine (go literal / job on a
// channel) which fills it (ReadAt, Read, io.ReadFull) or writes it to a file (WriteAt), and that have a `case <-ctx.Done()`.
// Result: helper -> index of the buffer parameter.
func abandonableHelpers(p *Program) map[*FuncInfo]int {
	out := map[*FuncInfo]int{}
	for _, f := range p.FuncsIn("internal/transfer") {
		if f.Decl == nil || f.Body == nil || f.Type.Params == nil || strings.HasSuffix(p.Fset.Position(f.Pos()).Filename, "_test.go") || strings.HasSuffix(p.Fset.Position(f.Pos()).Filename, "/mock.go") {
			continue
		}
		info := f.Info()
		idx := 0
		for _, fl := range f.Type.Params.List {
			for _, nm := range fl.Names {
				po := info.Defs[nm]
				i := idx
				idx++
				sl, ok := po.Type().Underlying().(*types.Slice)
				if !ok {
					continue
				}
				if b, ok := sl.Elem().Underlying().(*types.Basic); !ok || b.Kind() != types.Uint8 {
					continue
				}
				mentions := func(n ast.Node) bool {
					hit := false
					ast.Inspect(n, func(m ast.Node) bool {
						if id, ok := m.(*ast.Ident); ok && info.Uses[id] == po {
							hit = true
						}
						return true
					})
					return hit
				}
				handed := false
				ast.Inspect(f.Body, func(m ast.Node) bool {
					switch s := m.(type) {
					case *ast.GoStmt:
						if lit, ok := ast.Unparen(s.Call.Fun).(*ast.FuncLit); ok {
							ast.Inspect(lit.Body, func(x ast.Node) bool {
								call, ok := x.(*ast.CallExpr)
								if !ok {
									return true
								}
								name := ""
								if sel, ok := ast.Unparen(call.Fun).(*ast.SelectorExpr); ok {
									name = sel.Sel.Name
								}
								switch name {
								case "ReadAt", "Read", "ReadFull", "WriteAt":
									for _, a := range call.Args {
										if mentions(a) {
											handed = true
										}
									}
								}
								return true
							})
						}
					case *ast.SendStmt:
						// a job that carries the buffer: a composite literal (or a variable defined as one) with the parameter in it
						for _, d := range append([]ast.Expr{s.Value}, resolveExprs(f, s.Value, 1)...) {
							if cl, ok := ast.Unparen(d).(*ast.CompositeLit); ok && mentions(cl) {
								handed = true
							}
						}
					}
					return true
				})
				waits := false
				ast.Inspect(f.Body, func(m ast.Node) bool {
					if cc, ok := m.(*ast.CommClause); ok && cc.Comm != nil && strings.HasSuffix(types.ExprString(commRecvExpr(cc)), ".Done()") {
						waits = true
					}
					return true
				})
				if handed && waits {
					out[f] = i
				}
			}
		}
	}
	return out
}

func commRecvExpr(cc *ast.CommClause) ast.Expr {
	var e ast.Expr
	switch s := cc.Comm.(type) {
	case *ast.ExprStmt:
		e = s.X
	case *ast.AssignStmt:
		if len(s.Rhs) == 1 {
			e = s.Rhs[0]
		}
	}
	if u, ok := ast.Unparen(e).(*ast.UnaryExpr); ok && u.Op == token.ARROW {
		return u.X
	}
	return &ast.Ident{Name: "_"}
}

func runAbandonedBuf(c *Ctx) {
	p := c.P
	pred := p.Func("transfer.bufferAbandoned")
	if pred == nil {
		c.MissingAnchor("transfer.bufferAbandoned")
		return
	}
	// the error type the predicate recognises: var a *T; errors.As(err, &a)
	var abandonedT types.Type
	ast.Inspect(pred.Body, func(m ast.Node) bool {
		call, ok := m.(*ast.CallExpr)
		if !ok || !calleeIs(pred.Info(), call, "errors", "As") || len(call.Args) != 2 {
			return true
		}
		if u, ok := ast.Unparen(call.Args[1]).(*ast.UnaryExpr); ok && u.Op == token.AND {
			abandonedT = pred.Info().TypeOf(u.X)
		}
		return true
	})
	if abandonedT == nil {
		c.Unknown("abandoned-buf/predicate", pred.Pos(), "cannot read the error type bufferAbandoned recognises (expected errors.As(err, &a))")
		return
	}
	helpers := abandonableHelpers(p)
	if len(helpers) == 0 {
		c.Bad("abandoned-buf/none", token.NoPos, "found no helper that hands its buffer to another goroutine and returns on its context's end")
		return
	}
	// (helper) the return in every `case <-ctx.Done()` clause that lies behind the hand-over is of the recognised type
	for h := range helpers {
		info := h.Info()
		k := 0
		// position of the hand-over: the first go statement / send that carries the buffer
		var handPos token.Pos
		ast.Inspect(h.Body, func(m ast.Node) bool {
			switch m.(type) {
			case *ast.GoStmt:
				if handPos == token.NoPos {
					handPos = m.Pos()
				}
			}
			return true
		})
		InspectNoLits(h.Body, func(m ast.Node) bool {
			cc, ok := m.(*ast.CommClause)
			if !ok || cc.Comm == nil || !strings.HasSuffix(types.ExprString(commRecvExpr(cc)), ".Done()") {
				return true
			}
			// a clause in the same select as the hand-over itself (case jobs <- job / case <-ctx.Done()) is before it
			for _, st := range cc.Body {
				rs, ok := st.(*ast.ReturnStmt)
				if !ok || len(rs.Results) == 0 {
					continue
				}
				// before the hand-over?
				before := false
				if handPos == token.NoPos {
					// hand-over by channel send: the select that contains the send is the hand-over; a Done clause of that very select is "not handed over"
					ast.Inspect(h.Body, func(x ast.Node) bool {
						if sel, ok := x.(*ast.SelectStmt); ok && sel.Pos() <= cc.Pos() && cc.End() <= sel.End() {
							for _, c2 := range sel.Body.List {
								if c3, ok := c2.(*ast.CommClause); ok {
									if _, isSend := c3.Comm.(*ast.SendStmt); isSend {
										before = true
									}
								}
							}
						}
						return true
					})
				} else if cc.Pos() < handPos {
					before = true
				}
				if before {
					continue
				}
				k++
				last := rs.Results[len(rs.Results)-1]
				t := info.TypeOf(last)
				c.Check(t != nil && types.Identical(t, abandonedT), fmt.Sprintf("abandoned-buf/helper/%s/return#%d", h.Name, k), rs.Pos(), "the give-up return says that the buffer may still be in use",
					h.Name+" returns `"+types.ExprString(last)+"` when its context ends while the operation it handed the buffer to may still run: the caller cannot tell this from an error after which the buffer is free, "+
						"returns the buffer to the process-wide pool, and the next transfer that takes it has it overwritten (or written to a file) under its hands")
			}
			return true
		})
		if k == 0 {
			c.Unknown("abandoned-buf/helper/"+h.Name, h.Pos(), "found no give-up return behind the hand-over of the buffer")
		}
		// the goroutine or pool worker that finishes an abandoned operation finds nobody waiting for its result: the channel it
		// reports on has room for it (round 9)
		nr := 0
		InspectNoLits(h.Body, func(m ast.Node) bool {
			as, ok := m.(*ast.AssignStmt)
			if !ok || len(as.Lhs) != 1 || len(as.Rhs) != 1 {
				return true
			}
			mk, ok := ast.Unparen(as.Rhs[0]).(*ast.CallExpr)
			if !ok {
				return true
			}
			if id, ok := ast.Unparen(mk.Fun).(*ast.Ident); !ok || id.Name != "make" || len(mk.Args) < 1 {
				return true
			}
			if _, isChan := info.TypeOf(mk.Args[0]).Underlying().(*types.Chan); !isChan {
				return true
			}
			chObj := ObjOf(info, as.Lhs[0])
			// is it the result channel: received from in a select that also has the Done clause
			used := false
			InspectNoLits(h.Body, func(x ast.Node) bool {
				if cc, ok := x.(*ast.CommClause); ok && cc.Comm != nil && ObjOf(info, commRecvExpr(cc)) == chObj {
					used = true
				}
				return true
			})
			if !used {
				return true
			}
			nr++
			buffered := false
			if len(mk.Args) >= 2 {
				if v, ok := constInt(info, mk.Args[1]); ok && v >= 1 {
					buffered = true
				}
			}
			c.Check(buffered, fmt.Sprintf("abandoned-buf/helper/%s/result-channel#%d", h.Name, nr), mk.Pos(), "the result channel has room for a result nobody waits for",
				h.Name+" creates its result channel without capacity: when the helper has given up (its context ended), the goroutine or pool worker that finishes the operation blocks for ever on the send - "+
					"the read pool has at most four workers and is shared by all transfers of the process, so one cancelled transfer with reads queued leaves later transfers between healthy peers hanging")
			return true
		})
	}
	// (caller) no direct Put of the buffer in the error branch or in a deferred clean-up
	nc := 0
	released := map[*FuncInfo]bool{}
	for _, f := range p.Funcs() {
		if f.Body == nil || f.Pkg.PkgPath != RepoPkg("internal/transfer") || strings.HasSuffix(p.Fset.Position(f.Pos()).Filename, "_test.go") {
			continue
		}
		info := f.Info()
		k := 0
		InspectNoLits(f.Body, func(m ast.Node) bool {
			call, ok := m.(*ast.CallExpr)
			if !ok {
				return true
			}
			h := p.CalleeInfo(info, call)
			bi, isH := helpers[h]
			if h == nil || !isH || bi >= len(call.Args) {
				return true
			}
			broot := rootObj(info, call.Args[bi])
			if broot == nil {
				return true
			}
			// from a pool?
			pooled := false
			for g := f; g != nil; g = g.Parent {
				for _, d := range allDefs(g, broot) {
					if dc, ok := ast.Unparen(d).(*ast.CallExpr); ok {
						if sel, ok := ast.Unparen(dc.Fun).(*ast.SelectorExpr); ok && sel.Sel.Name == "Get" {
							pooled = true
						}
					}
				}
			}
			if v, ok := broot.(*types.Var); ok && !pooled && (v.IsField() || p.isParam(v)) {
				// a field / parameter (c.buf of a chunk record): taken from the pool by the producer
				for _, g := range allKids(f.Root()) {
					InspectNoLits(g.Body, func(x ast.Node) bool {
						if c2, ok := x.(*ast.CallExpr); ok {
							if sel, ok := ast.Unparen(c2.Fun).(*ast.SelectorExpr); ok && sel.Sel.Name == "Put" && len(c2.Args) == 1 && strings.HasSuffix(types.ExprString(c2.Args[0]), ".buf") {
								pooled = true
							}
						}
						return true
					})
				}
			}
			if !pooled {
				return true
			}
			nc++
			k++
			key := fmt.Sprintf("abandoned-buf/caller/%s#%d", f.Name, k)
			// the error variable of the call
			var errObj types.Object
			var errIf *ast.IfStmt
			ast.Inspect(f.Body, func(x ast.Node) bool {
				switch s := x.(type) {
				case *ast.AssignStmt:
					if len(s.Rhs) == 1 && ast.Unparen(s.Rhs[0]) == ast.Expr(call) {
						errObj = ObjOf(info, s.Lhs[len(s.Lhs)-1])
					}
				}
				return true
			})
			if errObj == nil {
				c.Unknown(key, call.Pos(), "the error of "+h.Name+" is not bound to a variable")
				return true
			}
			ast.Inspect(f.Body, func(x ast.Node) bool {
				is, ok := x.(*ast.IfStmt)
				if !ok || errIf != nil || is.Pos() < call.Pos() && !(is.Init != nil && is.Init.Pos() <= call.Pos() && call.End() <= is.Init.End()) {
					return true
				}
				mentions := false
				ast.Inspect(is.Cond, func(y ast.Node) bool {
					if id, ok := y.(*ast.Ident); ok && ObjOf(info, id) == errObj {
						mentions = true
					}
					return true
				})
				if mentions {
					errIf = is
				}
				return true
			})
			var bad []string
			isDirectPut := func(x ast.Node) bool {
				c2, ok := x.(*ast.CallExpr)
				if !ok || len(c2.Args) != 1 {
					return false
				}
				sel, ok := ast.Unparen(c2.Fun).(*ast.SelectorExpr)
				return ok && sel.Sel.Name == "Put" && rootObj(info, c2.Args[0]) == broot
			}
			guarded := func(x ast.Node) bool {
				// if !bufferAbandoned(err) { pool.Put(buf) }
				for _, is := range enclosingIfs(f.Body, x) {
					for _, a := range Implied(is.Cond, true) {
						if c3, ok := ast.Unparen(a.E).(*ast.CallExpr); ok && !a.Val && p.CalleeInfo(info, c3) == pred {
							return true
						}
					}
				}
				return false
			}
			// a function the error branch hands buffer and error to must test the predicate in front of its Put
			nerr := 0
			checkRelease := func(body ast.Node) {
				ast.Inspect(body, func(x ast.Node) bool {
					c2, ok := x.(*ast.CallExpr)
					if !ok {
						return true
					}
					h2 := p.CalleeInfo(info, c2)
					if h2 == nil || h2.Body == nil || h2 == pred || h2.Pkg != f.Pkg {
						return true // the pool's own Put is judged at its call (direct Put below)
					}
					carries := false
					for _, a := range c2.Args {
						if rootObj(info, a) == broot {
							carries = true
						}
					}
					if carries {
						// the error it is handed is the helper's own error value: not one made from its text in between (round 9)
						for _, a := range c2.Args {
							if t := info.TypeOf(a); t == nil || !isErrorType(t) {
								continue
							}
							same := ObjOf(info, a) == errObj
							if !same {
								// a plain copy of it (var writeErr error; ...; writeErr = err)
								if ao := ObjOf(info, a); ao != nil {
									copies, other := 0, 0
									for g := f; g != nil; g = g.Parent {
										ast.Inspect(g.Body, func(y ast.Node) bool {
											as2, ok := y.(*ast.AssignStmt)
											if !ok {
												return true
											}
											for i, l := range as2.Lhs {
												if ObjOf(g.Info(), l) != ao || i >= len(as2.Rhs) {
													continue
												}
												if ObjOf(g.Info(), as2.Rhs[i]) == errObj {
													copies++
												} else if types.ExprString(as2.Rhs[i]) != "nil" {
													other++
												}
											}
											return true
										})
									}
									same = copies > 0 && other == 0
								}
							}
							var remade ast.Node
							if same {
								ast.Inspect(f.Body, func(y ast.Node) bool {
									as2, ok := y.(*ast.AssignStmt)
									if !ok || as2.Pos() <= call.End() || as2.End() >= c2.Pos() {
										return true
									}
									for i, l := range as2.Lhs {
										if ObjOf(info, l) != errObj || i >= len(as2.Rhs) {
											continue
										}
										// fmt.Errorf("... %w", ..., err) keeps the chain
										keeps := false
										if ec, ok := ast.Unparen(as2.Rhs[i]).(*ast.CallExpr); ok && calleeIs(info, ec, "fmt", "Errorf") && len(ec.Args) >= 2 {
											if sv, isC := constString(info, ec.Args[0]); isC && strings.Contains(sv, "%w") {
												keeps = true
											}
										}
										if !keeps {
											remade = as2
										}
									}
									return true
								})
							}
							nerr++
							c.Check(same && remade == nil, fmt.Sprintf("abandoned-buf/caller/%s#%d/error-value#%d", f.Name, k, nerr), c2.Pos(), "the release is handed the helper's own error value",
								"the error handed to "+func() string {
									if h2 != nil {
										return h2.Name
									}
									return "the release"
								}()+" is not the value "+h.Name+" returned (it was made anew from its text, or another error is passed): errors.As no longer finds the mark that says the buffer may still be in use, "+
									"the buffer goes back into the shared pool with the abandoned read still pending, and the next transfer's chunk is overwritten before its checksum is computed")
						}
					}
					if !carries || released[h2] {
						return true
					}
					released[h2] = true
					spec := &PassSpec{Name: "not-abandoned", Vias: []Via{{Cond: func(g *FuncInfo, e ast.Expr) (string, bool, bool) {
						if c3, ok := ast.Unparen(e).(*ast.CallExpr); ok && p.CalleeInfo(g.Info(), c3) == pred {
							return "free", false, true
						}
						return "", false, false
					}}}}
					np := 0
					h2.CFG().Calls(func(r NodeRef, c3 *ast.CallExpr) {
						if sel, ok := ast.Unparen(c3.Fun).(*ast.SelectorExpr); ok && sel.Sel.Name == "Put" && len(c3.Args) == 1 {
							np++
							c.Check(spec.Passed(h2, r, "free"), fmt.Sprintf("abandoned-buf/release/%s#%d", h2.Name, np), c3.Pos(), "Put only behind the false edge of bufferAbandoned",
								h2.Name+" puts the buffer it is handed on an error path back into the pool without asking bufferAbandoned first: the buffer of a read that was abandoned goes to the next transfer while the read still runs")
						}
					})
					return true
				})
			}
			if errIf != nil {
				checkRelease(errIf.Body)
			}
			InspectNoLits(f.Body, func(x ast.Node) bool {
				if ds, ok := x.(*ast.DeferStmt); ok {
					checkRelease(ds)
				}
				return true
			})
			if errIf != nil {
				ast.Inspect(errIf.Body, func(x ast.Node) bool {
					if isDirectPut(x) && !guarded(x) {
						bad = append(bad, "in the error branch at "+p.Pos(x.Pos()))
					}
					return true
				})
			}
			InspectNoLits(f.Body, func(x ast.Node) bool {
				if ds, ok := x.(*ast.DeferStmt); ok {
					ast.Inspect(ds, func(y ast.Node) bool {
						if isDirectPut(y) && !guarded(y) {
							bad = append(bad, "in a deferred clean-up at "+p.Pos(y.Pos()))
						}
						return true
					})
				}
				return true
			})
			c.Check(len(bad) == 0, key, call.Pos(), "the buffer of a failed "+h.Name+" is not put back directly",
				"the buffer handed to "+h.Name+" goes straight back into the pool "+strings.Join(bad, ", ")+": when the helper gave up because the transfer was cancelled the operation may still be using the buffer, "+
					"the pool is shared by all transfers of the process, and the next one that takes the buffer has another file's bytes written over its chunk before the checksum is computed")
			return true
		})
	}
	if nc == 0 {
		c.Bad("abandoned-buf/caller/none", token.NoPos, "found no call of an abandonable helper on a pooled buffer")
	}
}

func runPathsDistinct(c *Ctx) {
	p := c.P
	vm := p.Func("transfer.validateManifest")
	if vm == nil {
		c.MissingAnchor("transfer.validateManifest")
		return
	}
	info := vm.Info()
	g := vm.CFG()
	var loop *ast.RangeStmt
	InspectNoLits(vm.Body, func(m ast.Node) bool {
		if rs, ok := m.(*ast.RangeStmt); ok && strings.HasSuffix(types.ExprString(rs.X), ".Items") && loop == nil {
			loop = rs
		}
		return true
	})
	if loop == nil {
		c.Bad("paths-distinct/loop", vm.Pos(), "validateManifest has no loop over the manifest's items")
		return
	}
	item := ObjOf(info, loop.Value)
	var isItemPath func(e ast.Expr) bool
	isItemPath = func(e ast.Expr) bool {
		if id, ok := ast.Unparen(e).(*ast.Ident); ok {
			// a plain copy of the path
			n := 0
			for _, d := range resolveExprs(vm, id, 1) {
				if _, same := ast.Unparen(d).(*ast.Ident); same {
					continue
				}
				if !isItemPath(d) {
					return false
				}
				n++
			}
			return n > 0
		}
		sel, ok := ast.Unparen(e).(*ast.SelectorExpr)
		return ok && sel.Sel.Name == "RelPath" && ObjOf(info, sel.X) == item
	}
	// membership test: `_, dup := M[item.RelPath]; dup` or `M[item.RelPath]` (map to bool) with an error return in the body
	var set types.Object
	var test *ast.IfStmt
	var rewritten *ast.IndexExpr
	var rewrittenAs ast.Expr
	ast.Inspect(loop.Body, func(m ast.Node) bool {
		is, ok := m.(*ast.IfStmt)
		if !ok || test != nil {
			return true
		}
		var ix *ast.IndexExpr
		if as, ok := is.Init.(*ast.AssignStmt); ok && len(as.Lhs) == 2 && len(as.Rhs) == 1 {
			if x, ok := ast.Unparen(as.Rhs[0]).(*ast.IndexExpr); ok && ObjOf(info, as.Lhs[1]) != nil && ObjOf(info, as.Lhs[1]) == ObjOf(info, is.Cond) {
				ix = x
			}
		}
		if x, ok := ast.Unparen(is.Cond).(*ast.IndexExpr); ok && ix == nil {
			ix = x
		}
		if ix != nil && !isItemPath(ix.Index) {
			// keyed by something computed from the path?
			for _, d := range resolveExprs(vm, ix.Index, 2) {
				ast.Inspect(d, func(k ast.Node) bool {
					if e, ok := k.(ast.Expr); ok && isItemPath(e) {
						rewritten, rewrittenAs = ix, d
					}
					return true
				})
			}
		}
		if ix == nil || !isItemPath(ix.Index) {
			return true
		}
		if _, isMap := info.TypeOf(ix.X).Underlying().(*types.Map); !isMap {
			return true
		}
		// the body returns an error
		refuses := false
		for _, st := range is.Body.List {
			if rs, ok := st.(*ast.ReturnStmt); ok && len(rs.Results) == 1 && types.ExprString(rs.Results[0]) != "nil" {
				refuses = true
			}
		}
		if refuses {
			test, set = is, ObjOf(info, ix.X)
		}
		return true
	})
	if test == nil && rewritten != nil {
		c.Bad("paths-distinct/refused", rewritten.Pos(), "validateManifest tests its items for repetition under the key "+types.ExprString(rewrittenAs)+", not under the path itself: two different paths that the rewrite maps to one key "+
			"(names that differ only in case, in a trailing separator, ...) are refused as `listed twice` - a valid tree that cannot be sent or received at all")
		return
	}
	c.Check(test != nil, "paths-distinct/refused", loop.Pos(), "a path that was seen before is refused",
		"validateManifest does not refuse a manifest that lists a path twice: sender and receiver keep their per-file state by path, the scheduler a key per item - one of the two items is never begun, "+
			"its acknowledgement never comes, and the sender waits for ever (a caller that builds the manifest itself, or a peer that sends one)")
	if test == nil {
		return
	}
	var body *cfg.Block
	for _, b := range g.Blocks {
		if b.Stmt == ast.Stmt(loop) && b.Kind == cfg.KindRangeBody {
			body = b
		}
	}
	if body == nil {
		c.Unknown("paths-distinct/recorded", loop.Pos(), "cannot find the loop body in the control-flow graph")
		return
	}
	isInsert := func(nd ast.Node) bool {
		as, ok := nd.(*ast.AssignStmt)
		if !ok || len(as.Lhs) != 1 {
			return false
		}
		ix, ok := ast.Unparen(as.Lhs[0]).(*ast.IndexExpr)
		return ok && ObjOf(info, ix.X) == set && isItemPath(ix.Index)
	}
	stop := func(b *cfg.Block) bool { return b.Stmt == ast.Stmt(loop) && b.Kind == cfg.KindRangeLoop }
	c.Check(regionAllPathsHit(g, body, isInsert, stop, true), "paths-distinct/recorded", test.Pos(), "every item that passes is recorded in the set",
		"validateManifest can go on to the next item without recording this item's path in the set it tests against: the second occurrence of that path is not noticed")
}

// ---------------------------------------------------------------------------
// Rules that hold the repairs F71, F72 (DESIGN 8.19)

func init() {
	Register(&Rule{
		Name:  "R-PEER-ID-FORM",
		Props: []string{"C10"},
		Min:   2,
		Doc: "the id a peer connects under can be the `from` its messages carry (F71, F72): in handleWebSocket the peer is added to the hub only past utf8.ValidString(peerID) (the id travels as a JSON string; other bytes are rewritten to U+FFFD: the author is shown under another name, two such peers under the same one, and a reply to the name shown finds nobody) " +
			"and past the refusal of the id the server signs its own notices with (protocol.ServerPeerID)",
		Run: runPeerIDForm,
	})
	Register(&Rule{
		Name:  "R-NOTICE-FROM-SERVER",
		Props: []string{"C12", "C10"},
		Min:   4,
		Doc: "notices about the session are believed from the server only (F72): in the handleEnvelope of host and receiver every case clause for a type in protocol.IsServerNotice is reached only past the refusal of an envelope of such a type whose From is not protocol.ServerPeerID; " +
			"and (sibling agreement) every envelope the server signs with that id has a type in IsServerNotice's list - the server relays any type a peer sends, so a receiver could otherwise send the host a peer_left for the receiver in front of it and be served in its place, or end every receiver with a peer_left for the host",
		Run: runNoticeFromServer,
	})
}

// constObj: the object an identifier or a qualified identifier (pkg.Name) refers to.
func constObj(info *types.Info, e ast.Expr) types.Object {
	switch x := ast.Unparen(e).(type) {
	case *ast.Ident:
		return ObjOf(info, x)
	case *ast.SelectorExpr:
		return info.Uses[x.Sel]
	}
	return nil
}

func serverPeerIDConst(p *Program) types.Object {
	return p.LookupObj("pkg/protocol", "ServerPeerID")
}

// isServerIDExpr: e is the constant protocol.ServerPeerID (or a constant string of the same value).
func isServerIDExpr(p *Program, info *types.Info, e ast.Expr) bool {
	sid, _ := serverPeerIDConst(p).(*types.Const)
	if sid == nil {
		return false
	}
	tv, ok := info.Types[e]
	return ok && tv.Value != nil && tv.Value.Kind() == constant.String && constant.StringVal(tv.Value) == constant.StringVal(sid.Val())
}

func runPeerIDForm(c *Ctx) {
	p := c.P
	hw := p.Func("cmd/thruserv.handleWebSocket")
	if hw == nil {
		c.MissingAnchor("cmd/thruserv.handleWebSocket")
		return
	}
	if serverPeerIDConst(p) == nil {
		c.MissingAnchor("protocol.ServerPeerID")
		return
	}
	info := hw.Info()
	spec := &PassSpec{Name: "peer-id-form", Vias: []Via{
		{Cond: func(g *FuncInfo, e ast.Expr) (string, bool, bool) {
			if call, ok := ast.Unparen(e).(*ast.CallExpr); ok && calleeIs(g.Info(), call, "unicode/utf8", "ValidString") && len(call.Args) == 1 {
				return "utf8:" + types.ExprString(ast.Unparen(call.Args[0])), true, true
			}
			return "", false, false
		}},
		{Cond: func(g *FuncInfo, e ast.Expr) (string, bool, bool) {
			be, ok := ast.Unparen(e).(*ast.BinaryExpr)
			if !ok || (be.Op != token.EQL && be.Op != token.NEQ) {
				return "", false, false
			}
			for _, pr := range [][2]ast.Expr{{be.X, be.Y}, {be.Y, be.X}} {
				if isServerIDExpr(p, g.Info(), pr[1]) {
					return "not-server:" + types.ExprString(ast.Unparen(pr[0])), be.Op == token.NEQ, true
				}
			}
			return "", false, false
		}},
	}}
	spec.Vias = append(spec.Vias, validatorVias(p, &PassSpec{Name: "peer-id-form-inner", Vias: spec.Vias}, []string{"utf8:", "not-server:"})...)
	n := 0
	hw.CFG().Calls(func(r NodeRef, call *ast.CallExpr) {
		g := p.CalleeInfo(info, call)
		if g == nil || (g.Name != "peers.(*Hub).AddIf" && g.Name != "peers.(*Hub).Add") || len(call.Args) < 2 {
			return
		}
		// the peer id that is registered: the PeerID field of the Peer argument
		var idExpr string
		for _, d := range resolveExprs(hw, call.Args[1], 2) {
			if cl, ok := ast.Unparen(d).(*ast.CompositeLit); ok {
				if v := litField(cl, "PeerID"); v != nil {
					idExpr = types.ExprString(ast.Unparen(v))
				}
			}
		}
		n++
		if idExpr == "" {
			c.Unknown(fmt.Sprintf("peer-id-form/add#%d", n), call.Pos(), "cannot read the peer id of the Peer handed to the hub")
			return
		}
		c.Check(spec.Passed(hw, r, "utf8:"+idExpr), fmt.Sprintf("peer-id-form/add#%d/utf8", n), call.Pos(), "the peer is registered only under an id that is valid UTF-8",
			"a peer is registered under "+idExpr+" without utf8.ValidString having accepted it: the id is the `from` of everything the peer sends, written as a JSON string - other bytes become U+FFFD, "+
				"the author is shown under a name it did not connect with, two such peers look alike, and a reply addressed to the name shown is answered with peer_not_found")
		c.Check(spec.Passed(hw, r, "not-server:"+idExpr), fmt.Sprintf("peer-id-form/add#%d/reserved", n), call.Pos(), "the id the server signs its notices with is refused",
			"a peer can register under the id the server signs its own notices with ("+idExpr+" is not compared with protocol.ServerPeerID): its messages carry from=\"server\" and pass for peer_left, peer_joined or turn_credentials of the server")
	})
	if n == 0 {
		c.Bad("peer-id-form/none", hw.Pos(), "handleWebSocket does not register the peer with the hub")
	}
}

func runNoticeFromServer(c *Ctx) {
	p := c.P
	pred := p.Func("protocol.IsServerNotice")
	if pred == nil || serverPeerIDConst(p) == nil {
		c.MissingAnchor("protocol.IsServerNotice / protocol.ServerPeerID")
		return
	}
	// the types in its list
	notice := map[types.Object]bool{}
	ast.Inspect(pred.Body, func(m ast.Node) bool {
		if cc, ok := m.(*ast.CaseClause); ok {
			returnsTrue := false
			for _, st := range cc.Body {
				if rs, ok := st.(*ast.ReturnStmt); ok && len(rs.Results) == 1 && types.ExprString(rs.Results[0]) == "true" {
					returnsTrue = true
				}
			}
			if returnsTrue {
				for _, e := range cc.List {
					if o := constObj(pred.Info(), e); o != nil {
						notice[o] = true
					}
				}
			}
		}
		return true
	})
	if len(notice) == 0 {
		c.Unknown("notice-from-server/list", pred.Pos(), "cannot read the list of notice types of protocol.IsServerNotice (expected a switch whose cases return true)")
		return
	}
	// (clients) every case clause for a notice type is behind the refusal
	nc := 0
	for _, name := range []string{"app.(*SnapshotSender).handleEnvelope", "app.(*snapshotReceiver).handleEnvelope"} {
		f := p.Func(name)
		if f == nil {
			c.MissingAnchor(name)
			continue
		}
		info := f.Info()
		spec := &PassSpec{Name: "from-server", Vias: []Via{
			{Cond: func(g *FuncInfo, e ast.Expr) (string, bool, bool) {
				// IsServerNotice(t) && X.From != ServerPeerID: on the false edge a notice comes from the server
				be, ok := ast.Unparen(e).(*ast.BinaryExpr)
				if !ok || be.Op != token.LAND {
					return "", false, false
				}
				isPred, fromTest := false, false
				for _, a := range Implied(be, true) {
					if call, ok := ast.Unparen(a.E).(*ast.CallExpr); ok && a.Val && p.CalleeInfo(g.Info(), call) == pred {
						isPred = true
						continue
					}
					if b2, ok := ast.Unparen(a.E).(*ast.BinaryExpr); ok && (b2.Op == token.NEQ && a.Val || b2.Op == token.EQL && !a.Val) {
						for _, pr := range [][2]ast.Expr{{b2.X, b2.Y}, {b2.Y, b2.X}} {
							if sel, ok := ast.Unparen(pr[0]).(*ast.SelectorExpr); ok && sel.Sel.Name == "From" && isServerIDExpr(p, g.Info(), pr[1]) {
								fromTest = true
							}
						}
						continue
					}
					return "", false, false
				}
				if isPred && fromTest {
					return "notices-from-server", false, true
				}
				return "", false, false
			}},
			{Cond: func(g *FuncInfo, e ast.Expr) (string, bool, bool) {
				// X.From != ServerPeerID alone (inside a case clause)
				b2, ok := ast.Unparen(e).(*ast.BinaryExpr)
				if !ok || (b2.Op != token.NEQ && b2.Op != token.EQL) {
					return "", false, false
				}
				for _, pr := range [][2]ast.Expr{{b2.X, b2.Y}, {b2.Y, b2.X}} {
					if sel, ok := ast.Unparen(pr[0]).(*ast.SelectorExpr); ok && sel.Sel.Name == "From" && isServerIDExpr(p, g.Info(), pr[1]) {
						return "notices-from-server", b2.Op == token.EQL, true
					}
				}
				return "", false, false
			}},
		}}
		g := f.CFG()
		InspectNoLits(f.Body, func(m ast.Node) bool {
			cc, ok := m.(*ast.CaseClause)
			if !ok {
				return true
			}
			var which []string
			for _, e := range cc.List {
				if o := constObj(info, e); o != nil && notice[o] {
					which = append(which, o.Name())
				}
			}
			if len(which) == 0 || len(cc.Body) == 0 {
				return true
			}
			nc++
			key := fmt.Sprintf("notice-from-server/%s/%s", f.Name, strings.Join(which, "+"))
			// judged at the last statement of the clause that acts (a return of the refusal inside the clause comes before it)
			ok2 := false
			for _, st := range cc.Body {
				if is, isIf := st.(*ast.IfStmt); isIf && len(is.Body.List) > 0 {
					if _, ret := is.Body.List[len(is.Body.List)-1].(*ast.ReturnStmt); ret {
						continue // a refusal at the head of the clause: judged behind it
					}
				}
				pos := st.Pos()
				if is, isIf := st.(*ast.IfStmt); isIf {
					pos = is.Cond.Pos()
					if is.Init != nil {
						pos = is.Init.Pos()
					}
				}
				if ref := g.Find(pos); ref.Valid() {
					ok2 = spec.Passed(f, ref, "notices-from-server")
					break
				}
			}
			c.Check(ok2, key, cc.Pos(), "acted on only when the envelope comes from the server",
				f.Name+" acts on "+strings.Join(which, ", ")+" whoever sent it: the server relays every type a peer writes (with the peer's own id as from), so a receiver that waits behind another one can report it as gone and be served in its place, "+
					"cancel a running transfer, or end every receiver with a peer_left for the host")
			return true
		})
	}
	if nc == 0 {
		c.Bad("notice-from-server/clients/none", token.NoPos, "found no case clause for a server notice in the handleEnvelope of host and receiver")
	}
	// (server) everything signed with the server's id has a type of the list
	ns := 0
	for _, f := range p.FuncsIn("cmd/thruserv") {
		if f.Body == nil {
			continue
		}
		info := f.Info()
		InspectNoLits(f.Body, func(m ast.Node) bool {
			as, ok := m.(*ast.AssignStmt)
			if !ok || len(as.Lhs) != 1 || len(as.Rhs) != 1 {
				return true
			}
			sel, ok := ast.Unparen(as.Lhs[0]).(*ast.SelectorExpr)
			if !ok || sel.Sel.Name != "From" || !isServerIDExpr(p, info, as.Rhs[0]) {
				return true
			}
			envObj := ObjOf(info, sel.X)
			if envObj == nil {
				return true
			}
			// the envelope's type: first argument of the NewEnvelope that defined it
			var typ types.Object
			for g := f; g != nil && typ == nil; g = g.Parent {
				gi := g.Info()
				InspectNoLits(g.Body, func(x ast.Node) bool {
					a2, ok := x.(*ast.AssignStmt)
					if !ok || len(a2.Rhs) != 1 || len(a2.Lhs) < 1 || ObjOf(gi, a2.Lhs[0]) != envObj {
						return true
					}
					if call, ok := ast.Unparen(a2.Rhs[0]).(*ast.CallExpr); ok && calleeIs(gi, call, RepoPkg("pkg/protocol"), "NewEnvelope") && len(call.Args) >= 1 {
						typ = constObj(gi, call.Args[0])
					}
					return true
				})
			}
			ns++
			key := fmt.Sprintf("notice-from-server/signed/%s#%d", f.Name, ns)
			if typ == nil {
				c.Unknown(key, as.Pos(), "cannot read the type of the envelope the server signs here")
				return true
			}
			c.Check(notice[typ], key, as.Pos(), typ.Name()+" is in the list of protocol.IsServerNotice",
				"the server signs a "+typ.Name()+" with its own id, but protocol.IsServerNotice does not list that type: the clients act on it whoever sends it, so any peer of the session can forge it")
			return true
		})
	}
	if ns == 0 {
		c.Bad("notice-from-server/signed/none", token.NoPos, "found no envelope signed with protocol.ServerPeerID in cmd/thruserv")
	}
}

// ---------------------------------------------------------------------------
// Round 9 (DESIGN 8.18)

func init() {
	Register(&Rule{
		Name:  "R-HANDOUT-LENGTH",
		Props: []string{"C19", "C17"},
		Min:   1,
		Doc: "a chunk is handed to a worker with the length its own index gives it: every `return idx, length, true` of sendFileState.nextChunkToSend (and of a method of the same state it returns through) has length = chunkSizeForIndex(size, chunk size, idx) on that very idx - " +
			"a re-sent chunk is not where the schedule's cursor is, so a length taken from the cursor's position (full chunks until the end is reached) gives the short last chunk of a file a full length: the sender reads past the end of the file and the resumed transfer fails on every retry",
		Run: runHandoutLength,
	})
}

func runHandoutLength(c *Ctx) {
	p := c.P
	f := p.Func("transfer.(*sendFileState).nextChunkToSend")
	if f == nil {
		c.MissingAnchor("transfer.(*sendFileState).nextChunkToSend")
		return
	}
	n := 0
	seen := map[*FuncInfo]bool{}
	var visit func(g *FuncInfo, depth int)
	visit = func(g *FuncInfo, depth int) {
		if seen[g] || depth > 2 {
			return
		}
		seen[g] = true
		info := g.Info()
		InspectNoLits(g.Body, func(m ast.Node) bool {
			rs, ok := m.(*ast.ReturnStmt)
			if !ok {
				return true
			}
			if len(rs.Results) == 1 {
				if call, isCall := ast.Unparen(rs.Results[0]).(*ast.CallExpr); isCall {
					if h := p.CalleeInfo(info, call); h != nil && h.Body != nil && h.Decl != nil && h.Decl.Recv != nil {
						visit(h, depth+1)
					}
				}
				return true
			}
			if len(rs.Results) != 3 {
				return true
			}
			if tv := info.Types[rs.Results[2]]; tv.Value == nil || tv.Value.String() != "true" {
				return true
			}
			n++
			key := fmt.Sprintf("handout-length/%s/return#%d", g.Name, n)
			okLen := false
			for _, d := range append([]ast.Expr{rs.Results[1]}, resolveExprs(g, rs.Results[1], 1)...) {
				call, isCall := ast.Unparen(d).(*ast.CallExpr)
				if !isCall || len(call.Args) != 3 {
					continue
				}
				if h := p.CalleeInfo(info, call); h == nil || h.Name != "transfer.chunkSizeForIndex" {
					continue
				}
				io, ro := ObjOf(info, StripConv(info, call.Args[2])), ObjOf(info, StripConv(info, rs.Results[0]))
				if io != nil && io == ro {
					okLen = true
				}
			}
			c.Check(okLen, key, rs.Pos(), "the length handed out is chunkSizeForIndex of the index handed out",
				g.Name+" hands out chunk "+types.ExprString(rs.Results[0])+" with length "+types.ExprString(rs.Results[1])+", which is not chunkSizeForIndex(size, chunk size, "+types.ExprString(rs.Results[0])+"): "+
					"a chunk that is sent again is not where the schedule stands, so a length derived from the schedule's position gives the short last chunk of a file the length of a full one - (index, length) reaches past the end of the file")
			return true
		})
	}
	visit(f, 0)
	if n == 0 {
		c.Bad("handout-length/none", f.Pos(), "nextChunkToSend never hands out a chunk")
	}
}

// validatorVias: a function with an error result whose every `return nil` lies past the test (a fact `prefix+<parameter name>`
// of the spec base) on one of its string parameters establishes that test for its argument where the call's error was tested
// nil - `if err := checkX(v); err != nil { return }` counts like the tests written in place.
func validatorVias(p *Program, base *PassSpec, prefixes []string) []Via {
	var out []Via
	for _, prefix := range prefixes {
		prefix := prefix
		out = append(out, Via{Call: func(g *FuncInfo, call *ast.CallExpr) (string, bool) {
			h := p.CalleeInfo(g.Info(), call)
			if h == nil || h.Body == nil || h.Decl == nil || h.Type.Results == nil || len(h.Type.Results.List) != 1 || !isErrorType(h.Info().TypeOf(h.Type.Results.List[0].Type)) {
				return "", false
			}
			idx := 0
			for _, fl := range h.Type.Params.List {
				for _, nm := range fl.Names {
					i := idx
					idx++
					if t := h.Info().TypeOf(fl.Type); t == nil || !isStringType(t) || i >= len(call.Args) {
						continue
					}
					nret, all := 0, true
					for _, b := range h.CFG().Blocks {
						ret, ok := IsReturnExit(b)
						if !ok || len(ret.Results) != 1 || types.ExprString(ret.Results[0]) != "nil" {
							continue
						}
						nret++
						if !base.Passed(h, NodeRef{b, len(b.Nodes) - 1}, prefix+nm.Name) {
							all = false
						}
					}
					if nret > 0 && all {
						return prefix + types.ExprString(ast.Unparen(call.Args[i])), true
					}
				}
			}
			return "", false
		}})
	}
	return out
}
